#!/venv/bin/python
"""Compile every Props/Cxx.v once more with coqc and store its Print Assumptions output in the per-.vo cache that
harness/core.py:coqc_props reuses (so that a check on an unchanged tree does not recompile the Props file)."""
import os
import sys
from concurrent.futures import ThreadPoolExecutor

sys.path.insert(0, os.path.join(os.path.dirname(os.path.dirname(os.path.abspath(__file__))), "harness"))
import core  # noqa

props = [f"Props/C{i:02d}.v" for i in range(1, 21)]
with ThreadPoolExecutor(8) as ex:
    for p, r in zip(props, ex.map(core.coqc_props, props)):
        print(p, "rc", r[0], f"{r[2]:.0f}s")
