#!/usr/bin/env python3
"""Fail-closed translator: /repo/pytoniq_core/crypto/crc.py -> coq/Gen/CrcTables.v

Supported subset (anything else raises Unsupported, naming file:line):
  def f(data, ...):
      <name> = [<int literals>]          (table)
      <name> = <int literal>             (initial register)
      for byte in data:
          <reg> = <expr>                 (one or more assignments / aug-assignments)
          <reg> &= <expr>
      return (<expr>).to_bytes(<n>, <'big'|'little'|name of the byteorder parameter>)
  <expr> ::= int | name | e << e | e >> e | e ^ e | e & e | e | e | table[e]

The loop body is emitted as a Gallina function `<f>_step (crc byte : N) : N`,
the return expression as `<f>_final (crc : N) : N`.
"""
import ast
import sys


class Unsupported(Exception):
    pass


def fail(node, msg):
    raise Unsupported(f"crc.py:{getattr(node, 'lineno', '?')}: {msg}")


BINOPS = {
    ast.LShift: "N.shiftl",
    ast.RShift: "N.shiftr",
    ast.BitXor: "N.lxor",
    ast.BitAnd: "N.land",
    ast.BitOr: "N.lor",
}


def expr(e, env):
    """env: python name -> coq name"""
    if isinstance(e, ast.Constant) and isinstance(e.value, int) and not isinstance(e.value, bool):
        if e.value < 0:
            fail(e, "negative literal")
        return f"{e.value}"
    if isinstance(e, ast.Name):
        if e.id not in env:
            fail(e, f"unknown name {e.id}")
        return env[e.id]
    if isinstance(e, ast.BinOp):
        op = BINOPS.get(type(e.op))
        if op is None:
            fail(e, f"operator {type(e.op).__name__}")
        return f"({op} {expr(e.left, env)} {expr(e.right, env)})"
    if isinstance(e, ast.Subscript) and isinstance(e.value, ast.Name):
        t = env.get(e.value.id)
        if t is None or not t.endswith("_table"):
            fail(e, "subscript of non-table")
        return f"(tbl {t} {expr(e.slice, env)})"
    fail(e, f"expression {type(e).__name__}")


def translate_func(fn: ast.FunctionDef):
    name = fn.name
    args = [a.arg for a in fn.args.args]
    if not args or args[0] != "data":
        fail(fn, "first parameter must be data")
    order_param = args[1] if len(args) > 1 else None
    if len(args) > 2:
        fail(fn, "too many parameters")
    table = None
    table_py = None
    init = None
    reg = None
    step = None
    final = None
    out_len = None
    order = None
    for st in fn.body:
        if isinstance(st, ast.Expr) and isinstance(st.value, ast.Constant) and isinstance(st.value.value, str):
            continue  # docstring
        if isinstance(st, ast.Assign) and len(st.targets) == 1 and isinstance(st.targets[0], ast.Name):
            tgt = st.targets[0].id
            if isinstance(st.value, ast.List):
                vals = []
                for el in st.value.elts:
                    if not (isinstance(el, ast.Constant) and isinstance(el.value, int) and el.value >= 0):
                        fail(el, "table element")
                    vals.append(el.value)
                if table is not None:
                    fail(st, "second table")
                table, table_py = vals, tgt
                continue
            if isinstance(st.value, ast.Constant) and isinstance(st.value.value, int):
                if init is not None:
                    fail(st, "second register")
                init, reg = st.value.value, tgt
                continue
            fail(st, "assignment")
        if isinstance(st, ast.For):
            if step is not None:
                fail(st, "second loop")
            if not (isinstance(st.target, ast.Name) and isinstance(st.iter, ast.Name) and st.iter.id == "data"):
                fail(st, "loop header")
            if st.orelse:
                fail(st, "for-else")
            if table is None or reg is None:
                fail(st, "loop before table/register")
            bname = st.target.id
            cur = "crc"
            lets = []
            k = 0
            for b in st.body:
                env = {reg: cur, bname: "byte", table_py: f"{name}_table"}
                if isinstance(b, ast.Assign) and len(b.targets) == 1 and isinstance(b.targets[0], ast.Name) \
                        and b.targets[0].id == reg:
                    rhs = expr(b.value, env)
                elif isinstance(b, ast.AugAssign) and isinstance(b.target, ast.Name) and b.target.id == reg:
                    op = BINOPS.get(type(b.op))
                    if op is None:
                        fail(b, "aug operator")
                    rhs = f"({op} {cur} {expr(b.value, env)})"
                else:
                    fail(b, "loop statement")
                k += 1
                nxt = f"crc{k}"
                lets.append((nxt, rhs))
                cur = nxt
            step = (lets, cur)
            continue
        if isinstance(st, ast.Return):
            c = st.value
            if not (isinstance(c, ast.Call) and isinstance(c.func, ast.Attribute) and c.func.attr == "to_bytes"
                    and len(c.args) == 2 and not c.keywords):
                fail(st, "return form")
            env = {reg: "crc"}
            final = expr(c.func.value, env)
            if not (isinstance(c.args[0], ast.Constant) and isinstance(c.args[0].value, int)):
                fail(st, "to_bytes length")
            out_len = c.args[0].value
            o = c.args[1]
            if isinstance(o, ast.Constant) and o.value in ("big", "little"):
                order = o.value
            elif isinstance(o, ast.Name) and o.id == order_param:
                order = "param"
            else:
                fail(st, "byteorder")
            continue
        fail(st, f"statement {type(st).__name__}")
    if None in (table, init, step, final, out_len, order):
        fail(fn, "incomplete function")
    out = []
    out.append(f"Definition {name}_table : list N := [")
    rows = []
    for i in range(0, len(table), 8):
        rows.append("  " + "; ".join(str(v) for v in table[i:i + 8]))
    out.append(";\n".join(rows))
    out.append("]%N.")
    out.append(f"Definition {name}_init : N := {init}%N.")
    out.append(f"Definition {name}_step (crc byte : N) : N :=")
    for n_, rhs in step[0]:
        out.append(f"  let {n_} := {rhs} in")
    out.append(f"  {step[1]}.")
    out.append(f"Definition {name}_final (crc : N) : N := {final}.")
    out.append(f"Definition {name}_outlen : nat := {out_len}%nat.")
    out.append(f"Definition {name}_order_is_param : bool := {'true' if order == 'param' else 'false'}.")
    out.append(f"Definition {name}_order_big : bool := {'false' if order == 'little' else 'true'}.")
    return "\n".join(out)


HEADER = """(* GENERATED by tools/translate_crc.py from pytoniq_core/crypto/crc.py -- do not edit *)
From Coq Require Import NArith List.
Import ListNotations.
Local Open Scope N_scope.
Definition tbl (t : list N) (i : N) : N := nth (N.to_nat i) t 0.
"""


def translate(src: str) -> str:
    mod = ast.parse(src)
    funcs = {n.name: n for n in mod.body if isinstance(n, ast.FunctionDef)}
    parts = [HEADER]
    for name in ("crc16", "crc32c"):
        if name not in funcs:
            raise Unsupported(f"crc.py: function {name} not found")
        parts.append(translate_func(funcs[name]))
    return "\n\n".join(parts) + "\n"


if __name__ == "__main__":
    src_path, out_path = sys.argv[1], sys.argv[2]
    try:
        text = translate(open(src_path).read())
    except Unsupported as e:
        print(f"UNSUPPORTED {e}")
        sys.exit(3)
    open(out_path, "w").write(text)
    print("ok")
