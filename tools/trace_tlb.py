#!/venv/bin/python
"""Concolic tracer: runs the REAL `deserialize` classmethods of pytoniq_core.tlb on a symbolic Slice and
explores every path through their control bits.  For every class it produces the decision tree of slice
operations the code performs (which loader, which width, on which (sub-)slice, in which order), the
conditions it branches on, and which loaded value ends up in which constructor field.

Output: a JSON table {class name: tree} where

  tree ::= ["op", sid, kind, params, tree]        result bound to variable #k (k = number of ops before it)
         | ["if", var, bitindex, tree0, tree1]    branch on bit `bitindex` of variable `var` (0 / 1)
         | ["ifspecial", sid, tree_ordinary, tree_special]
         | ["ret", expr] | ["fail", exception class name]
  expr ::= ["var", k] | ["const", json] | ["none"] | ["obj", cls, [[name, expr]...]] | ["list", [expr...]]
         | ["hex", expr] | ["derived"]            (a value computed from loaded data in a way the tracer does not model)

Fail-closed: any operation on a symbolic value or slice that is not modelled raises Unsupported and the class is
reported as untraceable (it is then covered by no generated obligation).
"""
import importlib
import json
import sys


class Unsupported(Exception):
    pass


class Fork(Exception):
    """raised internally to abort a path when a new decision point is found (never escapes the tracer)"""


class Tracer:
    def __init__(self):
        self.decisions = []      # decisions taken on the current run (list of 0/1)
        self.pos = 0
        self.events = []         # ("op", sid, kind, params) | ("if", var, bit, decision) | ("ifspecial", sid, decision)
        self.nops = 0
        self.nslices = 1
        self.pending = []        # decision prefixes still to explore
        self.known = {}          # (var, bit) -> value decided on this path

    def decide(self, key):
        """decision for the symbolic bit `key` = (var, bitindex) (or None for a one-off test); the same bit is
        decided once per path.  Returns (value, is_new)."""
        if key is not None and key in self.known:
            return self.known[key], False
        d = self._decide()
        if key is not None:
            self.known[key] = d
        return d, True

    def _decide(self):
        if self.pos < len(self.decisions):
            d = self.decisions[self.pos]
        else:
            d = 0
            self.decisions.append(0)
            self.pending.append(self.decisions[:self.pos] + [1])
        self.pos += 1
        return d

    def op(self, sid, kind, params=()):
        self.events.append(["op", sid, kind, list(params)])
        self.nops += 1
        return self.nops - 1


T = None  # current tracer


def test_bit(var, i):
    d, new = T.decide((var, i))
    if new:
        T.events.append(["if", var, i, d])
    return d


class SymVal:
    """result of a load: kind in uint/int/bit/bool/bits/bytes/coins/varuint/addr/cell/maybecell/obj/dict/..."""

    def __init__(self, var, kind, width=None, bitindex=0):
        self.var, self.kind, self.width, self.bitindex = var, kind, width, bitindex

    def __format__(self, spec):
        return "<sym>"          # only ever used inside error messages

    # ---- control
    def __bool__(self):
        if self.kind in ("bit", "bool"):
            return bool(test_bit(self.var, self.bitindex))
        if self.kind in ("maybecell", "dict", "maybeobj"):
            raise Unsupported(f"truth value of a {self.kind}")
        raise Unsupported(f"truth value of symbolic {self.kind}")

    def _bits_eq(self, const_bits):
        """compare a fixed-width unsigned value / bit string with a constant, bit by bit, msb first"""
        if self.width is None or len(const_bits) != self.width:
            raise Unsupported("comparison of a value with a constant of another width")
        for i, cb in enumerate(const_bits):
            if test_bit(self.var, i) != cb:
                return False
        return True

    def __eq__(self, other):
        if isinstance(other, SymVal):
            raise Unsupported("comparison of two symbolic values")
        if self.kind in ("uint",) and isinstance(other, int) and not isinstance(other, bool):
            if other < 0 or other >= (1 << self.width):
                return False
            return self._bits_eq([(other >> (self.width - 1 - i)) & 1 for i in range(self.width)])
        if self.kind in ("bit", "bool") and isinstance(other, (int, bool)):
            return bool(self) == bool(other)
        if self.kind == "bytes" and isinstance(other, (bytes, bytearray)):
            if len(other) * 8 != self.width:
                return False
            bits = []
            for b in other:
                bits += [(b >> (7 - i)) & 1 for i in range(8)]
            return self._bits_eq(bits)
        if other is None:
            if self.kind in ("maybecell", "dict"):
                raise Unsupported("None test of an optional load")
            return False
        raise Unsupported(f"comparison of symbolic {self.kind} with {type(other).__name__}")

    def __ne__(self, other):
        return not self.__eq__(other)

    __hash__ = None

    def __getitem__(self, item):
        if self.kind == "bytes" and isinstance(item, slice) and item.start in (None, 0) and item.step is None \
                and (item.stop is None or item.stop * 8 >= self.width):
            return self
        if self.kind == "dict" and isinstance(item, SymKey) and item.base is self:
            return SymDerived("values_sorted", self)
        raise Unsupported(f"subscript of symbolic {self.kind}")

    def __iter__(self):
        if self.kind == "dict":
            return iter([SymKey(self)])
        raise Unsupported(f"iteration over symbolic {self.kind}")

    def to01(self):
        if self.kind != "bits":
            raise Unsupported("to01 of non-bits")
        return SymBitStr([(self, i) for i in range(self.width)])

    def hex(self):
        if self.kind != "bytes":
            raise Unsupported("hex of non-bytes")
        return SymDerived("hex", self)

    def __index__(self):
        raise Unsupported(f"symbolic {self.kind} used as an integer")

    def __int__(self):
        raise Unsupported(f"int() of symbolic {self.kind}")

    def __str__(self):
        if self.kind == "bit":
            return SymStrMarker(self)      # str(bit) used to extend a tag string
        if self.kind == "bits":
            raise Unsupported("str() of a bit string")
        raise Unsupported("str() of a symbolic value")

    def __getattr__(self, name):
        if name.startswith("__"):
            raise AttributeError(name)
        if self.kind in ("obj", "addr"):
            return SymDerived("attr", self, name)
        raise Unsupported(f"attribute {name} of symbolic {self.kind}")

    def begin_parse(self):
        if self.kind != "cell":
            raise Unsupported("begin_parse of non-cell")
        sid = T.nslices
        T.nslices += 1
        # rewrite the producing op: the reference is opened as a sub-slice
        for e in reversed(T.events):
            if e[0] == "op" and e[2] == "refcell" and e[3] == [] and e[-1] is not None:
                pass
        ev = T.events[self._event_index]
        if ev[2] != "refcell":
            raise Unsupported("begin_parse on something that is not a loaded reference")
        ev[2] = "ref"
        ev[3] = [sid]
        return SymSlice(sid)

    def _and(self, other):
        raise Unsupported("bitwise operation on a symbolic value")

    def __and__(self, other):
        if self.kind == "uint" and isinstance(other, int) and other > 0 and other & (other - 1) == 0 \
                and other < (1 << self.width):
            return SymVal(self.var, "bit", 1, self.width - other.bit_length())
        if self.kind == "uint" and isinstance(other, int):
            # masks such as num & ((1 << 63) - 1) (uint64_to_int64): a value derived from a loaded field; kept as
            # "derived" (dropped from the object, never compared), control flow on it is refused
            return SymDerived("arith", self)
        raise Unsupported("bitwise and of a symbolic value with a non-single-bit constant")

    __rand__ = __and__
    __or__ = __xor__ = __lshift__ = __rshift__ = _and
    __add__ = __radd__ = __sub__ = __mul__ = _and

    def _guard(self, op, other):
        """data comparison between loaded integers: a two-way guard node"""
        if self.kind not in ("uint", "int", "coins", "varuint", "varint", "bit", "bool"):
            raise Unsupported(f"ordering comparison of symbolic {self.kind}")
        if isinstance(other, SymVal):
            if other.kind not in ("uint", "int", "coins", "varuint", "varint", "bit", "bool"):
                raise Unsupported("ordering comparison with a non-integer symbolic value")
            b = ["var", other.var]
        elif isinstance(other, int):
            b = ["const", int(other)]
        else:
            raise Unsupported("ordering comparison with " + type(other).__name__)
        key = ("guard", op, self.var, json.dumps(b))
        d, new = T.decide(key)
        if new:
            T.events.append(["guard", op, ["var", self.var], b, d])
        return bool(d)

    def __lt__(self, o):
        return self._guard("lt", o)

    def __le__(self, o):
        return self._guard("le", o)

    def __gt__(self, o):
        return self._guard("gt", o)

    def __ge__(self, o):
        return self._guard("ge", o)

    def copy(self):
        if self.kind in ("cell", "cellcopy"):
            return self
        raise Unsupported(f"copy of symbolic {self.kind}")


class SymKey:
    """the single stand-in key produced by iterating a symbolic dict (sorted() of one element needs no comparison)"""

    def __init__(self, base):
        self.base = base


class SymStrMarker(str):
    """str(bit): python demands a real str; carry the symbolic bit along"""

    def __new__(cls, sym):
        o = str.__new__(cls, "?")
        o.sym = sym
        return o


class SymTagMarker(str):
    """str(symbolic tag string): python demands a real str; carry the symbolic bits along"""

    def __new__(cls, bits):
        o = str.__new__(cls, "<tag>")
        o.bits = bits
        return o


class SymBin:
    """bin(x) of a symbolic unsigned integer: only its last character (the lowest bit) may be inspected"""

    def __init__(self, v):
        self.v = v

    def __getitem__(self, i):
        if i == -1:
            return SymBitStr([(self.v, self.v.width - 1)])
        raise Unsupported("bin() of a symbolic integer inspected elsewhere than at [-1]")


def sym_bin(x):
    import builtins
    if isinstance(x, SymVal):
        if x.kind != "uint":
            raise Unsupported(f"bin() of symbolic {x.kind}")
        return SymBin(x)
    return builtins.bin(x)


class SymBitStr:
    """a '0101' string whose characters are symbolic bits (tag strings)"""

    def __init__(self, bits):
        self.bits = bits          # list of (SymVal, bitindex)

    def _cmp(self, other):
        if not isinstance(other, str) or not set(other) <= {"0", "1"}:
            raise Unsupported("tag string compared with a non-bit-string")
        if len(other) != len(self.bits):
            return False
        for (v, i), ch in zip(self.bits, other):
            if test_bit(v.var, i) != int(ch):
                return False
        return True

    def __eq__(self, other):
        return self._cmp(other)

    def __ne__(self, other):
        return not self._cmp(other)

    __hash__ = None

    def __add__(self, other):
        if isinstance(other, SymStrMarker):
            return SymBitStr(self.bits + [(other.sym, other.sym.bitindex)])
        if isinstance(other, SymTagMarker):
            return SymBitStr(self.bits + other.bits)
        if isinstance(other, SymBitStr):
            return SymBitStr(self.bits + other.bits)
        raise Unsupported("tag string concatenated with a constant")

    __iadd__ = __add__

    def __str__(self):
        return SymTagMarker(self.bits)     # str(bits.to01()) used to extend a tag string

    def __format__(self, spec):
        return "<tag>"


class SymDerived:
    def __init__(self, how, base, arg=None):
        self.how, self.base, self.arg = how, base, arg

    def __getattr__(self, name):
        if name.startswith("__"):
            raise AttributeError(name)
        return SymDerived("attr", self, name)

    def __bool__(self):
        raise Unsupported("control flow on a derived value")

    def _arith(self, other):
        return SymDerived("arith", self)

    __add__ = __radd__ = __sub__ = __rsub__ = __mul__ = __and__ = __rand__ = __or__ = _arith


class SymSlice:
    def __init__(self, sid):
        self.sid = sid
        self.type_ = -1

    def _load(self, kind, opkind, params=(), width=None):
        var = T.op(self.sid, opkind, params)
        v = SymVal(var, kind, width)
        v._event_index = len(T.events) - 1
        return v

    def load_uint(self, n):
        return self._load("uint", "uint", [_w(n)], _w(n))

    def load_int(self, n):
        return self._load("int", "int", [_w(n)], _w(n))

    def load_bit(self):
        return self._load("bit", "bit", [], 1)

    def load_bool(self):
        return self._load("bool", "bool", [], 1)

    def load_bits(self, n):
        return self._load("bits", "bits", [_w(n)], _w(n))

    def load_bytes(self, n):
        return self._load("bytes", "bytes", [_w(n)], 8 * _w(n))

    def preload_bit(self):
        return self._load("bit", "peek_bits", [1], 1)

    def preload_bits(self, n):
        return self._load("bits", "peek_bits", [_w(n)], _w(n))

    def preload_uint(self, n):
        return self._load("uint", "peek_uint", [_w(n)], _w(n))

    def preload_bytes(self, n):
        return self._load("bytes", "peek_bytes", [_w(n)], 8 * _w(n))

    def load_coins(self):
        return self._load("coins", "coins")

    def load_var_uint(self, k):
        return self._load("varuint", "varuint", [_w(k)])

    def load_var_int(self, k):
        return self._load("varint", "varint", [_w(k)])

    def load_address(self):
        return self._load("addr", "addr")

    def load_ref(self):
        return self._load("cell", "refcell")

    def _present(self, v):
        """fork on the presence bit of an optional load so that `is None` tests in the code see a real None"""
        return v if test_bit(v.var, 0) else None

    def load_maybe_ref(self):
        return self._present(self._load("maybecell", "mayberefcell"))

    def load_dict(self, key_length, key_deserializer=None, value_deserializer=None):
        if key_deserializer is not None:
            raise Unsupported("load_dict with a key deserializer")
        sub = trace_callable(value_deserializer) if value_deserializer else ["ret", ["leafslice"]]
        return self._present(self._load("dict", "dict", [_w(key_length), sub]))

    def load_hashmap_aug_e(self, key_length, x_deserializer=None, y_deserializer=None):
        return self._load("augdict", "augdict_e", [_w(key_length), trace_callable(x_deserializer), trace_callable(y_deserializer)])

    def load_hashmap_aug(self, key_length, x_deserializer=None, y_deserializer=None):
        return self._load("augdict", "augdict", [_w(key_length), trace_callable(x_deserializer), trace_callable(y_deserializer)])

    def load_hashmap(self, key_length, key_deserializer=None, value_deserializer=None):
        if key_deserializer is not None:
            raise Unsupported("load_hashmap with a key deserializer")
        sub = trace_callable(value_deserializer) if value_deserializer else ["ret", ["leafslice"]]
        return self._load("dict", "hashmap", [_w(key_length), sub])

    def is_special(self):
        d, new = T.decide(("special", self.sid))
        if new:
            T.events.append(["ifspecial", self.sid, d])
        return bool(d)

    def to_cell(self):
        return self._load("cellcopy", "tocell")

    def copy(self):
        # a snapshot of what remains NOW; only .to_cell() on it is modelled
        return SymSliceCopy(self, self._load("cellcopy", "tocell"))

    def begin_parse(self):
        return self

    def __getattr__(self, name):
        raise Unsupported(f"Slice.{name} is not modelled by the tracer")


class SymSliceCopy:
    """cell_slice.copy(): only .to_cell() on it is modelled (a snapshot of what remains)"""

    def __init__(self, base, snapshot):
        self.base, self.snapshot = base, snapshot

    def to_cell(self):
        return self.snapshot

    def __getattr__(self, name):
        raise Unsupported(f"operation {name} on a copied slice")


def _w(n):
    if isinstance(n, bool) or not isinstance(n, int):
        raise Unsupported("non-constant width")
    return n


# ---------------------------------------------------------------------------- value expressions
def expr_of(v, depth=0):
    if depth > 6:
        return ["derived"]
    if isinstance(v, SymVal):
        return ["var", v.var]
    if isinstance(v, SymDerived):
        if v.how == "hex" and isinstance(v.base, SymVal):
            return ["hex", ["var", v.base.var]]
        return ["derived"]
    if v is None:
        return ["none"]
    if isinstance(v, (bool, int, str)):
        return ["const", v]
    if isinstance(v, (bytes, bytearray)):
        return ["const", {"bytes": bytes(v).hex()}]
    if isinstance(v, (list, tuple)):
        if len(v) == 1 and isinstance(v[0], SymDerived) and v[0].how == "values_sorted":
            return ["sortedvalues", ["var", v[0].base.var]]
        return ["list", [expr_of(x, depth + 1) for x in v]]
    if isinstance(v, dict):
        return ["derived"]
    if isinstance(v, (SymSlice, SymSliceCopy, SymBitStr)):
        return ["derived"]
    if hasattr(v, "__dict__"):
        fields = [[k, expr_of(x, depth + 1)] for k, x in vars(v).items()]
        return ["obj", type(v).__name__, fields]
    return ["derived"]


def build_tree(paths):
    """paths: list of (events, outcome); merge on common prefixes"""
    def rec(items, i):
        # items: list of (events, outcome) sharing events[:i]
        ev0 = items[0][0]
        if i == len(ev0):
            if len(items) != 1:
                raise Unsupported("two paths with identical events")
            return items[0][1]
        e = ev0[i]
        if e[0] == "op":
            for ev, _ in items:
                if ev[i][:4] != e[:4]:
                    raise Unsupported("paths diverge without a branch")
            return ["op", e[1], e[2], e[3], rec(items, i + 1)]
        if e[0] == "if":
            zero = [it for it in items if it[0][i][3] == 0]
            one = [it for it in items if it[0][i][3] == 1]
            return ["if", e[1], e[2], rec(zero, i + 1) if zero else ["fail", "unexplored"],
                    rec(one, i + 1) if one else ["fail", "unexplored"]]
        if e[0] == "guard":
            zero = [it for it in items if it[0][i][4] == 0]
            one = [it for it in items if it[0][i][4] == 1]
            return ["guard", e[1], e[2], e[3], rec(zero, i + 1) if zero else ["fail", "unexplored"],
                    rec(one, i + 1) if one else ["fail", "unexplored"]]
        if e[0] == "ifspecial":
            zero = [it for it in items if it[0][i][2] == 0]
            one = [it for it in items if it[0][i][2] == 1]
            return ["ifspecial", e[1], rec(zero, i + 1) if zero else ["fail", "unexplored"],
                    rec(one, i + 1) if one else ["fail", "unexplored"]]
        raise Unsupported("event " + str(e[0]))
    return rec(paths, 0)


def explore(fn, max_paths=4000):
    """run fn(SymSlice(0)) under every decision prefix; returns the merged tree"""
    global T
    saved = T
    paths = []
    todo = [[]]
    try:
        while todo:
            if len(paths) > max_paths:
                raise Unsupported("too many paths")
            prefix = todo.pop()
            T = Tracer()
            T.decisions = list(prefix)
            try:
                res = fn(SymSlice(0))
                outcome = ["ret", expr_of(res)]
            except Unsupported:
                raise
            except RecursionError:
                raise Unsupported("recursion")
            except (TypeError, AttributeError, NotImplementedError, NameError) as e:
                # almost certainly an operation the symbolic objects do not model: fail closed
                raise Unsupported(f"{type(e).__name__}: {e}")
            except Exception as e:  # the code raised on this path
                outcome = ["fail", type(e).__name__]
            paths.append((T.events, outcome))
            todo.extend(T.pending)
        return build_tree(paths)
    finally:
        T = saved


def trace_callable(f):
    if f is None:
        return ["ret", ["leafslice"]]
    return explore(f)


# ---------------------------------------------------------------------------- nested deserialize calls
def install_stubs(classes):
    """while a class is traced, calls to OTHER classes' deserialize on a symbolic slice are recorded as ops"""
    originals = {}
    for name, cls in classes.items():
        orig = cls.__dict__.get("deserialize")
        if orig is None:
            continue
        originals[name] = orig
    return originals


def make_stub(name, orig_func, current):
    def stub(cls, cell_slice, *args, **kwargs):
        # a subclass delegating with super().deserialize(...) passes ITS class: the parent's code then builds an instance of
        # the subclass, so the call is traced through (inlined) instead of being recorded as a call of the parent type
        inherited = getattr(cls, "__name__", name) != name
        if isinstance(cell_slice, SymSlice) and (current["name"] or "").split("(")[0] != name and not inherited:
            if kwargs:
                raise Unsupported(f"nested {name}.deserialize with keyword arguments")
            conc = []
            for a in args:
                if isinstance(a, SymVal) and a.kind in ("bit", "bool"):
                    conc.append(int(bool(a)))
                elif isinstance(a, (SymVal, SymDerived)) or callable(a):
                    raise Unsupported(f"nested {name}.deserialize with a symbolic or functional argument")
                elif isinstance(a, (bool, int)):
                    conc.append(int(a))
                else:
                    raise Unsupported(f"nested {name}.deserialize with argument {a!r}")
            CALL_ARGS.setdefault(name, set()).add(tuple(conc))
            var = T.op(cell_slice.sid, "call", [name] + conc)
            v = SymVal(var, "obj")
            v._event_index = len(T.events) - 1
            return v
        if isinstance(cell_slice, SymSlice):
            current["depth"] = current.get("depth", 0) + 1
            try:
                if current["depth"] > 30:
                    raise Unsupported("recursion")
                return orig_func(cls, cell_slice, *args, **kwargs)
            finally:
                current["depth"] -= 1
        return orig_func(cls, cell_slice, *args, **kwargs)
    return classmethod(stub)


CALL_ARGS = {}

MODULES = ["pytoniq_core.tlb.transaction", "pytoniq_core.tlb.account", "pytoniq_core.tlb.block",
           "pytoniq_core.tlb.utils", "pytoniq_core.tlb.config", "pytoniq_core.tlb.vm_stack",
           "pytoniq_core.tlb.custom.wallet", "pytoniq_core.tlb.custom.nft"]


def collect_classes():
    out = {}
    for m in MODULES:
        mod = importlib.import_module(m)
        for name, obj in vars(mod).items():
            if isinstance(obj, type) and obj.__module__ == m and "deserialize" in obj.__dict__:
                out[name] = obj
    return out


def trace_all(only=None):
    classes = collect_classes()
    current = {"name": None}
    originals = {}
    for name, cls in classes.items():
        d = cls.__dict__["deserialize"]
        func = d.__func__ if isinstance(d, (classmethod, staticmethod)) else d
        originals[name] = (d, func, isinstance(d, classmethod))
    # install stubs
    for name, cls in classes.items():
        d, func, is_cm = originals[name]
        if is_cm:
            setattr(cls, "deserialize", make_stub(name, func, current))
    # bin(flags)[-1] == '1' (BlockInfo, McStateExtra): the traced modules see a bin() that understands symbolic integers
    patched_mods = [importlib.import_module(m) for m in MODULES]
    for mod in patched_mods:
        mod.__dict__["bin"] = sym_bin
    result, failed = {}, {}
    deferred = []
    try:
        for name, cls in classes.items():
            if only and name not in only:
                continue
            d, func, is_cm = originals[name]
            if not is_cm:
                failed[name] = "deserialize is not a classmethod"
                continue
            import inspect
            params = list(inspect.signature(func).parameters)
            if len(params) != 2:
                deferred.append((name, cls, func, params))
                continue
            current["name"] = name
            try:
                result[name] = explore(lambda s, f=func, c=cls: f(c, s))
            except Unsupported as e:
                failed[name] = str(e)
            except Exception as e:
                failed[name] = f"{type(e).__name__}: {e}"
        # parametrised deserialisers: one tree per concrete argument tuple seen at a call site
        for name, cls, func, params in deferred:
            argsets = sorted(CALL_ARGS.get(name, ()))
            if not argsets:
                failed[name] = "deserialize takes extra parameters (" + ",".join(params[2:]) + ") and no traced call site fixes them"
                continue
            for args in argsets:
                key = name + "(" + ",".join(str(a) for a in args) + ")"
                current["name"] = key
                try:
                    result[key] = explore(lambda s, f=func, c=cls, a=args: f(c, s, *a))
                except Unsupported as e:
                    failed[key] = str(e)
                except Exception as e:
                    failed[key] = f"{type(e).__name__}: {e}"
    finally:
        for name, cls in classes.items():
            setattr(cls, "deserialize", originals[name][0])
        for mod in patched_mods:
            mod.__dict__.pop("bin", None)
    return result, failed


if __name__ == "__main__":
    sys.setrecursionlimit(3000)
    res, failed = trace_all()
    out = sys.argv[1] if len(sys.argv) > 1 else "/dev/stdout"
    json.dump({"trees": res, "untraceable": failed}, open(out, "w"), indent=0)
    print(f"traced {len(res)} classes, {len(failed)} untraceable", file=sys.stderr)
    for k, v in sorted(failed.items()):
        print("  ", k, ":", v, file=sys.stderr)
