#!/usr/bin/env python3
"""DESIGN.md = doc/design_partA.md + doc/design_section4.md + doc/design_partB5.md + doc/design_partB6.md, with the
table of seeded changes generated from seeded/*/*/meta.json."""
import glob
import json
import os
import re

V = os.path.dirname(os.path.dirname(os.path.abspath(__file__)))
rows = []
for f in sorted(glob.glob(os.path.join(V, "seeded/*/*/meta.json"))):
    m = json.load(open(f))
    pid, name = m["property"], f.split("/")[-2]
    files = ",".join(x.replace("pytoniq_core/", "") for x in m.get("files", []))
    mech = (m.get("mechanism") or "").replace("|", "/").replace("\n", " ")
    c = m.get("checks", {}).get(pid, {})
    mm = re.search(r'"signature": "([^"]+)"', c.get("replay_head", ""))
    sig = mm.group(1) if mm else ("broken-obligation" if "broken" in c.get("replay_head", "") else "?")
    rows.append(f"| {pid}/{name} | `{files}` | {mech[:150]} | {'yes' if m.get('caught_by') else 'NO'} | `{sig}` |")
table = ("| change | file | mechanism (sub-agent's words, shortened) | caught by its property's quick check | replay signature |\n"
         "|---|---|---|---|---|\n" + "\n".join(rows) + "\n")
parts = [open(os.path.join(V, "doc", n)).read() for n in
         ("design_partA.md", "design_section4.md", "design_partB5.md", "design_partB6.md")]
doc = "\n".join(parts).replace("SEEDED_TABLE", table)
open(os.path.join(V, "DESIGN.md"), "w").write(doc)
print(len(doc.splitlines()), "lines,", len(rows), "seeded changes,", sum("| NO |" in r for r in rows), "not caught")
