#!/usr/bin/env python3
"""Writes /verif/MANIFEST.json from the table below (one place to keep it valid)."""
import json
import os

HERE = os.path.dirname(os.path.dirname(os.path.abspath(__file__)))

COMMON_NOTE = ("Trusted: Coq 8.16.1 kernel incl. vm_compute (no native_compute); the hand-written Spec/ "
               "definitions; extraction with ExtrOcamlBasic only (no Extract Constant / Extract Inductive of "
               "my own) + the OCaml driver + the Python harness for the correspondence run; CPython and "
               "bitarray semantics as modelled. Axioms per theorem: see evidence trusted_base "
               "(Print Assumptions output is copied there on every run).")

CLAIMED = {
    "C18": {
        "text": "Machine-checked proof, for byte strings of every length, that the model of crc16/crc32c "
                "(tables, constants and loop bodies regenerated from crypto/crc.py on every run) equals the "
                "bit-at-a-time CRC-16/XMODEM and CRC-32C definitions; plus differential run model vs "
                "implementation and implementation vs extracted specification.",
        "design_ref": "DESIGN.md 4.18",
        "technique": "Coq proof (GF(2)-linearity + table sweep by vm_compute, induction on the byte list) over a "
                     "model regenerated from source; correspondence by extracted OCaml model",
        "note": "All four theorems closed under the global context. Translator tools/translate_crc.py trusted "
                "for the generated fragment.",
    },
}

PENDING_REASON = "check not built yet in this round (design in DESIGN.md section 4); not claimed until it exists"


def main():
    props = [json.loads(l)["id"] for l in open(os.path.join(HERE, "properties.jsonl"))]
    checks = []
    for pid in props:
        if pid not in CLAIMED:
            continue
        c = CLAIMED[pid]
        checks.append({
            "property_id": pid,
            "quick_cmd": f"./check {pid} --tier quick",
            "thorough_cmd": f"./check {pid} --tier thorough",
            "evidence_file": f"evidence/{pid}.json",
            "replay_cmd_template": f"./check {pid} --replay {{path}}",
            "engine": "coq-proof+correspondence",
            "level_claimed": {"category": "proof", "text": c["text"], "design_ref": c["design_ref"]},
            "level_note": c["note"] + " " + COMMON_NOTE,
            "technique": c["technique"],
        })
    man = {
        "version": 1,
        "setup_cmd": "./setup.sh",
        "hooks": {
            "guard": "PYTONIQ_CORE_VERIF",
            "enable": "no guarded source change exists; checks export PYTONIQ_CORE_VERIF=1 and import /repo directly "
                      "(PYTHONPATH=/repo)",
            "baseline_off_cmd": "cd /repo && /venv/bin/python -m pytest -ra -q -p no:cacheprovider --timeout=900 "
                                "--continue-on-collection-errors",
            "source_commits": [],
            "add_only": True,
        },
        "engines": [{
            "name": "coq-proof+correspondence",
            "path": "check",
            "serves_properties": [c["property_id"] for c in checks],
            "kind_free_text": "Coq 8.16 development (coq/: Base, Gen regenerated from /repo, Model, Spec, Proofs, "
                              "Props) + extracted OCaml model run against the Python implementation by harness/",
        }],
        "checks": checks,
        "notes": "See DESIGN.md. KNOWN_FINDINGS.txt lists recorded defects and fix: commits.",
        "not_applicable": [{"property_id": p, "reason": PENDING_REASON} for p in props if p not in CLAIMED],
    }
    extra = os.path.join(HERE, "tools", "manifest_extra.json")
    if os.path.exists(extra):
        e = json.load(open(extra))
        man["hooks"]["source_commits"] = e.get("source_commits", [])
    json.dump(man, open(os.path.join(HERE, "MANIFEST.json"), "w"), indent=1)
    print("MANIFEST.json:", len(checks), "checks,", len(man["not_applicable"]), "not applicable")


if __name__ == "__main__":
    main()
