#!/usr/bin/env python3
"""Writes /verif/MANIFEST.json from the table below (one place to keep it valid)."""
import json
import os

HERE = os.path.dirname(os.path.dirname(os.path.abspath(__file__)))

COMMON_NOTE = ("Trusted: Coq 8.16.1 kernel incl. vm_compute (no native_compute); the hand-written Spec/ "
               "definitions; extraction with ExtrOcamlBasic only (no Extract Constant / Extract Inductive of "
               "my own) + the OCaml driver + the Python harness for the correspondence run; CPython and "
               "bitarray semantics as modelled. Axioms per theorem: see evidence trusted_base "
               "(Print Assumptions output is copied there on every run).")

CLAIMED = {
    "C18": {
        "text": "Machine-checked proof, for byte strings of every length, that the model of crc16/crc32c "
                "(tables, constants and loop bodies regenerated from crypto/crc.py on every run) equals the "
                "bit-at-a-time CRC-16/XMODEM and CRC-32C definitions; plus differential run model vs "
                "implementation and implementation vs extracted specification.",
        "design_ref": "DESIGN.md 4.18",
        "technique": "Coq proof (GF(2)-linearity + table sweep by vm_compute, induction on the byte list) over a "
                     "model regenerated from source; correspondence by extracted OCaml model",
        "note": "All four theorems closed under the global context. Translator tools/translate_crc.py trusted "
                "for the generated fragment.",
    },
}

CLAIMED.update({
    "C01": {
        "text": "Machine-checked proof for every ordinary cell tree (all bit lengths, ref counts, depths) that the model "
                "of Cell.__init__/get_hash/get_depth/calculate_representation_hash/__eq__/__hash__ equals the TON "
                "representation hash and depth of Spec/CellRepr.v, incl. the depth limit; model tied to cell.py by a "
                "differential run (all 1024 bit lengths, chains at the depth limit, DAGs, 4 construction routes). "
                "'Equal exactly when the hashes are equal' is also proved structurally: two well-formed trees (ordinary, "
                "and exotic at the top level) with equal hashes, or whose built cells compare equal, are the same tree or "
                "exhibit a SHA-256 collision. The clause 'the recomputed representation hash agrees with the cached one' "
                "is proved for every constructed cell of every spec-valid tree of ordinary, pruned-branch, library, "
                "Merkle-proof and Merkle-update cells, whatever its level (C01_repr_agrees_all).",
        "design_ref": "DESIGN.md 4.1",
        "technique": "Coq proof by induction on the cell tree (custom nested induction), padding/descriptor arithmetic for "
                     "all lengths; loop invariant of the per-level hash loop with the last iteration characterised (masks 0..7 by "
                     "finite case analysis); correspondence by extracted OCaml model incl. Gallina SHA-256",
        "note": "14 theorems closed under the global context; SHA-256 is the executable Gallina function, theorems hold "
                "for any hash function.",
    },
    "C06": {
        "text": "Machine-checked proof that for every list of in-range typed values the model of Builder.store_* writes "
                "exactly the TL-B encoding (stated with Z.testbit) and the model of Slice.load_* returns the same values "
                "and consumes everything; peeks agree with loads; var-int lengths are minimal; snake strings round-trip "
                "for every length. Model tied to builder.py/slice.py/address.py by a differential run.",
        "design_ref": "DESIGN.md 4.6",
        "technique": "Coq proof by induction over heterogeneous value lists, width-generic bit lemmas; correspondence by "
                     "extracted OCaml model",
        "note": "8 theorems closed under the global context. The two findings first recorded here (F26 snake "
                "recursion, F27 zero-length external address) have been repaired in the library.",
    },
    "C07": {
        "text": "Machine-checked proof over all store-operation histories that the builder model never exceeds 1023 bits / "
                "4 refs / depth 1023, refuses out-of-range values and overflowing stores, never refuses a fitting one, and "
                "that every successful read consumed exactly a real prefix (no fabricated or truncated data); over-reads "
                "raise. Model tied to the code by a differential run of store and load sequences at all fill levels.",
        "design_ref": "DESIGN.md 4.7",
        "technique": "Coq invariant proof by induction over operation lists (fold), per-op capacity lemmas; correspondence "
                     "by extracted OCaml model",
        "note": "8 theorems closed under the global context.",
    },
})

CLAIMED.update({
    "C09": {
        "text": "Machine-checked proof, for every key width 1..1023 and every finite map that fits, that the model of "
                "HashMap.serialize followed by the model of parse_hashmap returns exactly the same pairs in ascending key "
                "order, independently of insertion order; empty map = no cell; optional-dictionary wrapper; key range "
                "check is exact. Model tied to hashmap/*.py by a differential run (all key sets for widths 1..3).",
        "design_ref": "DESIGN.md 4.9",
        "technique": "Coq proof by induction on key length / Patricia tree (lcp of min and max = lcp of all, forks non-empty, "
                     "in-order leaves = sorted map); correspondence by extracted OCaml model",
        "note": "6 theorems closed under the global context. Known finding F29 (recursion depth of very deep trees).",
    },
    "C10": {
        "text": "Machine-checked proof that the label kind chosen equals the reference rule of dict.cpp for every label "
                "length and remaining key length (no bound), that labels are written as HmLabel encodings, that the tree "
                "built is the canonical Patricia tree, and that the parser model decodes every valid tree whatever label "
                "kinds it uses and skips pruned subtrees, and that the augmented parser model (parse_hashmap_aug) decodes "
                "every valid HashmapAug tree likewise, returning the extras in post-order and the same keys as the plain "
                "reading. Differential run incl. non-canonical and augmented trees.",
        "design_ref": "DESIGN.md 4.10",
        "technique": "Coq proof (unbounded label arithmetic by lia, induction on valid trees); correspondence by extracted "
                     "OCaml model against an independent Python encoder",
        "note": "9 theorems closed under the global context (3 about the augmented parser, over Spec/HashmapAug.v; extras are "
                "modelled as fields of a fixed bit width).",
    },
})

CLAIMED.update({
    "C02": {
        "text": "Machine-checked proof that for every spec-valid tree of ordinary, pruned-branch (all masks 1..7), library, "
                "Merkle-proof and Merkle-update cells the model of Cell.__init__ succeeds and its level mask and the hash "
                "and depth at each level 0..3 equal the level-wise specification of Spec/CellRepr.v; and that replacing a "
                "level-0 subtree below j <= 2 Merkle cells by the pruned branch carrying its hash/depth leaves the "
                "level-0 hash and depth of the enclosing tree unchanged. Differential run over all masks/types/nestings, "
                "BoC round trip and pruning on the implementation.",
        "design_ref": "DESIGN.md 4.2",
        "technique": "Coq proof: nested-cell induction with a per-level loop invariant (finite mask/level selection by "
                     "vm_compute), context induction for pruning invariance; correspondence by extracted OCaml model",
        "note": "4 theorems closed under the global context. Pruned subtrees deeper than 65535 are excluded by an explicit "
                "hypothesis (the stored depth has 16 bits).",
    },
    "C12": {
        "text": "Machine-checked proof, for ANY hash function and ANY signature-verification predicate, that the model of "
                "check_block_signatures accepts exactly the signature sets of distinct, known, correctly signing validators "
                "whose combined weight is strictly more than 2/3 of the total (iff against a declarative predicate), with "
                "the named rejection corollaries. Differential run with real Ed25519 keys at the 2/3 boundary.",
        "design_ref": "DESIGN.md 4.12",
        "technique": "Coq proof (loop characterisation by induction on the signature list, generalised over the seen-set and "
                     "accumulated weight); correspondence by extracted OCaml model fed with real verify_sign outcomes",
        "note": "5 theorems closed under the global context; no assumption about SHA-256 or Ed25519.",
    },
    "C13": {
        "text": "Machine-checked proof that every friendly variant and the raw form of every address (wc -128..127 / any "
                "integer, 32-byte id) parses back to the same address and flags, equal addresses hash equally, and that "
                "every one of the 48x63 single-character substitutions of a friendly address is rejected, for every "
                "address and variant (CRC-16 linearity + 3024-pattern sweep). Differential run incl. 12k substitutions.",
        "design_ref": "DESIGN.md 4.13",
        "technique": "Coq proof (base64 regrouping arithmetic, decimal/hex print-parse inverses, GF(2)-linearity of CRC-16 and "
                     "of base64 decoding, finite error-pattern sweep by vm_compute); correspondence by extracted OCaml model",
        "note": "5 theorems closed under the global context. CPython base64/int()/hex are modelled (Model/Address.v) on the "
                "stated input domain.",
    },
    "C20": {
        "text": "PARTIAL by nature. Machine-checked proof over abstract primitives that two mirrored AdnlChannel models "
                "decrypt each other's packets for all three byte orders of the ids, that the packet carries H(plaintext) "
                "and the key id the peer expects, that the signing glue verifies, that generated 24-word mnemonics are "
                "valid; hypotheses = named laws of X25519/AES-CTR/Ed25519. Differential run of key/iv/id observables and "
                "end-to-end checks with the real libraries. Unforgeability is not assumed and not claimed.",
        "design_ref": "DESIGN.md 4.20",
        "technique": "Coq proof over Section parameters (case split on the lexicographic comparison, list algebra); "
                     "correspondence of derived keys/ivs/ids by extracted OCaml model",
        "note": "5 theorems closed under the global context; DH commutativity, CTR involution, 32-byte hash length and "
                "sign-then-verify are hypotheses of the theorems, sampled on real primitives.",
    },
})

CLAIMED.update({
    "C05": {
        "text": "Machine-checked proof that the parser model returns exactly the roots denoted by every encoding the "
                "strict decoder of the format accepts (all widths, index, cache bits, CRC, stored hashes, several roots, "
                "any valid order, three magics), and that it rejects every proper prefix, every extension, every "
                "single-bit flip of a CRC-protected bag (CRC-32C single-bit detection proved for any length) and "
                "dangling/backward/self references. Differential run with an independent encoder and 7k corruptions.",
        "design_ref": "DESIGN.md 4.5",
        "technique": "Coq proof: field-by-field agreement of parser model and strict decoder, exact-length discipline, "
                     "GF(2)-linearity of CRC-32C; correspondence by extracted OCaml model",
        "note": "5 theorems closed under the global context. C05_accepts assumes the input is a byte string and that the "
                "cells are constructible.",
    },
})

CLAIMED.update({
    "C04": {
        "text": "Machine-checked proof that for every constructible tree/DAG (ordinary and exotic cells) and each of the 6 "
                "valid option sets the bytes produced by the model of Cell.to_boc are accepted by the strict decoder of "
                "boc.tlb (widths sufficient, references forward, index = cumulative end offsets doubled with cache bits, "
                "CRC-32C over everything before it), decode to the same DAG and contain each distinct cell exactly once; "
                "the traversal lists every reachable cell once, parents first. Differential run + strict decoding of every "
                "emitted bag.",
        "design_ref": "DESIGN.md 4.4",
        "technique": "Coq proof: DFS invariant for the cell order, per-cell encode/strict-decode inverse for all bit lengths, "
                     "header arithmetic, CRC bridge through C18; correspondence by extracted OCaml model",
        "note": "3 theorems closed under the global context; modulo hash collisions among the sub-cells (explicit hypothesis "
                "no_collision) and for bags of fewer than 2^24 cells.",
    },
    "C11": {
        "text": "Machine-checked proof that every proof built by pruning any set of level-0 subtrees of a tree - ordinary, or "
                "containing exotic cells incl. nested Merkle proofs/updates, where holes below j Merkle cells are pruned "
                "with mask 2^j - is accepted "
                "by the models of check_proof and check_block_header_proof (complete), that acceptance means what it should, "
                "and that a virtualised tree whose level-0 hash equals the hash of a tree t IS t with pruned subtrees naming "
                "the right hashes - or an explicit SHA-256 collision is exhibited (sound, no axiom); a pruned-branch "
                "impostor account state is a collision. Differential run incl. mutations and synthetic shard states "
                "through the real check_account_proof.",
        "design_ref": "DESIGN.md 4.11",
        "technique": "Coq proof: pruning invariance from C02, unique readability of the cell representation, decidable "
                     "equality of representations to exhibit collisions; correspondence by extracted OCaml model",
        "note": "12 theorems closed under the global context (5 of them for trees with nested Merkle cells, incl. soundness). The TL-B walk from the shard state to the ShardAccount cell "
                "inside check_account_proof is not modelled (exercised on the implementation only).",
    },
})

CLAIMED.update({
    "C03": {
        "text": "Machine-checked proof that for every constructible tree/DAG (ordinary and exotic cells, sharing) and each "
                "of the 6 valid option sets, the parser model applied to the bytes of the serialiser model returns exactly "
                "one root, which is the very same cell (same structure, same hash); that the bytes, their hex text and "
                "their base64 text (models of bytes.fromhex and binascii.a2b_base64 as Boc.__init__ uses them) normalise to "
                "the same bytes for every bag with a BoC magic, and that the Cell, Slice and Builder entry points return "
                "that cell / its bits and references. All tied to the code by differential runs.",
        "design_ref": "DESIGN.md 4.3",
        "technique": "Coq proof: corollary of C04 (emitted bytes are strictly valid) and C05 (parser agrees with the strict "
                     "decoder), build is a function; correspondence by extracted OCaml model on DAGs up to 70k cells",
        "note": "5 theorems closed under the global context; modulo hash collisions (explicit hypothesis) and for bags of "
                "fewer than 2^24 cells.",
    },
})

CLAIMED.update({
    "C15": {
        "text": "Machine-checked proof that the model of MessageAny.serialize never fails for lack of room whenever the "
                "header leaves three bits (any state-init, any body cell: parts are moved into references), and that the "
                "cell decodes under an independent reading of block.tlb (Message/CommonMsgInfo/StateInit/CurrencyCollection) "
                "to the same logical message; stand-alone StateInit, CurrencyCollection (with extra currencies) and "
                "HASH_UPDATE round trips; and that the library's own parser (the decision tree traced from "
                "MessageAny.deserialize) returns the same message from that cell and from all four inline/by-reference "
                "placements of state-init and body (via the C16 theorem for MessageAny). The parser, the independent decoder "
                "and the code agree on 1700 generated messages; wallet and NFT data wrappers by oracle.",
        "design_ref": "DESIGN.md 4.15",
        "technique": "Coq proof: bit/reference budget arithmetic over the placement branches, composition of the C06/C09 "
                     "primitive round trips; correspondence by extracted OCaml model and regenerated decision trees",
        "note": "8 theorems closed under the global context (library-parser theorems need addresses of the kinds block.tlb prescribes). Wallet/NFT data wrappers are covered by the oracle only.",
    },
    "C19": {
        "text": "PARTIAL by nature (cost semantics, not wall-clock). Machine-checked proof that the traversal used by "
                "Cell.order visits exactly 1 + (sum of references of the distinct cells): a shared sub-DAG is expanded "
                "once however many paths lead to it (linear in cells + references); that the BoC parser model consumes at "
                "least two bytes per parsed cell and an accepted header has room for everything it announces, so count "
                "fields cannot drive the work; that the dictionary parser's edge visits are exactly 2*(entries + empty "
                "terminals) - 1 (2k - 1 for k entries when no exotic cell lies below), at most 2^(key width + 1) - 1, "
                "independent of the model's fuel, and that an over-long label is refused at once; that the TL "
                "deserializer accepts a vector only if its announced count fits the bytes that follow (refused before any "
                "element is parsed otherwise) and never returns a list, string or byte field longer than its input. The "
                "dictionary visit counter is tied to parse.py by a differential run. Measured on the implementation: hash operations per order()/to_boc(), cell "
                "parses and TL deserialisations per input byte, on maximal-sharing DAGs and adversarial count fields.",
        "design_ref": "DESIGN.md 4.19",
        "technique": "Coq proof of an exact visit-count identity by nested induction on the instrumented traversal; counting "
                     "lemmas for the parser models (BoC, dictionary, TL); call-count correspondence and measurements on the implementation",
        "note": "24 theorems closed under the global context. The iterative Python loop is modelled by its recursive "
                "formulation (same order, visits counted per call); library primitives are unit cost. Known findings F32 "
                "(a DAG-shaped valid dictionary is expanded eagerly into a dict: exponential in the input) and F37 (the "
                "same chain ending in a pruned branch: exponential walk, empty result) are reported as KNOWN-FINDING.",
    },
})

CLAIMED.update({
    "C17": {
        "text": "Machine-checked proof that the model of VmStack.serialize followed by the model of VmStack.deserialize "
                "returns equal values in the same order for every stack of null, integers (64-bit form exactly for "
                "-2^63 < z < 2^63, 257-bit form otherwise), cells, slices, builders, arbitrarily nested tuples and the "
                "eight control-data-free continuation kinds; stack-list chaining per the schema. 'Serialising does not "
                "consume the caller's values' is an aliasing property checked on the implementation (deep comparison "
                "before/after, serialise twice), not proved in the functional model.",
        "design_ref": "DESIGN.md 4.17",
        "technique": "Coq proof by induction on fuel / nesting depth with tag-dispatch lemmas; correspondence by extracted "
                     "OCaml model; purity by differential observation of the caller's objects",
        "note": "6 theorems closed under the global context (incl. slice values denoting a window of their cell, as foreign writers emit them). vmc_std / vmc_envelope (VmControlData, save lists) are not in the "
                "model: they are checked on the implementation against the schema written out by hand (F19 repaired).",
    },
})

CLAIMED.update({
    "C08": {
        "text": "Machine-checked proof on a heap model (bit containers, list containers and an object table, with which "
                "statement copies, shares or mutates in place written out) that for EVERY history of API operations the "
                "content of an existing cell (bits and, recursively, referenced cells) never changes, a cell stays a cell, "
                "an operation touches only its own target object, reads change nothing, and a builder store is all-or-nothing "
                "(refused: the whole heap is unchanged; accepted: exactly the value's bits and references are appended, within "
                "1023 bits / 4 references). The heap model is tied to the "
                "code by running random histories on both and comparing every object; on the implementation every live "
                "cell's hash/bits/refs/to_boc is re-checked after every operation, plus the plain-bitarray constructor and "
                "statelessness of order().",
        "design_ref": "DESIGN.md 4.8",
        "technique": "Coq ownership-invariant proof by induction over operation lists (fold_left) on an explicit heap model; "
                     "history-based correspondence by extracted OCaml model",
        "note": "5 theorems closed under the global context. Not expressible in the model: mutation through CPython "
                "internals, and callers that keep and mutate a TvmBitarray/list passed to the raw Cell constructor.",
    },
})

CLAIMED.update({
    "C16": {
        "text": "For every TL-B type the property names (transactions with all seven description kinds and all phases, "
                "accounts and shard accounts, account blocks, in/out message descriptors and envelopes, messages, block "
                "headers with their previous-block references, value flows, shard descriptors, validator sets, catchain "
                "config; 115 theorems incl. config parameters and wallet/NFT data) a machine-checked theorem: for every "
                "well-typed value encoded per the block.tlb layout (for every choice of Either alternatives), running "
                "the decision tree the tracer extracted from the library's deserialize method returns every field with the "
                "encoded value and leaves exactly the rest. The theorem is generic (proved once for the layout language); "
                "per type the traced tree is shown EQUAL to the compilation of the hand-transcribed layout by computation, "
                "so a changed width, tag, signedness, field or reference order breaks the obligation. The trees are "
                "regenerated from the source on every run (concolic trace of the real code) and run against the code on "
                "generated inputs; an independent decoder written from block.tlb checks the bundled real block field by "
                "field and generated BlockInfo/ShardDescr cells.",
        "design_ref": "DESIGN.md 4.16",
        "technique": "Coq proof: generic correctness of compile (layout -> decision tree) w.r.t. the layout encoder, plus "
                     "per-type tree equality by vm_compute over trees regenerated from the source by a concolic tracer; "
                     "correspondence by extracted OCaml model",
        "note": "115 theorems (+7 fuel lemmas) closed under the global context. Trusted: the tracer (fail-closed) and the "
                "transcription of block.tlb. addr_var addresses are outside the model; all cells in the statements are "
                "ordinary (exotic-cell behaviour of the parsers is stated separately); ShardAccounts (HashmapAugE) has the "
                "tree equality only.",
    },
})

PENDING_REASON = "check not built yet in this round (design in DESIGN.md section 4); not claimed until it exists"


CLAIMED.update({
    "C14": {
        "text": "Machine-checked proof that (a) every constructor id in the table regenerated from the repo's own TL "
                "registrator is the CRC-32 (bitwise definition) of its schema text (sweep over all 822 lines), (b) byte/"
                "string framing is the TL length-prefix + padding rule for every length below 2^24 and is parsed back "
                "exactly, (c) little-endian integers round-trip, (d) for every table whose constructors resolve uniquely, and "
                "in particular for the generated table, every value the independent TL encoding (Spec/TlSpec.v) accepts - "
                "flag-selected fields, nested bare/boxed objects, vectors of objects, bytes and strings - serialises to "
                "exactly that encoding and parses back to the same value consuming all bytes, (e) block-id bytes "
                "round-trip. Model tied to tl/generator.py and tl/block.py by a differential run over all constructors.",
        "design_ref": "DESIGN.md 4.14",
        "technique": "Coq proof (vm_compute sweep over the generated table; strong induction on the specification's fuel for "
                     "the generic round trip) over a schema table regenerated from source; correspondence by extracted "
                     "OCaml model; independent Python TL encoder as oracle",
        "note": "All theorems closed under the global context. Guards: payloads that begin with a known constructor id are "
                "auto-parsed by the library by design (no_auto_capture); lengths below 2^24.",
    },
})


def main():
    props = [json.loads(l)["id"] for l in open(os.path.join(HERE, "properties.jsonl"))]
    checks = []
    for pid in props:
        if pid not in CLAIMED:
            continue
        c = CLAIMED[pid]
        checks.append({
            "property_id": pid,
            "quick_cmd": f"./check {pid} --tier quick",
            "thorough_cmd": f"./check {pid} --tier thorough",
            "evidence_file": f"evidence/{pid}.json",
            "replay_cmd_template": f"./check {pid} --replay {{path}}",
            "engine": "coq-proof+correspondence",
            "level_claimed": {"category": "proof", "text": c["text"], "design_ref": c["design_ref"]},
            "level_note": c["note"] + " " + COMMON_NOTE,
            "technique": c["technique"],
        })
    man = {
        "version": 1,
        "setup_cmd": "./setup.sh",
        "hooks": {
            "guard": "PYTONIQ_CORE_VERIF",
            "enable": "no guarded source change exists; checks export PYTONIQ_CORE_VERIF=1 and import /repo directly "
                      "(PYTHONPATH=/repo)",
            "baseline_off_cmd": "cd /repo && /venv/bin/python -m pytest -ra -q -p no:cacheprovider --timeout=900 "
                                "--continue-on-collection-errors",
            "source_commits": [],
            "add_only": True,
        },
        "engines": [{
            "name": "coq-proof+correspondence",
            "path": "check",
            "serves_properties": [c["property_id"] for c in checks],
            "kind_free_text": "Coq 8.16 development (coq/: Base, Gen regenerated from /repo, Model, Spec, Proofs, "
                              "Props) + extracted OCaml model run against the Python implementation by harness/",
        }],
        "checks": checks,
        "notes": "See DESIGN.md. KNOWN_FINDINGS.txt lists recorded defects and fix: commits.",
        "not_applicable": [{"property_id": p, "reason": PENDING_REASON} for p in props if p not in CLAIMED],
    }
    extra = os.path.join(HERE, "tools", "manifest_extra.json")
    if os.path.exists(extra):
        e = json.load(open(extra))
        man["hooks"]["source_commits"] = e.get("source_commits", [])
    json.dump(man, open(os.path.join(HERE, "MANIFEST.json"), "w"), indent=1)
    print("MANIFEST.json:", len(checks), "checks,", len(man["not_applicable"]), "not applicable")


if __name__ == "__main__":
    main()
