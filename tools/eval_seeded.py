#!/usr/bin/env python3
"""Evaluate seeded changes: for each /verif/seeded/<id>/<name>/patch.diff
   1. in a scratch worktree of /repo (outside /repo and /verif): apply, run the pinned test suite and the demonstration;
   2. apply to /repo itself (git -C /repo apply), run the listed checks, undo (git -C /repo checkout -- .).
Writes the outcome into meta.json next to the patch.  Usage: eval_seeded.py [--stage dir] [ids or id/name ...]
   --stage DIR : evaluate candidates from DIR/<id>/m<k>.diff (agent output) and copy confirmed ones into /verif/seeded.
"""
import json
import os
import shutil
import subprocess
import sys
import tempfile
import time

VERIF = os.path.dirname(os.path.dirname(os.path.abspath(__file__)))
REPO = os.environ.get("VERIF_REPO", "/repo")
TESTS = ["/venv/bin/python", "-m", "pytest", "-q", "-p", "no:cacheprovider", "--timeout=900", "--continue-on-collection-errors"]


def sh(cmd, cwd=None, env=None, timeout=3600):
    e = dict(os.environ)
    e.update(env or {})
    p = subprocess.run(cmd, cwd=cwd, env=e, stdout=subprocess.PIPE, stderr=subprocess.STDOUT, text=True, timeout=timeout)
    return p.returncode, "\n".join(l for l in p.stdout.splitlines() if "conda" not in l)


def confirm(patch, demo):
    """scratch worktree: tests pass with the patch, demo fails with and passes without"""
    wt = tempfile.mkdtemp(prefix="seedwt_", dir="/tmp")
    os.rmdir(wt)
    out = {}
    try:
        rc, o = sh(["git", "-C", REPO, "worktree", "add", "-q", "--detach", wt, "HEAD"])
        assert rc == 0, o
        env = {"PYTHONPATH": wt, "PYTHONDONTWRITEBYTECODE": "1"}
        rc, o = sh(["/venv/bin/python", demo], cwd=wt, env=env, timeout=900)
        out["demo_clean_rc"] = rc
        rc, o = sh(["git", "-C", wt, "apply", patch])
        out["applies"] = rc == 0
        if rc != 0:
            out["apply_err"] = o[-300:]
            return out
        rc, o = sh(TESTS, cwd=wt, env=env, timeout=1800)
        out["tests_rc"] = rc
        out["tests_tail"] = o.strip().splitlines()[-1] if o.strip() else ""
        rc, o = sh(["/venv/bin/python", demo], cwd=wt, env=env, timeout=900)
        out["demo_patched_rc"] = rc
        out["demo_patched_out"] = o.strip()[-300:]
    finally:
        sh(["git", "-C", REPO, "worktree", "remove", "--force", wt])
        shutil.rmtree(wt, ignore_errors=True)
    out["confirmed"] = bool(out.get("applies") and out.get("tests_rc") == 0 and out.get("demo_patched_rc") == 1
                            and out.get("demo_clean_rc") == 0)
    return out


def run_checks(patch, props, tier="quick"):
    rc, o = sh(["git", "-C", REPO, "status", "--porcelain"])
    assert o.strip() == "", "/repo is not clean: " + o
    res = {}
    rc, o = sh(["git", "-C", REPO, "apply", patch])
    assert rc == 0, o
    try:
        for p in props:
            t0 = time.time()
            rc, o = sh([os.path.join(VERIF, "check"), p, "--tier", tier], cwd=VERIF, timeout=7200)
            lines = [l for l in o.splitlines() if l.startswith("VIOLATION")]
            res[p] = {"rc": rc, "violation_lines": lines[:3], "seconds": round(time.time() - t0, 1)}
            for l in lines[:1]:
                rp = l.split("replay=")[1].split()[0]
                try:
                    r = json.load(open(rp))
                    res[p]["replay_kind"] = r.get("kind") or r.get("what") or ""
                    res[p]["replay_head"] = json.dumps(r)[:400]
                except Exception as ex:
                    res[p]["replay_head"] = f"unreadable: {ex}"
    finally:
        sh(["git", "-C", REPO, "checkout", "--", "."])
        # the generated Coq files were regenerated from the MUTATED tree: regenerate them from the clean one
        sh(["/venv/bin/python", "-c",
            "import sys; sys.path.insert(0, %r); import core; print(core.regenerate(['CrcTables.v', 'TlbImpl.v', 'TlSchemaTable.v'], []))"
            % os.path.join(VERIF, "harness")], cwd=VERIF,
           env={"PYTHONPATH": REPO, "PYTHONHASHSEED": "0", "PYTONIQ_CORE_VERIF": "1"}, timeout=1200)
    return res


def main():
    args = sys.argv[1:]
    stage = None
    if args and args[0] == "--stage":
        stage = args[1]
        args = args[2:]
    prefix = ""
    if "--prefix" in args:
        i = args.index("--prefix")
        prefix = args[i + 1]
        args = args[:i] + args[i + 2:]
    extra_props = []
    if "--also" in args:
        i = args.index("--also")
        extra_props = args[i + 1].split(",")
        args = args[:i] + args[i + 2:]
    if stage:
        for pid in args or sorted(os.listdir(stage)):
            d = os.path.join(stage, pid)
            if not os.path.isdir(d):
                continue
            for k in (1, 2, 3, 4, 5):
                patch, demo, mj = (os.path.join(d, f) for f in (f"m{k}.diff", f"demo_m{k}.py", f"m{k}.json"))
                if not (os.path.exists(patch) and os.path.exists(demo)):
                    continue
                dest = os.path.join(VERIF, "seeded", pid, f"{prefix}m{k}")
                if os.path.exists(os.path.join(dest, "meta.json")):
                    continue
                c = confirm(patch, demo)
                print(pid, f"{prefix}m{k}", "confirm:", c, flush=True)
                if not c["confirmed"]:
                    continue
                os.makedirs(dest, exist_ok=True)
                shutil.copy(patch, os.path.join(dest, "patch.diff"))
                shutil.copy(demo, os.path.join(dest, "demo.py"))
                meta = {"property": pid, "round": 2 if prefix else 1,
                        "origin": "fresh sub-agent given only the property text and a scratch worktree"}
                try:
                    meta.update(json.load(open(mj)))
                except Exception:
                    pass
                meta["confirmation"] = c
                json.dump(meta, open(os.path.join(dest, "meta.json"), "w"), indent=1)
    # evaluate the checks on every kept change lacking a result
    for pid in sorted(os.listdir(os.path.join(VERIF, "seeded"))):
        if args and pid not in args:
            continue
        for name in sorted(os.listdir(os.path.join(VERIF, "seeded", pid))):
            dest = os.path.join(VERIF, "seeded", pid, name)
            mp = os.path.join(dest, "meta.json")
            if not os.path.exists(mp):
                continue
            meta = json.load(open(mp))
            if "checks" in meta and not os.environ.get("SEEDED_RERUN"):
                continue
            res = run_checks(os.path.join(dest, "patch.diff"), [pid] + extra_props)
            meta["checks"] = res
            meta["caught_by"] = [p for p, r in res.items() if r["rc"] != 0 and r["violation_lines"]]
            json.dump(meta, open(mp, "w"), indent=1)
            print(pid, name, "caught_by", meta["caught_by"], {p: (r["rc"], r["seconds"]) for p, r in res.items()}, flush=True)


if __name__ == "__main__":
    main()
