"""Builder/Slice operation sequences: Python-side interpreter and generators (C06, C07).

op tuples: ('u', w, v) ('i', w, v) ('vu', k, v) ('vi', k, v) ('c', v) ('b', 0|1) ('bits', '0101')
('bytes', hex) ('str', hex) ('ref', i) ('mref', i|None) ('addr', 'none') ('addr','ext',len,v)
('addr','std',wc,hashhex[,depth,pfx]) ('cell', i) ('slice', i, skipbits, skiprefs) ('snake', hex)"""
import cells
import core


def hz(v):
    return format(v, "x") if v >= 0 else "-" + format(-v, "x")


def op_tok(op):
    k = op[0]
    if k in ("u", "i", "vu", "vi"):
        return f"{k}:{hz(op[1])}:{hz(op[2])}"
    if k == "c":
        return f"c:{hz(op[1])}"
    if k == "b":
        return f"b:{op[1]}"
    if k in ("bits", "bytes", "str", "snake"):
        return f"{k}:{op[1] or '-'}"
    if k == "ref":
        return f"ref:{op[1]}"
    if k == "mref":
        return "mref:n" if op[1] is None else f"mref:{op[1]}"
    if k == "addr":
        if op[1] == "none":
            return "addr:none"
        if op[1] == "ext":
            return f"addr:ext:{hz(op[2])}:{hz(op[3])}"
        t = f"addr:std:{hz(op[2])}:{op[3] or '-'}"
        if len(op) > 4:
            t += f":{hz(op[4])}:{hz(op[5])}"
        return t
    if k == "cell":
        return f"cell:{op[1]}"
    if k == "slice":
        return f"slice:{op[1]}:{op[2]}:{op[3]}"
    raise ValueError(op)


def ty_tok(op):
    k = op[0]
    if k in ("u", "i", "vu", "vi"):
        return f"{k}:{hz(op[1])}"
    if k == "c":
        return "c"
    if k == "b":
        return "b"
    if k == "bits":
        return f"bits:{len(op[1])}"
    if k == "bytes":
        return f"bytes:{len(op[1]) // 2}"
    if k in ("ref", "mref", "addr"):
        return k
    raise ValueError(op)


def line(cmd, dag, ops):
    return f"{cmd} {cells.dag_line(dag)} " + " ".join(op_tok(o) for o in ops)


def tag(c):
    b = c.bits.to01()
    return f"c{len(b)}.{len(c.refs)}.{b[:16] or '-'}"


def mk_addr(op):
    from pytoniq_core.boc.address import Address, ExternalAddress
    if op[1] == "none":
        return None
    if op[1] == "ext":
        return ExternalAddress(op[3], op[2])
    a = Address((op[2], bytes.fromhex(op[3])))
    if len(op) > 4:
        a.set_anycast(op[4], op[5])
    return a


def show_addr(a):
    from pytoniq_core.boc.address import ExternalAddress
    if a is None:
        return "none"
    if isinstance(a, ExternalAddress):
        return f"ext:{hz(a.len)}:{hz(a.external_address)}"
    t = f"std:{hz(a.wc)}:{a.hash_part.hex() or '-'}"
    if a.anycast is not None:
        t += f":{hz(a.anycast.depth)}:{hz(a.anycast.rewrite_pfx)}"
    return t


def apply(b, op, objs):
    k = op[0]
    if k == "u":
        b.store_uint(op[2], op[1])
    elif k == "i":
        b.store_int(op[2], op[1])
    elif k == "vu":
        b.store_var_uint(op[2], op[1])
    elif k == "vi":
        b.store_var_int(op[2], op[1])
    elif k == "c":
        b.store_coins(op[1])
    elif k == "b":
        b.store_bit(op[1])
    elif k == "bits":
        b.store_bits(op[1])
    elif k == "bytes":
        b.store_bytes(bytes.fromhex(op[1]))
    elif k == "str":
        b.store_string(bytes.fromhex(op[1]).decode())
    elif k == "ref":
        b.store_ref(objs[op[1]])
    elif k == "mref":
        b.store_maybe_ref(None if op[1] is None else objs[op[1]])
    elif k == "addr":
        b.store_address(mk_addr(op))
    elif k == "cell":
        b.store_cell(objs[op[1]])
    elif k == "slice":
        b.store_slice(mk_slice(objs[op[1]], op[2], op[3]))
    elif k == "snake":
        b.store_snake_bytes(bytes.fromhex(op[1]))
    else:
        raise ValueError(op)


def mk_slice(c, sb, sr):
    s = c.begin_parse()
    s.skip_bits(min(sb, len(s.bits)))
    for _ in range(min(sr, len(s.refs))):
        s.load_ref()
    return s


def load(s, op, peek=False):
    k = op[0]
    p = "preload_" if peek else "load_"
    if k == "u":
        return hz(getattr(s, p + "uint")(op[1]))
    if k == "i":
        return hz(getattr(s, p + "int")(op[1]))
    if k == "vu":
        return hz(getattr(s, p + "var_uint")(op[1]))
    if k == "vi":
        return hz(getattr(s, p + "var_int")(op[1]))
    if k == "c":
        return hz(getattr(s, p + "coins")())
    if k == "b":
        return str(int(getattr(s, p + "bit")()))
    if k == "bits":
        return getattr(s, p + "bits")(op[1] if isinstance(op[1], int) else len(op[1])).to01() or "-"
    if k == "bytes":
        return getattr(s, p + "bytes")(op[1] if isinstance(op[1], int) else len(op[1]) // 2).hex() or "-"
    if k == "ref":
        return tag(getattr(s, p + "ref")())
    if k == "mref":
        r = getattr(s, p + "maybe_ref")()
        return "n" if r is None else tag(r)
    if k == "addr":
        return show_addr(getattr(s, p + "address")())
    raise ValueError(op)


def err_kind(e):
    return core.ERR_KINDS.get(type(e).__name__, "Other")


def py_rt(case):
    dag, ops = case
    from pytoniq_core.boc.builder import Builder
    objs = cells.build_py(dag)
    b = Builder()
    for k, op in enumerate(ops):
        try:
            apply(b, op, objs)
        except RecursionError:
            return f"err@{k} Recursion"
        except Exception as e:
            return f"err@{k} {err_kind(e)}"
    head = f"ok bits={b.bits.to01() or '-'} refs={','.join(tag(c) for c in b.refs) or '-'}"
    vals = all(o[0] not in ("cell", "slice", "str", "snake") for o in ops)
    if not vals:
        return head + " loads=-"
    try:
        c = b.end_cell()
    except Exception:
        return head + " endcell=err"
    s = c.begin_parse()
    out = []
    pk = True
    for op in ops:
        try:
            try:
                pv = load(s, op, peek=True)
            except Exception:
                pv = None
            v = load(s, op)
            pk = pk and (pv == v)
            out.append(v)
        except Exception as e:
            out.append("err:" + err_kind(e))
            break
    return (f"{head} loads={'|'.join(out) or '-'} rest={len(s.bits)}/{len(s.refs) - s.ref_offset} "
            f"peek={int(pk)} senc=?")


def py_ld(case):
    dag, ci, sb, sr, tys = case
    objs = cells.build_py(dag)
    s = mk_slice(objs[ci], sb, sr)
    out = []
    for k, t in enumerate(tys):
        try:
            out.append(load(s, t))
        except Exception as e:
            return f"err@{k} {err_kind(e)}"
    return f"ok {'|'.join(out) or '-'} rest={len(s.bits)}/{len(s.refs) - s.ref_offset}"


def ld_line(case):
    dag, ci, sb, sr, tys = case
    return f"ld {cells.dag_line(dag)} {ci} {sb} {sr} " + " ".join(ld_ty_tok(t) for t in tys)


def ld_ty_tok(t):
    k = t[0]
    if k in ("u", "i", "vu", "vi"):
        return f"{k}:{hz(t[1])}"
    if k in ("bits", "bytes"):
        return f"{k}:{t[1]}"
    return k


def expected_loads(ops):
    out = []
    for op in ops:
        k = op[0]
        if k in ("u", "i", "vu", "vi"):
            out.append(hz(op[2]))
        elif k == "c":
            out.append(hz(op[1]))
        elif k == "b":
            out.append(str(op[1]))
        elif k in ("bits", "bytes"):
            out.append(op[1] or "-")
        else:
            out.append(None)   # refs / addresses compared through the model
    return out


# ------------------------------------------------------------------ generators
def boundary_ints(w, signed):
    if signed:
        lo, hi = -(1 << (w - 1)), (1 << (w - 1)) - 1
    else:
        lo, hi = 0, (1 << w) - 1
    vs = {lo, hi, 0, 1, hi - 1, lo + 1, hi // 2}
    if signed:
        vs |= {-1, -2}
    return [v for v in vs if lo <= v <= hi], [lo - 1, hi + 1]


def rand_val_op(rng, pool_n):
    k = rng.choice(["u", "u", "i", "i", "vu", "vi", "c", "b", "bits", "bytes", "ref", "mref", "addr", "addr"])
    if k in ("u", "i"):
        w = rng.choice([1, 2, 3, 7, 8, 9, 16, 31, 32, 33, 63, 64, 65, 127, 128, 255, 256, 257, rng.randrange(1, 258)])
        good, _ = boundary_ints(w, k == "i")
        lo, hi = (-(1 << (w - 1)), (1 << (w - 1)) - 1) if k == "i" else (0, (1 << w) - 1)
        v = rng.choice(good + [rng.randint(lo, hi)] * 2)
        return (k, w, v)
    if k in ("vu", "vi"):
        kk = rng.choice([3, 4, 4, 5])
        maxlen = (1 << kk) - 1
        ln = rng.randrange(0, maxlen + 1)
        return (k, kk, var_value(rng, ln, k == "vi"))
    if k == "c":
        return ("c", var_value(rng, rng.randrange(0, 16), False))
    if k == "b":
        return ("b", rng.randrange(2))
    if k == "bits":
        return ("bits", cells.rand_bits(rng, rng.choice([0, 1, 5, 8, 13, 64])))
    if k == "bytes":
        return ("bytes", rng.randbytes(rng.choice([0, 1, 2, 5, 32])).hex())
    if k == "ref":
        return ("ref", rng.randrange(pool_n))
    if k == "mref":
        return ("mref", rng.choice([None, rng.randrange(pool_n)]))
    return rand_addr(rng)


def var_value(rng, ln, signed):
    """A value whose minimal byte length is exactly ln, biased to the class boundaries."""
    if ln == 0:
        return 0
    if not signed:
        lo, hi = (1 << (8 * (ln - 1))) if ln > 1 else 1, (1 << (8 * ln)) - 1
        return rng.choice([lo, hi, rng.randint(lo, hi), hi - 1, lo + 1 if lo + 1 <= hi else lo])
    hi = (1 << (8 * ln - 1)) - 1
    lo = -(1 << (8 * ln - 1))
    if ln == 1:
        inner_hi, inner_lo = 0, 0
        cands = [1, -1, hi, lo, rng.randint(1, hi), rng.randint(lo, -1)]
    else:
        inner_hi = (1 << (8 * (ln - 1) - 1)) - 1
        inner_lo = -(1 << (8 * (ln - 1) - 1))
        cands = [inner_hi + 1, inner_lo - 1, hi, lo, rng.randint(inner_hi + 1, hi), rng.randint(lo, inner_lo - 1)]
    return rng.choice(cands)


def rand_addr(rng):
    k = rng.choice(["none", "ext", "std", "std", "any"])
    if k == "none":
        return ("addr", "none")
    if k == "ext":
        ln = rng.choice([0, 1, 2, 8, 9, 64, 255, 256, 511, rng.randrange(1, 512)])
        return ("addr", "ext", ln, rng.choice([0, 1, (1 << ln) - 1, rng.randrange(1 << ln)]) if ln else 0)
    wc = rng.choice([0, -1, 127, -128, rng.randrange(-128, 128)])
    h = rng.randbytes(32).hex()
    if k == "std":
        return ("addr", "std", wc, h)
    d = rng.choice([1, 2, 5, 30, rng.randrange(1, 31)])
    return ("addr", "std", wc, h, d, rng.choice([0, (1 << d) - 1, rng.randrange(1 << d)]))


def op_bits(op, dag):
    """Number of bits / refs an op needs (harness-side estimate used only to pack sequences)."""
    k = op[0]
    if k in ("u", "i"):
        return op[1], 0
    if k in ("vu", "vi", "c"):
        kk, v = (4, op[1]) if k == "c" else (op[1], op[2])
        if v == 0:
            return kk, 0
        bl = (v if v >= 0 else ~v).bit_length() + (1 if k == "vi" else 0)
        return kk + 8 * ((bl + 7) // 8), 0
    if k == "b":
        return 1, 0
    if k == "bits":
        return len(op[1]), 0
    if k in ("bytes", "str"):
        return 4 * len(op[1]), 0
    if k == "ref":
        return 0, 1
    if k == "mref":
        return 1, 0 if op[1] is None else 1
    if k == "addr":
        if op[1] == "none":
            return 2, 0
        if op[1] == "ext":
            return 11 + op[2], 0
        return 267 + (5 + op[4] if len(op) > 4 else 0), 0
    if k == "cell":
        return len(dag[op[1]][1]), len(dag[op[1]][2])
    if k == "slice":
        return max(0, len(dag[op[1]][1]) - op[2]), max(0, len(dag[op[1]][2]) - op[3])
    return 0, 0


def pool_dag(rng, n=5):
    """A few distinguishable cells to use as refs / cells / slices."""
    dag = [(-1, cells.rand_bits(rng, rng.choice([17, 20, 33])), [])]
    for i in range(1, n):
        k = rng.choice([0, 1, 2, 3, 4])
        refs = [rng.randrange(i) for _ in range(min(k, i))]
        dag.append((-1, cells.rand_bits(rng, rng.choice([16, 40, 100, 300, 700, 1023])), refs))
    return dag


def packed_sequence(rng, dag, fill_bias=False):
    """A sequence of valid value ops that fits in one cell."""
    ops, bits, refs = [], 0, 0
    target = rng.choice([1023, 1023, 1000, 500, 100]) if fill_bias else 1023
    for _ in range(rng.randrange(1, 14)):
        op = rand_val_op(rng, len(dag))
        nb, nr = op_bits(op, dag)
        if bits + nb > target or refs + nr > 4:
            continue
        ops.append(op)
        bits += nb
        refs += nr
    if fill_bias and bits < 1023 and rng.random() < 0.5:
        w = 1023 - bits
        if 1 <= w:
            ops.append(("bits", cells.rand_bits(rng, w)))
    return ops


def strip_senc(c, m):
    import re
    return re.sub(r" senc=\w+", " senc=?", m)


# ---------------------------------------------------------------------------------------------------------------------
# generic oracles on the implementation (used by C06, C07, C08): refused operations, over-reads, views
def refused_store_case(seed):
    """random store sequence on one builder; every operation that raises must leave the builder exactly as it was
    (bits and references), and the cell finally taken holds exactly the accepted operations' content"""
    import random
    from pytoniq_core.boc.builder import Builder
    from pytoniq_core.boc.cell import Cell
    rng = random.Random(seed)
    dag = pool_dag(rng, 4)
    objs = cells.build_py(dag)
    kid = Cell.empty()
    fat = [Cell(cells.tvm_bits("10" * 300), [kid] * r, -1) for r in (0, 1, 2, 3, 4)]       # 600 bits, r references
    b = Builder()
    for step in range(rng.randrange(3, 14)):
        before = (b.bits.to01(), [id(r) for r in b.refs])
        # "op" (composite writers such as store_coins / store_address write their length or tag first and are not atomic
        # in the library as it is; no property asks for that) only counts towards the capacity; the operations below are
        # the ones the C08 heap model covers plus the primitive integer writers
        kind = rng.choice(["op", "op", "cell", "slice", "slice-part", "bad-int", "bytes", "ref"])
        try:
            if kind == "op":
                apply(b, rand_val_op(rng, len(dag)), objs)
            elif kind == "cell":
                b.store_cell(rng.choice(fat))
            elif kind == "slice":
                b.store_slice(rng.choice(fat).begin_parse())
            elif kind == "slice-part":
                s = rng.choice(fat[1:]).begin_parse()
                s.load_ref()
                s.load_bits(rng.choice([0, 7, 100]))
                b.store_slice(s)
            elif kind == "bad-int":
                w = rng.choice([1, 8, 32, 64])
                rng.choice([lambda: b.store_uint(1 << w, w), lambda: b.store_int(1 << (w - 1), w), lambda: b.store_uint(-1, w),
                            lambda: b.store_int(-(1 << (w - 1)) - 1, w)])()
            elif kind == "bytes":
                b.store_bytes(rng.randbytes(rng.choice([1, 64, 100, 128])))
            else:
                b.store_ref(rng.choice(objs))
        except Exception as e:
            after = (b.bits.to01(), [id(r) for r in b.refs])
            if len(after[0]) > 1023 or len(after[1]) > 4:
                return f"a refused {kind} left the builder beyond the capacity: {len(after[0])} bits / {len(after[1])} refs"
            if after != before and kind != "op":
                return (f"a refused {kind} ({type(e).__name__}) left the builder changed: {len(before[0])} bits/{len(before[1])} refs "
                        f"-> {len(after[0])} bits/{len(after[1])} refs")
            continue
        if len(b.bits) > 1023 or len(b.refs) > 4:
            return f"{kind} accepted beyond the capacity: {len(b.bits)} bits / {len(b.refs)} refs"
    snap = (b.bits.to01(), [r.hash for r in b.refs])
    try:
        c = b.end_cell()
    except Exception as e:
        return f"end_cell() failed after refused operations: {type(e).__name__}"
    if len(c.bits) > 1023 or len(c.refs) > 4:
        return f"a cell beyond the capacity was produced: {len(c.bits)} bits / {len(c.refs)} refs"
    if (c.bits.to01(), [r.hash for r in c.refs]) != snap:
        return "end_cell() does not hold the builder's content"
    return "ok"


def overread_case(seed):
    """every loader / peek / skip of the Slice must refuse to go beyond the remaining data, and leave the slice as it was"""
    import random
    from pytoniq_core.boc.builder import Builder
    rng = random.Random(seed)
    n = rng.choice([0, 1, 3, 7, 8, 9, 15, 16, 31, 32, 64, 100])
    c = Builder().store_bits(cells.rand_bits(rng, n)).end_cell()
    over = n + rng.choice([1, 1, 2, 8, 9, 64])
    attempts = {
        # consuming reads only (C07's wording); the peek variants are not required to raise
        "load_bits": lambda s: s.load_bits(over), "load_uint": lambda s: s.load_uint(over), "load_int": lambda s: s.load_int(over),
        "skip_bits": lambda s: s.skip_bits(over), "load_bytes": lambda s: s.load_bytes(n // 8 + 1),
        "load_string": lambda s: s.load_string(n // 8 + 1), "load_ref": lambda s: s.load_ref(),
    }
    if n == 0:
        attempts.update({"load_bit": lambda s: s.load_bit(), "load_bool": lambda s: s.load_bool(), "load_coins": lambda s: s.load_coins(),
                         "load_maybe_ref": lambda s: s.load_maybe_ref(), "load_var_uint": lambda s: s.load_var_uint(16),
                         "load_address": lambda s: s.load_address()})
    for name, f in attempts.items():
        s = c.begin_parse()
        try:
            r = f(s)
        except Exception:
            if s.bits.to01() != c.bits.to01():
                return f"{name}: a refused read changed the slice"
            continue
        return f"{name}: reading beyond the {n} remaining bits was not refused (returned {str(r)[:30]})"
    # truncated typed values: coins / var-uint whose announced length exceeds the data
    t = Builder().store_uint(5, 4).store_uint(1, 8).end_cell()       # coins announcing 5 bytes, 1 byte present
    for name, f in (("load_coins", lambda s: s.load_coins()), ("load_var_uint", lambda s: s.load_var_uint(16))):
        try:
            r = f(t.begin_parse())
        except Exception:
            continue
        return f"{name}: a truncated value was returned as {r}"
    return "ok"


def views_case(seed):
    """slices and cells taken from a builder are snapshots: reading them must not change the builder, and vice versa"""
    import random
    from pytoniq_core.boc.builder import Builder
    rng = random.Random(seed)
    bits = cells.rand_bits(rng, rng.choice([8, 40, 200]))
    kid = Builder().store_uint(1, 1).end_cell()
    b = Builder().store_bits(bits).store_ref(kid)
    s = b.to_slice()
    s.load_bits(5)
    s.load_ref()
    if b.bits.to01() != bits or len(b.refs) != 1:
        return "reading a slice taken with Builder.to_slice() changed the builder"
    c = b.end_cell()
    if c.bits.to01() != bits or len(c.refs) != 1:
        return "end_cell() after reading builder.to_slice() lost content"
    s2 = c.begin_parse()
    b.store_bits("1")
    if s2.bits.to01() != bits or c.bits.to01() != bits:
        return "storing into the builder changed a cell/slice taken from it earlier"
    # a builder created with another capacity must not influence builders created independently
    other = Builder()
    try:
        Builder(size=64)
    except TypeError:
        pass
    try:
        other.store_bits("1" * 1000)
    except Exception as e:
        return f"an independent Builder refused 1000 bits after Builder(size=64) had been created: {type(e).__name__}"
    return "ok"


def shared_state_case(seed):
    """independent calls must not influence each other: parsing a bag twice (the caller having emptied the first result),
    loading the same account address with and without an anycast prefix from different cells"""
    import random
    from pytoniq_core.boc.builder import Builder
    from pytoniq_core.boc.cell import Cell
    from pytoniq_core.boc.slice import Slice
    from pytoniq_core.boc.address import Address
    rng = random.Random(seed)
    root = Builder().store_uint(rng.getrandbits(32), 32).store_ref(Builder().store_uint(seed & 255, 8).end_cell()).end_cell()
    blob = root.to_boc()
    first = Cell.from_boc(blob)
    if len(first) != 1 or first[0].hash != root.hash:
        return "from_boc: wrong roots"
    first.clear()
    first.append(None)
    for name, f in (("Cell.from_boc", lambda: Cell.from_boc(blob)), ("Builder.from_boc", lambda: Builder.from_boc(blob))):
        again = f()
        if len(again) != 1 or again[0] is None or again[0].hash != root.hash:
            return f"{name}: the result of an earlier parse, modified by the caller, came back on the next parse"
    if Cell.one_from_boc(blob).hash != root.hash or Slice.one_from_boc(blob).to_cell().hash != root.hash:
        return "one_from_boc: wrong root after an earlier parse"
    # the same account with and without anycast, in both orders
    wc, h = rng.choice([0, -1]), rng.randbytes(32)
    plain = "100" + format(wc & 0xFF, "08b") + format(int.from_bytes(h, "big"), "0256b")
    depth = rng.randrange(1, 31)
    pfx = cells.rand_bits(rng, depth)
    anyc = "10" + "1" + format(depth, "05b") + pfx + format(wc & 0xFF, "08b") + format(int.from_bytes(h, "big"), "0256b")
    order = [plain, anyc] if seed % 2 else [anyc, plain]
    loaded = [Builder().store_bits(t).end_cell().begin_parse().load_address() for t in order]
    for t, a in zip(order, loaded):
        back = Builder().store_address(a).end_cell().bits.to01()
        if back != t:
            return (f"address loaded from one cell was changed by loading the same account from another cell: "
                    f"{len(t)} bits stored back as {len(back)}")
    return "ok"
