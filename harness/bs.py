"""Builder/Slice operation sequences: Python-side interpreter and generators (C06, C07).

op tuples: ('u', w, v) ('i', w, v) ('vu', k, v) ('vi', k, v) ('c', v) ('b', 0|1) ('bits', '0101')
('bytes', hex) ('str', hex) ('ref', i) ('mref', i|None) ('addr', 'none') ('addr','ext',len,v)
('addr','std',wc,hashhex[,depth,pfx]) ('cell', i) ('slice', i, skipbits, skiprefs) ('snake', hex)"""
import cells
import core


def hz(v):
    return format(v, "x") if v >= 0 else "-" + format(-v, "x")


def op_tok(op):
    k = op[0]
    if k in ("u", "i", "vu", "vi"):
        return f"{k}:{hz(op[1])}:{hz(op[2])}"
    if k == "c":
        return f"c:{hz(op[1])}"
    if k == "b":
        return f"b:{op[1]}"
    if k in ("bits", "bytes", "str", "snake"):
        return f"{k}:{op[1] or '-'}"
    if k == "ref":
        return f"ref:{op[1]}"
    if k == "mref":
        return "mref:n" if op[1] is None else f"mref:{op[1]}"
    if k == "addr":
        if op[1] == "none":
            return "addr:none"
        if op[1] == "ext":
            return f"addr:ext:{hz(op[2])}:{hz(op[3])}"
        t = f"addr:std:{hz(op[2])}:{op[3] or '-'}"
        if len(op) > 4:
            t += f":{hz(op[4])}:{hz(op[5])}"
        return t
    if k == "cell":
        return f"cell:{op[1]}"
    if k == "slice":
        return f"slice:{op[1]}:{op[2]}:{op[3]}"
    raise ValueError(op)


def ty_tok(op):
    k = op[0]
    if k in ("u", "i", "vu", "vi"):
        return f"{k}:{hz(op[1])}"
    if k == "c":
        return "c"
    if k == "b":
        return "b"
    if k == "bits":
        return f"bits:{len(op[1])}"
    if k == "bytes":
        return f"bytes:{len(op[1]) // 2}"
    if k in ("ref", "mref", "addr"):
        return k
    raise ValueError(op)


def line(cmd, dag, ops):
    return f"{cmd} {cells.dag_line(dag)} " + " ".join(op_tok(o) for o in ops)


def tag(c):
    b = c.bits.to01()
    return f"c{len(b)}.{len(c.refs)}.{b[:16] or '-'}"


def mk_addr(op):
    from pytoniq_core.boc.address import Address, ExternalAddress
    if op[1] == "none":
        return None
    if op[1] == "ext":
        return ExternalAddress(op[3], op[2])
    a = Address((op[2], bytes.fromhex(op[3])))
    if len(op) > 4:
        a.set_anycast(op[4], op[5])
    return a


def show_addr(a):
    from pytoniq_core.boc.address import ExternalAddress
    if a is None:
        return "none"
    if isinstance(a, ExternalAddress):
        return f"ext:{hz(a.len)}:{hz(a.external_address)}"
    t = f"std:{hz(a.wc)}:{a.hash_part.hex() or '-'}"
    if a.anycast is not None:
        t += f":{hz(a.anycast.depth)}:{hz(a.anycast.rewrite_pfx)}"
    return t


def apply(b, op, objs):
    k = op[0]
    if k == "u":
        b.store_uint(op[2], op[1])
    elif k == "i":
        b.store_int(op[2], op[1])
    elif k == "vu":
        b.store_var_uint(op[2], op[1])
    elif k == "vi":
        b.store_var_int(op[2], op[1])
    elif k == "c":
        b.store_coins(op[1])
    elif k == "b":
        b.store_bit(op[1])
    elif k == "bits":
        b.store_bits(op[1])
    elif k == "bytes":
        b.store_bytes(bytes.fromhex(op[1]))
    elif k == "str":
        b.store_string(bytes.fromhex(op[1]).decode())
    elif k == "ref":
        b.store_ref(objs[op[1]])
    elif k == "mref":
        b.store_maybe_ref(None if op[1] is None else objs[op[1]])
    elif k == "addr":
        b.store_address(mk_addr(op))
    elif k == "cell":
        b.store_cell(objs[op[1]])
    elif k == "slice":
        b.store_slice(mk_slice(objs[op[1]], op[2], op[3]))
    elif k == "snake":
        b.store_snake_bytes(bytes.fromhex(op[1]))
    else:
        raise ValueError(op)


def mk_slice(c, sb, sr):
    s = c.begin_parse()
    s.skip_bits(min(sb, len(s.bits)))
    for _ in range(min(sr, len(s.refs))):
        s.load_ref()
    return s


def load(s, op, peek=False):
    k = op[0]
    p = "preload_" if peek else "load_"
    if k == "u":
        return hz(getattr(s, p + "uint")(op[1]))
    if k == "i":
        return hz(getattr(s, p + "int")(op[1]))
    if k == "vu":
        return hz(getattr(s, p + "var_uint")(op[1]))
    if k == "vi":
        return hz(getattr(s, p + "var_int")(op[1]))
    if k == "c":
        return hz(getattr(s, p + "coins")())
    if k == "b":
        return str(int(getattr(s, p + "bit")()))
    if k == "bits":
        return getattr(s, p + "bits")(op[1] if isinstance(op[1], int) else len(op[1])).to01() or "-"
    if k == "bytes":
        return getattr(s, p + "bytes")(op[1] if isinstance(op[1], int) else len(op[1]) // 2).hex() or "-"
    if k == "ref":
        return tag(getattr(s, p + "ref")())
    if k == "mref":
        r = getattr(s, p + "maybe_ref")()
        return "n" if r is None else tag(r)
    if k == "addr":
        return show_addr(getattr(s, p + "address")())
    raise ValueError(op)


def err_kind(e):
    return core.ERR_KINDS.get(type(e).__name__, "Other")


def py_rt(case):
    dag, ops = case
    from pytoniq_core.boc.builder import Builder
    objs = cells.build_py(dag)
    b = Builder()
    for k, op in enumerate(ops):
        try:
            apply(b, op, objs)
        except RecursionError:
            return f"err@{k} Recursion"
        except Exception as e:
            return f"err@{k} {err_kind(e)}"
    head = f"ok bits={b.bits.to01() or '-'} refs={','.join(tag(c) for c in b.refs) or '-'}"
    vals = all(o[0] not in ("cell", "slice", "str", "snake") for o in ops)
    if not vals:
        return head + " loads=-"
    try:
        c = b.end_cell()
    except Exception:
        return head + " endcell=err"
    s = c.begin_parse()
    out = []
    pk = True
    for op in ops:
        try:
            try:
                pv = load(s, op, peek=True)
            except Exception:
                pv = None
            v = load(s, op)
            pk = pk and (pv == v)
            out.append(v)
        except Exception as e:
            out.append("err:" + err_kind(e))
            break
    return (f"{head} loads={'|'.join(out) or '-'} rest={len(s.bits)}/{len(s.refs) - s.ref_offset} "
            f"peek={int(pk)} senc=?")


def py_ld(case):
    dag, ci, sb, sr, tys = case
    objs = cells.build_py(dag)
    s = mk_slice(objs[ci], sb, sr)
    out = []
    for k, t in enumerate(tys):
        try:
            out.append(load(s, t))
        except Exception as e:
            return f"err@{k} {err_kind(e)}"
    return f"ok {'|'.join(out) or '-'} rest={len(s.bits)}/{len(s.refs) - s.ref_offset}"


def ld_line(case):
    dag, ci, sb, sr, tys = case
    return f"ld {cells.dag_line(dag)} {ci} {sb} {sr} " + " ".join(ld_ty_tok(t) for t in tys)


def ld_ty_tok(t):
    k = t[0]
    if k in ("u", "i", "vu", "vi"):
        return f"{k}:{hz(t[1])}"
    if k in ("bits", "bytes"):
        return f"{k}:{t[1]}"
    return k


def expected_loads(ops):
    out = []
    for op in ops:
        k = op[0]
        if k in ("u", "i", "vu", "vi"):
            out.append(hz(op[2]))
        elif k == "c":
            out.append(hz(op[1]))
        elif k == "b":
            out.append(str(op[1]))
        elif k in ("bits", "bytes"):
            out.append(op[1] or "-")
        else:
            out.append(None)   # refs / addresses compared through the model
    return out


# ------------------------------------------------------------------ generators
def boundary_ints(w, signed):
    if signed:
        lo, hi = -(1 << (w - 1)), (1 << (w - 1)) - 1
    else:
        lo, hi = 0, (1 << w) - 1
    vs = {lo, hi, 0, 1, hi - 1, lo + 1, hi // 2}
    if signed:
        vs |= {-1, -2}
    return [v for v in vs if lo <= v <= hi], [lo - 1, hi + 1]


def rand_val_op(rng, pool_n):
    k = rng.choice(["u", "u", "i", "i", "vu", "vi", "c", "b", "bits", "bytes", "ref", "mref", "addr", "addr"])
    if k in ("u", "i"):
        w = rng.choice([1, 2, 3, 7, 8, 9, 16, 31, 32, 33, 63, 64, 65, 127, 128, 255, 256, 257, rng.randrange(1, 258)])
        good, _ = boundary_ints(w, k == "i")
        lo, hi = (-(1 << (w - 1)), (1 << (w - 1)) - 1) if k == "i" else (0, (1 << w) - 1)
        v = rng.choice(good + [rng.randint(lo, hi)] * 2)
        return (k, w, v)
    if k in ("vu", "vi"):
        kk = rng.choice([3, 4, 4, 5])
        maxlen = (1 << kk) - 1
        ln = rng.randrange(0, maxlen + 1)
        return (k, kk, var_value(rng, ln, k == "vi"))
    if k == "c":
        return ("c", var_value(rng, rng.randrange(0, 16), False))
    if k == "b":
        return ("b", rng.randrange(2))
    if k == "bits":
        return ("bits", cells.rand_bits(rng, rng.choice([0, 1, 5, 8, 13, 64])))
    if k == "bytes":
        return ("bytes", rng.randbytes(rng.choice([0, 1, 2, 5, 32])).hex())
    if k == "ref":
        return ("ref", rng.randrange(pool_n))
    if k == "mref":
        return ("mref", rng.choice([None, rng.randrange(pool_n)]))
    return rand_addr(rng)


def var_value(rng, ln, signed):
    """A value whose minimal byte length is exactly ln, biased to the class boundaries."""
    if ln == 0:
        return 0
    if not signed:
        lo, hi = (1 << (8 * (ln - 1))) if ln > 1 else 1, (1 << (8 * ln)) - 1
        return rng.choice([lo, hi, rng.randint(lo, hi), hi - 1, lo + 1 if lo + 1 <= hi else lo])
    hi = (1 << (8 * ln - 1)) - 1
    lo = -(1 << (8 * ln - 1))
    if ln == 1:
        inner_hi, inner_lo = 0, 0
        cands = [1, -1, hi, lo, rng.randint(1, hi), rng.randint(lo, -1)]
    else:
        inner_hi = (1 << (8 * (ln - 1) - 1)) - 1
        inner_lo = -(1 << (8 * (ln - 1) - 1))
        cands = [inner_hi + 1, inner_lo - 1, hi, lo, rng.randint(inner_hi + 1, hi), rng.randint(lo, inner_lo - 1)]
    return rng.choice(cands)


def rand_addr(rng):
    k = rng.choice(["none", "ext", "std", "std", "any"])
    if k == "none":
        return ("addr", "none")
    if k == "ext":
        ln = rng.choice([0, 1, 2, 8, 9, 64, 255, 256, 511, rng.randrange(1, 512)])
        return ("addr", "ext", ln, rng.choice([0, 1, (1 << ln) - 1, rng.randrange(1 << ln)]) if ln else 0)
    wc = rng.choice([0, -1, 127, -128, rng.randrange(-128, 128)])
    h = rng.randbytes(32).hex()
    if k == "std":
        return ("addr", "std", wc, h)
    d = rng.choice([1, 2, 5, 30, rng.randrange(1, 31)])
    return ("addr", "std", wc, h, d, rng.choice([0, (1 << d) - 1, rng.randrange(1 << d)]))


def op_bits(op, dag):
    """Number of bits / refs an op needs (harness-side estimate used only to pack sequences)."""
    k = op[0]
    if k in ("u", "i"):
        return op[1], 0
    if k in ("vu", "vi", "c"):
        kk, v = (4, op[1]) if k == "c" else (op[1], op[2])
        if v == 0:
            return kk, 0
        bl = (v if v >= 0 else ~v).bit_length() + (1 if k == "vi" else 0)
        return kk + 8 * ((bl + 7) // 8), 0
    if k == "b":
        return 1, 0
    if k == "bits":
        return len(op[1]), 0
    if k in ("bytes", "str"):
        return 4 * len(op[1]), 0
    if k == "ref":
        return 0, 1
    if k == "mref":
        return 1, 0 if op[1] is None else 1
    if k == "addr":
        if op[1] == "none":
            return 2, 0
        if op[1] == "ext":
            return 11 + op[2], 0
        return 267 + (5 + op[4] if len(op) > 4 else 0), 0
    if k == "cell":
        return len(dag[op[1]][1]), len(dag[op[1]][2])
    if k == "slice":
        return max(0, len(dag[op[1]][1]) - op[2]), max(0, len(dag[op[1]][2]) - op[3])
    return 0, 0


def pool_dag(rng, n=5):
    """A few distinguishable cells to use as refs / cells / slices."""
    dag = [(-1, cells.rand_bits(rng, rng.choice([17, 20, 33])), [])]
    for i in range(1, n):
        k = rng.choice([0, 1, 2, 3, 4])
        refs = [rng.randrange(i) for _ in range(min(k, i))]
        dag.append((-1, cells.rand_bits(rng, rng.choice([16, 40, 100, 300, 700, 1023])), refs))
    return dag


def packed_sequence(rng, dag, fill_bias=False):
    """A sequence of valid value ops that fits in one cell."""
    ops, bits, refs = [], 0, 0
    target = rng.choice([1023, 1023, 1000, 500, 100]) if fill_bias else 1023
    for _ in range(rng.randrange(1, 14)):
        op = rand_val_op(rng, len(dag))
        nb, nr = op_bits(op, dag)
        if bits + nb > target or refs + nr > 4:
            continue
        ops.append(op)
        bits += nb
        refs += nr
    if fill_bias and bits < 1023 and rng.random() < 0.5:
        w = 1023 - bits
        if 1 <= w:
            ops.append(("bits", cells.rand_bits(rng, w)))
    return ops


def strip_senc(c, m):
    import re
    return re.sub(r" senc=\w+", " senc=?", m)
