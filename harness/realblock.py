"""Independent decoder of the bundled real main-net block (tests/test_cell.py: block_boc), written from
tlb/schemas/block.tlb on raw (bits, refs) trees - it uses none of the library's TL-B parsers, Slice loads or
dictionary parsers.  compare() renders the library's parse of the same block in the same shape.

Only the library's BoC parser (C05's subject; the root hash is pinned by the test-suite) is shared: cells are
read through .bits.to01(), .refs and .type_."""
import re


def block_boc(repo):
    src = open(repo + "/tests/test_cell.py").read()
    return re.search(r"block_boc = '([^']+)'", src).group(1)


class R:
    """bit reader over one cell"""
    def __init__(self, cell):
        self.b = cell.bits.to01()
        self.refs = list(cell.refs)
        self.p = 0
        self.r = 0
        self.special = cell.type_ != -1

    def bits(self, n):
        if self.p + n > len(self.b):
            raise ValueError("underflow")
        s = self.b[self.p:self.p + n]
        self.p += n
        return s

    def u(self, n):
        return int(self.bits(n), 2) if n else 0

    def i(self, n):
        v = self.u(n)
        return v - (1 << n) if v >> (n - 1) else v

    def bytes_(self, n):
        return bytes(int(self.bits(8), 2) for _ in range(n))

    def ref(self):
        c = self.refs[self.r]
        self.r += 1
        return c

    def done(self):
        return self.p == len(self.b) and self.r == len(self.refs)


def label(r, m):
    """hml_short$0 / hml_long$10 / hml_same$11"""
    if r.u(1) == 0:
        n = 0
        while r.u(1):
            n += 1
        return r.bits(n)
    if r.u(1) == 0:
        n = r.u(m.bit_length())
        return r.bits(n)
    bit = r.bits(1)
    n = r.u(m.bit_length())
    return bit * n


def hashmap(cell, n, leaf, aug=None, prefix="", out=None):
    """Hashmap / HashmapAug n: leaf(reader) -> value; aug(reader) reads the extra of every node.
    Pruned subtrees are skipped."""
    out = {} if out is None else out
    if cell.type_ != -1:
        return out
    r = R(cell)
    lab = label(r, n)
    m = n - len(lab)
    if m == 0:
        e = aug(r) if aug else None
        out[int(prefix + lab, 2) if prefix + lab else 0] = (leaf(r), e)
        return out
    left, right = r.ref(), r.ref()
    if aug:
        aug(r)
    hashmap(left, m - 1, leaf, aug, prefix + lab + "0", out)
    hashmap(right, m - 1, leaf, aug, prefix + lab + "1", out)
    return out


def hashmap_e(r, n, leaf, aug=None):
    if r.u(1):
        d = hashmap(r.ref(), n, leaf, aug)
    else:
        d = {}
    if aug:
        aug(r)
    return d


def var_uint(r, n):
    ln = r.u((n - 1).bit_length())
    return r.u(8 * ln)


def currency(r):
    grams = var_uint(r, 16)
    extra = hashmap_e(r, 32, lambda x: var_uint(x, 32))
    return {"grams": grams, "extra": {k: v[0] for k, v in extra.items()}}


def msg_addr(r):
    t = r.u(2)
    if t == 0:
        return None
    if t == 1:
        n = r.u(9)
        return ("ext", n, r.u(n))
    assert t == 2, "addr_var does not occur"
    assert r.u(1) == 0, "anycast does not occur"
    return (r.i(8), r.bytes_(32).hex())


def message(cell):
    """CommonMsgInfo of a Message Any (the body/init are compared by the hash of the whole message cell)"""
    r = R(cell)
    out = {"hash": cell.hash.hex()}
    if r.u(1) == 0:
        out.update({"type": "int", "ihr_disabled": bool(r.u(1)), "bounce": bool(r.u(1)), "bounced": bool(r.u(1)),
                    "src": msg_addr(r), "dest": msg_addr(r), "value": currency(r), "ihr_fee": var_uint(r, 16),
                    "fwd_fee": var_uint(r, 16), "created_lt": r.u(64), "created_at": r.u(32)})
    elif r.u(1) == 0:
        out.update({"type": "ext_in", "src": msg_addr(r), "dest": msg_addr(r), "import_fee": var_uint(r, 16)})
    else:
        out.update({"type": "ext_out", "src": msg_addr(r), "dest": msg_addr(r), "created_lt": r.u(64), "created_at": r.u(32)})
    return out


def interm_addr(r):
    if r.u(1) == 0:
        return ("regular", r.u(7))
    if r.u(1) == 0:
        return ("simple", r.i(8), r.u(64))
    return ("ext", r.i(32), r.u(64))


def envelope(cell):
    r = R(cell)
    assert r.u(4) == 4
    out = {"cur_addr": interm_addr(r), "next_addr": interm_addr(r), "fwd_fee_remaining": var_uint(r, 16), "msg": message(r.ref())}
    assert r.done()
    return out


def ext_blk_ref(r):
    return {"end_lt": r.u(64), "seq_no": r.u(32), "root_hash": r.bytes_(32).hex(), "file_hash": r.bytes_(32).hex()}


def acc_status(r):
    return ["uninit", "frozen", "active", "nonexist"][r.u(2)]


def storage_ph(r):
    out = {"storage_fees_collected": var_uint(r, 16)}
    out["storage_fees_due"] = var_uint(r, 16) if r.u(1) else None
    out["status_change"] = "unchanged" if r.u(1) == 0 else ("frozen" if r.u(1) == 0 else "deleted")
    return out


def compute_ph(r):
    if r.u(1) == 0:
        return {"type": "skipped", "reason": ["no_state", "bad_state", "no_gas"][r.u(2)]}
    out = {"type": "vm", "success": bool(r.u(1)), "msg_state_used": bool(r.u(1)), "account_activated": bool(r.u(1)),
           "gas_fees": var_uint(r, 16)}
    q = R(r.ref())
    out["gas_used"] = var_uint(q, 7)
    out["gas_limit"] = var_uint(q, 7)
    out["gas_credit"] = var_uint(q, 3) if q.u(1) else None
    out["mode"] = q.i(8)
    out["exit_code"] = q.i(32)
    out["exit_arg"] = q.i(32) if q.u(1) else None
    out["vm_steps"] = q.u(32)
    out["vm_init_state_hash"] = q.bytes_(32).hex()
    out["vm_final_state_hash"] = q.bytes_(32).hex()
    assert q.done(), "compute phase reference not fully read"
    return out


def action_ph(cell):
    r = R(cell)
    out = {"success": bool(r.u(1)), "valid": bool(r.u(1)), "no_funds": bool(r.u(1))}
    out["status_change"] = "unchanged" if r.u(1) == 0 else ("frozen" if r.u(1) == 0 else "deleted")
    out["total_fwd_fees"] = var_uint(r, 16) if r.u(1) else None
    out["total_action_fees"] = var_uint(r, 16) if r.u(1) else None
    out["result_code"] = r.i(32)
    out["result_arg"] = r.i(32) if r.u(1) else None
    for k in ("tot_actions", "spec_actions", "skipped_actions", "msgs_created"):
        out[k] = r.u(16)
    out["action_list_hash"] = r.bytes_(32).hex()
    out["tot_msg_size"] = {"cells": var_uint(r, 7), "bits": var_uint(r, 7)}
    assert r.done()
    return out


def descr(cell):
    r = R(cell)
    t4 = r.b[:4]
    if t4 == "0000":
        r.bits(4)
        out = {"type": "ordinary", "credit_first": bool(r.u(1))}
        out["storage_ph"] = storage_ph(r) if r.u(1) else None
        if r.u(1):
            out["credit_ph"] = {"due_fees_collected": var_uint(r, 16) if r.u(1) else None, "credit": currency(r)}
        else:
            out["credit_ph"] = None
        out["compute_ph"] = compute_ph(r)
        out["action"] = action_ph(r.ref()) if r.u(1) else None
        out["aborted"] = bool(r.u(1))
        if r.u(1):
            out["bounce"] = "present"
            return out          # bounce phases do not occur in this block; left undecoded
        out["bounce"] = None
        out["destroyed"] = bool(r.u(1))
        assert r.done()
        return out
    if r.b[:3] == "001":
        r.bits(3)
        out = {"type": "tick_tock", "is_tock": bool(r.u(1)), "storage_ph": storage_ph(r), "compute_ph": compute_ph(r)}
        out["action"] = action_ph(r.ref()) if r.u(1) else None
        out["aborted"] = bool(r.u(1))
        out["destroyed"] = bool(r.u(1))
        assert r.done()
        return out
    return {"type": "other:" + t4}


def transaction(cell):
    r = R(cell)
    assert r.bits(4) == "0111"
    out = {"account_addr": r.bytes_(32).hex(), "lt": r.u(64), "prev_trans_hash": r.bytes_(32).hex(), "prev_trans_lt": r.u(64),
           "now": r.u(32), "outmsg_cnt": r.u(15), "orig_status": acc_status(r), "end_status": acc_status(r)}
    io = R(r.ref())
    out["in_msg"] = io.ref().hash.hex() if io.u(1) else None
    out["out_msgs"] = {k: v[0] for k, v in hashmap_e(io, 15, lambda x: x.ref().hash.hex()).items()}
    out["total_fees"] = currency(r)
    hu = R(r.ref())
    assert hu.u(8) == 0x72
    out["state_update"] = {"old": hu.bytes_(32).hex(), "new": hu.bytes_(32).hex()}
    out["description"] = descr(r.ref())
    assert r.done()
    return out


def account_block(r):
    assert r.u(4) == 5
    addr = r.bytes_(32).hex()
    # transactions:(HashmapAug 64 ^Transaction CurrencyCollection) - stored inline (not a HashmapAugE)
    trs = {}
    sub = _InlineCell(r)
    hashmap(sub, 64, lambda x: transaction(x.ref()), currency, out=trs)
    return {"account_addr": addr, "transactions": {k: v[0] for k, v in trs.items()}}


class _InlineCell:
    """the rest of a reader presented as a cell (an inline Hashmap starts in the middle of a cell)"""
    def __init__(self, r):
        self.type_ = -1
        self._b = r.b[r.p:]
        self.refs = r.refs[r.r:]

    @property
    def bits(self):
        b = self._b

        class _B:
            def to01(self):
                return b
        return _B()


def shard_descr(r):
    tag = r.u(4)
    assert tag in (0xb, 0xa)
    out = {"seq_no": r.u(32), "reg_mc_seqno": r.u(32), "start_lt": r.u(64), "end_lt": r.u(64),
           "root_hash": r.bytes_(32).hex(), "file_hash": r.bytes_(32).hex(),
           "before_split": bool(r.u(1)), "before_merge": bool(r.u(1)), "want_split": bool(r.u(1)), "want_merge": bool(r.u(1)),
           "nx_cc_updated": bool(r.u(1)), "flags": r.u(3), "next_catchain_seqno": r.u(32), "next_validator_shard": r.u(64),
           "min_ref_mc_seqno": r.u(32), "gen_utime": r.u(32)}
    if r.u(1) == 0:
        out["split_merge_at"] = None
    else:
        kind = "merge" if r.u(1) else "split"
        out["split_merge_at"] = (kind, r.u(32), r.u(32))
    q = R(r.ref()) if tag == 0xa else r
    out["fees_collected"] = currency(q)
    out["funds_created"] = currency(q)
    return out


def bintree(cell, leaf, out):
    if cell.type_ != -1:
        return out
    r = R(cell)
    if r.u(1):
        bintree(r.ref(), leaf, out)
        bintree(r.ref(), leaf, out)
    else:
        out.append(leaf(r))
    return out


def block_info(info):
    q = R(info)
    assert q.u(32) == 0x9bc7a987
    bi = {"version": q.u(32)}
    for k in ("not_master", "after_merge", "before_split", "after_split"):
        bi[k] = q.u(1)
    for k in ("want_split", "want_merge", "key_block"):
        bi[k] = bool(q.u(1))
    bi["vert_seqno_incr"] = q.u(1)
    bi["flags"] = q.u(8)
    bi["seqno"] = q.u(32)
    bi["vert_seqno"] = q.u(32)
    assert q.u(2) == 0
    bi["shard"] = {"shard_pfx_bits": q.u(6), "workchain_id": q.i(32), "shard_prefix": q.u(64)}
    bi["gen_utime"] = q.u(32)
    bi["start_lt"], bi["end_lt"] = q.u(64), q.u(64)
    for k in ("gen_validator_list_hash_short", "gen_catchain_seqno", "min_ref_mc_seqno", "prev_key_block_seqno"):
        bi[k] = q.u(32)
    if bi["flags"] & 1:
        assert q.u(8) == 0xc4
        bi["gen_software"] = {"version": q.u(32), "capabilities": q.u(64)}
    else:
        bi["gen_software"] = None
    bi["master_ref"] = ext_blk_ref(R(q.ref())) if bi["not_master"] else None
    p = R(q.ref())
    bi["prev_ref"] = [ext_blk_ref(R(p.ref())), ext_blk_ref(R(p.ref()))] if bi["after_merge"] else [ext_blk_ref(p)]
    # prev_vert_ref:vert_seqno_incr?^(BlkPrevInfo 0): always the single-reference form
    bi["prev_vert_ref"] = [ext_blk_ref(R(q.ref()))] if bi["vert_seqno_incr"] else None
    assert q.done(), "BlockInfo not fully read"
    return bi


def decode(root):
    r = R(root)
    assert r.u(32) == 0x11ef55aa
    out = {"global_id": r.i(32)}
    info, vf, upd, extra = r.ref(), r.ref(), r.ref(), r.ref()
    out["info"] = block_info(info)
    # ---- ValueFlow
    q = R(vf)
    tag = q.u(32)
    assert tag in (0xb8e48dfb, 0x3ebf98b7)
    a, b = R(q.ref()), R(q.ref())
    v = {"type": "value_flow" if tag == 0xb8e48dfb else "value_flow_v2"}
    for k in ("from_prev_blk", "to_next_blk", "imported", "exported"):
        v[k] = currency(a)
    v["fees_collected"] = currency(q)
    if tag == 0x3ebf98b7:
        v["burned"] = currency(q)
    for k in ("fees_imported", "recovered", "created", "minted"):
        v[k] = currency(b)
    assert q.done() and a.done() and b.done(), "ValueFlow not fully read"
    out["value_flow"] = v
    # ---- state update (Merkle update: exotic cell, hashes of the two states)
    ub = upd.bits.to01()
    out["state_update"] = {"type": upd.type_, "old_hash": hex(int(ub[8:264], 2))[2:].rjust(64, "0"),
                           "new_hash": hex(int(ub[264:520], 2))[2:].rjust(64, "0")}
    # ---- BlockExtra
    q = R(extra)
    assert q.u(32) == 0x4a33f6fd
    in_ref, out_ref, acc_ref = q.ref(), q.ref(), q.ref()

    def in_msg(x):
        t = x.bits(3)
        if t == "011":      # msg_import_imm$011 in_msg:^MsgEnvelope transaction:^Transaction fwd_fee:Grams
            return {"type": "msg_import_imm", "in_msg": envelope(x.ref()), "transaction": transaction(x.ref()), "fwd_fee": var_uint(x, 16)}
        return {"type": "other:" + t}

    def import_fees(x):
        return {"fees_collected": var_uint(x, 16), "value_imported": currency(x)}
    ex = {"in_msg_descr": {k: v[0] for k, v in hashmap_e(R(in_ref), 256, in_msg, import_fees).items()},
          "out_msg_count": len(hashmap_e(R(out_ref), 256, lambda x: None, currency)),
          "account_blocks": {k: v[0] for k, v in hashmap_e(R(acc_ref), 256, account_block, currency).items()},
          "rand_seed": q.bytes_(32).hex(), "created_by": q.bytes_(32).hex()}
    if q.u(1):
        m = R(q.ref())
        assert m.u(16) == 0xcca5
        mc = {"key_block": m.u(1)}
        sh = hashmap_e(m, 32, lambda x: bintree(x.ref(), shard_descr, []))
        mc["shard_hashes"] = {(k - (1 << 32) if k >> 31 else k): v[0] for k, v in sh.items()}
        ex["custom"] = mc
    else:
        ex["custom"] = None
    assert q.done(), "BlockExtra not fully read"
    out["extra"] = ex
    return out


# ------------------------------------------------------------------ the library's view, in the same shape
def _cc(c):
    return {"grams": c.grams, "extra": dict(c.other.dict or {}) if c.other is not None else {}}


def _ebr(e):
    return {"end_lt": e.end_lt, "seq_no": e.seqno, "root_hash": e.root_hash.hex(), "file_hash": e.file_hash.hex()}


def _opt(o, f):
    return None if o is None else f(o)


def _status(s):
    return s.type_ if hasattr(s, "type_") else str(s)


def _sc(s):
    return getattr(s, "type_", s)


def _storage(p):
    return {"storage_fees_collected": p.storage_fees_collected, "storage_fees_due": p.storage_fees_due,
            "status_change": _sc(p.status_change)}


def _compute(p):
    if p.type_ == "skipped":
        return {"type": "skipped", "reason": _sc(p.reason)}
    return {"type": "vm", "success": p.success, "msg_state_used": p.msg_state_used, "account_activated": p.account_activated,
            "gas_fees": p.gas_fees, "gas_used": p.gas_used, "gas_limit": p.gas_limit, "gas_credit": p.gas_credit, "mode": p.mode,
            "exit_code": p.exit_code, "exit_arg": p.exit_arg, "vm_steps": p.vm_steps,
            "vm_init_state_hash": p.vm_init_state_hash.hex(), "vm_final_state_hash": p.vm_final_state_hash.hex()}


def _action(p):
    return {"success": p.success, "valid": p.valid, "no_funds": p.no_funds, "status_change": _sc(p.status_change),
            "total_fwd_fees": p.total_fwd_fees, "total_action_fees": p.total_action_fees, "result_code": p.result_code,
            "result_arg": p.result_arg, "tot_actions": p.tot_actions, "spec_actions": p.spec_actions,
            "skipped_actions": p.skipped_actions, "msgs_created": p.msgs_created, "action_list_hash": p.action_list_hash.hex(),
            "tot_msg_size": {"cells": p.tot_msg_size.cells, "bits": p.tot_msg_size.bits}}


def _descr(d):
    t = getattr(d, "type_", None)
    if t == "ordinary":
        return {"type": "ordinary", "credit_first": d.credit_first, "storage_ph": _opt(d.storage_ph, _storage),
                "credit_ph": _opt(d.credit_ph, lambda c: {"due_fees_collected": c.due_fees_collected, "credit": _cc(c.credit)}),
                "compute_ph": _compute(d.compute_ph), "action": _opt(d.action, _action), "aborted": d.aborted,
                "bounce": _opt(d.bounce, lambda b: "present"), "destroyed": d.destroyed}
    if t == "tick_tock":
        return {"type": "tick_tock", "is_tock": d.is_tock, "storage_ph": _storage(d.storage_ph), "compute_ph": _compute(d.compute_ph),
                "action": _opt(d.action, _action), "aborted": d.aborted, "destroyed": d.destroyed}
    return {"type": "other"}


def _addr(a):
    if a is None:
        return None
    if hasattr(a, "external_address"):
        return ("ext", a.len, a.external_address)
    return (a.wc, a.hash_part.hex())


def _msg(m):
    i = m.info
    out = {"hash": m.serialize().hash.hex()}
    n = type(i).__name__
    if n == "InternalMsgInfo":
        out.update({"type": "int", "ihr_disabled": i.ihr_disabled, "bounce": i.bounce, "bounced": i.bounced, "src": _addr(i.src),
                    "dest": _addr(i.dest), "value": _cc(i.value), "ihr_fee": i.ihr_fee, "fwd_fee": i.fwd_fee,
                    "created_lt": i.created_lt, "created_at": i.created_at})
    elif n == "ExternalMsgInfo":
        out.update({"type": "ext_in", "src": _addr(i.src), "dest": _addr(i.dest), "import_fee": i.import_fee})
    else:
        out.update({"type": "ext_out", "src": _addr(i.src), "dest": _addr(i.dest), "created_lt": i.created_lt, "created_at": i.created_at})
    return out


def _ia(a):
    if a.type_ == "interm_addr_regular":
        return ("regular", a.use_dest_bits)
    return ("simple" if a.type_ == "interm_addr_simple" else "ext", a.workchain_id, a.addr_pfx)


def _env(e):
    return {"cur_addr": _ia(e.cur_addr), "next_addr": _ia(e.next_addr), "fwd_fee_remaining": e.fwd_fee_remaining, "msg": _msg(e.msg)}


def _tr(t):
    return {"account_addr": t.account_addr.hex() if isinstance(t.account_addr, bytes) else t.account_addr_hex,
            "lt": t.lt, "prev_trans_hash": t.prev_trans_hash.hex(), "prev_trans_lt": t.prev_trans_lt, "now": t.now,
            "outmsg_cnt": t.outmsg_cnt, "orig_status": _status(t.orig_status), "end_status": _status(t.end_status),
            "in_msg": _opt(t.in_msg, lambda m: m.serialize().hash.hex() if not hasattr(m, "hash") else m.hash.hex()),
            "out_msgs": {k: (v.serialize().hash.hex() if not hasattr(v, "hash") else v.hash.hex()) for k, v in
                         (t.out_msgs.items() if isinstance(t.out_msgs, dict) else enumerate(t.out_msgs or []))},
            "total_fees": _cc(t.total_fees), "state_update": {"old": t.state_update.old_hash.hex(), "new": t.state_update.new_hash.hex()},
            "description": _descr(t.description)}


def _sd(s):
    if s is None:
        return None
    f = s.split_merge_at
    ft = getattr(f, "type_", "fsm_none")
    sm = None if ft == "fsm_none" else (("merge", f.merge_utime, f.interval) if ft == "fsm_merge" else ("split", f.split_utime, f.interval))
    return {"seq_no": s.seq_no, "reg_mc_seqno": s.reg_mc_seqno, "start_lt": s.start_lt, "end_lt": s.end_lt,
            "root_hash": s.root_hash.hex(), "file_hash": s.file_hash.hex(), "before_split": s.before_split,
            "before_merge": s.before_merge, "want_split": s.want_split, "want_merge": s.want_merge,
            "nx_cc_updated": s.nx_cc_updated, "flags": s.flags, "next_catchain_seqno": s.next_catchain_seqno,
            "next_validator_shard": s.next_validator_shard, "min_ref_mc_seqno": s.min_ref_mc_seqno, "gen_utime": s.gen_utime,
            "split_merge_at": sm, "fees_collected": _cc(s.fees_collected), "funds_created": _cc(s.funds_created)}


def lib_block_info(i):
    bi = {k: getattr(i, k) for k in ("version", "not_master", "after_merge", "before_split", "after_split", "want_split", "want_merge",
                                     "key_block", "vert_seqno_incr", "flags", "seqno", "vert_seqno", "gen_utime", "start_lt", "end_lt",
                                     "gen_validator_list_hash_short", "gen_catchain_seqno", "min_ref_mc_seqno", "prev_key_block_seqno")}
    bi["shard"] = {"shard_pfx_bits": i.shard.shard_pfx_bits, "workchain_id": i.shard.workchain_id, "shard_prefix": i.shard.shard_prefix}
    bi["gen_software"] = _opt(i.gen_software, lambda g: {"version": g.version, "capabilities": g.capabilities})
    bi["master_ref"] = _opt(i.master_ref, lambda m: _ebr(m.master))
    pr = i.prev_ref
    bi["prev_ref"] = [_ebr(pr.prev)] if pr.type_ == "prev_blk_info" else [_ebr(pr.prev1), _ebr(pr.prev2)]
    bi["prev_vert_ref"] = _opt(i.prev_vert_ref, lambda p: [_ebr(p.prev)])
    return bi


def library_view(root):
    from pytoniq_core.tlb.block import Block
    b = Block.deserialize(root.begin_parse())
    bi = lib_block_info(b.info)
    out = {"global_id": b.global_id, "info": bi}
    vf = b.value_flow
    out["value_flow"] = {"type": vf.type_, **{k: _cc(v) for k, v in vars(vf).items() if k != "type_"}}
    su = b.state_update
    out["state_update"] = {"type": 4, "old_hash": su.old_hash.hex(), "new_hash": su.new_hash.hex()}
    e = b.extra
    ex = {"in_msg_descr": {k: ({"type": v.type_, "in_msg": _env(v.in_msg),
                                "transaction": _tr(v.transaction), "fwd_fee": v.fwd_fee} if v.type_ == "msg_import_imm"
                               else {"type": "other"}) for k, v in (e.in_msg_descr[0] or {}).items()},
          "out_msg_count": len(e.out_msg_descr[0] or {}),
          "account_blocks": {k: {"account_addr": ab.account_addr.hex() if isinstance(ab.account_addr, bytes) else ab.account_addr,
                                 "transactions": {lt: _tr(t) for lt, t in (ab.transactions[0] if isinstance(ab.transactions, tuple) else ab.transactions).items()}}
                             for k, ab in (e.account_blocks[0] or {}).items()},
          "rand_seed": e.rand_seed.hex(), "created_by": e.created_by.hex()}
    if e.custom is not None:
        ex["custom"] = {"key_block": e.custom.key_block,
                        "shard_hashes": {(wc - (1 << 32) if wc >> 31 else wc): [_sd(s) for s in bt.list if s is not None]
                                         for wc, bt in (e.custom.shard_hashes or {}).items()}}
    else:
        ex["custom"] = None
    out["extra"] = ex
    return out


def diff(a, b, path=""):
    """list of paths where two nested structures differ"""
    if isinstance(a, dict) and isinstance(b, dict):
        out = []
        for k in sorted(set(a) | set(b), key=str):
            if k not in a or k not in b:
                out.append(f"{path}/{k}: only on one side")
            else:
                out += diff(a[k], b[k], f"{path}/{k}")
        return out
    if isinstance(a, (list, tuple)) and isinstance(b, (list, tuple)):
        if len(a) != len(b):
            return [f"{path}: length {len(a)} vs {len(b)}"]
        out = []
        for i, (x, y) in enumerate(zip(a, b)):
            out += diff(x, y, f"{path}[{i}]")
        return out
    if isinstance(a, bool) or isinstance(b, bool):
        return [] if bool(a) == bool(b) and a is not None and b is not None else [f"{path}: {a!r} vs {b!r}"]
    return [] if a == b else [f"{path}: {a!r} vs {b!r}"]


def count_leaves(x):
    if isinstance(x, dict):
        return sum(count_leaves(v) for v in x.values())
    if isinstance(x, (list, tuple)):
        return sum(count_leaves(v) for v in x)
    return 1


def check(repo):
    """returns (list of differences, number of compared leaf values)"""
    from pytoniq_core.boc.cell import Cell
    root = Cell.one_from_boc(block_boc(repo))
    mine = decode(root)
    lib = library_view(root)
    return diff(mine, lib), count_leaves(mine)


# ------------------------------------------------------------------ synthetic BlockInfo / ShardDescr (types the tracer cannot follow)
def _bits(v, n):
    return format(v & ((1 << n) - 1), f"0{n}b") if n else ""


def _ebr_bits(rng):
    return _bits(rng.getrandbits(64), 64) + _bits(rng.getrandbits(32), 32) + _bits(rng.getrandbits(256), 256) + _bits(rng.getrandbits(256), 256)


def gen_block_info(rng):
    """random block_info#9bc7a987 as a DAG (children first), every flag combination block.tlb allows"""
    not_master, after_merge, vert_incr, gen_sw = (rng.randrange(2) for _ in range(4))
    dag = []
    bits = _bits(0x9bc7a987, 32) + _bits(rng.getrandbits(32), 32) + str(not_master) + str(after_merge)
    bits += "".join(str(rng.randrange(2)) for _ in range(5)) + str(vert_incr) + _bits(gen_sw, 8)
    seqno = rng.choice([1, rng.getrandbits(32) | 1, 2 ** 32 - 1])
    bits += _bits(seqno, 32) + _bits(rng.choice([vert_incr, rng.getrandbits(32) | vert_incr, 2 ** 32 - 1]), 32)
    bits += "00" + _bits(rng.randrange(61), 6) + _bits(rng.choice([-1, 0, rng.getrandbits(31), -2 ** 31]), 32) + \
        _bits(rng.choice([0, 1 << 63, rng.getrandbits(64), 2 ** 64 - 1]), 64)
    bits += _bits(rng.getrandbits(32), 32) + _bits(rng.choice([rng.getrandbits(64), 2 ** 64 - 1, 1 << 63]), 64) + \
        _bits(rng.choice([rng.getrandbits(64), 2 ** 64 - 1]), 64)
    bits += "".join(_bits(rng.choice([rng.getrandbits(32), 2 ** 32 - 1, 2 ** 31]), 32) for _ in range(4))
    if gen_sw:
        bits += _bits(0xc4, 8) + _bits(rng.choice([rng.getrandbits(32), 2 ** 32 - 1]), 32) + _bits(rng.choice([rng.getrandbits(64), 2 ** 64 - 1]), 64)
    refs = []
    if not_master:
        dag.append((-1, _ebr_bits(rng), []))
        refs.append(len(dag) - 1)
    if after_merge:
        dag.append((-1, _ebr_bits(rng), []))
        dag.append((-1, _ebr_bits(rng), []))
        dag.append((-1, "", [len(dag) - 2, len(dag) - 1]))
    else:
        dag.append((-1, _ebr_bits(rng), []))
    refs.append(len(dag) - 1)
    if vert_incr:
        dag.append((-1, _ebr_bits(rng), []))
        refs.append(len(dag) - 1)
    dag.append((-1, bits, refs))
    return dag


def gen_shard_descr(rng):
    tag = rng.choice([0xb, 0xa])

    def cc():
        g = rng.choice([0, rng.getrandbits(24), 2 ** 120 - 1 if tag == 0xa else 2 ** 24 - 1])
        n = (g.bit_length() + 7) // 8
        return _bits(n, 4) + _bits(g, 8 * n) + "0"
    bits = _bits(tag, 4) + _bits(rng.getrandbits(32), 32) + _bits(rng.getrandbits(32), 32)
    bits += _bits(rng.choice([rng.getrandbits(64), 2 ** 64 - 1]), 64) + _bits(rng.choice([rng.getrandbits(64), 1 << 63]), 64)
    bits += _bits(rng.getrandbits(256), 256) + _bits(rng.getrandbits(256), 256)
    bits += "".join(str(rng.randrange(2)) for _ in range(5)) + "000"
    bits += _bits(rng.choice([rng.getrandbits(32), 2 ** 32 - 1]), 32) + _bits(rng.choice([rng.getrandbits(64), 2 ** 64 - 1]), 64)
    bits += _bits(rng.getrandbits(32), 32) + _bits(rng.choice([rng.getrandbits(32), 2 ** 32 - 1]), 32)
    k = rng.randrange(3)
    bits += "0" if k == 0 else ("10" if k == 1 else "11") + _bits(rng.choice([rng.getrandbits(32), 2 ** 32 - 1]), 32) + _bits(rng.getrandbits(32), 32)
    if tag == 0xb:
        return [(-1, bits + cc() + cc(), [])]
    return [(-1, cc() + cc(), []), (-1, bits, [0])]


def synthetic_check(kind, dag):
    """independent decoding vs the library's parser on one generated cell; returns None or a difference text"""
    import cells
    root = cells.build_py(dag)[-1]
    if kind == "BlockInfo":
        from pytoniq_core.tlb.block import BlockInfo
        mine = block_info(root)
        try:
            sl = root.begin_parse()
            lib = lib_block_info(BlockInfo.deserialize(sl))
            rest = (len(sl.bits), sl.remaining_refs)
        except Exception as e:
            return f"BlockInfo(not_master={mine['not_master']} after_merge={mine['after_merge']} vert_seqno_incr={mine['vert_seqno_incr']} " \
                   f"flags={mine['flags']}) cannot be parsed: {type(e).__name__}: {e}"
    else:
        from pytoniq_core.tlb.block import ShardDescr
        mine = shard_descr(R(root))
        try:
            sl = root.begin_parse()
            lib = _sd(ShardDescr.deserialize(sl))
            rest = (len(sl.bits), sl.remaining_refs)
        except Exception as e:
            return f"ShardDescr cannot be parsed: {type(e).__name__}: {e}"
    d = diff(mine, lib)
    if d:
        return f"{kind}: {d[0]}"
    if rest != (0, 0):
        return f"{kind}: {rest[0]} bits / {rest[1]} refs left unread"
    return None
