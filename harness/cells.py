"""Cell DAGs in the text format shared with the OCaml driver, and their Python counterparts.

A DAG is a list of nodes (ty, bits, refs) in topological order, children first; refs are indices of
earlier nodes; the root is the last node.  bits is a '0101' string ('' for no bits)."""
import hashlib

from bitarray import bitarray
from pytoniq_core.boc.tvm_bitarray import TvmBitarray
from pytoniq_core.boc.cell import Cell


def dag_line(dag):
    return f"{len(dag)} " + " ".join(
        f"{ty}:{bits or '-'}:{','.join(str(r) for r in refs)}" for ty, bits, refs in dag)


def tvm_bits(bits):
    t = TvmBitarray(1023)
    if bits:
        t.extend(bitarray(bits))
    return t


def build_py(dag, route="ctor"):
    """Build the Python cells bottom-up. Returns the list of Cell objects (raises what Cell raises)."""
    out = []
    for ty, bits, refs in dag:
        rs = [out[r] for r in refs]
        if route == "builder" and len(bits) <= 1023 and len(rs) <= 4:
            from pytoniq_core.boc.builder import Builder
            b = Builder(type_=ty)
            b.store_bits(bits)
            for r in rs:
                b.store_ref(r)
            out.append(b.end_cell())
        else:
            out.append(Cell(tvm_bits(bits), rs, ty))
    return out


def hexs(b):
    return b.hex() if b else "-"


def res(fn):
    import core
    return core.call_impl(lambda _: "ok " + fn(), None).replace(" ", ":")


def info_py(c):
    """Same layout as the driver's cell_info line."""
    gh = ",".join(res(lambda l=l: hexs(c.get_hash(l))) for l in range(4))
    gd = ",".join(res(lambda l=l: str(c.get_depth(l))) for l in range(4))
    rp = res(lambda: hexs(c.calculate_representation_hash()))
    rp2 = res(lambda: hexs(c.calculate_representation_hash()))      # a second explicit recomputation must agree
    if rp2 != rp:
        rp = "unstable:" + rp + "/" + rp2
    hs = ",".join(hexs(h) for h in c._hashes) or "-"
    ds = ",".join(str(d) for d in c._depths) or "-"
    return (f"ok mask={c.level_mask.mask} hashes={hs} depths={ds} gh={gh} gd={gd} repr={rp} "
            f"pyhash={format(hash_py(c), 'x')}")


def hash_py(c):
    # Cell.__hash__ returns the full integer; Python's hash() would reduce it modulo 2^61-1
    return c.__hash__()


def tree_size(dag):
    """Number of nodes of the tree the DAG denotes (paths), to keep spec evaluation affordable."""
    sz = []
    for ty, bits, refs in dag:
        sz.append(1 + sum(sz[r] for r in refs))
    return sz[-1] if sz else 0


def dag_depth(dag):
    d = []
    for ty, bits, refs in dag:
        d.append(0 if not refs else 1 + max(d[r] for r in refs))
    return d[-1] if d else 0


def rand_bits(rng, n):
    return "".join(rng.choice("01") for _ in range(n)) if n else ""


def rand_ordinary_dag(rng, n_nodes, max_bits=1023, share=0.3, max_tree=4000):
    """Random DAG of ordinary cells with controlled sharing."""
    while True:
        dag = []
        for i in range(n_nodes):
            k = 0 if i == 0 else rng.choice([0, 1, 1, 2, 2, 3, 4])
            refs = []
            for _ in range(k):
                if refs and rng.random() < share:
                    refs.append(rng.choice(refs))
                else:
                    refs.append(rng.randrange(i))
            bl = rng.choice([0, 1, 7, 8, 9, 15, 16, 100, 255, 256, 1016, 1022, 1023, rng.randrange(max_bits + 1)])
            dag.append((-1, rand_bits(rng, min(bl, max_bits)), refs))
        # make the last node reach something
        if tree_size(dag) <= max_tree:
            return dag
        n_nodes = max(1, n_nodes // 2)


def chain(depth, bits=""):
    dag = [(-1, bits, [])]
    for i in range(depth):
        dag.append((-1, bits, [i]))
    return dag


# ---------------------------------------------------------------- exotic cells
def bits_of_bytes(b):
    return "".join(format(x, "08b") for x in b)


def pruned_node(mask, hashes, depths):
    data = bytes([1, mask]) + b"".join(hashes) + b"".join(d.to_bytes(2, "big") for d in depths)
    return (1, bits_of_bytes(data), [])


def library_node(h):
    return (2, bits_of_bytes(bytes([2]) + h), [])


def mproof_node(h, d, ref):
    return (3, bits_of_bytes(bytes([3]) + h + d.to_bytes(2, "big")), [ref])


def mupdate_node(h1, h2, d1, d2, r1, r2):
    return (4, bits_of_bytes(bytes([4]) + h1 + h2 + d1.to_bytes(2, "big") + d2.to_bytes(2, "big")), [r1, r2])


def rand_exotic_dag(rng, size, valid=True, max_merkle=3):
    """Random tree mixing ordinary cells with all four exotic kinds. With valid=True Merkle cells carry
    the real level-0 hash/depth of their children (needs the implementation to compute them) and pruned
    masks respect the enclosing Merkle depth; with valid=False stored fields are random bytes."""
    dag = []

    def h32():
        return rng.randbytes(32)

    def gen(budget, mdepth):
        """returns index of the generated node; mdepth = number of enclosing Merkle cells"""
        kind = rng.random()
        if budget <= 1 or kind < 0.25:
            k2 = rng.random()
            if k2 < 0.45:
                dag.append((-1, rand_bits(rng, rng.choice([0, 1, 8, 13, 64])), []))
            elif k2 < 0.85:
                if valid and mdepth > 0:
                    # mask bits only below the enclosing Merkle depth, top bit = mdepth-1 most often
                    mask = rng.choice([1 << (mdepth - 1)] * 3 + [rng.randrange(1, 1 << mdepth)])
                else:
                    mask = rng.randrange(1, 8)
                n = bin(mask).count("1")
                dag.append(pruned_node(mask, [h32() for _ in range(n)], [rng.randrange(0, 1000) for _ in range(n)]))
            else:
                dag.append(library_node(h32()))
            return len(dag) - 1
        if kind < 0.40 and mdepth < max_merkle:
            c = gen(budget - 1, mdepth + 1)
            dag.append(mproof_node(h32(), rng.randrange(1000), c))
            return len(dag) - 1
        if kind < 0.50 and mdepth < max_merkle:
            a = gen(budget // 2, mdepth + 1)
            b = gen(budget // 2, mdepth + 1)
            dag.append(mupdate_node(h32(), h32(), rng.randrange(1000), rng.randrange(1000), a, b))
            return len(dag) - 1
        k = rng.choice([1, 2, 2, 3, 4])
        kids = []
        for _ in range(k):
            if kids and rng.random() < 0.2:
                kids.append(rng.choice(kids))
            else:
                kids.append(gen(max(1, (budget - 1) // k), mdepth))
        dag.append((-1, rand_bits(rng, rng.choice([0, 5, 8, 32])), kids))
        return len(dag) - 1

    gen(size, 0)
    if valid:
        dag = fix_merkle_fields(dag)
    return dag


def ref_hd(dag):
    """Independent Python reference of the TON cell hash/depth rules (DataCell.cpp), used by the GENERATORS only, so
    that case generation does not depend on the library under test.  Returns per node (mask, hashes[0..3], depths[0..3])
    where index = level; None for a node the rules do not cover (malformed exotic data)."""
    out = []
    for ty, bits, refs in dag:
        kids = [out[r] for r in refs]
        if any(k is None for k in kids):
            out.append(None)
            continue
        if ty == -1:
            mask = 0
            for k in kids:
                mask |= k[0]
        elif ty == 1:
            if len(bits) < 16:
                out.append(None)
                continue
            mask = int(bits[8:16], 2)
            if not 1 <= mask <= 7 or len(bits) != 16 + 272 * bin(mask).count("1") or refs:
                out.append(None)
                continue
        elif ty == 2:
            mask = 0
        elif ty == 3:
            if len(refs) != 1:
                out.append(None)
                continue
            mask = kids[0][0] >> 1
        elif ty == 4:
            if len(refs) != 2:
                out.append(None)
                continue
            mask = (kids[0][0] | kids[1][0]) >> 1
        else:
            out.append(None)
            continue
        nb = len(bits)
        data = bits + ("1" + "0" * (7 - nb % 8) if nb % 8 else "")
        data = bytes(int(data[i:i + 8], 2) for i in range(0, len(data), 8))
        d2 = nb // 8 + (nb + 7) // 8
        merkle = 1 if ty in (3, 4) else 0
        hs, ds = [None] * 4, [None] * 4
        prev = None
        pop = bin(mask).count("1")
        for lvl in range(4):
            significant = lvl == 0 or (mask >> (lvl - 1)) & 1
            if not significant:
                hs[lvl], ds[lvl] = hs[lvl - 1], ds[lvl - 1]
                continue
            hidx = bin(mask & ((1 << lvl) - 1)).count("1")
            if ty == 1 and hidx != pop:
                # a pruned branch below its own level: the stored hash / depth
                hs[lvl] = data[2 + 32 * hidx: 2 + 32 * (hidx + 1)]
                ds[lvl] = int.from_bytes(data[2 + 32 * pop + 2 * hidx: 2 + 32 * pop + 2 * hidx + 2], "big")
                continue
            lmask = mask & ((1 << lvl) - 1)
            d1 = len(refs) + (8 if ty != -1 else 0) + 32 * lmask
            body = bytes([d1, d2]) + (data if (prev is None or ty == 1) else prev)
            depth = 0
            for k in kids:
                kd = k[2][min(3, lvl + merkle)]
                body += kd.to_bytes(2, "big")
                depth = max(depth, kd + 1)
            for k in kids:
                body += k[1][min(3, lvl + merkle)]
            hs[lvl] = hashlib.sha256(body).digest()
            ds[lvl] = depth
            prev = hs[lvl]
        out.append((mask, hs, ds))
    return out


def fix_merkle_fields(dag):
    """Rewrite Merkle proof/update data so that stored hashes/depths are those of the children (computed by the
    independent reference ref_hd, not by the library)."""
    out = []
    for ty, bits, refs in dag:
        info = ref_hd(out)
        if ty == 3 and info[refs[0]] is not None:
            c = info[refs[0]]
            node = mproof_node(c[1][0], c[2][0], refs[0])
        elif ty == 4 and info[refs[0]] is not None and info[refs[1]] is not None:
            a, b = info[refs[0]], info[refs[1]]
            node = mupdate_node(a[1][0], b[1][0], a[2][0], b[2][0], refs[0], refs[1])
        else:
            node = (ty, bits, refs)
        out.append(node)
    return out
