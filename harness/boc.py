"""Bag-of-cells helpers: an independent (harness-side) encoder that exercises every freedom of the
format, corruption generators, and implementation-side runners (C03, C04, C05)."""
import base64

import cells
import core
import hm


def tree_text_of_dag(dag, i=None):
    if i is None:
        i = len(dag) - 1
    ty, bits, refs = dag[i]
    return f"[{'' if ty == -1 else str(ty) + '!'}{bits or '-'}{''.join(tree_text_of_dag(dag, r) for r in refs)}]"


def py_to_boc(case):
    dag, idx, crc, cache = case
    c = cells.build_py(dag)[-1]
    return "ok " + c.to_boc(has_idx=bool(idx), hash_crc32=bool(crc), has_cache_bits=bool(cache)).hex()


def py_parse_any(data):
    """py_parse on any accepted input form (str hex / base64, bytes, bytearray)"""
    from pytoniq_core.boc.cell import Cell
    rs = Cell.from_boc(data)
    return f"ok {len(rs)} " + " ".join(hm.cell_text(r) for r in rs)


def py_parse(h):
    from pytoniq_core.boc.cell import Cell
    rs = Cell.from_boc(bytes.fromhex(h))
    return f"ok {len(rs)} " + " ".join(hm.cell_text(r) for r in rs)


def py_parse_hash(h):
    from pytoniq_core.boc.cell import Cell
    rs = Cell.from_boc(bytes.fromhex(h))
    return f"ok {len(rs)} " + " ".join(r.hash.hex() for r in rs)


# ---------------------------------------------------------------- independent encoder
def node_bytes(ty, bits, mask, ref_idx, size, with_hashes, rng):
    nb = len(bits)
    d1 = len(ref_idx) + (8 if ty != -1 else 0) + (16 if with_hashes else 0) + 32 * mask
    d2 = nb // 8 + (nb + 7) // 8
    data = bits
    if nb % 8:
        data = bits + "1" + "0" * (7 - nb % 8)
    body = bytes([d1, d2])
    if with_hashes:
        hc = bin(mask).count("1") + 1
        body += rng.randbytes(32 * hc) + rng.randbytes(2 * hc)
    body += bytes(int(data[i:i + 8], 2) for i in range(0, len(data), 8))
    for r in ref_idx:
        body += r.to_bytes(size, "big")
    return body


def dag_masks(dag):
    ms = []
    for ty, bits, refs in dag:
        if ty == -1:
            m = 0
            for r in refs:
                m |= ms[r]
        elif ty == 1:
            m = int(bits[8:16], 2) if len(bits) >= 16 else 0
        elif ty == 3:
            m = ms[refs[0]] >> 1 if refs else 0
        elif ty == 4:
            m = (ms[refs[0]] | ms[refs[1]]) >> 1 if len(refs) > 1 else 0
        else:
            m = 0
        ms.append(m)
    return ms


def crc32c_ref(data):
    """bitwise CRC-32C (Castagnoli), independent of the library's table"""
    crc = 0xFFFFFFFF
    for b in data:
        crc ^= b
        for _ in range(8):
            crc = (crc >> 1) ^ 0x82F63B78 if crc & 1 else crc >> 1
    return (crc ^ 0xFFFFFFFF).to_bytes(4, "little")


def foreign_encode(rng, dag, roots=None, freedoms=True, force=None, force_hashes=None):
    """Encode the cells of `dag` (children-first list) as a conforming BoC using random admissible choices.
    Returns (bytes, root indices into dag, description)."""
    n = len(dag)
    roots = roots or [n - 1]
    # a random order with every cell before its references: reverse of a random children-first order
    placed, order = set(), []
    remaining = list(range(n))
    while remaining:
        ready = [i for i in remaining if all(r in placed for r in dag[i][2])]
        i = rng.choice(ready) if freedoms else ready[0]
        order.append(i)
        placed.add(i)
        remaining.remove(i)
    order.reverse()                     # parents first
    pos = {node: k for k, node in enumerate(order)}
    masks = dag_masks(dag)
    min_size = max(1, (n.bit_length() + 7) // 8)
    size = rng.randint(min_size, 4) if freedoms else min_size
    magic = rng.choice(["reach", "reach", "reach", "idx", "idxcrc"]) if freedoms and len(roots) == 1 else "reach"
    if force:
        size, magic = force["size"], force["magic"]
    with_hashes = freedoms and rng.random() < 0.3
    if force_hashes is not None:
        with_hashes = force_hashes
    body_cells = [node_bytes(dag[i][0], dag[i][1], masks[i], [pos[r] for r in dag[i][2]], size,
                             with_hashes and (force_hashes or rng.random() < 0.7), rng) for i in order]
    payload = b"".join(body_cells)
    if magic == "reach":
        has_idx = rng.random() < 0.5 if freedoms else False
        has_crc = rng.random() < 0.5 if freedoms else False
        has_cache = has_idx and freedoms and rng.random() < 0.4
        if force:
            has_idx, has_crc, has_cache = force.get("idx", False), force.get("crc", False), False
    else:
        has_idx, has_crc, has_cache = True, magic == "idxcrc", False
    max_off = len(payload) * (2 if has_cache else 1)
    min_off = max(1, (max_off.bit_length() + 7) // 8)
    off = rng.randint(min_off, 8) if freedoms else min_off
    if force:
        off = force["off"]
    if magic == "reach":
        out = bytes.fromhex("b5ee9c72") + bytes([128 * has_idx + 64 * has_crc + 32 * has_cache + size])
    elif magic == "idx":
        out = bytes.fromhex("68ff65f3") + bytes([size])
    else:
        out = bytes.fromhex("acc3a728") + bytes([size])
    # legacy layouts have one root = cell 0: rotate so that the root is first (it already is: order is parents first
    # and the single root reaches everything only if the DAG is rooted; otherwise fall back to reach)
    out += bytes([off]) + n.to_bytes(size, "big") + len(roots).to_bytes(size, "big") + (0).to_bytes(size, "big")
    out += len(payload).to_bytes(off, "big")
    if magic == "reach":
        for r in roots:
            out += pos[r].to_bytes(size, "big")
    if has_idx:
        acc = 0
        for cb in body_cells:
            acc += len(cb)
            out += (acc * 2 + (rng.randrange(2) if freedoms else 0) if has_cache else acc).to_bytes(off, "big")
    out += payload
    if has_crc:
        out += crc32c_ref(out)
    if magic != "reach" and pos[roots[0]] != 0:
        return None
    return out, roots, {"magic": magic, "size": size, "off": off, "idx": has_idx, "crc": has_crc, "cache": has_cache,
                        "hashes": with_hashes, "roots": len(roots), "cells": n}


def b64(data):
    return base64.b64encode(data).decode()
