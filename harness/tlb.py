"""TL-B decision trees (out/tlb_impl.json, produced by tools/translate_tlb.py): a tree-directed generator of
valid inputs, the implementation-side runner and a dumper that renders Python objects in the driver's format."""
import importlib
import json
import os
import re

import bs
import cells
import core
import hm

IMPL_JSON = os.path.join(core.OUT, "tlb_impl.json")


def load_trees():
    return json.load(open(IMPL_JSON))


# ------------------------------------------------------------------------------------------ generator
class GenFail(Exception):
    pass


class SliceB:
    def __init__(self):
        self.bits = []        # list of one-element lists [None|0|1] (shared cells)
        self.refs = []        # list of SliceB | ("cell", dag index)
        self.look = []        # lookahead cells created by peeks, to be consumed by the next appends
        self.special = False

    def append_cells(self, n):
        out = []
        for _ in range(n):
            if self.look:
                c = self.look.pop(0)
            else:
                c = [None]
            self.bits.append(c)
            out.append(c)
        return out

    def peek_cells(self, n):
        while len(self.look) < n:
            self.look.append([None])
        return self.look[:n]

    def append_const(self, bitstr):
        cs = self.append_cells(len(bitstr))
        for c, ch in zip(cs, bitstr):
            v = int(ch)
            if c[0] is not None and c[0] != v:
                raise GenFail("lookahead conflict")
            c[0] = v


def can_succeed(t, memo):
    k = t[0]
    if k == "ret":
        return True
    if k == "fail":
        return False
    key = id(t)
    if key in memo:
        return memo[key]
    memo[key] = False
    if k == "op":
        r = can_succeed(t[4], memo)
    elif k == "if":
        r = can_succeed(t[3], memo) or can_succeed(t[4], memo)
    elif k == "guard":
        r = can_succeed(t[4], memo) or can_succeed(t[5], memo)
    else:
        r = can_succeed(t[2], memo) or can_succeed(t[3], memo)
    memo[key] = r
    return r


class Gen:
    def __init__(self, trees, rng, dag):
        self.trees, self.rng, self.dag = trees, rng, dag
        self.memo = {}
        self.unsupported = None

    def gen_type(self, key, sl, depth):
        if key not in self.trees:
            raise GenFail("untraced type " + key)
        if depth > 12:
            raise GenFail("depth")
        return self.walk(self.trees[key], {0: sl}, [], depth)

    def walk(self, t, slices, varcells, depth):
        rng = self.rng
        while True:
            k = t[0]
            if k == "ret":
                return
            if k == "fail":
                raise GenFail("fail leaf")
            if k == "ifspecial":
                t = t[2]          # ordinary cells only
                continue
            if k == "guard":
                def num(x):
                    if x[0] == "const":
                        return x[1]
                    cs = varcells[x[1]]
                    if cs is None:
                        raise GenFail("guard on a value without bits")
                    for c in cs:
                        if c[0] is None:
                            c[0] = rng.randrange(2)
                    return int("".join(str(c[0]) for c in cs) or "0", 2)
                # boundary first: with probability 0.35 the two sides are made EQUAL (le/ge accept, lt/gt refuse there)
                def cells_of(x):
                    return None if x[0] == "const" else varcells[x[1]]
                ca, cb = cells_of(t[2]), cells_of(t[3])
                if rng.random() < 0.35:
                    if ca and cb and len(ca) == len(cb) and all(c[0] is None for c in ca + cb):
                        for x, y in zip(ca, cb):
                            x[0] = y[0] = rng.randrange(2)
                    elif ca and cb is None and t[3][0] == "const" and all(c[0] is None for c in ca) and 0 <= t[3][1] < (1 << len(ca)):
                        for x, bit in zip(ca, format(t[3][1], f"0{len(ca)}b")):
                            x[0] = int(bit)
                    elif cb and ca is None and t[2][0] == "const" and all(c[0] is None for c in cb) and 0 <= t[2][1] < (1 << len(cb)):
                        for x, bit in zip(cb, format(t[2][1], f"0{len(cb)}b")):
                            x[0] = int(bit)
                a, b = num(t[2]), num(t[3])
                c = {"lt": a < b, "le": a <= b, "gt": a > b, "ge": a >= b}[t[1]]
                t = t[5] if c else t[4]
                continue
            if k == "if":
                cellv = varcells[t[1]]
                if cellv is None or t[2] >= len(cellv):
                    raise GenFail("branch on a value without bits")
                c = cellv[t[2]]
                ok0, ok1 = can_succeed(t[3], self.memo), can_succeed(t[4], self.memo)
                if c[0] is None:
                    opts = [d for d, ok in ((0, ok0), (1, ok1)) if ok]
                    if not opts:
                        raise GenFail("dead end")
                    # deeper recursion prefers the branch with the smaller tree
                    c[0] = rng.choice(opts) if depth < 6 else min(opts, key=lambda d: tsize(t[3 + d]))
                t = t[3 + c[0]]
                continue
            # op
            sid, kind, p, nxt = t[1], t[2], t[3], t[4]
            sl = slices.get(sid)
            if sl is None:
                raise GenFail("unknown slice")
            cellsv = None
            if kind in ("uint", "int", "bits"):
                cellsv = sl.append_cells(p[0])
            elif kind == "bytes":
                cellsv = sl.append_cells(8 * p[0])
            elif kind in ("bit", "bool"):
                cellsv = sl.append_cells(1)
            elif kind == "peek_bits" or kind == "peek_uint":
                cellsv = sl.peek_cells(p[0])
            elif kind == "peek_bytes":
                cellsv = sl.peek_cells(8 * p[0])
            elif kind == "coins":
                sl.append_const(var_uint_bits(rng, 4))
            elif kind == "varuint":
                sl.append_const(var_uint_bits(rng, p[0]))
            elif kind == "varint":
                sl.append_const(var_uint_bits(rng, p[0], signed=True))
            elif kind == "addr":
                sl.append_const(addr_bits(rng))
            elif kind == "refcell":
                self.dag.append((-1, cells.rand_bits(rng, rng.choice([0, 8, 19])), []))
                sl.refs.append(("cell", len(self.dag) - 1))
            elif kind == "mayberefcell":
                if rng.random() < 0.5:
                    sl.append_const("0")
                    cellsv = [[0]]
                else:
                    cellsv = [[1]]
                    sl.append_const("1")
                    self.dag.append((-1, cells.rand_bits(rng, rng.choice([0, 8, 19])), []))
                    sl.refs.append(("cell", len(self.dag) - 1))
            elif kind == "ref":
                nb = SliceB()
                slices[p[0]] = nb
                sl.refs.append(nb)
            elif kind == "call":
                key = p[0] + ("(" + ",".join(str(a) for a in p[1:]) + ")" if len(p) > 1 else "")
                self.gen_type(key, sl, depth + 1)
            elif kind == "tocell":
                pass
            elif kind in ("dict", "hashmap"):
                cellsv = [[self.gen_dict(sl, p[0], p[1], depth, inline=(kind == "hashmap"))]]
            else:
                self.unsupported = kind
                raise GenFail("generator does not support op " + kind)
            varcells.append(cellsv)
            t = nxt

    def gen_dict(self, sl, n, sub, depth, inline):
        rng = self.rng
        nkeys = rng.choice([0, 1, 1, 2, 3]) if not inline else rng.choice([1, 2, 3])
        if depth > 5:
            nkeys = min(nkeys, 1)
        if nkeys == 0:
            sl.append_const("0")
            return 0
        keys = hm.rand_keyset(rng, n, nkeys, "uniform")
        vals = {}
        for k in keys:
            leaf = SliceB()
            self.walk(sub, {0: leaf}, [], depth + 2)
            bits, refs = self.finish(leaf)
            vals[k] = (bits, refs)
        idx = hm.build_any_tree(rng, sorted(keys), vals, n, self.dag, canonical=True)
        if inline:
            ty, bits, refs = self.dag[idx]
            sl.append_const(bits)
            for r in refs:
                sl.refs.append(("cell", r))
        else:
            sl.append_const("1")
            sl.refs.append(("cell", idx))
        return 1

    def finish(self, sl):
        """materialise a slice builder: returns (bits, [dag indexes of refs])"""
        if sl.look:
            # unread lookahead bits must still exist in the slice
            for c in sl.look:
                sl.bits.append(c)
            sl.look = []
        bits = "".join(str(c[0] if c[0] is not None else self.rng.randrange(2)) for c in sl.bits)
        for c in sl.bits:
            if c[0] is None:
                c[0] = 0
        # (bits were drawn above; write them back so shared cells agree)
        refs = []
        for r in sl.refs:
            if isinstance(r, tuple):
                refs.append(r[1])
            else:
                b, rr = self.finish(r)
                self.dag.append((-1, b, rr))
                refs.append(len(self.dag) - 1)
        if len(bits) > 1023 or len(refs) > 4:
            raise GenFail("does not fit a cell")
        return bits, refs


def tsize(t):
    k = t[0]
    if k == "op":
        return 1 + tsize(t[4])
    if k == "if":
        return 1 + tsize(t[3]) + tsize(t[4])
    if k == "ifspecial":
        return 1 + tsize(t[2])
    if k == "guard":
        return 1 + tsize(t[4]) + tsize(t[5])
    return 1


def var_uint_bits(rng, k, signed=False):
    maxlen = (1 << k) - 1
    ln = rng.choice([0, 1, 1, 2, min(maxlen, 4), rng.randrange(0, maxlen + 1)])
    return format(ln, f"0{k}b") + cells.rand_bits(rng, 8 * ln)


def addr_bits(rng):
    k = rng.random()
    if k < 0.2:
        return "00"
    if k < 0.35:
        ln = rng.choice([1, 8, 30])
        return "01" + format(ln, "09b") + cells.rand_bits(rng, ln)
    if k < 0.45:
        d = rng.choice([1, 5, 30])
        return "101" + format(d, "05b") + cells.rand_bits(rng, d) + cells.rand_bits(rng, 8 + 256)
    return "100" + cells.rand_bits(rng, 8 + 256)


def gen_case(trees, rng, key, tries=30):
    """returns a cell DAG whose root is a valid input of `key` (per the implementation's own tree), or None"""
    last = None
    for _ in range(tries):
        dag = []
        g = Gen(trees, rng, dag)
        root = SliceB()
        try:
            g.gen_type(key, root, 0)
            bits, refs = g.finish(root)
            dag.append((-1, bits, refs))
            return dag
        except GenFail as e:
            last = str(e)
            if g.unsupported:
                return None
        except RecursionError:
            last = "recursion"
    return None


# ------------------------------------------------------------------------------------------ implementation side
_classes = None


def classes():
    global _classes
    if _classes is None:
        _classes = {}
        for m in ["pytoniq_core.tlb.transaction", "pytoniq_core.tlb.account", "pytoniq_core.tlb.block",
                  "pytoniq_core.tlb.utils", "pytoniq_core.tlb.config", "pytoniq_core.tlb.vm_stack",
                  "pytoniq_core.tlb.custom.wallet", "pytoniq_core.tlb.custom.nft"]:
            mod = importlib.import_module(m)
            for name, obj in vars(mod).items():
                if isinstance(obj, type) and obj.__module__ == m:
                    _classes[name] = obj
    return _classes


def split_key(key):
    if "(" in key:
        name, a = key[:-1].split("(")
        return name, [int(x) for x in a.split(",") if x != ""]
    return key, []


def py_run(case):
    """case = (key, dag); returns ('ok', object, remaining bits, remaining refs)"""
    key, dag = case
    name, args = split_key(key)
    cls = classes()[name]
    root = cells.build_py(dag)[-1]
    s = root.begin_parse()
    obj = cls.deserialize(s, *args)
    return obj, len(s.bits), len(s.refs) - s.ref_offset


# ---- dumper driven by the model's output (template)
TOK = re.compile(r'\s*(?:(?P<obj>[A-Za-z_][A-Za-z_0-9]*)\{|(?P<sym>[\[\]<>{};,:=])|(?P<str>"[^"]*")|(?P<atom>[^\[\]<>{};,:=\s]+))')


def parse_tmpl(s):
    pos = 0

    def peek():
        nonlocal pos
        m = TOK.match(s, pos)
        return m

    def value():
        nonlocal pos
        m = TOK.match(s, pos)
        if not m:
            raise ValueError("template parse error at " + s[pos:pos + 20])
        pos = m.end()
        if m.group("obj"):
            fields = []
            if s[pos:pos + 1] == "}":
                pos += 1
                return ("obj", m.group("obj"), fields)
            while True:
                fm = TOK.match(s, pos)
                name = fm.group("atom")
                pos = fm.end()
                pos = TOK.match(s, pos).end()          # '='
                fields.append((name, value()))
                sm = TOK.match(s, pos)
                pos = sm.end()
                if sm.group("sym") == "}":
                    break
            return ("obj", m.group("obj"), fields)
        if m.group("sym") == "[":
            items = []
            if s[pos:pos + 1] == "]":
                pos += 1
                return ("list", items)
            while True:
                items.append(value())
                sm = TOK.match(s, pos)
                pos = sm.end()
                if sm.group("sym") == "]":
                    break
            return ("list", items)
        if m.group("sym") == "<":
            items = []
            if s[pos:pos + 1] == ">":
                pos += 1
                return ("dict", items)
            while True:
                km = TOK.match(s, pos)
                kk = km.group("atom")
                pos = km.end()
                pos = TOK.match(s, pos).end()          # ':'
                items.append((kk, value()))
                sm = TOK.match(s, pos)
                pos = sm.end()
                if sm.group("sym") == ">":
                    break
            return ("dict", items)
        if m.group("str") is not None:
            return ("str", m.group("str")[1:-1])
        return ("atom", m.group("atom"))
    v = value()
    return v


def dump_like(obj, tmpl):
    k = tmpl[0]
    if k == "obj":
        if obj is None or isinstance(obj, (int, str, bytes, list, dict)):
            return "!" + type(obj).__name__
        out = []
        for name, sub in tmpl[2]:
            if not hasattr(obj, name):
                out.append(f"{name}=!missing")
            else:
                out.append(f"{name}={dump_like(getattr(obj, name), sub)}")
        return type(obj).__name__ + "{" + ";".join(out) + "}"
    if k == "list":
        if not isinstance(obj, (list, tuple)):
            return "!" + type(obj).__name__
        subs = tmpl[1]
        return "[" + ",".join(dump_like(x, subs[i] if i < len(subs) else ("atom", "auto")) for i, x in enumerate(obj)) + "]"
    if k == "dict":
        if not isinstance(obj, dict):
            return "!" + type(obj).__name__
        subs = tmpl[1]
        keys = list(obj)
        return "<" + ",".join(f"{bs.hz(kk)}:{dump_like(obj[kk], subs[i][1] if i < len(subs) else ('atom', 'auto'))}"
                              for i, kk in enumerate(keys)) + ">"
    if k == "str":
        return '"' + str(obj) + '"'
    a = tmpl[1]
    return dump_atom(obj, a)


def dump_atom(obj, a):
    from pytoniq_core.boc.cell import Cell
    from pytoniq_core.boc.slice import Slice
    from pytoniq_core.boc.address import Address, ExternalAddress
    if a == "?":
        return "?"
    if obj is None:
        return "~"
    if a in ("T", "F") and isinstance(obj, (bool, int)):
        return "T" if obj else "F"
    if isinstance(obj, bool):
        return "T" if obj else "F"
    if isinstance(obj, int):
        return bs.hz(obj)
    if isinstance(obj, (bytes, bytearray)):
        return "b" + (bytes(obj).hex() or "-")
    if isinstance(obj, str):
        if a.startswith("x"):
            return "x" + (obj or "-")
        return '"' + obj + '"'
    if isinstance(obj, (Address, ExternalAddress)):
        return "@" + bs.show_addr(obj).replace(":", "/")
    if isinstance(obj, Cell):
        return bs.tag(obj)
    if isinstance(obj, Slice):
        return f"sl{len(obj.bits)}/{len(obj.refs) - obj.ref_offset}"
    if hasattr(obj, "to01"):
        return "s" + (obj.to01() or "-")
    return "!" + type(obj).__name__


def py_dump(case, model_line):
    """render the implementation's result in the shape of the model's line"""
    try:
        obj, rb, rr = py_run(case)
    except RecursionError:
        return "err Recursion"
    except Exception as e:
        return "err " + core.ERR_KINDS.get(type(e).__name__, "Other")
    if not model_line.startswith("ok "):
        return "ok <no template: model failed>"
    body = model_line[3:].rsplit(" rest=", 1)[0]
    try:
        tmpl = parse_tmpl(body)
    except Exception as e:
        return f"ok <template error {e}>"
    return f"ok {dump_like(obj, tmpl)} rest={rb}/{rr}"
