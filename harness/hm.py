"""Dictionary (HashMap) helpers shared by C09 and C10."""
import cells
import core
import bs


def cell_text(c):
    ty = "" if c.type_ == -1 else f"{c.type_}!"
    return f"[{ty}{c.bits.to01() or '-'}{''.join(cell_text(r) for r in c.refs)}]"


def kv_tok(k, vb, vr):
    return f"{k or '-'};{vb or '-'};{','.join(str(i) for i in vr)}"


def ser_line(n, dag, kvs):
    return f"hm_ser {n} {cells.dag_line(dag)} " + " ".join(kv_tok(*kv) for kv in kvs)


def py_ser(case):
    """case = (n, dag, [(keybits, valbits, [ref idx])...]) insertion sequence"""
    from pytoniq_core.boc.hashmap.hashmap import HashMap
    from pytoniq_core.boc.cell import Cell
    n, dag, kvs = case
    objs = cells.build_py(dag)
    hm = HashMap(n, value_serializer=lambda src, dest: dest.store_slice(src))
    for k, vb, vr in kvs:
        payload = Cell(cells.tvm_bits(vb), [objs[i] for i in vr], -1).begin_parse()
        hm.set_int_key(int(k, 2) if k else 0, payload)
    c = hm.serialize()
    return "ok none" if c is None else "ok " + cell_text(c)


def show_leaf(k, s):
    refs = s.refs[s.ref_offset:]
    return f"{k or '-'}={s.bits.to01() or '-'}/{','.join(bs.tag(r) for r in refs) or '-'}"


def py_parse(case):
    """case = (n, dag): HashMap.parse semantics on the root cell (None for a non-ordinary root)."""
    from pytoniq_core.boc.hashmap.parse import parse_hashmap
    from pytoniq_core.boc.exotic import CellTypes
    n, dag = case
    root = cells.build_py(dag)[-1]
    s = root.begin_parse()
    if s.type_ != CellTypes.ordinary:
        return "ok none"
    r = parse_hashmap(s, n)
    return "ok " + (",".join(show_leaf(k, v) for k, v in r.items()) or "-")


def parse_line(case):
    n, dag = case
    return f"hm_parse {n} {cells.dag_line(dag)}"


def py_parse_aug(case):
    from pytoniq_core.boc.hashmap.parse import parse_aug
    from bitarray import bitarray
    n, ylen, dag = case
    root = cells.build_py(dag)[-1]
    ret, extras = {}, []
    r = parse_aug(root.begin_parse(), n, ret, extras, bitarray(""),
                  lambda cs: cs, lambda cs: cs.load_bits(ylen).to01() or "-")
    leaves = ",".join(show_leaf(k, v) for k, v in ret.items()) or "-"
    return f"ok {leaves} extras={','.join(extras) or '-'}"


def parse_aug_line(case):
    n, ylen, dag = case
    return f"hm_parse_aug {n} {ylen} {cells.dag_line(dag)}"


# ---------------------------------------------------------------- key-set generators
def rand_keyset(rng, n, count, style):
    keys = set()
    if style == "dense":
        base = rng.getrandbits(n) & ~((1 << min(n, 4)) - 1)
        for i in range(min(count, 1 << min(n, 4))):
            keys.add((base | i) & ((1 << n) - 1))
    elif style == "cluster":
        pref = rng.getrandbits(n)
        for _ in range(count):
            low = rng.choice([1, 2, 3, 8, n])
            low = min(low, n)
            keys.add((pref >> low << low) | rng.getrandbits(low))
    elif style == "runs":
        for _ in range(count):
            cut = rng.randrange(n + 1)
            v = rng.choice([0, (1 << n) - 1])
            w = rng.choice([0, (1 << cut) - 1])
            keys.add(((v >> cut) << cut | w) & ((1 << n) - 1))
    else:
        for _ in range(count):
            keys.add(rng.getrandbits(n))
    ks = [format(k, f"0{n}b") for k in keys]
    rng.shuffle(ks)
    return ks


# ---------------------------------------------------------------- non-canonical valid trees (C10)
def label_bits(kind, label, m):
    n = len(label)
    k = m.bit_length()
    if kind == "s":
        return "0" + "1" * n + "0" + label
    if kind == "l":
        return "10" + (format(n, f"0{k}b") if k else "") + label
    return "11" + (label[0] if label else "0") + (format(n, f"0{k}b") if k else "")


def kinds_for(label):
    ks = ["s", "l"]
    if len(set(label)) <= 1:
        ks.append("e")
    return ks


def build_any_tree(rng, keys, vals, m, dag, canonical=False, prune=0.0, aug_y=None, pruned_out=None, prefix=""):
    """Append cells of a valid Hashmap tree over the (suffix) keys to dag; returns node index.
    keys: list of equal-length bit strings (distinct); vals: dict full-key -> (bits, [refs]).
    aug_y: None or function(list of full keys below) -> extra bits (fixed length)."""
    assert keys
    label = common_prefix(keys)
    if canonical:
        kind = canonical_kind(label, m)
    else:
        ks = [k for k in kinds_for(label) if len(label_bits(k, label, m)) <= 1023 - 64]
        kind = rng.choice(ks)
    lb = label_bits(kind, label, m)
    rest = [k[len(label):] for k in keys]
    if len(keys) == 1:
        full = prefix + keys[0]
        vb, vr = vals[full]
        y = aug_y([full]) if aug_y else ""
        dag.append((-1, lb + y + vb, list(vr)))
        return len(dag) - 1
    left = [k[1:] for k in rest if k[0] == "0"]
    right = [k[1:] for k in rest if k[0] == "1"]
    kids = []
    for side, sub in (("0", left), ("1", right)):
        if prune and rng.random() < prune:
            dag.append(cells.pruned_node(1, [rng.randbytes(32)], [rng.randrange(100)]))
            if pruned_out is not None:
                pruned_out.extend(prefix + label + side + k for k in sub)
            kids.append(len(dag) - 1)
        else:
            kids.append(build_any_tree(rng, sub, vals, m - len(label) - 1, dag, canonical, prune, aug_y,
                                       pruned_out, prefix + label + side))
    y = aug_y([prefix + k for k in keys]) if aug_y else ""
    dag.append((-1, lb + y, kids))
    return len(dag) - 1


def common_prefix(keys):
    a, b = min(keys), max(keys)
    i = 0
    while i < len(a) and a[i] == b[i]:
        i += 1
    return a[:i]


def canonical_kind(label, m):
    """dict.cpp append_dict_label / append_dict_label_same"""
    n = len(label)
    k = m.bit_length()
    if n > 0 and len(set(label)) == 1:
        if n > 1 and k < 2 * n - 1:
            return "e"
        return "l" if k < n else "s"
    return "l" if k < n else "s"
