#!/venv/bin/python
import argparse
import importlib
import os
import sys

sys.path.insert(0, os.path.dirname(os.path.abspath(__file__)))
sys.setrecursionlimit(1000)
import core  # noqa


def main():
    ap = argparse.ArgumentParser()
    ap.add_argument("prop")
    ap.add_argument("--tier", default=os.environ.get("VERIF_TIER", "quick"), choices=["quick", "thorough"])
    ap.add_argument("--replay")
    a = ap.parse_args()
    seed = int(os.environ.get("VERIF_SEED", "0") or 0)
    sys.path.insert(0, core.REPO)
    mod = importlib.import_module(f"props.{a.prop.lower()}")
    if a.replay:
        sys.exit(core.run_replay(mod, a.replay))
    sys.exit(core.run_check(mod, a.tier, seed))


if __name__ == "__main__":
    main()
