"""Shared machinery of every check: regenerate Gen/, build the Coq development, read
Print Assumptions, build/run the extracted model, compare with the implementation,
search for failing inputs, write evidence, decide the verdict (DESIGN.md 2.2)."""
import fcntl
import hashlib
import json
import os
import random
import re
import shutil
import signal
import subprocess
import sys
import time
import traceback

VERIF = os.path.dirname(os.path.dirname(os.path.abspath(__file__)))
COQ = os.path.join(VERIF, "coq")
REPO = os.environ.get("VERIF_REPO", "/repo")
EVID = os.path.join(VERIF, "evidence")
FINDINGS = os.path.join(VERIF, "KNOWN_FINDINGS.txt")
OUT = os.path.join(VERIF, "out")  # replay files and logs written at run time
NPROC = os.cpu_count() or 4

ERR_KINDS = {
    "OverflowError": "Overflow", "TvmBitarrayOverflowException": "Overflow",
    "TvmBitarrayUnderflowException": "Underflow", "IndexError": "Index", "KeyError": "Index",
    "ValueError": "Value", "TypeError": "Type", "BocError": "Boc", "CellError": "Cell",
    "DictError": "Dict", "AddressError": "Address", "ProofError": "Proof",
    "AssertionError": "Assert", "AttributeError": "Attr", "RecursionError": "Recursion",
    "SliceError": "Other", "Exception": "Other", "TlError": "Tl",
}


class CaseTimeout(Exception):
    pass


def _alarm(signum, frame):
    raise CaseTimeout()


def call_impl(fn, case, timeout_s=20):
    """Run the implementation on one case; canonical string result.  Exceptions become
    'err <Kind>'; a hang becomes 'timeout'."""
    old = signal.signal(signal.SIGALRM, _alarm)
    signal.setitimer(signal.ITIMER_REAL, timeout_s)
    try:
        return fn(case)
    except CaseTimeout:
        return "timeout"
    except RecursionError:
        return "err Recursion"
    except MemoryError:
        return "err Memory"
    except BaseException as e:  # noqa
        if isinstance(e, (KeyboardInterrupt, SystemExit)):
            raise
        return "err " + ERR_KINDS.get(type(e).__name__, "Other")
    finally:
        signal.setitimer(signal.ITIMER_REAL, 0)
        signal.signal(signal.SIGALRM, old)


def sh(cmd, timeout=None, cwd=None, env=None, input_=None):
    t0 = time.time()
    try:
        p = subprocess.run(cmd, shell=isinstance(cmd, str), cwd=cwd, env=env, input=input_,
                           stdout=subprocess.PIPE, stderr=subprocess.STDOUT, timeout=timeout, text=True)
        return p.returncode, p.stdout, time.time() - t0
    except subprocess.TimeoutExpired as e:
        out = e.stdout if isinstance(e.stdout, str) else (e.stdout or b"").decode(errors="replace")
        return 124, out + "\n[timeout]", time.time() - t0


# --------------------------------------------------------------------------------------
# Gen/: regeneration from /repo (tie way 1)

TRANSLATORS = {
    # gen file -> (translator script, source path relative to REPO)
    "CrcTables.v": ("tools/translate_crc.py", "pytoniq_core/crypto/crc.py"),
    "TlbImpl.v": ("tools/translate_tlb.py", None),
    "TlSchemaTable.v": ("tools/translate_tl.py", None),
}


def regenerate(gen_files, log):
    """Regenerate the requested Gen files.  Returns dict name -> status
    ('regenerated' | 'unchanged' | 'unsupported: ...')."""
    status = {}
    for name in gen_files:
        script, src = TRANSLATORS[name]
        tmp = os.path.join(COQ, "Gen", name + ".new")
        if src is None:    # the translator imports the package from PYTHONPATH itself; second argument = side output
            side = os.path.join(OUT, {"TlbImpl.v": "tlb_impl.json", "TlSchemaTable.v": "tl_table.json"}[name])
            os.makedirs(OUT, exist_ok=True)
            env = dict(os.environ, PYTHONPATH=REPO, PYTHONHASHSEED="0")
            rc, out, _ = sh([sys.executable, os.path.join(VERIF, script), tmp, side], timeout=300, env=env)
        else:
            rc, out, _ = sh([sys.executable, os.path.join(VERIF, script), os.path.join(REPO, src), tmp], timeout=120)
        dst = os.path.join(COQ, "Gen", name)
        if rc != 0:
            status[name] = "unsupported: " + out.strip().splitlines()[-1] if out.strip() else "unsupported"
            log.append(f"translator {script} failed: {out.strip()[-500:]}")
            if os.path.exists(tmp):
                os.remove(tmp)
            continue
        new = open(tmp).read()
        old = open(dst).read() if os.path.exists(dst) else None
        if new != old:
            os.replace(tmp, dst)
            status[name] = "regenerated"
        else:
            os.remove(tmp)
            status[name] = "unchanged"
        committed = os.path.join(COQ, "GenCommitted", name)
        if os.path.exists(committed) and open(committed).read() != new:
            status[name] += " (differs from committed copy)"
    return status


def restore_committed_gen(gen_files):
    for name in gen_files:
        src = os.path.join(COQ, "GenCommitted", name)
        if os.path.exists(src):
            shutil.copyfile(src, os.path.join(COQ, "Gen", name))


# --------------------------------------------------------------------------------------
# Build

HYGIENE = re.compile(
    r"\b(Admitted|admit|Axiom|Axioms|Parameter|Parameters|Conjecture|Conjectures|Admit Obligations|"
    r"Unset Guard Checking|Unset Positivity Checking|Unset Universe Checking|bypass_check|"
    r"native_compute|type-in-type|impredicative-set)\b")
TOPLEVEL_VAR = re.compile(r"^\s*(Variable|Variables|Hypothesis|Hypotheses|Context)\b")


def strip_comments(text):
    out, depth, i = [], 0, 0
    while i < len(text):
        if text.startswith("(*", i):
            depth += 1
            i += 2
        elif text.startswith("*)", i) and depth > 0:
            depth -= 1
            i += 2
        else:
            if depth == 0:
                out.append(text[i])
            elif text[i] == "\n":
                out.append("\n")
            i += 1
    return "".join(out)


def hygiene_scan():
    """Forbidden vernacular anywhere in the development; Variable/Hypothesis outside a Section."""
    bad = []
    for root, _, files in os.walk(COQ):
        for f in files:
            if not f.endswith(".v"):
                continue
            path = os.path.join(root, f)
            text = strip_comments(open(path).read())
            depth = 0
            for ln, line in enumerate(text.splitlines(), 1):
                if re.match(r"^\s*Section\b", line):
                    depth += 1
                elif re.match(r"^\s*End\b", line) and depth > 0:
                    depth -= 1
                m = HYGIENE.search(line)
                if m:
                    bad.append(f"{os.path.relpath(path, COQ)}:{ln}: {m.group(0)}")
                if depth == 0 and TOPLEVEL_VAR.match(line):
                    bad.append(f"{os.path.relpath(path, COQ)}:{ln}: top-level {line.strip().split()[0]}")
    return bad


class BuildLock:
    def __enter__(self):
        self.f = open(os.path.join(VERIF, ".build.lock"), "w")
        fcntl.flock(self.f, fcntl.LOCK_EX)
        return self

    def __exit__(self, *a):
        fcntl.flock(self.f, fcntl.LOCK_UN)
        self.f.close()


def ensure_makefile():
    mk = os.path.join(COQ, "Makefile")
    cp = os.path.join(COQ, "_CoqProject")
    if not os.path.exists(mk) or os.path.getmtime(mk) < os.path.getmtime(cp):
        sh("coq_makefile -f _CoqProject -o Makefile", cwd=COQ, timeout=120)


def make(targets, timeout=1500):
    ensure_makefile()
    cmd = f"timeout {timeout} make -j{NPROC} " + " ".join(targets)
    rc, out, dt = sh(cmd, cwd=COQ, timeout=timeout + 30)
    return rc, out, dt, cmd


def coqc_props(prop_file, timeout=1500):
    """Re-run coqc on the Props file to capture Print Assumptions for every theorem.  The output is cached next to the
    replay files and reused only while the compiled Props/Cxx.vo (which make rebuilds whenever anything it depends on
    changes) is older than the cache entry and has the recorded size/mtime."""
    cmd = f"timeout {timeout} coqc -Q . PTQ -w -notation-overridden {prop_file}"
    vo = os.path.join(COQ, prop_file + "o")
    cache = os.path.join(OUT, os.path.basename(prop_file)[:-2], "assumptions.json")
    try:
        st = os.stat(vo)
        c = json.load(open(cache))
        if c["vo_mtime"] == st.st_mtime and c["vo_size"] == st.st_size and c["rc"] == 0:
            return 0, c["out"], 0.0, cmd + "   # (output cached from the run that compiled this .vo)"
    except Exception:
        pass
    rc, out, dt = sh(cmd, cwd=COQ, timeout=timeout + 30)
    try:
        st = os.stat(vo)
        os.makedirs(os.path.dirname(cache), exist_ok=True)
        json.dump({"vo_mtime": st.st_mtime, "vo_size": st.st_size, "rc": rc, "out": out}, open(cache, "w"))
    except Exception:
        pass
    return rc, out, dt, cmd


def coqchk_props(prop, timeout=5400):
    """thorough tier: the independent checker re-checks Props/Cxx.vo and everything it depends on and lists the axioms"""
    cmd = f"timeout {timeout} coqchk -silent -o -Q . PTQ PTQ.Props.{prop}"
    rc, out, dt = sh(cmd, cwd=COQ, timeout=timeout + 30)
    axioms = None
    m = re.search(r"\* Axioms:(.*?)\n\s*\n\* Constants/Inductives relying on type-in-type:(.*?)\n\s*\n"
                  r"\* Constants/Inductives relying on unsafe \(co\)fixpoints:(.*?)\n\s*\n"
                  r"\* Inductives whose positivity is assumed:(.*?)(\n\s*\n|$)", out, flags=re.S)
    info = {"cmd": f"cd {COQ} && {cmd}", "rc": rc, "wall_s": round(dt, 1)}
    if m:
        info["axioms"] = " ".join(m.group(1).split())
        info["type_in_type"] = " ".join(m.group(2).split())
        info["unsafe_fixpoints"] = " ".join(m.group(3).split())
        info["assumed_positivity"] = " ".join(m.group(4).split())
    else:
        info["tail"] = out[-500:]
    return rc, info


def coq_eval_numbers(requires, term, name, timeout=600):
    """Evaluate a closed term of type `list N` INSIDE Coq (vm_compute by the kernel's VM, no extraction) and return the
    numbers it prints: used to cross-check the extracted OCaml model on a sample of cases (three-way agreement)."""
    d = os.path.join(OUT, "coqeval")
    os.makedirs(d, exist_ok=True)
    path = os.path.join(d, name + ".v")
    open(path, "w").write(f"From Coq Require Import NArith ZArith List.\nFrom PTQ Require Import {requires}.\nImport ListNotations.\n"
                          f"Local Open Scope N_scope.\nDefinition cases_result : list N := {term}.\n"
                          "Eval vm_compute in cases_result.\n")
    rc, out, dt = sh(f"timeout {timeout} coqc -Q {COQ} PTQ {path}", cwd=d, timeout=timeout + 30)
    if rc != 0:
        return None, out[-400:]
    body = out[out.index("=") + 1:out.rindex(":")] if "=" in out and ":" in out else ""
    return [int(x) for x in re.findall(r"\d+", body)], ""


def parse_assumptions(prop_file, coqc_out):
    """Pair every 'Theorem name' followed by 'Print Assumptions name' with the output block."""
    text = strip_comments(open(os.path.join(COQ, prop_file)).read())
    names = re.findall(r"Print Assumptions\s+(\w+)\s*\.", text)
    theorems = re.findall(r"^\s*(?:Theorem|Lemma|Corollary)\s+(\w+)", text, flags=re.M)
    examples = re.findall(r"^\s*Example\s+(\w+)", text, flags=re.M)
    blocks = []
    cur = None
    for line in coqc_out.splitlines():
        if line.startswith("Closed under the global context"):
            blocks.append([])
            cur = None
        elif line.startswith("Axioms:"):
            cur = []
            blocks.append(cur)
        elif cur is not None and line.strip():
            cur.append(line.strip())
    res = {}
    for i, n in enumerate(names):
        res[n] = blocks[i] if i < len(blocks) else None
    return theorems, examples, res


_driver_hash = None


def build_driver(log):
    ex = os.path.join(COQ, "Extract")
    srcs = ["model.mli", "model.ml", "driver_lib.ml", "driver.ml"]
    h = hashlib.sha256()
    for s in srcs:
        p = os.path.join(ex, s)
        if not os.path.exists(p):
            return False, f"missing {s}"
        h.update(open(p, "rb").read())
    stamp = os.path.join(ex, "driver.stamp")
    exe = os.path.join(ex, "driver")
    if os.path.exists(exe) and os.path.exists(stamp) and open(stamp).read() == h.hexdigest():
        return True, "up to date"
    rc, out, dt = sh("ocamlfind ocamlopt -O3 -w -a -package str " + " ".join(srcs) + " -o driver",
                     cwd=ex, timeout=600)
    if rc != 0:
        log.append("driver build failed: " + out[-2000:])
        return False, out[-2000:]
    open(stamp, "w").write(h.hexdigest())
    return True, f"rebuilt in {dt:.1f}s"


def run_driver(lines, timeout=1800, shards=None):
    """Feed lines to the extracted model; returns list of output lines (same length)."""
    if not lines:
        return []
    exe = os.path.join(COQ, "Extract", "driver")
    shards = shards or min(NPROC, max(1, len(lines) // 50))
    chunks = [lines[i::shards] for i in range(shards)]
    procs = []
    for ch in chunks:
        p = subprocess.Popen(["bash", "-c", f"ulimit -s unlimited 2>/dev/null; exec {exe}"],
                             stdin=subprocess.PIPE, stdout=subprocess.PIPE, text=True)
        procs.append(p)
    outs = []
    # write/read concurrently through communicate in threads
    import threading
    results = [None] * shards

    def work(i):
        try:
            o, _ = procs[i].communicate("\n".join(chunks[i]) + "\n", timeout=timeout)
            results[i] = o.splitlines()
        except subprocess.TimeoutExpired:
            procs[i].kill()
            results[i] = []

    ths = [threading.Thread(target=work, args=(i,)) for i in range(shards)]
    for t in ths:
        t.start()
    for t in ths:
        t.join()
    out = [None] * len(lines)
    for i in range(shards):
        r = results[i]
        for k, idx in enumerate(range(i, len(lines), shards)):
            out[idx] = r[k] if k < len(r) else "?nooutput"
    return out


# --------------------------------------------------------------------------------------
# Known findings

def load_findings(prop):
    known, fixed = [], []
    if os.path.exists(FINDINGS):
        for line in open(FINDINGS):
            line = line.strip()
            if not line or line.startswith("#"):
                continue
            if line.startswith("known:"):
                m = re.match(r"known:\s+property=(\w+)\s+id=(\w+)\s+signature=(\S+)\s+::\s+(.*)", line)
                if m and m.group(1) == prop:
                    known.append({"id": m.group(2), "signature": m.group(3), "what": m.group(4)})
            elif line.startswith("fixed:"):
                m = re.match(r"fixed:\s+property=(\w+)\s+(\S+)\s+(.*)", line)
                if m and m.group(1) == prop:
                    fixed.append({"commit": m.group(2), "what": m.group(3)})
    return known, fixed


# --------------------------------------------------------------------------------------
# The per-run context handed to property modules

class Ctx:
    def __init__(self, prop, tier, seed):
        self.prop = prop
        self.tier = tier
        self.seed = seed
        self.rng = random.Random(f"{seed}:{prop}")
        self.log = []
        self.t0 = time.time()
        self.corr = {}          # stream name -> stats
        self.disagreements = []  # (stream, case, impl, model)
        self.failures = []      # property failures on the implementation: dict(signature, what, case, stream)
        self.samples = []
        self.evaluations = 0
        self.nontrivial = set()
        self.extra = {}
        self.broken = []        # broken obligations / ties (strings)
        self.budget_s = 60 if tier == "quick" else 900

    def thorough(self):
        return self.tier == "thorough"

    def n(self, quick, thorough):
        return thorough if self.tier == "thorough" else quick

    def note_case(self, case, nontrivial=True):
        self.evaluations += 1
        if nontrivial:
            self.nontrivial.add(hashlib.sha1(json.dumps(case, sort_keys=True, default=str).encode()).hexdigest())

    def correspond(self, stream, cases, impl, to_line, nontrivial=lambda c: True, timeout_s=20,
                   post=None, _precomputed=False):
        """Differential run.  impl(case)->str ; to_line(case)->driver line.
        Agreement: equal strings, or both errors (kind drift is counted, not a disagreement)."""
        t0 = time.time()
        impl_out = [impl(c) for c in cases] if _precomputed else [call_impl(impl, c, timeout_s) for c in cases]
        model_out = run_driver([to_line(c) for c in cases])
        if _precomputed:
            cases = [c[0] for c in cases]
        if post:
            model_out = [post(c, m) for c, m in zip(cases, model_out)]
        st = self.corr.setdefault(stream, {"cases": 0, "agree": 0, "both_err": 0, "kind_drift": 0,
                                           "disagree": 0, "impl_err": 0, "by_kind": {}})
        for c, a, b in zip(cases, impl_out, model_out):
            st["cases"] += 1
            self.note_case([stream, c], nontrivial(c))
            if a.startswith("err"):
                st["impl_err"] += 1
                st["by_kind"][a] = st["by_kind"].get(a, 0) + 1
            if a == b:
                st["agree"] += 1
            elif a.startswith("err") and b.startswith("err") and a.split()[0] == b.split()[0]:
                st["agree"] += 1
                st["both_err"] += 1
                st["kind_drift"] += 1
            else:
                st["disagree"] += 1
                if len(self.disagreements) < 50:
                    self.disagreements.append({"stream": stream, "case": c, "impl": a[:400], "model": b[:400]})
        st["wall_s"] = round(st.get("wall_s", 0) + time.time() - t0, 2)
        if cases and len(self.samples) < 12:
            k = self.rng.randrange(len(cases))
            self.samples.append({"stream": stream, "case": _short(cases[k]), "impl": impl_out[k][:200],
                                 "model": model_out[k][:200]})
        return impl_out, model_out

    def correspond_pre(self, stream, cases, impl_out, lines):
        """Differential run where the implementation's results were already collected (impl_out) for the driver lines."""
        return self.correspond(stream, list(zip(cases, impl_out, lines)), lambda c: c[1], lambda c: c[2],
                               _precomputed=True)

    def correspond_templated(self, stream, cases, to_line, impl_like, nontrivial=lambda c: True, timeout_s=20):
        """Like correspond, but the implementation's result is rendered in the shape of the model's line
        (impl_like(case, model_line) -> str)."""
        t0 = time.time()
        model_out = run_driver([to_line(c) for c in cases])
        impl_out = [call_impl(lambda c, m=m: impl_like(c, m), c, timeout_s) for c, m in zip(cases, model_out)]
        st = self.corr.setdefault(stream, {"cases": 0, "agree": 0, "both_err": 0, "kind_drift": 0,
                                           "disagree": 0, "impl_err": 0, "by_kind": {}})
        for c, a, b in zip(cases, impl_out, model_out):
            st["cases"] += 1
            self.note_case([stream, c], nontrivial(c))
            if a.startswith("err"):
                st["impl_err"] += 1
                st["by_kind"][a] = st["by_kind"].get(a, 0) + 1
            if a == b:
                st["agree"] += 1
            elif a.startswith("err") and b.startswith("err"):
                st["agree"] += 1
                st["both_err"] += 1
            else:
                st["disagree"] += 1
                if len(self.disagreements) < 50:
                    self.disagreements.append({"stream": stream, "case": c, "impl": a[:600], "model": b[:600]})
        st["wall_s"] = round(st.get("wall_s", 0) + time.time() - t0, 2)
        if cases and len(self.samples) < 12:
            k = self.rng.randrange(len(cases))
            self.samples.append({"stream": stream, "case": _short(cases[k]), "impl": impl_out[k][:200],
                                 "model": model_out[k][:200]})
        return impl_out, model_out

    def fail(self, signature, what, case, stream="oracle"):
        """Record a failure of the PROPERTY on the implementation."""
        if len(self.failures) < 200:
            self.failures.append({"signature": signature, "what": what, "case": case, "stream": stream})


def _short(x, lim=300):
    s = json.dumps(x, default=str)
    return x if len(s) <= lim else s[:lim] + "..."


# --------------------------------------------------------------------------------------
# Orchestration

def write_replay(prop, name, obj):
    d = os.path.join(OUT, prop)
    os.makedirs(d, exist_ok=True)
    path = os.path.join(d, name)
    json.dump(obj, open(path, "w"), indent=1, default=str)
    return path


def run_check(mod, tier, seed):
    prop = mod.ID
    ctx = Ctx(prop, tier, seed)
    os.makedirs(EVID, exist_ok=True)
    os.makedirs(OUT, exist_ok=True)
    known, fixed = load_findings(prop)
    gen_files = getattr(mod, "GEN", [])
    prop_file = f"Props/{prop}.v"
    obligations = {}
    build_info = {}
    model_usable = True
    with BuildLock():
        gen_status = regenerate(gen_files, ctx.log)
        for g, s in gen_status.items():
            if s.startswith("unsupported"):
                ctx.broken.append(f"translator:{g}: {s}")
        targets = [f"Props/{prop}.vo", "Extract/Extract.vo"]
        if os.environ.get("VERIF_DEV_NOPROOF"):   # development aid only: harness without the proof build
            targets = ["Extract/Extract.vo"]
        rc, out, dt, cmd = make(targets)
        build_info = {"cmd": f"cd {COQ} && {cmd}", "rc": rc, "wall_s": round(dt, 1)}
        if rc != 0:
            err = _first_error(out)
            ctx.broken.append(f"build: {err}")
            ctx.log.append(out[-3000:])
            # fall back to the committed generated files so that the Spec oracle can still run
            restore_committed_gen(gen_files)
            rc2, out2, _, _ = make(targets)
            if rc2 != 0:
                model_usable = False
                ctx.log.append("build with committed Gen also failed:\n" + out2[-3000:])
        hyg = hygiene_scan()
        if hyg:
            ctx.broken.append("hygiene: " + "; ".join(hyg[:5]))
        assumptions = {}
        theorems, examples = [], []
        if rc == 0:
            rc3, out3, _, cmd3 = coqc_props(prop_file)
            build_info["props_cmd"] = f"cd {COQ} && {cmd3}"
            if rc3 != 0:
                ctx.broken.append("props: " + _first_error(out3))
            theorems, examples, assumptions = parse_assumptions(prop_file, out3)
            for t in theorems:
                ax = assumptions.get(t)
                obligations[t] = "discharged" if (rc3 == 0 and ax is not None) else "unchecked"
            if tier == "thorough" and rc3 == 0 and not os.environ.get("VERIF_DEV_NOPROOF"):
                rc4, chk = coqchk_props(prop)
                build_info["coqchk"] = chk
                if rc4 != 0 or any(chk.get(k, "?") != "<none>" for k in ("type_in_type", "unsafe_fixpoints", "assumed_positivity")):
                    ctx.broken.append("coqchk: " + json.dumps(chk)[:300])
        else:
            text = strip_comments(open(os.path.join(COQ, prop_file)).read())
            for t in re.findall(r"^\s*(?:Theorem|Lemma|Corollary)\s+(\w+)", text, flags=re.M):
                obligations[t] = "unchecked"
        ok, msg = (False, "no model") if not model_usable else build_driver(ctx.log)
        if not ok:
            model_usable = False
            ctx.broken.append("driver: " + msg[:200])
        # the property module runs with the lock held: the driver binary must not change under it
        if model_usable:
            try:
                mod.run(ctx)
            except Exception:
                ctx.broken.append("harness: " + traceback.format_exc()[-1500:])
        if rc != 0:
            # leave the regenerated files in place for the next run / inspection
            regenerate(gen_files, [])

    # ------------------------------------------------------------------ verdict
    n_dis = sum(s["disagree"] for s in ctx.corr.values())
    if n_dis:
        ctx.broken.append(f"correspondence: {n_dis} disagreement(s)")
    lines = []
    exit_code = 0
    reported_known = []
    unknown_fail = []
    for f in ctx.failures:
        k = next((k for k in known if k["signature"] == f["signature"]), None)
        if k:
            if k["id"] not in [r["id"] for r in reported_known]:
                reported_known.append(k)
        else:
            unknown_fail.append(f)
    for k in reported_known:
        lines.append(f"KNOWN-FINDING: property={prop} {k['id']} {k['what']}")
    violations = 0
    if unknown_fail:
        unknown_fail.sort(key=lambda u: len(json.dumps(u["case"], default=str)))
        f = unknown_fail[0]
        path = write_replay(prop, f"violation_{_h(f)}.json",
                            {"property": prop, "kind": "failing-input", "signature": f["signature"],
                             "what": f["what"], "stream": f["stream"], "case": f["case"], "seed": seed,
                             "also": [u["signature"] for u in unknown_fail[1:10]]})
        lines.append(f"VIOLATION property={prop} replay={path}")
        violations = len({u["signature"] for u in unknown_fail})
        exit_code = 1
    elif ctx.broken:
        path = write_replay(prop, "broken_obligation.json",
                            {"property": prop, "kind": "broken-obligation", "broken": ctx.broken,
                             "disagreements": ctx.disagreements[:10], "seed": seed,
                             "note": "no input was found on which the property itself fails on the implementation"})
        lines.append(f"VIOLATION property={prop} replay={path} no-failing-input-found")
        violations = 1
        exit_code = 1

    # ------------------------------------------------------------------ evidence
    n_obl = max(1, len(obligations))
    n_dis_obl = sum(1 for v in obligations.values() if v == "discharged")
    tb = list(getattr(mod, "TRUSTED", []))
    for t, ax in assumptions.items():
        tb.append(f"Print Assumptions {t}: " + ("Closed under the global context" if ax == [] else
                                                ("; ".join(ax) if ax else "not available")))
    if build_info.get("coqchk"):
        tb.append("coqchk -o (independent checker, whole dependency cone): axioms " + build_info["coqchk"].get("axioms", "?"))
    ev = {
        "property_id": prop, "tier": tier, "seed": seed, "level": "proof",
        "coverage": {
            "obligations": n_obl, "discharged": n_dis_obl,
            "checker_cmd": build_info.get("cmd", "") + " ; " + build_info.get("props_cmd", ""),
            "trusted_base": tb,
            "theorems": obligations, "examples": examples,
            "gen_status": gen_status, "build": build_info,
            "evaluations": ctx.evaluations, "distinct_nontrivial": len(ctx.nontrivial),
            "rule": getattr(mod, "RULE", ""),
            "samples": ctx.samples or [{"note": "no correspondence case was run"}],
            "correspondence": ctx.corr, "disagreements": ctx.disagreements[:10],
            "broken": ctx.broken, "property_failures": [
                {"signature": f["signature"], "what": f["what"]} for f in ctx.failures[:20]],
            "known_findings_reported": [k["id"] for k in reported_known],
            "fixed_findings_on_record": fixed,
            "extra": ctx.extra,
        },
        "assumptions": list(getattr(mod, "ASSUMES", [])),
        "wall_s": round(time.time() - ctx.t0, 2),
        "violations": violations,
    }
    json.dump(ev, open(os.path.join(EVID, f"{prop}.json"), "w"), indent=1, default=str)
    for l in lines:
        print(l)
    if ctx.log and exit_code:
        logp = os.path.join(OUT, prop, "log.txt")
        os.makedirs(os.path.dirname(logp), exist_ok=True)
        open(logp, "w").write("\n\n".join(ctx.log))
    print(f"{prop} {tier}: obligations {n_dis_obl}/{n_obl} discharged, "
          f"{ctx.evaluations} cases, {n_dis} disagreements, {len(ctx.failures)} property failures, "
          f"{ev['wall_s']}s -> {'FAIL' if exit_code else 'ok'}")
    return exit_code


def _h(f):
    return hashlib.sha1(json.dumps([f["signature"], f["case"]], default=str, sort_keys=True).encode()).hexdigest()[:10]


def _first_error(out):
    lines = out.splitlines()
    for i, l in enumerate(lines):
        if l.startswith("File ") and i + 1 < len(lines):
            return (l + " " + " ".join(lines[i + 1:i + 4]))[:400]
    return out[-300:].replace("\n", " ")


def run_replay(mod, path):
    obj = json.load(open(path))
    if obj.get("kind") == "broken-obligation":
        print("replay names broken obligations (no failing input was found):")
        for b in obj["broken"]:
            print("  ", b)
        # re-run the quick check: it fails iff the obligation is still broken
        return run_check(mod, "quick", obj.get("seed", 0))
    with BuildLock():
        make([f"Props/{mod.ID}.vo", "Extract/Extract.vo"])
        build_driver([])
        ctx = Ctx(mod.ID, "quick", obj.get("seed", 0))
        res = mod.replay(ctx, obj)
    if res:
        print(f"VIOLATION property={mod.ID} replay={path}")
        print("  ", res)
        return 1
    print(f"replay {path}: property holds on this input now")
    return 0
