"""C06 - typed Builder stores and Slice loads are mutually inverse and bit-exact."""
import re

import bs
import cells
import core

ID = "C06"
GEN = []
RULE = ("store sequences on a fresh builder followed by end_cell, begin_parse and typed loads: every width "
        "1..257 signed/unsigned at the range boundaries, every var-int byte-length class for 3/4/5-bit length "
        "fields incl. top-bit-set values, all address forms (none, extern, std, std+anycast), packed random "
        "interleavings up to 1023 bits / 4 refs, snake strings around the 127-byte cell boundaries and at "
        "non-zero offsets; non-trivial = at least one stored value; distinct by op text")
TRUSTED = [
    "Coq 8.16.1 kernel incl. vm_compute; no native_compute",
    "Spec/TlbPrim.v + Spec/TlbVal.v: TL-B primitive encodings stated with Z.testbit; minimal-length predicates",
    "Model/Builder.v, Model/Typed.v: hand transcription of builder.py/slice.py/address.py/tvm_bitarray.py, tied by correspondence",
    "bitarray.util.int2ba/ba2int, bitarray slicing/tobytes/frombytes as modelled",
    "extraction (ExtrOcamlBasic only) + Extract/driver.ml",
]
ASSUMES = ["strings are handled as their UTF-8 bytes", "external addresses have length 0..511"]


def gen(ctx):
    rng = ctx.rng
    out = []
    dag0 = bs.pool_dag(rng)
    for w in range(1, 258):
        for signed in (False, True):
            good, bad = bs.boundary_ints(w, signed)
            k = "i" if signed else "u"
            ops, bits = [], 0
            for v in good:
                if bits + w > 1023:
                    out.append((dag0, ops))
                    ops, bits = [], 0
                ops.append((k, w, v))
                bits += w
            out.append((dag0, ops))
            for v in bad:
                out.append((dag0, [(k, w, v)]))
    for kk in (3, 4, 5):
        for ln in range(0, 1 << kk):
            for signed in (False, True):
                for _ in range(2):
                    v = bs.var_value(rng, ln, signed)
                    out.append((dag0, [("vi" if signed else "vu", kk, v)]))
        out.append((dag0, [("vu", kk, 1 << (8 * ((1 << kk) - 1)))]))   # one byte too long
        out.append((dag0, [("vu", kk, -1)]))
    for v in (0, 1, 255, 256, (1 << 120) - 1, 1 << 120, -1):
        out.append((dag0, [("c", v)]))
    for _ in range(ctx.n(60, 600)):
        out.append((dag0, [bs.rand_addr(rng)]))
    out.append((dag0, [("addr", "ext", 0, 0)]))          # zero-length external address
    out.append((dag0, [("addr", "std", 128, "00" * 32)]))  # workchain out of int8
    out.append((dag0, [("addr", "std", 0, "00" * 32, 0, 0)]))  # anycast depth 0
    for _ in range(ctx.n(400, 6000)):
        dag = bs.pool_dag(rng)
        out.append((dag, bs.packed_sequence(rng, dag, fill_bias=rng.random() < 0.4)))
    # exact fit / one bit too many, for every kind of writer: the cell is filled so that the value ends exactly at bit
    # 1023 (must be accepted and read back) or at bit 1024 (must be refused)
    fits = [("b", 0), ("b", 1), ("mref", None), ("mref", 0), ("u", 1, 1), ("i", 1, -1), ("c", 0), ("vu", 3, 0)]
    for _ in range(ctx.n(120, 1200)):
        fits.append(bs.rand_val_op(rng, len(dag0)))
    for op in fits:
        nb, nr = bs.op_bits(op, dag0)
        if nb < 1 or nb > 1023 or nr > 4:
            continue
        for over in (0, 1):
            out.append((dag0, [("bits", cells.rand_bits(rng, 1023 - nb + over)), op]))
    for ln in [0, 1, 126, 127, 128, 253, 254, 255, 381, 382, 1000] + [rng.randrange(0, 3000) for _ in range(ctx.n(5, 60))]:
        data = rng.randbytes(ln).hex()
        out.append((dag0, [("snake", data)]))
        off = rng.choice([1, 7, 8, 9, 100])
        out.append((dag0, [("bits", cells.rand_bits(rng, off)), ("snake", data)]))
    return out


def run(ctx):
    cases = gen(ctx)
    senc = {}

    def post(c, m):
        mm = re.search(r" senc=(\w+)", m)
        if mm:
            senc[id(c)] = mm.group(1)
            return m.replace(" senc=" + mm.group(1), " senc=?")
        return m
    impl_out, model_out = ctx.correspond("store-load", cases, bs.py_rt, lambda c: bs.line("rt", *c),
                                         lambda c: len(c[1]) > 0, post=post)
    bad_senc = [c for c in cases if senc.get(id(c)) == "0"]
    if bad_senc:
        ctx.broken.append(f"model bits differ from the specification encoding on {len(bad_senc)} case(s): "
                          + bs.line("rt", *bad_senc[0])[:300])

    # property oracle on the implementation, against the extracted specification
    spec = core.run_driver([bs.line("senc", *c) for c in cases])
    n_or = 0
    for c, a, s in zip(cases, impl_out, spec):
        dag, ops = c
        if any(o[0] in ("snake", "cell", "slice", "str") for o in ops) or not ops:
            continue
        sp = dict(kv.split("=", 1) for kv in s.split(" "))
        if "0" in sp["valid"]:
            continue
        if len(sp["bits"].replace("-", "")) > 1023 or int(sp["nrefs"]) > 4:
            continue
        n_or += 1
        if not a.startswith("ok"):
            ctx.fail(sig_for(ops, "valid-value-rejected"), f"valid values refused: {a} on {bs.line('rt', dag, ops)[:200]}", {"dag": dag, "ops": ops})
            continue
        f = dict(kv.split("=", 1) for kv in a[3:].split(" "))
        if f["bits"] != sp["bits"]:
            ctx.fail(sig_for(ops, "bits-not-tlb-encoding"), "stored bits differ from the TL-B encoding", {"dag": dag, "ops": ops})
        exp = bs.expected_loads(ops)
        got = f.get("loads", "-").split("|")
        if len(got) != len(exp) or any(e is not None and e != g for e, g in zip(exp, got)):
            ctx.fail(sig_for(ops, "load-differs-from-stored"), f"loaded {got[:6]} expected {exp[:6]}", {"dag": dag, "ops": ops})
        # refs and addresses: compare through the model line (already proved equal to the stored value)
        m = model_out[cases.index(c)] if False else None
        if f.get("rest") != "0/0":
            ctx.fail(sig_for(ops, "unread-remainder"), f"rest={f.get('rest')}", {"dag": dag, "ops": ops})
        if f.get("peek") != "1":
            ctx.fail(sig_for(ops, "peek-differs-from-load"), "a preload_* returned something else than load_*", {"dag": dag, "ops": ops})
    ctx.extra["oracle_cases"] = n_or

    # addresses and refs: loaded value equals the stored one (canonical text compare on the implementation)
    for c, a in zip(cases, impl_out):
        dag, ops = c
        if not a.startswith("ok") or " loads=" not in a or any(o[0] in ("snake", "cell", "slice", "str") for o in ops):
            continue
        f = dict(kv.split("=", 1) for kv in a[3:].split(" "))
        got = f["loads"].split("|")
        for o, g in zip(ops, got):
            if o[0] == "addr":
                exp = bs.show_addr(bs.mk_addr(o))
                if exp != g:
                    ctx.fail("address-changed-by-roundtrip", f"stored {exp[:60]} loaded {g[:60]}", {"dag": dag, "ops": ops})

    # snake strings: round trip on the implementation, incl. the recursion-limited range
    snake_lens = [0, 1, 127, 128, 254, 255, 127 * 50, 127 * 900]
    if ctx.thorough():
        snake_lens += [127 * 990, 127 * 1010, 127 * 1024]
    else:
        snake_lens += [127 * 1010]
    for ln in snake_lens:
        r = core.call_impl(lambda _: snake_rt(ln), None, timeout_s=120)
        if r != "ok":
            sig = "snake-recursion-limit" if "Recursion" in r and ln > 127 * 900 else "snake-roundtrip"
            ctx.fail(sig, f"snake string of {ln} bytes: {r}", {"snake_len": ln})
    ctx.extra["snake_lengths"] = snake_lens

    # generic oracles of harness/bs.py on the implementation: refused stores (capacity never exceeded; the operations of the
    # heap model and the primitive writers leave no trace), over-reads through every consuming reader, views
    for name, fn, cnt in (("refused-store", bs.refused_store_case, ctx.n(300, 3000)), ("over-read", bs.overread_case, ctx.n(150, 1500)),
                          ("views", bs.views_case, ctx.n(20, 200)),
                          ("shared-state", bs.shared_state_case, ctx.n(40, 400))):
        for i in range(cnt):
            r = core.call_impl(lambda _: fn(i), None)
            if r != "ok":
                ctx.fail(name + ":" + r.split(":")[0].split(" (")[0][:60], r, {"generic": name, "seed": i})
                break
        ctx.extra["generic_" + name.replace("-", "_") + "_cases"] = cnt
    # the zero-length external address (valid addr_extern$01 len=0)
    r = core.call_impl(lambda _: bs.py_rt(([(-1, "", [])], [("addr", "ext", 0, 0)])), None)
    if not r.startswith("ok"):
        ctx.fail("extern-address-length-0", f"addr_extern with len=0 cannot be stored: {r}", {"dag": [(-1, "", [])], "ops": [("addr", "ext", 0, 0)], "special": "ext0"})


def sig_for(ops, base):
    return base


def snake_rt(ln):
    from pytoniq_core.boc.builder import Builder
    data = bytes((i * 7 + 3) % 256 for i in range(ln))
    c = Builder().store_snake_bytes(data).end_cell()
    back = c.begin_parse().load_snake_bytes()
    return "ok" if back == data else "mismatch"


def replay(ctx, obj):
    c = obj["case"]
    if "generic" in c:
        fn = {"refused-store": bs.refused_store_case, "over-read": bs.overread_case, "views": bs.views_case, "shared-state": bs.shared_state_case}[c["generic"]]
        r = core.call_impl(lambda _: fn(c["seed"]), None)
        return None if r == "ok" else r
    if "snake_len" in c:
        r = core.call_impl(lambda _: snake_rt(c["snake_len"]), None, timeout_s=120)
        return None if r == "ok" else f"snake string of {c['snake_len']} bytes: {r}"
    dag = [(t, b, list(r)) for t, b, r in c["dag"]]
    ops = [tuple(o) for o in c["ops"]]
    a = core.call_impl(bs.py_rt, (dag, ops))
    if c.get("special") == "ext0":
        return None if a.startswith("ok") else f"addr_extern len=0: {a}"
    s = core.run_driver([bs.line("senc", dag, ops)])[0]
    sp = dict(kv.split("=", 1) for kv in s.split(" "))
    if not a.startswith("ok"):
        return f"valid values refused: {a}"
    f = dict(kv.split("=", 1) for kv in a[3:].split(" "))
    bad = []
    if f["bits"] != sp["bits"]:
        bad.append("bits differ from TL-B encoding")
    if f.get("rest") != "0/0":
        bad.append("unread remainder " + str(f.get("rest")))
    if f.get("peek") != "1":
        bad.append("peek differs")
    exp = bs.expected_loads(ops)
    got = f.get("loads", "-").split("|")
    if any(e is not None and e != g for e, g in zip(exp, got)):
        bad.append("loaded values differ")
    for o, g in zip(ops, got):
        if o[0] == "addr" and bs.show_addr(bs.mk_addr(o)) != g:
            bad.append("address changed")
    return None if not bad else "; ".join(bad)
