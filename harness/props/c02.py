"""C02 - exotic cells: level masks, per-level hashes, Merkle pruning invariance."""
import boc
import cells
import core

ID = "C02"
GEN = []
RULE = ("trees mixing ordinary, pruned-branch (all masks 1..7), library, Merkle-proof and Merkle-update cells, "
        "nesting up to 3 Merkle levels; systematic single pruned cells for all 7 masks; pruning of random "
        "subtrees below 0..2 Merkle cells; BoC round trip of every tree and parse of a foreign encoding of it with "
        "stored hashes on every cell; non-trivial = contains an exotic cell; "
        "distinct by DAG text")
TRUSTED = [
    "Coq 8.16.1 kernel incl. vm_compute; no native_compute",
    "Spec/CellRepr.v (s_mask, s_hd, s_prune): my reading of tvm.pdf 3.1.6-3.1.7 and DataCell.cpp",
    "Base/Sha256.v; Model/Cell.v hand transcription tied by correspondence; extraction + driver",
]
ASSUMES = ["cells built over TvmBitarray"]


def nontriv(d):
    return any(t != -1 for t, _, _ in d)


def systematic(rng):
    out = []
    for m in range(1, 8):
        n = bin(m).count("1")
        p = cells.pruned_node(m, [rng.randbytes(32) for _ in range(n)], [rng.randrange(1024) for _ in range(n)])
        out.append([p])
        out.append([p, (-1, "101", [0])])
        out.append([p, (-1, "", []), (-1, "1", [0, 1, 0])])
        out.append([p, cells.mproof_node(rng.randbytes(32), 5, 0)])
        out.append([p, cells.mproof_node(rng.randbytes(32), 5, 0), cells.mproof_node(rng.randbytes(32), 6, 1)])
        for m2 in range(1, 8):
            n2 = bin(m2).count("1")
            q = cells.pruned_node(m2, [rng.randbytes(32) for _ in range(n2)], [rng.randrange(1024) for _ in range(n2)])
            out.append([p, q, cells.mupdate_node(rng.randbytes(32), rng.randbytes(32), 1, 2, 0, 1)])
            out.append([p, q, (-1, "11", [0, 1])])
    out.append([cells.library_node(rng.randbytes(32))])
    out.append([cells.library_node(rng.randbytes(32)), (-1, "0", [0])])
    # malformed exotic cells (construction must not silently succeed with a wrong mask)
    out.append([(1, cells.bits_of_bytes(bytes([1, 1]) + b"\x00" * 34), [])])
    out.append([(1, "00000001", [])])
    out.append([(-1, "", []), (1, cells.bits_of_bytes(bytes([1, 1]) + b"\x00" * 34), [0])])
    out.append([(3, cells.bits_of_bytes(bytes([3]) + b"\x00" * 34), [])])
    out.append([(-1, "", []), (4, cells.bits_of_bytes(bytes([4]) + b"\x00" * 68), [0])])
    out.append([(7, "00000111", [])])
    return out


def run(ctx):
    rng = ctx.rng
    dags = systematic(rng)
    for _ in range(ctx.n(250, 3000)):
        dags.append(cells.rand_exotic_dag(rng, rng.choice([2, 4, 8, 16, 30]), valid=rng.random() < 0.7))
    dags = [d for d in dags if cells.tree_size(d) <= 3000]

    def impl(dag):
        return cells.info_py(cells.build_py(dag)[-1])
    impl_out, _ = ctx.correspond("cell_info", dags, impl, lambda d: "cell_info " + cells.dag_line(d), nontriv)

    spec = core.run_driver(["s_cell_info " + cells.dag_line(d) for d in dags])
    nvalid = 0
    for d, a, s in zip(dags, impl_out, spec):
        valid = spec_valid(d)
        if not valid:
            continue
        nvalid += 1
        if a.startswith("err") or a == "timeout":
            ctx.fail("valid-exotic-cell-not-constructible", f"spec-valid cell refused: {a}", {"dag": d})
            continue
        f = dict(kv.split("=", 1) for kv in a[3:].split(" "))
        sp = dict(kv.split("=", 1) for kv in s.split(" "))
        if f["mask"] != sp["mask"]:
            ctx.fail("level-mask-differs", f"mask {f['mask']} != spec {sp['mask']}", {"dag": d})
        if f["gh"].replace("ok:", "") != sp["gh"]:
            ctx.fail("level-hash-differs", "per-level hashes differ from the specification", {"dag": d})
        if f["gd"].replace("ok:", "") != sp["gd"]:
            ctx.fail("level-depth-differs", "per-level depths differ from the specification", {"dag": d})
        # C01's clause at the seam with C02: "the explicitly recomputed representation hash agrees with the cached one",
        # here for cells of non-zero level (the representation hash is the hash at the highest level)
        if f["repr"] != "ok:" + sp["gh"].split(",")[3]:
            ctx.fail("recomputed-representation-hash-disagrees-nonzero-level" if f["mask"] != "0" else
                     "recomputed-representation-hash-disagrees",
                     f"calculate_representation_hash -> {f['repr'][:40]}, level-3 hash {sp['gh'].split(',')[3][:16]}", {"dag": d})
    ctx.extra["oracle_valid_cases"] = nvalid

    # parse: BoC round trip keeps type, mask and all per-level hashes
    nb = 0
    for d, a in zip(dags, impl_out):
        if a.startswith("err") or not spec_valid(d):
            continue
        nb += 1
        r = core.call_impl(lambda _: _boc_route(d), None)
        if r != a:
            ctx.fail("exotic-cell-not-parsed-back", f"after BoC round trip: {r[:80]}", {"dag": d, "route": "boc"})
    ctx.extra["boc_roundtrips"] = nb

    # history route: a cell taken from a slice (slice.to_cell()) while the slice is read on, and a cell whose slice and
    # builder views were used, must keep reporting the same mask, hashes and depths at every level (a pruned branch reads
    # its stored depths and hashes from its data on every call)
    nh = 0
    for d, a in zip(dags, impl_out):
        if a.startswith("err") or not spec_valid(d):
            continue
        nh += 1
        r = core.call_impl(lambda _: _slice_history_route(d), None)
        if r != a:
            ctx.fail("exotic-cell-changes-after-slice-history", f"after slice.to_cell() and further reads: {r[:80]}",
                     {"dag": d, "route": "slice-history"})
    ctx.extra["slice_histories"] = nh

    # parse route 2: a foreign conforming encoding of the same tree, every cell carrying stored hashes/depths
    # (popcount(mask)+1 of them) and random admissible widths: "every such spec-valid cell can be ... parsed"
    nf = 0
    for d, a in zip(dags, impl_out):
        if a.startswith("err") or not spec_valid(d) or len(d) > 60:
            continue
        enc = boc.foreign_encode(rng, d, force_hashes=True)
        if enc is None:
            continue
        nf += 1
        h = enc[0].hex()
        r = core.call_impl(lambda _: _foreign_route(h), None)
        if r != a:
            ctx.fail("exotic-cell-not-parsed-from-foreign-boc", f"stored-hashes BoC {enc[2]}: {r[:80]}",
                     {"dag": d, "route": "foreign", "boc": h})
    ctx.extra["foreign_stored_hash_parses"] = nf

    # an exotic leaf and an ordinary leaf with IDENTICAL data bits, in one bag and in two bags parsed one after the
    # other: the parsed cells must keep their own types, masks and hashes (no result may depend on an earlier parse)
    nt = 0
    for _ in range(ctx.n(20, 200)):
        h = rng.randbytes(32)
        lib = cells.library_node(h)
        m = rng.choice([1, 2, 3, 5, 7])
        k = bin(m).count("1")
        pr = cells.pruned_node(m, [rng.randbytes(32) for _ in range(k)], [rng.randrange(100) for _ in range(k)])
        for ex in (lib, pr):
            twin = (-1, ex[1], [])
            for d in ([twin, ex, (-1, "1", [0, 1])], [ex, twin, (-1, "1", [0, 1])]):
                nt += 1
                r = core.call_impl(lambda _: twin_case(d, [twin], ex), None)
                if r != "ok":
                    ctx.fail("exotic-leaf-confused-with-ordinary-twin", r, {"dag": d, "twin": 1})
    ctx.extra["twin_cases"] = nt

    # pruning invariance on the implementation
    npr = 0
    for _ in range(ctx.n(150, 2000)):
        case = prune_case(rng)
        npr += 1
        r = core.call_impl(lambda _: check_prune(case), None)
        if r != "ok":
            ctx.fail("pruning-changes-level0-hash", r, case)
    ctx.extra["prune_cases"] = npr


def spec_valid(d):
    """Data lengths / ref counts / masks of exotic nodes as the TON spec requires; total level <= 3."""
    masks = []
    for ty, bits, refs in d:
        if len(bits) > 1023 or len(refs) > 4:
            return False
        if ty == -1:
            m = 0
            for r in refs:
                m |= masks[r]
        elif ty == 1:
            if refs or len(bits) < 16 or bits[:8] != "00000001":
                return False
            m = int(bits[8:16], 2)
            if not 1 <= m <= 7 or len(bits) != 16 + 272 * bin(m).count("1"):
                return False
        elif ty == 2:
            if refs or len(bits) != 264 or bits[:8] != "00000010":
                return False
            m = 0
        elif ty == 3:
            if len(refs) != 1 or len(bits) != 280 or bits[:8] != "00000011":
                return False
            m = masks[refs[0]] >> 1
        elif ty == 4:
            if len(refs) != 2 or len(bits) != 552 or bits[:8] != "00000100":
                return False
            m = (masks[refs[0]] | masks[refs[1]]) >> 1
        else:
            return False
        if m > 7:
            return False
        masks.append(m)
    return True


def twin_case(d, first, ex):
    """parse a bag holding only the ordinary twin, then the bag d, then a bag holding only the exotic cell"""
    import random
    from pytoniq_core.boc.cell import Cell
    want = cells.ref_hd(d)
    rr = random.Random(5)
    Cell.one_from_boc(boc.foreign_encode(rr, first, freedoms=False)[0])
    root = Cell.one_from_boc(boc.foreign_encode(rr, d, freedoms=False)[0])
    alone = Cell.one_from_boc(boc.foreign_encode(rr, [ex], freedoms=False)[0])
    for c, w, what in ((root.refs[0], want[0], "first leaf"), (root.refs[1], want[1], "second leaf"), (root, want[2], "root"),
                       (alone, cells.ref_hd([ex])[0], "exotic cell parsed alone afterwards")):
        if w is None:
            continue
        if c.level_mask.mask != w[0] or [c.get_hash(l) for l in range(4)] != w[1]:
            return f"{what}: type {c.type_}, mask {c.level_mask.mask}: not the cell the bag holds"
    if root.refs[0].type_ != d[0][0] or root.refs[1].type_ != d[1][0]:
        return "leaf types swapped"
    return "ok"


def _foreign_route(h):
    from pytoniq_core.boc.cell import Cell
    return cells.info_py(Cell.one_from_boc(bytes.fromhex(h)))


def _slice_history_route(d):
    objs = cells.build_py(d)
    kept = []
    for c0 in objs:
        sl = c0.begin_parse()
        c = sl.to_cell()
        try:
            sl.load_bits(min(8, len(sl.bits)))
            sl.load_bits(min(8, len(sl.bits)))
            sl.skip_bits(min(250, len(sl.bits)))
            if sl.refs:
                sl.load_ref()
        except Exception:
            pass
        kept.append(c)
    # the kept copy of every node must report what the node reports; then the root rebuilt over the kept children
    for c0, c in zip(objs[:-1], kept[:-1]):
        if cells.info_py(c) != cells.info_py(c0):
            return "kept child differs: " + cells.info_py(c)
    ty, bits, refs = d[-1]
    from pytoniq_core.boc.cell import Cell
    return cells.info_py(Cell(cells.tvm_bits(bits), [kept[r] for r in refs], ty))


def _boc_route(d):
    from pytoniq_core.boc.cell import Cell
    c0 = cells.build_py(d)[-1]
    return cells.info_py(Cell.one_from_boc(c0.to_boc()))


def prune_case(rng):
    """Context of ordinary cells with j Merkle-proof cells above the hole; subtree of ordinary cells."""
    j = rng.choice([0, 0, 1, 1, 2])
    sub = cells.rand_ordinary_dag(rng, rng.choice([1, 2, 4, 8]), max_bits=64)
    path = []
    merk = j
    for _ in range(rng.randrange(1, 6) + j):
        if merk and rng.random() < 0.5:
            path.append(("m",))
            merk -= 1
        else:
            k = rng.randrange(1, 5)
            pos = rng.randrange(k)
            sib = [cells.rand_bits(rng, rng.choice([0, 3, 9])) for _ in range(k)]
            path.append(("o", cells.rand_bits(rng, rng.choice([0, 7, 8])), pos, sib))
    while merk:
        path.append(("m",))
        merk -= 1
    return {"j": j, "sub": sub, "path": path}


def check_prune(case):
    """Build K[t] and K[prune t] with the library and compare level-0 hash and depth at every level of K."""
    from pytoniq_core.boc.cell import Cell
    j = case["j"]
    t = cells.build_py([tuple(x) for x in case["sub"]])[-1]

    def wrap(inner, pruned):
        cur = inner
        for step in case["path"]:
            if step[0] == "m":
                data = bytes([3]) + cur.get_hash(0) + cur.get_depth(0).to_bytes(2, "big")
                cur = Cell(cells.tvm_bits(cells.bits_of_bytes(data)), [cur], 3)
            else:
                _, bits, pos, sib = step
                kids = [Cell(cells.tvm_bits(s), [], -1) for s in sib]
                kids[pos] = cur
                cur = Cell(cells.tvm_bits(bits), kids, -1)
        return cur
    full = wrap(t, False)
    # the hole is read at level j by the j Merkle cells above it: the pruned branch must have a level
    # above j, so that its stored hash (not its own hash) is what the enclosing cells see
    mask = case.get("mask") or (1 << j if j < 3 else 4)
    p = cells.pruned_node(mask, [t.get_hash(0)], [t.get_depth(0)])
    pc = Cell(cells.tvm_bits(p[1]), [], 1)
    pr = wrap(pc, True)
    if full.get_hash(0) != pr.get_hash(0):
        return f"level-0 hash changed by pruning (j={j}, mask={mask})"
    if full.get_depth(0) != pr.get_depth(0):
        return f"level-0 depth changed by pruning (j={j})"
    return "ok"


def replay(ctx, obj):
    c = obj["case"]
    if c.get("twin"):
        d = [(t, b, list(r)) for t, b, r in c["dag"]]
        ex = d[0] if d[0][0] != -1 else d[1]
        r = core.call_impl(lambda _: twin_case(d, [(-1, ex[1], [])], ex), None)
        return None if r == "ok" else r
    if "dag" in c:
        d = [(t, b, list(r)) for t, b, r in c["dag"]]
        a = core.call_impl(lambda _: cells.info_py(cells.build_py(d)[-1]), None)
        if c.get("route") == "foreign":
            r = core.call_impl(lambda _: _foreign_route(c["boc"]), None)
            return None if r == a else f"stored-hashes BoC parses to something else: {r[:100]}"
        if c.get("route") == "slice-history":
            r = core.call_impl(lambda _: _slice_history_route(d), None)
            return None if r == a else f"after slice.to_cell() and further reads: {r[:100]}"
        if c.get("route") == "boc":
            r = core.call_impl(lambda _: _boc_route(d), None)
            return None if r == a else f"after BoC round trip: {r[:100]}"
        s = core.run_driver(["s_cell_info " + cells.dag_line(d)])[0]
        if a.startswith("err"):
            return f"spec-valid cell refused: {a}"
        f = dict(kv.split("=", 1) for kv in a[3:].split(" "))
        sp = dict(kv.split("=", 1) for kv in s.split(" "))
        bad = [k for k in ("mask",) if f[k] != sp[k]]
        if f["gh"].replace("ok:", "") != sp["gh"]:
            bad.append("hashes")
        if f["gd"].replace("ok:", "") != sp["gd"]:
            bad.append("depths")
        return None if not bad else "differs from specification: " + ",".join(bad)
    r = core.call_impl(lambda _: check_prune(c), None)
    return None if r == "ok" else r
