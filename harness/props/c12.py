"""C12 - block signature sets are accepted only with a genuine validator supermajority."""
import hashlib
from types import SimpleNamespace

import core

ID = "C12"
GEN = []
RULE = ("validator sets of size 0..100 with weights incl. 0 and 2^64-1; signature lists mixing valid, invalid, "
        "foreign-signer and duplicated entries in random order; totals generated at the 2/3 boundary (exactly 2/3, "
        "one unit below, one unit above); real Ed25519 keys (oracle verifies with PyNaCl directly); 30% of the sets are "
        "read from a hand-encoded ValidatorSet cell by the library's TL-B parser; accepted sets re-submitted for another "
        "block afterwards; non-trivial = at least one signature; distinct by case")
TRUSTED = [
    "Coq 8.16.1 kernel; no native_compute",
    "Model/Signatures.v: transcription of check_block_signatures and the declarative acceptance predicate s_accept",
    "Ed25519 verification is a parameter of the model (any predicate); the harness feeds the real verify_sign outcomes",
    "extraction + driver; PyNaCl for the implementation side",
]
ASSUMES = ["validator ids are pairwise distinct in the supplied set (stated hypothesis of C12_iff)"]

_keys = []


def keys(n):
    from nacl.signing import SigningKey
    while len(_keys) < n:
        sk = SigningKey(hashlib.sha256(b"verif-key-%d" % len(_keys)).digest())
        _keys.append((sk, bytes(sk.verify_key)))
    return _keys[:n]


def gen_case(rng):
    n = rng.choice([0, 1, 2, 3, 3, 4, 5, 7, 10, 30, 100])
    ks = keys(n + 3)
    wstyle = rng.choice(["one", "small", "big", "zero-mixed", "big-equal"])
    if wstyle == "big-equal" and n not in (3, 6, 9):
        n = rng.choice([3, 6, 9])          # totals divisible by 3 with weights beyond 2^53: exactly 2/3 must be refused
        ks = keys(n + 3)
    ws = []
    for i in range(n):
        if wstyle == "one":
            ws.append(1)
        elif wstyle == "small":
            ws.append(rng.randrange(1, 10))
        elif wstyle == "big-equal":
            ws.append((1 << 60) + 1)
        elif wstyle == "big":
            ws.append(rng.choice([(1 << 64) - 1, 1 << 60, rng.getrandbits(64)]))
        else:
            ws.append(rng.choice([0, 0, 1, 5]))
    root, file = rng.randbytes(32), rng.randbytes(32)
    msg = b"pn\x0b\xc5" + root + file
    total = sum(ws)
    # choose signers so that the signed weight lands near the 2/3 boundary
    order = list(range(n))
    rng.shuffle(order)
    target = rng.choice(["below", "exact", "above", "all", "none", "random"]) if wstyle != "big-equal" else rng.choice(["exact", "exact", "above"])
    chosen, acc = [], 0
    for i in order:
        if target == "none":
            break
        if target == "all" or (target == "random" and rng.random() < 0.6):
            chosen.append(i)
            acc += ws[i]
            continue
        if target in ("below", "exact", "above"):
            chosen.append(i)
            acc += ws[i]
            if 3 * acc >= 2 * total:
                break
    sigs = []
    for i in chosen:
        sk, pk = ks[i]
        sigs.append((hashlib.sha256(b"\xc6\xb4\x13H" + pk).digest(), sk.sign(msg).signature))
    # perturbations
    p = rng.random()
    upper = set()
    if sigs and p < 0.08:
        sigs.append(rng.choice(sigs))                                   # duplicated signer
    elif sigs and p < 0.15:
        sigs.append(rng.choice(sigs))                                   # duplicated signer, id spelled in upper-case hex
        upper.add(len(sigs) - 1)
    elif sigs and p < 0.25:
        i = rng.randrange(len(sigs))
        bad = bytearray(sigs[i][1])
        bad[rng.randrange(64)] ^= 1 << rng.randrange(8)
        sigs[i] = (sigs[i][0], bytes(bad))                              # corrupted signature
    elif p < 0.33:
        sk, pk = ks[n + 1]
        sigs.append((hashlib.sha256(b"\xc6\xb4\x13H" + pk).digest(), sk.sign(msg).signature))   # foreign signer
    elif sigs and p < 0.40:
        i = rng.randrange(len(sigs))
        sk, pk = ks[n + 2]
        sigs[i] = (sigs[i][0], sk.sign(msg).signature)                  # somebody else's signature under a known id
    elif sigs and p < 0.45:
        i = rng.randrange(len(sigs))
        sigs[i] = (sigs[i][0], keys(n)[0][0].sign(b"other message").signature if n else sigs[i][1])
    elif sigs and p < 0.53:
        # signatures of the wrong length under known ids (63, 65, 32, 1 bytes): never a valid signature
        for i in rng.sample(range(len(sigs)), rng.choice([1, len(sigs), max(1, (3 * len(sigs)) // 4)])):
            good = sigs[i][1]
            sigs[i] = (sigs[i][0], rng.choice([good[:63], good + b"\x00", good[:32], good[:1], good + good]))
    sigs = [(a.hex().upper() if i in upper else a.hex(), b.hex()) for i, (a, b) in enumerate(sigs)]
    rng.shuffle(sigs)
    return {"pks": [ks[i][1].hex() for i in range(n)], "ws": ws, "sigs": sigs,
            "root": root.hex(), "file": file.hex(), "via_tlb": 0 < n <= 30 and rng.random() < 0.3}


def tlb_nodes(c):
    """the validator set as the library reads it from a config cell: validators_ext#12 / validators#11 written out by
    hand (validator#53 public_key:SigPubKey weight:uint64; ed25519_pubkey#8e81278a pubkey:bits256), parsed by
    ValidatorSet.deserialize"""
    import random
    import cells
    import hm
    from pytoniq_core.tlb.config import ValidatorSet
    n = len(c["pks"])
    dag = []
    keys = [format(i, "016b") for i in range(n)]
    # every other entry in the validator_addr#73 form (public_key weight adnl_addr:bits256), as in real config params 32/34
    vals = {k: (("01110011" if i % 2 else "01010011") + format(0x8e81278a, "032b") + format(int(pk, 16), "0256b") + format(w, "064b")
                + (format(int(hashlib.sha256(pk.encode()).hexdigest(), 16), "0256b") if i % 2 else ""), [])
            for i, (k, pk, w) in enumerate(zip(keys, c["pks"], c["ws"]))}
    hm.build_any_tree(random.Random(1), keys, vals, 16, dag, canonical=True)
    head = format(0x12, "08b") + format(1, "032b") + format(2, "032b") + format(n, "016b") + format(max(1, n // 2), "016b")
    head += format(sum(c["ws"]) & (2 ** 64 - 1), "064b") + "1"
    dag.append((-1, head, [len(dag) - 1]))
    vs = ValidatorSet.deserialize(cells.build_py(dag)[-1].begin_parse())
    return [vs.list[i] for i in range(n)]


def systematic_cases():
    """every number of signers k = 0..n for n = 1..8 equal-weight validators, with weight 1 and with weight 2^60+1:
    covers every residue of the total modulo 3 and the exact 2/3 boundary (deterministic, independent of the seed)"""
    out = []
    root, file = bytes(range(32)), bytes(range(32, 64))
    msg = b"pn\x0b\xc5" + root + file
    for w in (1, (1 << 60) + 1, 7):
        for n in range(1, 9):
            ks = keys(n)
            for k in range(n + 1):
                sigs = [(hashlib.sha256(b"\xc6\xb4\x13H" + ks[i][1]).digest().hex(), ks[i][0].sign(msg).signature.hex()) for i in range(k)]
                out.append({"pks": [ks[i][1].hex() for i in range(n)], "ws": [w] * n, "sigs": sigs,
                            "root": root.hex(), "file": file.hex(), "via_tlb": False})
    # a supermajority of known ids whose "signatures" have the wrong length (one genuine signature among them or none)
    for n in (1, 3, 4):
        ks = keys(n)
        for cut in (63, 65, 1):
            for genuine in (0, 1):
                sigs = []
                for i in range(n):
                    sg = ks[i][0].sign(msg).signature
                    if i >= genuine:
                        sg = (sg + sg)[:cut]
                    sigs.append((hashlib.sha256(b"\xc6\xb4\x13H" + ks[i][1]).digest().hex(), sg.hex()))
                out.append({"pks": [ks[i][1].hex() for i in range(n)], "ws": [5] * n, "sigs": sigs,
                            "root": root.hex(), "file": file.hex(), "via_tlb": False})
    return out


def py_check(c):
    from pytoniq_core.proof.check_proof import check_block_signatures
    if c.get("via_tlb") and c["pks"]:
        nodes = tlb_nodes(c)
    else:
        nodes = [SimpleNamespace(public_key=SimpleNamespace(pubkey=bytes.fromhex(pk)), weight=w)
                 for pk, w in zip(c["pks"], c["ws"])]
    blk = SimpleNamespace(root_hash=bytes.fromhex(c["root"]), file_hash=bytes.fromhex(c["file"]))
    sigs = [{"node_id_short": a, "signature": bytes.fromhex(b)} for a, b in c["sigs"]]
    check_block_signatures(nodes, sigs, blk)
    return "ok"


def valid_pairs(c):
    """(pk, sig) pairs that the real Ed25519 verifier accepts for this block, over all validators x signatures"""
    from nacl.signing import VerifyKey
    from nacl.exceptions import BadSignatureError
    msg = b"pn\x0b\xc5" + bytes.fromhex(c["root"]) + bytes.fromhex(c["file"])
    out = []
    ids = {hashlib.sha256(b"\xc6\xb4\x13H" + bytes.fromhex(pk)).hexdigest(): pk for pk in c["pks"]}
    for a, b in c["sigs"]:
        pk = ids.get(a.lower())
        if pk is None:
            continue
        try:
            VerifyKey(bytes.fromhex(pk)).verify(msg, bytes.fromhex(b))     # PyNaCl directly, not the library's wrapper
            out.append((pk, b))
        except (BadSignatureError, ValueError):
            pass
    return out


def line(c):
    vp = valid_pairs(c)
    return (f"sigs {c['root']} {c['file']} {len(c['pks'])} " + " ".join(f"{pk}:{format(w, 'x')}" for pk, w in zip(c["pks"], c["ws"]))
            + f" {len(c['sigs'])} " + " ".join(f"{a.lower()}:{b}" for a, b in c["sigs"])
            + f" {len(vp)} " + " ".join(f"{a}:{b}" for a, b in vp)).replace("  ", " ")


def spec_accept(c):
    """independent statement of the property"""
    vp = set(valid_pairs(c))
    ids = {hashlib.sha256(b"\xc6\xb4\x13H" + bytes.fromhex(pk)).hexdigest(): (pk, w) for pk, w in zip(c["pks"], c["ws"])}
    signers = [a.lower() for a, _ in c["sigs"]]
    if len(set(signers)) != len(signers):
        return False
    signed = 0
    for a, b in c["sigs"]:
        a = a.lower()
        if a not in ids or (ids[a][0], b) not in vp:
            return False
        signed += ids[a][1]
    return 3 * signed > 2 * sum(c["ws"])


def run(ctx):
    cases = systematic_cases() + [gen_case(ctx.rng) for _ in range(ctx.n(450, 6000))]
    impl, model = ctx.correspond("check_block_signatures", cases, py_check, line, lambda c: len(c["sigs"]) > 0)
    acc = 0
    for c, a in zip(cases, impl):
        want = spec_accept(c)
        acc += want
        if want and a != "ok":
            ctx.fail("genuine-supermajority-rejected", f"{len(c['sigs'])} valid signatures over {len(c['pks'])} validators: {a}", c)
        if not want and a == "ok":
            ctx.fail("insufficient-signature-set-accepted", why(c), c)
    ctx.extra["accepting_cases"] = acc
    ctx.extra["rejecting_cases"] = len(cases) - acc
    ctx.extra["validator_sets_read_from_tlb"] = sum(1 for c in cases if c.get("via_tlb"))
    # history: a signature set accepted for block A must not be accepted for another block B afterwards
    nrep = 0
    for c, a in zip(cases, impl):
        if a != "ok" or nrep >= ctx.n(60, 600):
            continue
        nrep += 1
        other = dict(c, root=hashlib.sha256(bytes.fromhex(c["root"])).hexdigest(), file=c["file"])
        r = core.call_impl(lambda _: replay_pair(c, other), None)
        if r != "ok":
            ctx.fail("signatures-replayed-for-another-block", r, {"first": c, "then": other})
    ctx.extra["replay_histories"] = nrep
    # node id and payload constants
    pk = bytes(range(32))
    m = core.run_driver([f"nodeid {pk.hex()}"])[0]
    from pytoniq_core.proof.check_proof import calculate_node_id_short
    if calculate_node_id_short(pk).hex() != m:
        ctx.broken.append("node id model differs")


def replay_pair(c, other):
    if py_check(c) != "ok":
        return "ok"
    try:
        py_check(other)
    except Exception:
        return "ok"
    return "signatures over block A were accepted for block B after block A had been checked"


def why(c):
    signers = [a.lower() for a, _ in c["sigs"]]
    if len(set(signers)) != len(signers):
        return "a validator is counted more than once"
    if not c["pks"]:
        return "empty validator set accepted"
    return "accepted although an entry is invalid/unknown or the weight is not above two thirds"


def replay(ctx, obj):
    c = obj["case"]
    if "first" in c:
        r = core.call_impl(lambda _: replay_pair(c["first"], c["then"]), None)
        return None if r == "ok" else r
    a = core.call_impl(py_check, c)
    want = spec_accept(c)
    if want and a != "ok":
        return f"genuine supermajority rejected: {a}"
    if not want and a == "ok":
        return why(c)
    return None
