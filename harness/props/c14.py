"""C14 - TL serialisation inverts TL parsing and follows TL framing for the bundled schemas."""
import json
import os

import core

ID = "C14"
GEN = ["TlSchemaTable.v", "CrcTables.v"]
RULE = ("for EVERY constructor of the bundled lite-server, node and ADNL schemas a type-directed value generator: all "
        "flag-bit combinations for up to 4 conditional fields (sampled above), nested and polymorphic objects, vectors of "
        "length 0,1,2,many, byte/text strings of length 0,1,2,3,252,253,254,255,256 and (2% of the fields) 257, 65535, 65536, 65537, 66049, 70000; block-id helpers; "
        "non-trivial = constructor with at least one field; distinct by constructor and value text")
TRUSTED = [
    "Coq 8.16.1 kernel incl. vm_compute (constructor-id sweep over ~820 schema lines with a bitwise CRC-32); no native_compute",
    "tools/translate_tl.py: runs the repo's own registrator on the bundled schemas and classifies every argument type with "
    "the library's own lookup tables, the way serialize_field/deserialize dispatch at run time",
    "Model/Tl.v: hand transcription of TlSchemas.serialize_field / serialize / deserialize over the classified table, "
    "tied by correspondence; Spec/TlSpec.v: TL binary encoding as I read it",
    "harness-side independent TL encoder (props/c14.py) used as the oracle on the implementation",
    "extraction + driver; zlib.crc32 (external) for constructor ids",
]
ASSUMES = ["values are well typed (a conditional field is present iff its flag bit is set)",
           "raw bytes fields do not start with a known constructor id (the library's documented auto-deserialise "
           "would return a parsed object instead)",
           "constructors with a field type the library has no code path for are outside 'field types the library supports' "
           "(counted and sampled in the evidence)"]

TABLE = None


def table():
    global TABLE
    if TABLE is None:
        TABLE = json.load(open(os.path.join(core.OUT, "tl_table.json")))
    return TABLE


def by_name():
    return {t["name"]: t for t in table()["table"]}


def by_class():
    d = {}
    for t in table()["table"]:
        d.setdefault(t["class"], []).append(t)
    return d


SUPPORTED = None


def supported_type(ty):
    k = ty[0]
    if k in ("fixed", "bytes", "string", "bare", "boxed"):
        return True
    if k == "vector":
        return ty[1][0] in ("fixed", "bytes", "string") or (ty[1][0] in ("bare", "boxed") and (ty[1][0] != "bare" or ty[3]))
    return False


_SUP = {}


def ctor_supported(t, seen=None):
    """every field type (recursively) is one the library supports in both directions (memoised least fixed point)"""
    if not _SUP:
        names, classes = by_name(), by_class()
        bad = set()
        for c in table()["table"]:
            if any(not supported_type(a["type"]) or a["ser_cond"] != a["des_cond"] for a in c["args"]):
                bad.add(c["name"])
        changed = True
        while changed:
            changed = False
            for c in table()["table"]:
                if c["name"] in bad:
                    continue
                for a in c["args"]:
                    ty = a["type"]
                    inner = ty[1] if ty[0] == "vector" else ty
                    dep = []
                    if inner[0] == "bare":
                        dep = [inner[1]]
                    elif inner[0] == "boxed":
                        dep = [x["name"] for x in classes.get(inner[1], [])]
                    if any(d in bad or d not in names for d in dep):
                        bad.add(c["name"])
                        changed = True
                        break
        for c in table()["table"]:
            _SUP[c["name"]] = c["name"] not in bad
    return _SUP[t["name"]]


STR_LENS = [0, 1, 2, 3, 4, 5, 252, 253, 254, 255, 256]
LONG_LENS = [257, 65535, 65536, 65537, 70000, 66049]      # the 3-byte length field beyond its first and second byte


def gen_value(rng, t, depth=0):
    """well-typed value of constructor t as ['o', name, [[field, val]...]]"""
    names, classes = by_name(), by_class()
    conds = [a for a in t["args"] if a["des_cond"]]
    bits = {a["bit"]: (rng.random() < 0.5 if depth < 3 else False) for a in conds}
    present = {a["field"]: bits[a["bit"]] for a in conds}
    flags = 0
    for a in conds:
        if present[a["field"]]:
            flags |= 1 << a["bit"]
    flag_field = "mode" if any(a["field"] == "mode" for a in t["args"]) else "flags"
    fields = []
    for a in t["args"]:
        if a["des_cond"] and not present[a["field"]]:
            continue
        if a["field"] == flag_field and conds:
            fields.append([a["field"], ["i", flags]])
            continue
        fields.append([a["field"], gen_field(rng, a["type"], depth)])
    return ["o", t["name"], fields]


def gen_field(rng, ty, depth):
    names, classes = by_name(), by_class()
    k = ty[0]
    if k == "fixed":
        if ty[2] == "Bool":
            return ["T"] if rng.random() < 0.5 else ["F"]
        if ty[2] in ("int128", "int256"):
            return ["x", rng.randbytes(ty[1]).hex()]
        bits = 8 * ty[1]
        return ["i", rng.choice([0, 1, -1, (1 << (bits - 1)) - 1, -(1 << (bits - 1)), rng.getrandbits(bits - 1) * rng.choice([1, -1])])]
    if k == "bytes":
        ln = rng.choice(LONG_LENS) if rng.random() < 0.02 else rng.choice(STR_LENS)
        b = rng.randbytes(ln)
        if ln >= 4:
            b = b"\xff\xff\xff\xff" + b[4:]          # never a known constructor id
        return ["b", b.hex()]
    if k == "string":
        ln = rng.choice(LONG_LENS) if rng.random() < 0.02 else rng.choice(STR_LENS)
        # text with multi-byte characters: the TL length is the number of UTF-8 BYTES, not of characters
        alphabet = "abcXYZ019 _" if rng.random() < 0.6 else "ab\u00e9\u0416\u20ac z\U0001F600"
        t = ""
        while len(t.encode()) < ln:
            t += rng.choice(alphabet)
        while len(t.encode()) > ln:
            t = t[:-1]
        t += "x" * (ln - len(t.encode()))
        return ["s", t.encode().hex()]
    if k == "bare":
        if depth > 4:
            raise RecursionError
        return gen_value(rng, names[ty[1]], depth + 1)
    if k == "boxed":
        if depth > 4:
            raise RecursionError
        return gen_value(rng, rng.choice(classes[ty[1]]), depth + 1)
    if k == "vector":
        n = rng.choice([0, 1, 2, 5]) if depth < 3 else 0
        return ["v", [gen_field(rng, ty[1], depth + 1) for _ in range(n)]]
    return ["n"]


def to_py(v):
    k = v[0]
    if k == "i":
        return v[1]
    if k == "T":
        return True
    if k == "F":
        return False
    if k == "b":
        return bytes.fromhex(v[1])
    if k == "s":
        return bytes.fromhex(v[1]).decode()
    if k == "x":
        return v[1]
    if k == "n":
        return None
    if k == "o":
        d = {"@type": v[1]}
        for f, x in v[2]:
            d[f] = to_py(x)
        return d
    return [to_py(x) for x in v[1]]


def tok(v):
    k = v[0]
    if k == "i":
        return "i:" + (format(v[1], "x") if v[1] >= 0 else "-" + format(-v[1], "x"))
    if k in ("T", "F", "n"):
        return k
    if k in ("b", "s", "x"):
        return f"{k}:{v[1] or '-'}"
    if k == "o":
        return "{ " + v[1] + " " + "".join(f"{f} {tok(x)} " for f, x in v[2]) + "}"
    return "[ " + "".join(tok(x) + " " for x in v[1]) + "]"


def show_py(x, ctor=None):
    """render what TlSchemas.deserialize returned in the driver's format.  Strings are ambiguous in the library's
    output (int128/int256 come back as hex str, TL strings as str), so the walk is typed by the schema: the constructor
    is the one named by '@type', or - for elements of vectors of bare types, which carry no '@type' - the element type
    of the enclosing field (ctor)."""
    if isinstance(x, dict):
        t = by_name_lib().get(x.get("@type")) or ctor
        types = {a["field"]: a["type"] for a in t["args"]} if t else {}
        return "{ " + x.get("@type", "-") + " " + "".join(
            f"{k} {show_typed(v, types.get(k))} " for k, v in x.items() if k != "@type") + "}"
    return show_typed(x, None)


def show_typed(v, ty):
    if isinstance(v, bool):
        return "T" if v else "F"
    if isinstance(v, int):
        return "i:" + (format(v, "x") if v >= 0 else "-" + format(-v, "x"))
    if isinstance(v, (bytes, bytearray)):
        return "b:" + (bytes(v).hex() or "-")
    if v is None:
        return "n"
    if isinstance(v, str):
        if ty is not None and ty[0] == "fixed":
            return "x:" + (v or "-")                 # int128 / int256
        if ty is not None and ty[0] in ("string", "bytes"):
            return "s:" + (v.encode().hex() or "-")
        # no type information (should not happen): fall back to the content
        is_raw = len(v) % 2 == 0 and len(v) >= 32 and all(c in "0123456789abcdef" for c in v)
        return ("x:" + v) if is_raw else "s:" + (v.encode().hex() or "-")
    if isinstance(v, dict):
        sub = None
        if ty is not None and ty[0] == "bare":
            sub = by_name_lib().get(ty[1])
        return show_py(v, sub)
    if isinstance(v, list):
        if ty is not None and ty[0] == "vector":
            el = ty[1]
            sub = by_name_lib().get(el[1]) if el[0] == "bare" else None
            return "[ " + "".join((show_py(e, sub) if isinstance(e, dict) else show_typed(e, el)) + " " for e in v) + "]"
        # a bytes field whose payload parsed as several objects
        return "[ " + "".join(show_py(e) + " " for e in v) + "]"
    return "!" + type(v).__name__


def show_field(k, v, raw=None):
    return show_typed(v, None)


def by_name_lib():
    """name -> constructor as the library resolves names (the LAST constructor with that name wins)"""
    return {t["name"]: t for t in table()["table"]}


_schemas = None


def schemas():
    global _schemas
    if _schemas is None:
        from pytoniq_core.tl.generator import TlGenerator
        _schemas = TlGenerator.with_default_schemas().generate()
    return _schemas


def py_ser(v):
    return "ok " + (schemas().serialize(v[1], to_py(v)).hex() or "-")


def py_des(h):
    data = bytes.fromhex(h) if h != "-" else b""
    r, n = schemas().deserialize(data)
    return f"ok {n} {show_py(r)}"


# ---- independent TL encoder (the oracle): https://core.telegram.org/mtproto/serialize
def spec_enc(v, ty=None, boxed=True):
    names = by_name()
    k = v[0]
    if k == "o":
        t = names[v[1]]
        out = bytes.fromhex(t["id"])[::-1] if boxed else b""
        vals = dict((f, x) for f, x in v[2])
        for a in t["args"]:
            if a["field"] not in vals:
                continue
            out += spec_enc_field(vals[a["field"]], a["type"])
        return out
    raise ValueError


def spec_enc_field(v, ty):
    k = ty[0]
    if k == "fixed":
        if ty[2] == "Bool":
            return bytes.fromhex("b5757299") if v[0] == "T" else bytes.fromhex("379779bc")
        if ty[2] in ("int128", "int256"):
            return bytes.fromhex(v[1])
        return v[1].to_bytes(ty[1], "little", signed=True)
    if k in ("bytes", "string"):
        b = bytes.fromhex(v[1])
        pre = bytes([len(b)]) if len(b) <= 253 else b"\xfe" + len(b).to_bytes(3, "little")
        out = pre + b
        return out + b"\x00" * (-len(out) % 4)
    if k == "bare":
        return spec_enc(v, boxed=False)
    if k == "boxed":
        return spec_enc(v, boxed=True)
    if k == "vector":
        return len(v[1]).to_bytes(4, "little") + b"".join(spec_enc_field(x, ty[1]) for x in v[1])
    raise ValueError


def run(ctx):
    rng = ctx.rng
    tbl = table()["table"]
    cases, unsupported = [], []
    per = ctx.n(3, 30)
    for t in tbl:
        ok = ctor_supported(t)
        if not ok:
            unsupported.append(t["name"])
        for _ in range(per if ok else 1):
            try:
                cases.append((gen_value(rng, t), ok))
            except RecursionError:
                pass
    vals = [c[0] for c in cases]
    impl, model = ctx.correspond("serialize", vals, py_ser, lambda v: "tl_ser " + tok(v), lambda v: len(v[2]) > 0)
    blobs = [a[3:] for a in impl if a.startswith("ok ")]
    idec, mdec = ctx.correspond("deserialize", blobs, py_des, lambda h: "tl_des " + h, lambda h: len(h) > 8)
    # malformed / ill-typed input: truncations, byte flips, extensions, negative flag words (model and code must agree on
    # Ok-vs-Err and on every Ok payload; nothing is demanded of the results themselves)
    bad = []
    skipped_claims = 0
    for h in blobs:
        if h == "-" or rng.random() > ctx.n(0.15, 0.5):
            continue
        b = bytearray(bytes.fromhex(h))
        k = rng.randrange(4)
        if k == 0 and len(b) > 4:
            b = b[:rng.randrange(4, len(b))]
        elif k == 1 and len(b) > 4:
            b[rng.randrange(4, len(b))] = rng.randrange(256)
        elif k == 2 and len(b) >= 8:
            # (a long-form length prefix claiming 16 MB is exercised on the implementation in C19; the model keeps offsets in
            # unary nat and needs minutes for it, so the claim used here is 64 KB)
            b[4:8] = rng.choice([b"\xff\xff\xff\xff", b"\xfe\xff\xff\x00", b"\x00\x00\x00\x80", b"\xff\xff\xff\x7f"])
        else:
            b += rng.randbytes(rng.randrange(1, 9))
        # the model keeps offsets in unary nat: an aligned long-form prefix claiming far more than the input holds costs
        # it minutes (the implementation handles it at once and is measured on such inputs in C19): not sent to the model
        if any(b[i] == 0xFE and int.from_bytes(b[i + 1:i + 4], "little") > len(b) + 70000 for i in range(0, len(b) - 3, 4)):
            skipped_claims += 1
            continue
        bad.append(bytes(b).hex())
    ctx.extra["malformed_inputs_with_multi_megabyte_claims_not_sent_to_the_model"] = skipped_claims
    ctx.correspond("deserialize-malformed", bad, py_des, lambda h: "tl_des " + h, lambda h: len(h) > 8)
    # oracle: framing + round trip on supported constructors
    n = 0
    lib = by_name_lib()
    idx = {id(t): True for t in lib.values()}
    for (v, ok), a in zip(cases, impl):
        if not ok or shadowed(v, lib):
            continue
        n += 1
        want = spec_enc(v).hex() or "-"
        if a != "ok " + want:
            ctx.fail("bytes-differ-from-tl-encoding", f"{v[1]}: {a[:60]} expected {want[:60]}", {"value": v})
            continue
        r = core.call_impl(py_des, want)
        exp = f"ok {len(want) // 2 if want != '-' else 0} {tok(strip_none(v))}"
        if r != exp:
            ctx.fail("tl-roundtrip-differs", f"{v[1]}: parsed {r[:100]} expected {exp[:100]}", {"value": v})
    ctx.extra["oracle_cases"] = n
    ctx.extra["constructors"] = len(tbl)
    ctx.extra["constructors_with_unsupported_field_types"] = len(unsupported)
    ctx.extra["unsupported_sample"] = unsupported[:15]
    # two schema sets are independent objects: configuring one (untouchable fields) must not change what the other parses
    r = core.call_impl(lambda _: schema_independence_case(), None)
    if r != "ok":
        ctx.fail("tl-schemas-share-state", r, {"schemas": r})
    # integers outside the field's range must not be encoded as some other value (refused, or at least coming back unchanged)
    r = core.call_impl(lambda _: int_range_case(), None)
    if r != "ok":
        ctx.fail("tl-integer-out-of-range", r, {"intrange": r})
    # block id helpers
    for _ in range(ctx.n(50, 500)):
        r = core.call_impl(lambda _: blockid_case(rng), None)
        if r != "ok":
            ctx.fail("block-id:" + r.split(":")[0], r, {"blockid": r})


def strip_none(v, in_bare_vector=False):
    """what the parser can return for v: elements of vectors of bare types come back without '@type'"""
    k = v[0]
    if k == "o":
        t = by_name_lib()[v[1]]
        types = {a["field"]: a["type"] for a in t["args"]}
        fs = []
        for f, x in v[2]:
            ty = types.get(f, ["?"])
            if ty[0] == "vector" and ty[1][0] == "bare":
                fs.append([f, ["v", [strip_none(e, True) for e in x[1]]]])
            else:
                fs.append([f, strip_none(x)])
        return ["o", "-" if in_bare_vector else v[1], fs]
    if k == "v":
        return ["v", [strip_none(e) for e in v[1]]]
    return v


def shadowed(v, lib):
    """the value mentions a constructor whose name is bound to another constructor (duplicate names in the schemas)"""
    if v[0] == "o":
        names = [t for t in table()["table"] if t["name"] == v[1]]
        if len(names) > 1:
            return True
        return any(shadowed(x, lib) for _, x in v[2])
    if v[0] == "v":
        return any(shadowed(x, lib) for x in v[1])
    return False


def int_range_case():
    sc = schemas()
    t = sc.get_by_name("tonNode.blockId")
    base = {"workchain": 0, "shard": 1, "seqno": 2}
    for field, vals in (("workchain", [1 << 31, (1 << 32) - 1, -(1 << 31) - 1, 1 << 40]), ("seqno", [1 << 31, (1 << 32) - 1]),
                        ("shard", [1 << 63, (1 << 64) - 1, -(1 << 63) - 1, 1 << 70])):
        for v in vals:
            d = dict(base)
            d[field] = v
            try:
                data = sc.serialize(t, d)
            except Exception:
                continue            # refused: fine
            back = sc.deserialize(data)[0]
            if back.get(field) != v:
                return f"{field}={v} was encoded and parses back as {back.get(field)}"
    # in-range boundaries are accepted and come back
    for d in ({"workchain": -(1 << 31), "shard": -(1 << 63), "seqno": (1 << 31) - 1}, {"workchain": (1 << 31) - 1, "shard": (1 << 63) - 1, "seqno": 0}):
        back = sc.deserialize(sc.serialize(t, d))[0]
        if any(back.get(k) != v for k, v in d.items()):
            return f"in-range boundary values {d} came back as {back}"
    return "ok"


def schema_independence_case():
    from pytoniq_core.tl.generator import TlGenerator
    a = TlGenerator.with_default_schemas().generate()
    inner = a.serialize(a.get_by_name("adnl.message.nop"), {})
    outer_answer = a.serialize(a.get_by_name("adnl.message.answer"), {"query_id": b"\x01" * 32, "answer": inner})
    outer_part = a.serialize(a.get_by_name("adnl.message.part"), {"hash": b"\x02" * 32, "total_size": 4, "offset": 0, "data": inner})
    before = (a.deserialize(outer_answer)[0], a.deserialize(outer_part)[0])
    a.untouchables["adnl.message.answer"] = {"answer"}
    a.untouchables.pop("adnl.message.part", None)
    b = TlGenerator.with_default_schemas().generate()
    after = (b.deserialize(outer_answer)[0], b.deserialize(outer_part)[0])
    if after != before:
        return "a fresh schema set parses differently after another set's untouchable fields were changed"
    if not isinstance(before[0].get("answer"), dict) or not isinstance(before[1].get("data"), (bytes, bytearray)):
        return "default auto-deserialisation: adnl.message.answer.answer must be parsed, adnl.message.part.data left raw"
    return "ok"


def blockid_case(rng):
    from pytoniq_core.tl.block import BlockId, BlockIdExt
    import struct
    wc, shard, seqno = rng.choice([0, -1, 5]), rng.choice([None, 0, 1, -1, -(1 << 63), (1 << 63) - 1, rng.getrandbits(63)]), rng.getrandbits(31)
    rh, fh = rng.randbytes(32), rng.randbytes(32)
    b = BlockIdExt(wc, shard, seqno, rh, fh)
    # independent expectation: the 80-byte layout written out with struct (an omitted shard is the full shard -2^63)
    want = struct.pack(">iqi", wc, -(1 << 63) if shard is None else shard, seqno) + rh + fh
    if b.to_bytes() != want:
        return f"bytes: to_bytes of (wc={wc}, shard={shard}, seqno={seqno}) is not workchain/shard/seqno/root/file"
    back = BlockIdExt.from_bytes(want)
    if (back.workchain, back.shard, back.seqno, back.root_hash, back.file_hash) != (wc, -(1 << 63) if shard is None else shard, seqno, rh, fh):
        return "bytes: from_bytes does not return the encoded components"
    if BlockIdExt.from_bytes(b.to_bytes()) != b or len(b.to_bytes()) != 80:
        return "bytes: to_bytes/from_bytes"
    if BlockIdExt.from_dict(b.to_dict()) != b:
        return "dict: to_dict/from_dict"
    try:
        d = {b: 1}
        if d[BlockIdExt.from_bytes(b.to_bytes())] != 1:
            return "hash: equal ids are different dictionary keys"
    except TypeError as e:
        return f"hash: not usable as a dictionary key ({e})"
    # the constructor accepts each hash as bytes or as hex text, independently of the other
    for r_form, f_form in ((rh.hex(), fh.hex()), (rh, fh.hex()), (rh.hex(), fh), (rh.hex().upper(), fh)):
        try:
            m = BlockIdExt(wc, shard, seqno, r_form, f_form)
            if m.to_bytes() != want or m != b or {b: 1}.get(m) != 1 or BlockIdExt.from_dict(m.to_dict()) != b:
                return "forms: a block id given with hex/bytes hashes differs from the same id given with bytes"
        except Exception as e:
            return f"forms: hashes given as {type(r_form).__name__}/{type(f_form).__name__}: {type(e).__name__}"
    i = BlockId(b.workchain, b.shard, b.seqno)
    j = BlockId.from_dict(i.to_dict())
    if (j.workchain, j.shard, j.seqno) != (i.workchain, i.shard, i.seqno):
        return "blockid: BlockId dict round trip"
    return "ok"


def replay(ctx, obj):
    c = obj["case"]
    if "intrange" in c:
        r = core.call_impl(lambda _: int_range_case(), None)
        return None if r == "ok" else r
    if "schemas" in c:
        r = core.call_impl(lambda _: schema_independence_case(), None)
        return None if r == "ok" else r
    if "blockid" in c:
        return "randomised sub-check: re-run the check with the same seed"
    v = c["value"]
    a = core.call_impl(py_ser, v)
    want = spec_enc(v).hex() or "-"
    if a != "ok " + want:
        return f"serialised bytes differ from the TL encoding: {a[:80]}"
    r = core.call_impl(py_des, want)
    exp = f"ok {len(want) // 2 if want != '-' else 0} {tok(v)}"
    return None if r == exp else f"round trip differs: {r[:100]}"
