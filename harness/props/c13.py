"""C13 - address text forms round-trip and the friendly form's checksum is enforced."""
import core

ID = "C13"
GEN = ["CrcTables.v"]
RULE = ("addresses: all 256 workchain ids x random account ids x raw + 8 friendly variants; every one of the 48x63 "
        "single-character substitutions for a sample of addresses; malformed strings (wrong length, workchain out "
        "of range, non-hex raw forms, foreign characters); non-trivial = any address; distinct by string")
TRUSTED = [
    "Coq 8.16.1 kernel incl. vm_compute (3024-pattern CRC sweep, 64-entry alphabet sweeps); no native_compute",
    "Model/Address.v: hand transcription of address.py plus models of CPython base64 (non-validating decode, no '='), "
    "str(int)/int(str) for canonical decimal text, bytes.hex/fromhex for hex-digit-only text",
    "Gen/CrcTables.v regenerated from crc.py (C18) for crc16",
    "extraction + driver",
]
ASSUMES = ["input strings contain no '=' and, for raw forms, canonical decimal workchain text and hex-digit-only account ids"]

STD = "ABCDEFGHIJKLMNOPQRSTUVWXYZabcdefghijklmnopqrstuvwxyz0123456789+/"
URL = "ABCDEFGHIJKLMNOPQRSTUVWXYZabcdefghijklmnopqrstuvwxyz0123456789-_"


def hx(s):
    return s.encode().hex() if s else "-"


def py_parse(s):
    from pytoniq_core.boc.address import Address
    a = Address(s)
    return f"ok {fmtz(a.wc)} {a.hash_part.hex() or '-'} {int(a.is_bounceable)} {int(a.is_test_only)} pyhash={fmtz(a.__hash__())}"


def fmtz(v):
    return format(v, "x") if v >= 0 else "-" + format(-v, "x")


def py_str(c):
    from pytoniq_core.boc.address import Address
    wc, h, f, u, b, t = c
    return "ok " + hx(Address((wc, bytes.fromhex(h))).to_str(bool(f), bool(u), bool(b), bool(t)))


def run(ctx):
    rng = ctx.rng
    render = []
    for wc in range(-128, 128):
        h = rng.randbytes(32).hex()
        render.append((wc, h, 0, 0, 0, 0))
        for u in (0, 1):
            for b in (0, 1):
                for t in (0, 1):
                    render.append((wc, h, 1, u, b, t))
    for wc in (-129, 128, 255, -(1 << 40), 1 << 70, 12345678901234567890):
        h = rng.randbytes(32).hex()
        render.append((wc, h, 0, 1, 1, 0))
        render.append((wc, h, 1, 1, 1, 0))
    impl_r, model_r = ctx.correspond("to_str", render, py_str,
                                     lambda c: f"addr_str {fmtz(c[0])} {c[1]} {c[2]} {c[3]} {c[4]} {c[5]}")
    if ctx.thorough():
        # three-way agreement: Model/Address.to_str evaluated INSIDE Coq (vm_compute, incl. the generated CRC-16 table) on a
        # sample of renderings must give the bytes the extracted OCaml driver gave (and hence what the implementation gave)
        sample = [c for c in render if -128 <= c[0] <= 127][:: max(1, len(render) // 60)][:60]
        b2 = lambda x: "true" if x else "false"
        lit = "; ".join("(%s, [%s], %s, %s, %s, %s)" % (("(%d)%%Z" % c[0]), "; ".join(str(x) for x in bytes.fromhex(c[1])),
                                                        b2(c[2]), b2(c[3]), b2(c[4]), b2(c[5])) for c in sample)
        term = ("flat_map (fun c => match c with (wc, h, f, u, b, t) => match to_str wc h f u b t with Ok l => N.of_nat (length l) :: l "
                "| Err _ => [999999] end end) [" + lit + "]")
        nums, err = core.coq_eval_numbers("Base.Result Base.Bytes Model.Address", term, "c13_cases", timeout=900)
        if nums is None:
            ctx.broken.append("in-Coq evaluation of the address model failed: " + err[:200])
        else:
            mmap = dict(zip(render, model_r))
            want = []
            for c in sample:
                m = mmap[c]
                if m.startswith("ok "):
                    bs_ = bytes.fromhex(m[3:])
                    want += [len(bs_)] + list(bs_)
                else:
                    want += [999999]
            if nums != want:
                ctx.broken.append("extraction cross-check: Coq's vm_compute and the extracted OCaml model disagree on address texts")
            ctx.extra["in_coq_cross_check_renderings"] = len(sample)
    strings = []
    exp = {}
    for c, a in zip(render, impl_r):
        if a.startswith("ok "):
            s = bytes.fromhex(a[3:]).decode()
            strings.append(s)
            exp[s] = c
    # substitutions
    subs = []
    friendly = [s for s in strings if ":" not in s]
    for s in rng.sample(friendly, min(len(friendly), ctx.n(4, 200))):
        alpha = URL if ("-" in s or "_" in s or ("+" not in s and "/" not in s and exp[s][3] == 1)) else STD
        alpha = URL if exp[s][3] == 1 else STD
        for i in range(48):
            for ch in alpha:
                if ch != s[i]:
                    subs.append(s[:i] + ch + s[i + 1:])
    malformed = []
    for s in rng.sample(strings, 60):
        malformed += [s[:-1], s + "A", s[1:], s.replace(":", ";"), s[:10] + "!" + s[10:], s.upper(), "", ":", "0:", "0:zz",
                      "x:" + "00" * 32, s[:20] + s[22:]]
    malformed = [m for m in malformed if "=" not in m]
    ctx.correspond("parse-rendered", strings, py_parse, lambda s: f"addr_parse {hx(s)}")
    isub, msub = ctx.correspond("parse-substituted", subs, py_parse, lambda s: f"addr_parse {hx(s)}")
    ctx.correspond("parse-malformed", malformed, py_parse, lambda s: f"addr_parse {hx(s)}", lambda s: len(s) > 2)

    # ---- property oracle on the implementation
    for c, a in zip(render, impl_r):
        wc, h, f, u, b, t = c
        if f and not -128 <= wc <= 127:
            if a.startswith("ok"):
                ctx.fail("friendly-form-of-wide-workchain", f"wc {wc} rendered in one byte", {"render": c})
            continue
        if not a.startswith("ok"):
            ctx.fail("render-failed", f"to_str{c[2:]} of wc {wc}: {a}", {"render": c})
            continue
        s = bytes.fromhex(a[3:]).decode()
        back = core.call_impl(py_parse, s)
        want = f"ok {fmtz(wc)} {h} {b if f else 0} {t if f else 0}"
        if not back.startswith(want + " "):
            ctx.fail("text-roundtrip-differs", f"{s} parsed to {back[:90]}, expected {want[:90]}", {"render": c})
        else:
            from pytoniq_core.boc.address import Address
            a1, a2 = Address(s), Address((wc, bytes.fromhex(h)))
            if not (a1 == a2 and hash(a1) == hash(a2)):
                ctx.fail("equal-addresses-hash-differently", s, {"render": c})
    # history: ONE Address object rendered in every form, in random order, several times (repr() in between): each text
    # must be what a fresh object renders (the stream above compared those with the model)
    from pytoniq_core.boc.address import Address
    fresh = {c: a for c, a in zip(render, impl_r)}
    nh = 0
    for wc in rng.sample(range(-128, 128), ctx.n(40, 256)):
        forms = [c for c in render if c[0] == wc]
        obj = Address((wc, bytes.fromhex(forms[0][1])))
        if rng.random() < 0.6:
            # the object is obtained by PARSING one of its own text forms (the parser records the form's flags on the object;
            # they must not leak into later renderings with other flags)
            src = fresh[rng.choice(forms)]
            if src.startswith("ok "):
                obj = Address(bytes.fromhex(src[3:]).decode())
        seq = forms * 2
        rng.shuffle(seq)
        for c in seq:
            nh += 1
            if rng.random() < 0.3:
                repr(obj); str(obj); hash(obj)
            got = core.call_impl(lambda _: "ok " + hx(obj.to_str(bool(c[2]), bool(c[3]), bool(c[4]), bool(c[5]))), None)
            if got != fresh[c]:
                ctx.fail("render-depends-on-earlier-renders", f"to_str{c[2:]} on a re-used object: {got[:80]} vs fresh {fresh[c][:80]}",
                         {"render": c, "history": True})
                break
    ctx.extra["reused_object_renderings"] = nh
    bad = 0
    for s, a in zip(subs, isub):
        if a.startswith("ok"):
            bad += 1
            ctx.fail("substituted-character-accepted", f"{s} accepted: {a[:60]}", {"parse": s})
    ctx.extra["substitutions"] = len(subs)
    ctx.extra["renderings"] = len(render)


def replay(ctx, obj):
    c = obj["case"]
    if "parse" in c:
        a = core.call_impl(py_parse, c["parse"])
        return f"corrupted address accepted: {a[:80]}" if a.startswith("ok") else None
    wc, h, f, u, b, t = c["render"]
    a = core.call_impl(py_str, (wc, h, f, u, b, t))
    if f and not -128 <= wc <= 127:
        return "wide workchain rendered" if a.startswith("ok") else None
    if not a.startswith("ok"):
        return f"render failed: {a}"
    s = bytes.fromhex(a[3:]).decode()
    back = core.call_impl(py_parse, s)
    want = f"ok {fmtz(wc)} {h} {b if f else 0} {t if f else 0}"
    return None if back.startswith(want + " ") else f"{s} parsed to {back[:90]}"
