"""C19 - work is bounded by the size of the input; every parser terminates (partial: cost counts, not wall-clock)."""
import time

import boc
import cells
import core
from props import c03

ID = "C19"
GEN = []
RULE = ("DAG families with maximal sharing (diamond chains up to 200 levels, ladders, random DAGs with fan-in) for "
        "ordering/serialising/parsing; BoC headers announcing far more cells/roots/index entries than the data holds; "
        "TL inputs with adversarial vector counts, bytes-field length prefixes exceeding the data (with complete nested "
        "objects as payload), truncations and byte flips of valid messages; measured: number of Cell.__hash__ calls per order(), number of "
        "deserialize_cell / TlSchemas.deserialize calls per input byte; non-trivial = DAG with sharing or an "
        "adversarial count field; dictionaries whose forks share their children (valid, all 2^n keys) and dictionaries with a "
        "label longer than the key; distinct by case")
TRUSTED = [
    "Coq 8.16.1 kernel incl. vm_compute; no native_compute",
    "Model/Cost.v: the traversal of Cell.order (Model/Boc.v) instrumented with a visit counter",
    "the harness counts calls by wrapping public methods from outside (no source hook); wall-clock time, memory and the "
    "cost of bitarray/bytes/hashlib primitives are NOT modelled (unit cost)",
    "extraction + driver",
]
ASSUMES = ["'cannot run for more than a fraction of a second' is reported only as measured times of the replay inputs"]


class BudgetExceeded(Exception):
    pass


def count_hash_calls(fn, budget=10 ** 9):
    """runs fn counting Cell.__hash__ calls; the run is cut off (result None) once the count passes the budget, so that
    a super-polynomial traversal is reported instead of being waited for"""
    from pytoniq_core.boc.cell import Cell
    orig = Cell.__hash__
    n = [0]

    def counted(self):
        n[0] += 1
        if n[0] > budget:
            raise BudgetExceeded()
        return orig(self)
    Cell.__hash__ = counted
    t0 = time.time()
    try:
        try:
            r = fn()
        except BudgetExceeded:
            r = None
        dt = time.time() - t0
    finally:
        Cell.__hash__ = orig
    return n[0], dt, r


def ladder(k):
    dag = [(-1, "0", []), (-1, "1", [])]
    for i in range(k):
        a, b = len(dag) - 2, len(dag) - 1
        dag.append((-1, format(i, "b"), [a, b]))
        dag.append((-1, format(i, "b") + "1", [b, a]))
    dag.append((-1, "", [len(dag) - 2, len(dag) - 1]))
    return dag


def run(ctx):
    rng = ctx.rng
    dags = [c03.diamond(k) for k in (1, 5, 21, 60, 120, 200)] + [ladder(k) for k in (3, 10, 40)]
    for _ in range(ctx.n(40, 400)):
        dags.append(cells.rand_ordinary_dag(rng, rng.choice([5, 20, 60]), share=0.8, max_bits=32, max_tree=10 ** 12))
    # model: visits of the (recursive formulation of the) traversal
    small = [d for d in dags if len(d) <= 400]
    model = core.run_driver(["order_cost " + cells.dag_line(d) for d in small])
    worst = 0.0
    for d, m in zip(small, model):
        ctx.note_case(["order", cells.dag_line(d)[:200]])
        if not m.startswith("ok"):
            ctx.broken.append("model order_cost failed: " + m)
            continue
        mc = dict(kv.split("=") for kv in m[3:].split())
        n_cells, visits = int(mc["cells"]), int(mc["visits"])
        # constructing the cells (hashing, level masks) is part of the work: it must not re-walk shared sub-DAGs either
        built = []
        t0 = time.time()
        r = core.call_impl(lambda _: built.append(cells.build_py(d)) or "ok", None, timeout_s=10)
        if r != "ok" or time.time() - t0 > 5.0:
            ctx.fail("cell-construction-work-superlinear",
                     f"{n_cells} cells, {len(d)} nodes: constructing the DAG bottom-up took {time.time() - t0:.1f}s ({r})", {"dag": d, "construct": 1})
            continue
        objs = built[0]
        root = objs[-1]
        bound = 8 * (visits + n_cells) + 16
        calls, dt, res = count_hash_calls(lambda: root.order({}), budget=100 * bound)
        worst = max(worst, dt)
        if res is None:
            ctx.fail("order-work-superlinear", f"{n_cells} cells, {visits} model visits: order() cut off after {calls} hash operations",
                     {"dag": d})
            continue
        if len(res) != n_cells:
            ctx.disagreements.append({"stream": "order", "case": d[:5], "impl": f"{len(res)} cells", "model": m})
            ctx.corr.setdefault("order", {"cases": 0, "disagree": 0})["disagree"] += 1
        if calls > bound:
            ctx.fail("order-work-superlinear", f"{n_cells} cells, {visits} model visits, but {calls} hash operations in order()",
                     {"dag": d})
        # whole to_boc / from_boc
        calls2, dt2, blob = count_hash_calls(lambda: root.to_boc(), budget=100 * (40 * (visits + n_cells) + 100))
        worst = max(worst, dt2)
        if blob is None or calls2 > 40 * (visits + n_cells) + 100:
            blob = blob or b""
            ctx.fail("to_boc-work-superlinear", f"{n_cells} cells: {calls2} hash operations in to_boc()", {"dag": d})
        # explicit re-hashing through the public entry point
        from pytoniq_core.boc.cell import Cell as _C
        reps = [0]
        orig_rep = _C.get_representation

        def counted_rep(self, *a, **k):
            reps[0] += 1
            if reps[0] > 100 * (n_cells + 10):
                raise BudgetExceeded()
            return orig_rep(self, *a, **k)
        _C.get_representation = counted_rep
        try:
            try:
                root.calculate_representation_hash()
            except BudgetExceeded:
                ctx.fail("rehash-work-superlinear", f"{n_cells} cells: calculate_representation_hash() evaluated more than "
                         f"{100 * (n_cells + 10)} representations", {"dag": d, "rehash": 1})
            except Exception:
                pass
        finally:
            _C.get_representation = orig_rep
        if dt + dt2 > 2.0:
            ctx.fail("serialisation-slow", f"{n_cells} cells / {len(blob)} bytes took {dt + dt2:.1f}s", {"dag": d})
    ctx.corr.setdefault("order", {"cases": 0, "disagree": 0})
    ctx.corr["order"]["cases"] = len(small)
    ctx.corr["order"].setdefault("agree", len(small) - ctx.corr["order"]["disagree"])
    ctx.extra["worst_seconds"] = round(worst, 3)

    # BoC parser with lying count fields
    from pytoniq_core.boc.deserialize import Boc
    n_adv = 0
    for cells_num, roots, size, off in [(2 ** 32 - 1, 1, 4, 1), (2 ** 24 - 1, 2 ** 24 - 1, 3, 1), (2 ** 16 - 1, 1, 2, 8), (255, 255, 1, 1)]:
        for has_idx in (0, 1):
            d = bytes.fromhex("b5ee9c72") + bytes([128 * has_idx + size, off]) + cells_num.to_bytes(size, "big") + \
                roots.to_bytes(size, "big") + (0).to_bytes(size, "big") + (2).to_bytes(off, "big") + bytes(size) + bytes([0, 0])
            n_adv += 1
            calls = [0]
            orig = Boc.deserialize_cell

            def counted(data, ref_index_size, _o=orig):
                calls[0] += 1
                return _o(data, ref_index_size)
            Boc.deserialize_cell = staticmethod(counted)
            t0 = time.time()
            try:
                r = core.call_impl(lambda _: boc.py_parse(d.hex()), None, timeout_s=10)
            finally:
                Boc.deserialize_cell = staticmethod(orig)
            dt = time.time() - t0
            ctx.note_case(["boc-adversarial", d.hex()])
            if calls[0] > len(d) or dt > 1.0 or r == "timeout":
                ctx.fail("boc-parser-driven-by-count-field", f"{len(d)}-byte input: {calls[0]} cell parses, {dt:.2f}s, {r[:30]}",
                         {"boc": d.hex()})
    # the same lie under the two legacy magics (serialized_boc_idx / _idx_crc32c: the index is always present)
    for magic in ("68ff65f3", "acc3a728"):
        for cells_num, size, off in [(2 ** 32 - 1, 4, 1), (2 ** 24 - 1, 3, 2), (2 ** 16 - 1, 2, 1)]:
            d = bytes.fromhex(magic) + bytes([size, off]) + cells_num.to_bytes(size, "big") + (1).to_bytes(size, "big") + \
                (0).to_bytes(size, "big") + (2).to_bytes(off, "big") + bytes(off) + bytes([0, 0])
            n_adv += 1
            ctx.note_case(["boc-adversarial", d.hex()])
            t0 = time.time()
            r = core.call_impl(lambda _: boc.py_parse(d.hex()), None, timeout_s=10)
            dt = time.time() - t0
            if dt > 1.0 or r == "timeout" or r.startswith("ok"):
                ctx.fail("boc-parser-driven-by-count-field", f"{len(d)}-byte {magic} input claiming {cells_num} cells: {dt:.2f}s, {r[:30]}",
                         {"boc": d.hex()})
    ctx.extra["adversarial_headers"] = n_adv

    # the same shared sub-DAG present TWICE as distinct Python objects (as after parsing one bag twice), joined under one
    # root: equality between the two copies must not walk the sub-DAG (the traversal relies on hash-based equality)
    from pytoniq_core.boc.cell import Cell
    for k in (21, 60, 200):
        d = c03.diamond(k)
        ctx.note_case(["twin-objects", k])
        a, b = cells.build_py(d)[-1], Cell.one_from_boc(cells.build_py(d)[-1].to_boc())
        root = Cell(cells.tvm_bits("1"), [a, b], -1)
        n_eq = [0]
        orig_eq = Cell.__eq__
        budget = 400 * (k + 3)

        def counted_eq(self, other, _o=orig_eq):
            n_eq[0] += 1
            if n_eq[0] > budget:
                raise BudgetExceeded()
            return _o(self, other)
        Cell.__eq__ = counted_eq
        try:
            try:
                # (under a wall-clock limit as well: a traversal that does not go through __eq__/__hash__ has no counter)
                res = []
                r = core.call_impl(lambda _: res.append(count_hash_calls(lambda: (root.order({}), root.to_boc(), a == b)[1],
                                                                          budget=400 * (k + 3))) or "ok", None, timeout_s=20)
                calls, dt, blob = res[0] if r == "ok" and res else (-1, 0, None)
            except BudgetExceeded:
                calls, blob = -1, None
        finally:
            Cell.__eq__ = orig_eq
        # every public derivation of a shared DAG is linear in its cells: copy(), begin_parse().to_cell(), to_builder().end_cell()
        for nm, fn in (("copy", lambda: root.copy()), ("slice-to-cell", lambda: root.begin_parse().to_cell()),
                       ("to_builder", lambda: root.to_builder().end_cell()), ("hash-recompute", lambda: root.calculate_representation_hash())):
            t0 = time.time()
            r = core.call_impl(lambda _: fn() and "ok", None, timeout_s=10)
            if r != "ok" or time.time() - t0 > 3.0:
                ctx.fail("derivation-work-superlinear:" + nm, f"{nm} of a {k + 3}-cell shared DAG: {r}, {time.time() - t0:.1f}s", {"twin": k})
                break
        if blob is None:
            ctx.fail("order-work-superlinear:twin-objects", f"{k + 2} distinct cells present as two object graphs: more than "
                     f"{budget} equality/hash operations in order()/to_boc() (cut off)", {"twin": k})
        elif len(Cell.one_from_boc(blob).order({})) != k + 2:
            ctx.fail("twin-objects-not-merged", "equal cells held in distinct objects were written twice", {"twin": k})

    # dictionary parser on DAG-shaped and malformed dictionaries: calls of the edge parser per distinct cell
    n_dict = 0
    for kind, n in [("shared-valid", 6), ("shared-valid", 12), ("shared-valid", 20), ("shared-valid", 60),
                    ("shared-pruned", 12), ("shared-pruned", 60),
                    ("label-longer-than-key", 12), ("label-longer-than-key", 24), ("label-longer-than-key", 60),
                    ("aug-label-longer-than-key", 24), ("label-longer-than-key-long-forks", 24),
                    ("aug-label-longer-than-key-long-forks", 40),
                    ("short-label-longer-than-key", 24), ("short-label-longer-than-key", 60), ("aug-short-label-longer-than-key", 40)]:
        n_dict += 1
        ctx.note_case(["dict-adversarial", kind, n])
        r = core.call_impl(lambda _: dict_case(kind, n), None, timeout_s=30)
        if r != "ok":
            ctx.fail("dict-parser-work:" + kind, r, {"dict": kind, "n": n})
    ctx.extra["adversarial_dictionaries"] = n_dict

    # dictionary parser, cost correspondence: the model's instrumented parser (Model/Cost.v parse_edge_c; theorems
    # C19_dict_*) and the implementation's number of calls of parse.py `parse` on the same dictionaries
    import hm
    vcases = []
    for _ in range(ctx.n(150, 1500)):
        n = rng.choice([1, 2, 3, 4, 5, 8, 16, 40, 100, 300])
        cnt = rng.choice([1, 2, 3, 4, 8, 20, 40])
        ks = hm.rand_keyset(rng, n, cnt, rng.choice(["dense", "cluster", "runs", "uniform"]))
        d = {k: (cells.rand_bits(rng, rng.choice([0, 5, 8])), []) for k in ks}
        dag = []
        hm.build_any_tree(rng, sorted(d), d, n, dag, canonical=rng.random() < 0.5, prune=rng.choice([0, 0, 0.2, 0.5]))
        vcases.append((n, dag))
    for n in range(1, 10):                                    # shared-children chains: n+1 cells, 2^n paths
        for bottom in ("leaf", "pruned"):
            dag = [(-1, "00" + "1", [])] if bottom == "leaf" else [cells.pruned_node(1, [b"\x11" * 32], [0])]
            for _ in range(n):
                dag.append((-1, "00", [len(dag) - 1, len(dag) - 1]))
            vcases.append((n, dag))
    impl, model = ctx.correspond("dict-visits", vcases, py_dict_visits, lambda c: f"hm_visits {c[0]} {cells.dag_line(c[1])}",
                                 lambda c: len(c[1]) > 1, post=lambda c, m: " ".join(m.split()[:3]) if m.startswith("ok") else m)
    # the proved relation (C19_dict_visits_exact / _depth) re-read on what the implementation did
    for c, a in zip(vcases, impl):
        if a.startswith("ok"):
            k, v = int(a.split()[1]), int(a.split()[2])
            if v + 1 > 2 ** (c[0] + 1) or (v + 1) % 2:
                ctx.fail("dict-parser-visits-not-a-binary-walk", f"Hashmap {c[0]}: {k} entries, {v} edge visits", {"dictv": [c[0], c[1]]})
    ctx.extra["dict_visit_cases"] = len(vcases)

    # TL parser: adversarial counts / length prefixes / truncations
    n_tl = 0
    for data in tl_adversarial_inputs(rng, ctx.n(150, 1500)):
        n_tl += 1
        ctx.note_case(["tl-adversarial", data.hex()])
        r = core.call_impl(lambda _: tl_case(data), None, timeout_s=30)
        if r != "ok":
            ctx.fail("tl-parser-work-not-bounded-by-input", r, {"tl": data.hex()})
    ctx.extra["adversarial_tl_inputs"] = n_tl


def py_dict_visits(case):
    """(n, dag): 'ok <entries> <calls of parse>' for parse_hashmap on the root cell."""
    from pytoniq_core.boc.hashmap import parse as P
    n, dag = case
    root = cells.build_py(dag)[-1]
    calls = [0]
    orig = P.parse

    def counted(*a, **k):
        calls[0] += 1
        if calls[0] > 100000:
            raise BudgetExceeded()
        return orig(*a, **k)
    P.parse = counted
    try:
        r = P.parse_hashmap(root.begin_parse(), n)
    finally:
        P.parse = orig
    return f"ok {len(r)} {calls[0]}"


def dict_case(kind, n):
    """a chain of n+1 distinct cells in which both references of every fork are the SAME child.
    shared-valid: a spec-valid Hashmap n holding all 2^n keys (every label empty);
    label-longer-than-key: the same chain read as a Hashmap 4 whose root label claims 6 bits: invalid, must be refused
    without walking the chain once per path"""
    from pytoniq_core.boc.builder import Builder
    from pytoniq_core.boc.hashmap import parse as P
    cur = Builder().store_bits("00").store_uint(7, 8).end_cell()
    if kind == "shared-pruned":
        # a spec-valid Hashmap n whose shared chain ends in a pruned branch: 2^n paths, nothing to return
        cur = cells.build_py([cells.pruned_node(1, [b"\x11" * 32], [0])])[-1]
    elif kind != "shared-valid":
        # the chain ends in a pruned branch: the parser skips it silently, so nothing stops the walk early
        cur = cells.build_py([cells.pruned_node(1, [b"\x11" * 32], [0])])[-1]
    for _ in range(n):
        cur = Builder().store_bits("00").store_ref(cur).store_ref(cur).end_cell()
    key_len = n
    if kind not in ("shared-valid", "shared-pruned"):
        if kind.endswith("long-forks"):
            # every fork of the chain carries an empty hml_long label whose length field has the width the parser would
            # use at that (negative) remaining key length, so that no later label stops the walk either
            cur = cells.build_py([cells.pruned_node(1, [b"\x11" * 32], [0])])[-1]
            for depth in range(n, 0, -1):
                m = 4 - 6 - depth                  # remaining key length at that depth after the over-long root label
                cur = Builder().store_bits("10" + "0" * abs(m).bit_length()).store_ref(cur).store_ref(cur).end_cell()
        # root: hml_long$10 n:(#<= 4)=6 (3 bits) s:6 bits -> 2 bits more than the key has
        # (kinds with "short": the same over-long label written as hml_short$0 111111 0 s:6 bits)
        root_label = "0" + "111111" + "0" + "000000" if "short" in kind else "10" + "110" + "000000"
        cur = Builder().store_bits(root_label).store_ref(cur).store_ref(cur).end_cell()
        key_len = 4
    cells_n = n + 2
    budget = 200 * cells_n
    calls = [0]
    names = ["parse", "parse_aug"]
    orig = {nm: getattr(P, nm) for nm in names}

    def wrap(nm):
        def counted(*a, **k):
            calls[0] += 1
            if calls[0] > budget:
                raise BudgetExceeded()
            return orig[nm](*a, **k)
        return counted
    for nm in names:
        setattr(P, nm, wrap(nm))
    t0 = time.time()
    cut = False
    out = None
    try:
        try:
            sl = cur.begin_parse()
            if kind.startswith("aug"):
                out = P.parse_hashmap_aug(sl, key_len, lambda x: x, lambda y: None)
            else:
                out = P.parse_hashmap(sl, key_len)
        except BudgetExceeded:
            cut = True
        except Exception:
            out = "raised"
    finally:
        for nm in names:
            setattr(P, nm, orig[nm])
    dt = time.time() - t0
    if cut:
        return f"{kind}: a dictionary of {cells_n} distinct cells made the parser visit more than {budget} edges (cut off after {dt:.2f}s)"
    if kind not in ("shared-valid", "shared-pruned") and out != "raised":
        return f"{kind}: a label longer than the remaining key was not refused (result: {str(out)[:40]})"
    return "ok"


_SCHEMAS = []


def tl_schemas():
    if not _SCHEMAS:
        from pytoniq_core.tl.generator import TlGenerator
        _SCHEMAS.append(TlGenerator.with_default_schemas().generate())
    return _SCHEMAS[0]


def tl_adversarial_inputs(rng, n):
    """byte strings for TlSchemas.deserialize: huge vector counts; bytes fields whose length prefix exceeds the data
    present, with complete nested boxed objects as payload (the library re-parses such payloads); truncations and
    byte flips of valid serialisations"""
    sch = tl_schemas()

    def ser(name, **kw):
        s = sch.get_by_name(name)
        return sch.serialize(s, kw) if s is not None else None
    out = []
    tl = sch.get_by_name("liteServer.transactionList")
    if tl is not None:
        for cnt in (100000, 2 ** 31 - 1, 2 ** 32 - 1):
            out.append(tl.little_id() + cnt.to_bytes(4, "little"))
    # every constructor whose FIRST field is a vector (of whatever element type): id + an absurd count, nothing else
    for sc in sch.list:
        args = list(getattr(sc, "args", {}).items())
        if args and args[0][1].startswith("(") and "vector" in args[0][1]:
            for cnt in (2 ** 32 - 1, 2 ** 31 - 1, 1000000):
                out.append(sc.little_id() + cnt.to_bytes(4, "little"))
    nested = [x for x in (ser("dht.ping", random_id=rng.getrandbits(62)), ser("tcp.ping", random_id=rng.getrandbits(62)),
                          ser("adnl.message.nop")) if x]
    carriers = [sch.get_by_name(nm) for nm in ("adnl.message.custom", "adnl.message.answer", "adnl.message.query")]
    carriers = [c for c in carriers if c is not None]
    for c in carriers:
        for inner in nested:
            for k in (1, 2, 3):
                payload = inner * k
                for claimed in (len(payload) + 1, len(payload) + 4, 100, 253, 200):
                    if claimed <= len(payload) or claimed > 253:
                        continue
                    head = c.little_id()
                    if c.name == "adnl.message.answer" or c.name == "adnl.message.query":
                        head += rng.randbytes(32)
                    out.append(head + bytes([claimed]) + payload)
                # long form prefix claiming megabytes
                out.append(c.little_id() + (rng.randbytes(32) if c.name != "adnl.message.custom" else b"") +
                           b"\xfe" + (2 ** 24 - 1).to_bytes(3, "little") + payload)
    valid = [x for x in (ser("adnl.message.custom", data=b"hello world"), ser("dht.ping", random_id=5),
                         ser("adnl.message.custom", data=nested[0] if nested else b"x")) if x]
    while len(out) < n and valid:
        v = bytearray(rng.choice(valid))
        kind = rng.randrange(3)
        if kind == 0:
            v = v[:rng.randrange(len(v) + 1)]
        elif kind == 1 and len(v) > 4:
            v[rng.randrange(4, len(v))] = rng.randrange(256)
        else:
            v += rng.randbytes(rng.randrange(1, 9))
        out.append(bytes(v))
    return out[:max(n, 40)]


def tl_case(data):
    """number of (nested) TlSchemas.deserialize calls must stay within a multiple of the input length"""
    from pytoniq_core.tl.generator import TlSchemas
    schemas = tl_schemas()
    calls = [0]
    budget = 50 * len(data) + 50
    orig = TlSchemas.deserialize

    def counted(self, *a, **k):
        calls[0] += 1
        if calls[0] > 20 * budget:
            raise BudgetExceeded()
        return orig(self, *a, **k)
    TlSchemas.deserialize = counted
    cut = False
    try:
        t0 = time.time()
        try:
            schemas.deserialize(data)
        except BudgetExceeded:
            cut = True
        except Exception:
            pass
        dt = time.time() - t0
    finally:
        TlSchemas.deserialize = orig
    if cut or calls[0] > budget:
        return f"a {len(data)}-byte TL input made the parser run {calls[0]}{'+' if cut else ''} nested deserialisations ({dt:.2f}s)"
    if dt > 2.0:
        return f"a {len(data)}-byte TL input took {dt:.1f}s"
    return "ok"


def replay(ctx, obj):
    c = obj["case"]
    if "dict" in c:
        r = core.call_impl(lambda _: dict_case(c["dict"], c["n"]), None, timeout_s=60)
        return None if r == "ok" else r
    if "dictv" in c:
        n, dag = c["dictv"][0], [(t, b, list(r)) for t, b, r in c["dictv"][1]]
        a = core.call_impl(py_dict_visits, (n, dag))
        if a.startswith("ok") and (int(a.split()[2]) + 1 > 2 ** (n + 1) or (int(a.split()[2]) + 1) % 2):
            return "edge visits are not those of a binary walk: " + a
        return None
    if "tl" in c:
        r = core.call_impl(lambda _: tl_case(bytes.fromhex(c["tl"])), None, timeout_s=60)
        return None if r == "ok" else r
    if "boc" in c:
        t0 = time.time()
        r = core.call_impl(lambda _: boc.py_parse(c["boc"]), None, timeout_s=10)
        return "parser ran long" if time.time() - t0 > 1.0 or r == "timeout" else None
    d = [(t, b, list(r)) for t, b, r in c["dag"]]
    if c.get("construct"):
        t0 = time.time()
        r = core.call_impl(lambda _: cells.build_py(d) and "ok", None, timeout_s=10)
        return None if r == "ok" and time.time() - t0 < 5.0 else f"constructing the DAG took {time.time() - t0:.1f}s ({r})"
    objs = cells.build_py(d)
    n = len({o.hash for o in objs})
    if c.get("rehash"):
        from pytoniq_core.boc.cell import Cell as _C
        reps = [0]
        orig_rep = _C.get_representation

        def counted_rep(self, *a, **k):
            reps[0] += 1
            if reps[0] > 100 * (n + 10):
                raise BudgetExceeded()
            return orig_rep(self, *a, **k)
        _C.get_representation = counted_rep
        try:
            objs[-1].calculate_representation_hash()
            return None
        except BudgetExceeded:
            return f"{n} cells: calculate_representation_hash() evaluated more than {100 * (n + 10)} representations"
        finally:
            _C.get_representation = orig_rep
    calls, dt, res = count_hash_calls(lambda: objs[-1].to_boc(), budget=100 * (200 * (5 * n) + 100))
    return None if res is not None and calls <= 200 * (5 * n) + 100 and dt < 2.0 else f"{n} cells: {calls} hash operations, {dt:.1f}s"
