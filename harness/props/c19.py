"""C19 - work is bounded by the size of the input; every parser terminates (partial: cost counts, not wall-clock)."""
import time

import boc
import cells
import core
from props import c03

ID = "C19"
GEN = []
RULE = ("DAG families with maximal sharing (diamond chains up to 200 levels, ladders, random DAGs with fan-in) for "
        "ordering/serialising/parsing; BoC headers announcing far more cells/roots/index entries than the data holds; "
        "TL inputs with adversarial vector counts; measured: number of Cell.__hash__ calls per order(), number of "
        "deserialize_cell / TlSchemas.deserialize calls per input byte; non-trivial = DAG with sharing or an "
        "adversarial count field; distinct by case")
TRUSTED = [
    "Coq 8.16.1 kernel incl. vm_compute; no native_compute",
    "Model/Cost.v: the traversal of Cell.order (Model/Boc.v) instrumented with a visit counter",
    "the harness counts calls by wrapping public methods from outside (no source hook); wall-clock time, memory and the "
    "cost of bitarray/bytes/hashlib primitives are NOT modelled (unit cost)",
    "extraction + driver",
]
ASSUMES = ["'cannot run for more than a fraction of a second' is reported only as measured times of the replay inputs"]


def count_hash_calls(fn):
    from pytoniq_core.boc.cell import Cell
    orig = Cell.__hash__
    n = [0]

    def counted(self):
        n[0] += 1
        return orig(self)
    Cell.__hash__ = counted
    try:
        t0 = time.time()
        r = fn()
        dt = time.time() - t0
    finally:
        Cell.__hash__ = orig
    return n[0], dt, r


def ladder(k):
    dag = [(-1, "0", []), (-1, "1", [])]
    for i in range(k):
        a, b = len(dag) - 2, len(dag) - 1
        dag.append((-1, format(i, "b"), [a, b]))
        dag.append((-1, format(i, "b") + "1", [b, a]))
    dag.append((-1, "", [len(dag) - 2, len(dag) - 1]))
    return dag


def run(ctx):
    rng = ctx.rng
    dags = [c03.diamond(k) for k in (1, 5, 21, 60, 120, 200)] + [ladder(k) for k in (3, 10, 40)]
    for _ in range(ctx.n(40, 400)):
        dags.append(cells.rand_ordinary_dag(rng, rng.choice([5, 20, 60]), share=0.8, max_bits=32, max_tree=10 ** 12))
    # model: visits of the (recursive formulation of the) traversal
    small = [d for d in dags if len(d) <= 400]
    model = core.run_driver(["order_cost " + cells.dag_line(d) for d in small])
    worst = 0.0
    for d, m in zip(small, model):
        ctx.note_case(["order", cells.dag_line(d)[:200]])
        if not m.startswith("ok"):
            ctx.broken.append("model order_cost failed: " + m)
            continue
        mc = dict(kv.split("=") for kv in m[3:].split())
        n_cells, visits = int(mc["cells"]), int(mc["visits"])
        objs = cells.build_py(d)
        root = objs[-1]
        calls, dt, res = count_hash_calls(lambda: root.order({}))
        worst = max(worst, dt)
        if len(res) != n_cells:
            ctx.disagreements.append({"stream": "order", "case": d[:5], "impl": f"{len(res)} cells", "model": m})
            ctx.corr.setdefault("order", {"cases": 0, "disagree": 0})["disagree"] += 1
        edges = sum(len(objs[i].refs) for i in range(len(d)))
        bound = 8 * (visits + n_cells) + 16
        if calls > bound:
            ctx.fail("order-work-superlinear", f"{n_cells} cells, {visits} model visits, but {calls} hash operations in order()",
                     {"dag": d})
        # whole to_boc / from_boc
        calls2, dt2, blob = count_hash_calls(lambda: root.to_boc())
        worst = max(worst, dt2)
        if calls2 > 40 * (visits + n_cells) + 100:
            ctx.fail("to_boc-work-superlinear", f"{n_cells} cells: {calls2} hash operations in to_boc()", {"dag": d})
        if dt + dt2 > 2.0:
            ctx.fail("serialisation-slow", f"{n_cells} cells / {len(blob)} bytes took {dt + dt2:.1f}s", {"dag": d})
    ctx.corr.setdefault("order", {"cases": 0, "disagree": 0})
    ctx.corr["order"]["cases"] = len(small)
    ctx.corr["order"].setdefault("agree", len(small) - ctx.corr["order"]["disagree"])
    ctx.extra["worst_seconds"] = round(worst, 3)

    # BoC parser with lying count fields
    from pytoniq_core.boc.deserialize import Boc
    n_adv = 0
    for cells_num, roots, size, off in [(2 ** 32 - 1, 1, 4, 1), (2 ** 24 - 1, 2 ** 24 - 1, 3, 1), (2 ** 16 - 1, 1, 2, 8), (255, 255, 1, 1)]:
        for has_idx in (0, 1):
            d = bytes.fromhex("b5ee9c72") + bytes([128 * has_idx + size, off]) + cells_num.to_bytes(size, "big") + \
                roots.to_bytes(size, "big") + (0).to_bytes(size, "big") + (2).to_bytes(off, "big") + bytes(size) + bytes([0, 0])
            n_adv += 1
            calls = [0]
            orig = Boc.deserialize_cell

            def counted(data, ref_index_size, _o=orig):
                calls[0] += 1
                return _o(data, ref_index_size)
            Boc.deserialize_cell = staticmethod(counted)
            t0 = time.time()
            try:
                r = core.call_impl(lambda _: boc.py_parse(d.hex()), None, timeout_s=10)
            finally:
                Boc.deserialize_cell = staticmethod(orig)
            dt = time.time() - t0
            ctx.note_case(["boc-adversarial", d.hex()])
            if calls[0] > len(d) or dt > 1.0 or r == "timeout":
                ctx.fail("boc-parser-driven-by-count-field", f"{len(d)}-byte input: {calls[0]} cell parses, {dt:.2f}s, {r[:30]}",
                         {"boc": d.hex()})
    ctx.extra["adversarial_headers"] = n_adv

    # TL vector count
    r = core.call_impl(lambda _: tl_vector_case(), None, timeout_s=60)
    if r != "ok":
        ctx.fail("tl-vector-count-drives-loop", r, {"tl": "vector"})


def tl_vector_case():
    from pytoniq_core.tl.generator import TlGenerator, TlSchemas
    schemas = TlGenerator.with_default_schemas().generate()
    sch = schemas.get_by_name("liteServer.transactionList")
    if sch is None:
        return "ok"
    data = sch.little_id() + (100000).to_bytes(4, "little")
    calls = [0]
    orig = TlSchemas.deserialize

    def counted(self, *a, **k):
        calls[0] += 1
        return orig(self, *a, **k)
    TlSchemas.deserialize = counted
    try:
        t0 = time.time()
        try:
            schemas.deserialize(data)
        except Exception:
            pass
        dt = time.time() - t0
    finally:
        TlSchemas.deserialize = orig
    if calls[0] > 50 * len(data):
        return f"an {len(data)}-byte TL input made the parser run {calls[0]} nested deserialisations ({dt:.2f}s)"
    return "ok"


def replay(ctx, obj):
    c = obj["case"]
    if "tl" in c:
        r = core.call_impl(lambda _: tl_vector_case(), None, timeout_s=60)
        return None if r == "ok" else r
    if "boc" in c:
        t0 = time.time()
        r = core.call_impl(lambda _: boc.py_parse(c["boc"]), None, timeout_s=10)
        return "parser ran long" if time.time() - t0 > 1.0 or r == "timeout" else None
    d = [(t, b, list(r)) for t, b, r in c["dag"]]
    objs = cells.build_py(d)
    calls, dt, res = count_hash_calls(lambda: objs[-1].to_boc())
    n = len({o.hash for o in objs})
    return None if calls <= 200 * (5 * n) + 100 and dt < 2.0 else f"{n} cells: {calls} hash operations, {dt:.1f}s"
