"""C17 - TVM stack values round-trip and serialising does not consume them."""
import bs
import cells
import core
import hm
from props import c15

ID = "C17"
GEN = []
RULE = ("stacks of depth 0..300 of null, integers around +-2^63 and +-2^256, cells, slices (partly consumed), "
        "builders, tuples of length 0,1,2,3,many nested up to 4 deep, the eight control-data-free continuation kinds; "
        "every stack is serialised twice and the caller's values are compared before and after; non-trivial = "
        "non-empty stack; distinct by value text")
TRUSTED = [
    "Coq 8.16.1 kernel incl. vm_compute; no native_compute",
    "Model/VmStack.v: hand transcription of tlb/vm_stack.py (the tracer cannot follow its data-dependent recursion), "
    "tied by correspondence; vmc_std / vmc_envelope (VmControlData) are not modelled",
    "Spec/TlbPrim.v enc for the integer forms; extraction + driver",
]
ASSUMES = ["'serialising does not consume the caller's values' is an aliasing property: it is checked on the "
           "implementation (deep comparison before/after, serialise twice), not proved in the functional model"]


def gen_cont(rng, depth):
    k = rng.choice(["q", "x", "p", "r", "u", "a", "w", "W"] if depth < 3 else ["q", "x"])
    if k == "q":
        return ("q", rng.choice([0, 5, -1, (1 << 31) - 1, -(1 << 31)]))
    if k == "x":
        return ("x",)
    if k == "p":
        return ("p", rng.choice([-7, 0, (1 << 31) - 1]), gen_cont(rng, depth + 1))
    if k == "r":
        return ("r", rng.choice([0, 3, (1 << 63) - 1]), gen_cont(rng, depth + 1), gen_cont(rng, depth + 1))
    if k == "u":
        return ("u", gen_cont(rng, depth + 1), gen_cont(rng, depth + 1))
    if k == "a":
        return ("a", gen_cont(rng, depth + 1))
    return (k, gen_cont(rng, depth + 1), gen_cont(rng, depth + 1), gen_cont(rng, depth + 1))


def gen_val(rng, dag, depth):
    k = rng.choice(["n", "i", "i", "i", "c", "s", "b", "t", "t", "k"] if depth < 4 else ["n", "i", "c"])
    if k == "n":
        return ("n",)
    if k == "i":
        return ("i", rng.choice([0, 1, -1, (1 << 63) - 1, 1 << 63, -(1 << 63), -(1 << 63) + 1, -(1 << 63) - 1,
                                 (1 << 256) - 1, -(1 << 256), rng.getrandbits(rng.choice([10, 62, 64, 200, 256]))
                                 * rng.choice([1, -1])]))
    if k == "c":
        return ("c", rng.randrange(len(dag)))
    if k == "s":
        i = rng.randrange(len(dag))
        return ("s", i, rng.randrange(0, len(dag[i][1]) + 1), rng.randrange(0, len(dag[i][2]) + 1))
    if k == "b":
        return ("b", rng.randrange(len(dag)))
    if k == "t":
        n = rng.choice([0, 1, 2, 3, 3, 5, 12])
        return ("t", [gen_val(rng, dag, depth + 1) for _ in range(n)])
    return ("k", gen_cont(rng, 0))


def cont_tok(c):
    if c[0] in ("q", "p", "r"):
        return " ".join([f"{c[0]}:{bs.hz(c[1])}"] + [cont_tok(x) for x in c[2:]])
    return " ".join([c[0]] + [cont_tok(x) for x in c[1:]])


def val_tok(v):
    k = v[0]
    if k == "n":
        return "n"
    if k == "i":
        return "i:" + bs.hz(v[1])
    if k == "c":
        return f"c:{v[1]}"
    if k == "s":
        return f"s:{v[1]}:{v[2]}:{v[3]}"
    if k == "b":
        return f"b:{v[1]}"
    if k == "t":
        return "t[ " + "".join(val_tok(x) + " " for x in v[1]) + "]"
    return "k " + cont_tok(v[1])


def py_cont(c):
    from pytoniq_core.tlb.vm_stack import VmCont
    names = {"q": "vmc_quit", "x": "vmc_quit_exc", "p": "vmc_pushint", "r": "vmc_repeat", "u": "vmc_until",
             "a": "vmc_again", "w": "vmc_while_cond", "W": "vmc_while_body"}
    k = c[0]
    if k == "q":
        return VmCont(names[k], exit_code=c[1])
    if k == "x":
        return VmCont(names[k])
    if k == "p":
        return VmCont(names[k], value=c[1], next=py_cont(c[2]))
    if k == "r":
        return VmCont(names[k], count=c[1], body=py_cont(c[2]), after=py_cont(c[3]))
    if k == "u":
        return VmCont(names[k], body=py_cont(c[1]), after=py_cont(c[2]))
    if k == "a":
        return VmCont(names[k], body=py_cont(c[1]))
    return VmCont(names[k], cond=py_cont(c[1]), body=py_cont(c[2]), after=py_cont(c[3]))


def py_val(v, objs):
    from pytoniq_core.tlb.vm_stack import VmTuple
    from pytoniq_core.boc.builder import Builder
    k = v[0]
    if k == "n":
        return None
    if k == "i":
        return v[1]
    if k == "c":
        return objs[v[1]]
    if k == "s":
        return bs.mk_slice(objs[v[1]], v[2], v[3])
    if k == "b":
        return Builder().store_cell(objs[v[1]])
    if k == "t":
        return VmTuple([py_val(x, objs) for x in v[1]])
    return py_cont(v[1])


def show_cont_py(c):
    t = c.type_
    if t == "vmc_quit":
        return "q:" + bs.hz(c.exit_code)
    if t == "vmc_quit_exc":
        return "x"
    if t == "vmc_pushint":
        return f"p:{bs.hz(c.value)} {show_cont_py(c.next)}"
    if t == "vmc_repeat":
        return f"r:{bs.hz(c.count)} {show_cont_py(c.body)} {show_cont_py(c.after)}"
    if t == "vmc_until":
        return f"u {show_cont_py(c.body)} {show_cont_py(c.after)}"
    if t == "vmc_again":
        return f"a {show_cont_py(c.body)}"
    k = "w" if t == "vmc_while_cond" else "W"
    return f"{k} {show_cont_py(c.cond)} {show_cont_py(c.body)} {show_cont_py(c.after)}"


def show_val_py(v):
    from pytoniq_core.tlb.vm_stack import VmTuple, VmCont
    from pytoniq_core.boc.cell import Cell
    from pytoniq_core.boc.slice import Slice
    from pytoniq_core.boc.builder import Builder
    if v is None:
        return "n"
    if isinstance(v, bool):
        return "i:" + bs.hz(int(v))
    if isinstance(v, int):
        return "i:" + bs.hz(v)
    if isinstance(v, Cell):
        return "c:" + hm.cell_text(v)
    if isinstance(v, Slice):
        return "s:" + (v.bits.to01() or "-") + "/" + "".join(hm.cell_text(r) for r in v.refs[v.ref_offset:])
    if isinstance(v, Builder):
        return "b:" + (v.bits.to01() or "-") + "/" + "".join(hm.cell_text(r) for r in v.refs)
    if isinstance(v, VmTuple):
        return "t[ " + "".join(show_val_py(x) + " " for x in v.list) + "]"
    if isinstance(v, VmCont):
        return "k " + show_cont_py(v)
    return "!" + type(v).__name__


def py_ser(case):
    from pytoniq_core.tlb.vm_stack import VmStack
    dag, vals = case
    objs = cells.build_py(dag)
    return "ok " + hm.cell_text(VmStack.serialize([py_val(v, objs) for v in vals]))


def py_dec(dag):
    from pytoniq_core.tlb.vm_stack import VmStack
    c = cells.build_py(dag)[-1]
    return "ok " + " ".join(show_val_py(v) for v in VmStack.deserialize(c.begin_parse()))


def run(ctx):
    rng = ctx.rng
    cases = []
    for _ in range(ctx.n(400, 5000)):
        dag = bs.pool_dag(rng, 4)
        n = rng.choice([0, 1, 1, 2, 3, 5, 8, 20])
        cases.append((dag, [gen_val(rng, dag, 0) for _ in range(n)]))
    dag = bs.pool_dag(rng, 2)
    cases.append((dag, [("i", i) for i in range(300)]))
    impl, model = ctx.correspond("VmStack.serialize", cases, py_ser,
                                 lambda c: f"vm_ser {cells.dag_line(c[0])} " + " ".join(val_tok(v) for v in c[1]),
                                 lambda c: len(c[1]) > 0, timeout_s=60)
    produced = [(c, c15.text_to_dag(a[3:])) for c, a in zip(cases, impl) if a.startswith("ok ")]
    small = [(c, d) for c, d in produced if len(c[1]) <= 60]
    idec, mdec = ctx.correspond("VmStack.deserialize", [d for _, d in small], py_dec,
                                lambda d: "vm_dec " + cells.dag_line(d), timeout_s=60)
    # foreign encodings: slice values that denote a window of their cell (st_bits > 0, end_bits < length, reference window),
    # valid and inverted - model (C17_slice_window) against the implementation on the same cells
    foreign = []
    for _ in range(ctx.n(80, 800)):
        nb, nk = rng.choice([0, 7, 16, 100, 1023]), rng.choice([0, 1, 2, 4])
        d = [(-1, format(i, "08b"), []) for i in range(nk)]
        d.append((-1, cells.rand_bits(rng, nb), list(range(nk))))
        d.append((-1, "", []))
        sb, sr = rng.randrange(0, nb + 1), rng.randrange(0, nk + 1)
        eb, er = rng.randrange(sb, nb + 1), rng.randrange(sr, nk + 1)
        if rng.random() < 0.15:
            sb, eb = eb + 1, sb            # inverted: must be refused
        elif rng.random() < 0.1:
            sr, er = er + 1, sr
        d.append((-1, format(1, "024b") + "00000100" + format(sb, "010b") + format(eb, "010b") + format(sr & 7, "03b") + format(er & 7, "03b"),
                  [nk + 1, nk]))
        foreign.append(d)
    ctx.correspond("VmStack.deserialize-foreign-slices", foreign, py_dec, lambda d: "vm_dec " + cells.dag_line(d), timeout_s=60)
    # oracle: round trip, purity
    for (c, d), a in zip(small, idec):
        dag, vals = c
        objs = cells.build_py(dag)
        want = "ok " + " ".join(show_val_py(py_val(v, objs)) for v in vals)
        if a != want:
            ctx.fail("stack-roundtrip-differs", f"parsed {a[:100]} expected {want[:100]}", {"dag": dag, "vals": vals})
    for c, a in zip(cases, impl):
        if not a.startswith("ok "):
            ctx.fail("stack-not-serialised", a, {"dag": c[0], "vals": c[1]})
    npure = 0
    for c in cases[: ctx.n(300, 3000)]:
        r = core.call_impl(purity, c, timeout_s=60)
        npure += 1
        if r != "ok":
            ctx.fail("serialize-consumes-values:" + r.split(":")[0], r, {"dag": c[0], "vals": c[1], "purity": 1})
    ctx.extra["purity_cases"] = npure
    # vmc_std / vmc_envelope with control data and a non-empty save list (not in the model): schema written out by hand
    for i in range(ctx.n(20, 200)):
        r = core.call_impl(lambda _: control_data_full_case(i), None)
        if r != "ok":
            ctx.fail("vm-control-data-continuation:" + r.split(":")[0].split(" ")[0], r, {"control_data_full": i})
            break
    for i in range(ctx.n(60, 600)):
        r = core.call_impl(lambda _: directed_case(i), None)
        if r != "ok":
            ctx.fail("vm-stack-directed:" + r.split(":")[0], r, {"directed": i})
            break
    # known asymmetry: VmControlData (vmc_std / vmc_envelope)
    r = core.call_impl(lambda _: control_data_case(), None)
    if r != "ok":
        ctx.fail("vm-control-data-asymmetry", r, {"control_data": 1})


def purity(case):
    from pytoniq_core.tlb.vm_stack import VmStack
    dag, vals = case
    objs = cells.build_py(dag)
    data = [py_val(v, objs) for v in vals]
    before = " ".join(show_val_py(v) for v in data)
    a = VmStack.serialize(data)
    mid = " ".join(show_val_py(v) for v in data)
    b = VmStack.serialize(data)
    after = " ".join(show_val_py(v) for v in data)
    if before != mid or mid != after:
        return "mutated: the caller's values changed during serialisation"
    if a.hash != b.hash:
        return "unstable: serialising twice gave two different cells"
    return "ok"


def control_data_full_case(seed):
    """vmc_std / vmc_envelope with a NON-EMPTY save list, against the VmStack schema written out by hand:
       vmc_std$00 cdata code:VmCellSlice, vmc_envelope$01 cdata next:^VmCont,
       vm_ctl_data$_ nargs:(Maybe uint13) stack:(Maybe VmStack) save:(HashmapE 4 VmStackValue) cp:(Maybe int16)"""
    import random
    from pytoniq_core.boc.builder import Builder
    from pytoniq_core.boc.hashmap import HashMap
    from pytoniq_core.tlb.vm_stack import VmCont, VmControlData, VmStackValue
    r = random.Random(seed)
    # nargs = 0 and cp = 0 are values ("present"), None is "absent" (F19, repaired)
    nargs, cp = r.choice([0, 1, (1 << 13) - 1, None, r.randrange(1 << 13)]), r.choice([0, -1, 1, 7, -32768, 32767, None])
    key, val = r.choice([1, 2, 5, 6, 9, 10, 13]), r.randrange(-(1 << 62), 1 << 62)       # keys whose 4 bits are not all equal
    save = HashMap(4, value_serializer=lambda v, b: b.store_cell(VmStackValue.serialize(v)))
    save.set_int_key(key, val)
    # the dictionary root by hand: hml_long$10 n=4 (3 bits) key; vm_stk_tinyint#01 value:int64
    dict_cell = Builder().store_bits("10" + "100" + format(key, "04b")).store_uint(1, 8).store_int(val, 64).end_cell()
    cdata_bits = ("0" if nargs is None else "1" + format(nargs, "013b")) + "0" + "1"
    cp_bits = "0" if cp is None else "1" + format(cp & 0xFFFF, "016b")
    code = Builder().store_uint(0xABCD, 16).store_ref(Builder().store_uint(3, 2).end_cell()).end_cell()
    for kind in ("vmc_std", "vmc_envelope"):
        # (the library takes the save list as the dictionary's root cell: VmSaveList.serialize passes it to store_dict)
        cd = VmControlData("vm_ctl_data", nargs=nargs, stack=None, save=save.serialize(), cp=cp)
        if kind == "vmc_std":
            sl = code.begin_parse()
            k = VmCont(kind, cdata=cd, code=sl)
            want = (Builder().store_bits("00" + cdata_bits).store_ref(dict_cell).store_bits(cp_bits)
                    .store_ref(code).store_uint(0, 10).store_uint(16, 10).store_uint(0, 3).store_uint(1, 3).end_cell())
        else:
            k = VmCont(kind, cdata=cd, next=VmCont("vmc_quit_exc"))
            want = (Builder().store_bits("01" + cdata_bits).store_ref(dict_cell).store_bits(cp_bits)
                    .store_ref(Builder().store_bits("1001").end_cell()).end_cell())
        try:
            got = VmCont.serialize(k)
        except Exception as e:
            return f"{kind} with a save list is not serialised: {type(e).__name__}: {e}"
        if got.hash != want.hash:
            return f"{kind} with a save list: the encoding differs from the schema"
        try:
            back = VmCont.deserialize(want.begin_parse())
        except Exception as e:
            return f"{kind} with a save list is not parsed: {type(e).__name__}: {e}"
        if back.type_ != kind or back.cdata.nargs != nargs or back.cdata.cp != cp:
            return f"{kind} with a save list: nargs/cp parsed as {getattr(back.cdata, 'nargs', None)}/{getattr(back.cdata, 'cp', None)}"
        sv = back.cdata.save
        items = list(sv.items()) if isinstance(sv, dict) else None
        if not items or len(items) != 1 or items[0][0] != key:
            return f"{kind}: the save list came back as {str(sv)[:60]}"
        vs = items[0][1]
        if (vs.load_uint(8), vs.load_int(64)) != (1, val):
            return f"{kind}: the saved value came back changed"
        if kind == "vmc_std":
            if back.code.to_cell().hash != code.hash:
                return "vmc_std with a save list: the code slice is not the code cell (read from another reference)"
        elif back.next.type_ != "vmc_quit_exc":
            return f"vmc_envelope with a save list: next parsed as {back.next.type_}"
    # with an empty save list the parsed continuation can be serialised again and gives the same cell
    cd0 = VmControlData("vm_ctl_data", nargs=nargs, stack=None, save=None, cp=cp)
    k0 = VmCont("vmc_envelope", cdata=cd0, next=VmCont("vmc_quit", exit_code=r.choice([0, 1, -1])))
    c0 = VmCont.serialize(k0)
    b0 = VmCont.deserialize(c0.begin_parse())
    if (b0.cdata.nargs, b0.cdata.cp) != (nargs, cp):
        return f"vmc_envelope: nargs={nargs} cp={cp} came back as {b0.cdata.nargs}/{b0.cdata.cp}"
    if VmCont.serialize(b0).hash != c0.hash:
        return "vmc_envelope: a parsed continuation serialises to another cell"
    return "ok"


def directed_case(seed):
    """hand-built stack encodings and failing serialisations (implementation only)"""
    import random
    from pytoniq_core.boc.builder import Builder
    from pytoniq_core.tlb.vm_stack import VmStack, VmTuple
    r = random.Random(seed)
    # 1. a slice value that denotes a WINDOW of its cell: vm_stk_slice#04 cell:^Cell st_bits end_bits st_ref end_ref
    bits = cells.rand_bits(r, r.choice([16, 40, 100]))
    kids = [Builder().store_uint(i, 8).end_cell() for i in range(r.choice([0, 2, 3, 4]))]
    b = Builder().store_bits(bits)
    for k in kids:
        b.store_ref(k)
    cell = b.end_cell()
    sb = r.randrange(0, len(bits))
    eb = r.randrange(sb, len(bits) + 1)
    sr = r.randrange(0, len(kids) + 1)
    er = r.randrange(sr, len(kids) + 1)
    entry = (Builder().store_ref(Builder().end_cell()).store_uint(4, 8).store_ref(cell)
             .store_uint(sb, 10).store_uint(eb, 10).store_uint(sr, 3).store_uint(er, 3).end_cell())
    st = Builder().store_uint(1, 24).store_cell(entry).end_cell()
    got = VmStack.deserialize(st.begin_parse())
    if len(got) != 1 or got[0].bits.to01() != bits[sb:eb] or [x.hash for x in got[0].refs[got[0].ref_offset:]] != [k.hash for k in kids[sr:er]]:
        return (f"slice-window: st_bits={sb} end_bits={eb} st_ref={sr} end_ref={er} of a {len(bits)}-bit/{len(kids)}-ref cell parsed as "
                f"{len(got[0].bits) if got else None} bits")
    # 2. parsed empty tuples are independent values
    two = VmStack.deserialize(VmStack.serialize([VmTuple([]), VmTuple([])]).begin_parse())
    two[0].list.append(7)
    if len(two[1].list) != 0:
        return "empty-tuples: two parsed empty tuples share one list"
    later = VmStack.deserialize(VmStack.serialize([VmTuple([])]).begin_parse())
    if len(later[0].list) != 0:
        return "empty-tuples: an empty tuple parsed later carries what the caller appended to an earlier one"
    # 3. a serialisation that is refused leaves the caller's values as they were
    bad = r.choice([1 << 257, -(1 << 257), 1 << 300])
    vals = [1, VmTuple([2, VmTuple([3, bad]), 4]), 5] if seed % 2 else [1, 2, bad, 4]
    shape = repr([(type(v).__name__, len(v.list) if isinstance(v, VmTuple) else v) for v in vals])
    try:
        VmStack.serialize(vals)
        return "refused-serialisation: an integer outside the 257-bit range was serialised"
    except Exception:
        pass
    if repr([(type(v).__name__, len(v.list) if isinstance(v, VmTuple) else v) for v in vals]) != shape or len(vals) not in (3, 4):
        return "refused-serialisation: the caller's list was changed by a serialisation that failed"
    if seed % 2 and (len(vals[1].list) != 3 or len(vals[1].list[1].list) != 2):
        return "refused-serialisation: the caller's tuple was changed by a serialisation that failed"
    return "ok"


def control_data_case():
    from pytoniq_core.tlb.vm_stack import VmStack, VmCont, VmControlData
    cd = VmControlData("vm_ctl_data", nargs=0, stack=None, save=None, cp=0)
    k = VmCont("vmc_envelope", cdata=cd, next=VmCont("vmc_quit_exc"))
    try:
        back = VmStack.deserialize(VmStack.serialize([k]).begin_parse())[0]
    except Exception as e:
        return f"vmc_envelope with nargs=0, cp=0 does not round-trip: {type(e).__name__}"
    got = (getattr(back.cdata, "nargs", None), getattr(back.cdata, "cp", None))
    return "ok" if got == (0, 0) else f"VmControlData nargs=0/cp=0 came back as {got}"


def replay(ctx, obj):
    c = obj["case"]
    if "directed" in c:
        r = core.call_impl(lambda _: directed_case(c["directed"]), None)
        return None if r == "ok" else r
    if "control_data_full" in c:
        r = core.call_impl(lambda _: control_data_full_case(c["control_data_full"]), None)
        return None if r == "ok" else r
    if "control_data" in c:
        r = core.call_impl(lambda _: control_data_case(), None)
        return None if r == "ok" else r
    dag = [(t, b, list(r)) for t, b, r in c["dag"]]

    def tup(v):
        return tuple(tup(x) if isinstance(x, list) and x and isinstance(x[0], str) else
                     ([tup(y) for y in x] if isinstance(x, list) else x) for x in v)
    vals = [tup(v) for v in c["vals"]]
    if "purity" in c:
        r = core.call_impl(purity, (dag, vals), timeout_s=60)
        return None if r == "ok" else r
    a = core.call_impl(py_ser, (dag, vals), timeout_s=60)
    if not a.startswith("ok "):
        return f"not serialised: {a}"
    r = core.call_impl(py_dec, c15.text_to_dag(a[3:]), timeout_s=60)
    objs = cells.build_py(dag)
    want = "ok " + " ".join(show_val_py(py_val(v, objs)) for v in vals)
    return None if r == want else f"round trip differs: {r[:100]}"
