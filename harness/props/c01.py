"""C01 - cell hash and depth are the TON representation hash and depth (ordinary cells)."""
import cells
import core

ID = "C01"
GEN = []
RULE = ("ordinary-cell DAGs: every bit length 0..1023 crossed with reference counts 0..4, chains of depth "
        "1022/1023/1024, random DAGs with sharing, construction routes (constructor, builder, copy, "
        "slice->cell, BoC round trip, cell taken from a builder/slice that is used further afterwards), equality/hash pairs; non-trivial = at least one data bit or one "
        "reference; distinct by DAG text")
TRUSTED = [
    "Coq 8.16.1 kernel incl. vm_compute; no native_compute",
    "Spec/CellRepr.v (s_hash, s_depth, s_pad, s_d1, s_d2): my reading of tvm.pdf 3.1.4-3.1.5",
    "Base/Sha256.v: Gallina SHA-256 (pinned by 'abc' and '' test vectors, cross-checked against hashlib on every run)",
    "Model/Cell.v: hand-written transcription of boc/cell.py, tied by the correspondence run",
    "extraction (ExtrOcamlBasic only) + Extract/driver.ml",
    "CPython int/bytes, bitarray append/fill/tobytes, hashlib.sha256 as modelled",
]
ASSUMES = ["cells are built over TvmBitarray (the plain-bitarray constructor route is C08's subject)",
           "collision-relative reading of 'equal exactly when hashes are equal': equality is decided on the 32-byte hash"]


def nontriv(dag):
    return any(b or r for _, b, r in dag)


def gen(ctx):
    rng = ctx.rng
    out = []
    leaf = (-1, "", [])
    full = ctx.thorough()
    for bl in range(1024):
        for nr in (range(5) if full else [rng.randrange(5)]):
            kids = [(-1, cells.rand_bits(rng, rng.choice([0, 3, 8])), []) for _ in range(nr)]
            out.append(kids + [(-1, cells.rand_bits(rng, bl), list(range(nr)))])
    for nr in range(5):
        for bl in (0, 1, 7, 8, 9, 1016, 1017, 1022, 1023):
            out.append([leaf] * 0 + [(-1, "1", [])] * nr + [(-1, cells.rand_bits(rng, bl), list(range(nr)))])
    for d in (1, 2, 255, 256, 1022, 1023, 1024, 1025):
        out.append(cells.chain(d, "1" if d % 2 else ""))
    for _ in range(ctx.n(150, 1500)):
        out.append(cells.rand_ordinary_dag(rng, rng.choice([1, 2, 3, 5, 8, 13, 30]), share=rng.choice([0, .3, .7])))
    return out


def run(ctx):
    from pytoniq_core.boc.cell import Cell
    dags = gen(ctx)

    def impl(dag):
        return cells.info_py(cells.build_py(dag)[-1])
    impl_out, model_out = ctx.correspond("cell_info", dags, impl, lambda d: "cell_info " + cells.dag_line(d), nontriv)

    # property oracle: implementation against the extracted specification
    small = [d for d in dags if cells.tree_size(d) <= 6000]
    spec = core.run_driver(["s_ord_info " + cells.dag_line(d) for d in small])
    imap = dict(zip(map(cells.dag_line, dags), impl_out))
    for d, s in zip(small, spec):
        a = imap[cells.dag_line(d)]
        depth = cells.dag_depth(d)
        if depth >= 1024:
            if not a.startswith("err"):
                ctx.fail("depth-limit-not-enforced", f"cell of depth {depth} was constructed", {"dag": d})
            continue
        if a.startswith("err") or a == "timeout":
            ctx.fail("valid-cell-not-constructible", f"valid ordinary cell refused: {a}", {"dag": d})
            continue
        f = dict(kv.split("=", 1) for kv in a[3:].split(" "))
        sh, sd = (kv.split("=")[1] for kv in s.split(" "))
        if f["hashes"] != sh or f["gh"] != ",".join(["ok:" + sh] * 4):
            ctx.fail("hash-differs-from-representation-hash", f"hash {f['hashes'][:16]} != spec {sh[:16]}", {"dag": d})
        if f["depths"] != sd or f["gd"] != ",".join(["ok:" + sd] * 4):
            ctx.fail("depth-differs", f"depth {f['depths']} != spec {sd}", {"dag": d})
        if f["repr"] != "ok:" + sh:
            ctx.fail("recomputed-representation-hash-disagrees", f"calculate_representation_hash -> {f['repr'][:40]}", {"dag": d})
        if f["pyhash"] != format(int(sh, 16), "x"):
            ctx.fail("pyhash-not-hash-int", "__hash__ is not the integer value of the hash", {"dag": d})
    ctx.extra["oracle_cases"] = len(small)

    # construction routes: every route must give the same hash/depth as the constructor
    routes = ctx.rng.sample(dags, min(len(dags), ctx.n(200, 1500)))
    nroute = 0
    for d in routes:
        if cells.dag_depth(d) >= 990:   # to_boc recursion is C03's subject
            continue
        base = imap[cells.dag_line(d)]
        if base.startswith("err"):
            continue
        for route in ("builder", "copy", "slice", "boc", "builder-reused", "slice-continued", "plain-bitarray",
                      "builder-to-slice-reused", "builder-after-refused-stores"):
            r = core.call_impl(lambda _: _route(d, route), None)
            nroute += 1
            if r != base:
                ctx.fail(f"route-{route}-changes-hash", f"route {route}: {r[:80]} vs {base[:80]}", {"dag": d, "route": route})
    ctx.extra["route_cases"] = nroute

    # equality / __hash__ pairs
    objs = []
    for d in ctx.rng.sample(dags, min(len(dags), 120)):
        try:
            objs.append((cells.dag_line(d), cells.build_py(d)[-1]))
        except Exception:
            pass
    objs += [(l, c.copy()) for l, c in objs[:30]]
    npairs = 0
    for i in range(len(objs)):
        for j in range(i, min(len(objs), i + 40)):
            a, b = objs[i][1], objs[j][1]
            same = a.hash == b.hash
            npairs += 1
            if (a == b) != same:
                ctx.fail("eq-not-hash-equality", "__eq__ disagrees with hash equality", {"a": objs[i][0], "b": objs[j][0]})
            if (a.__hash__() == b.__hash__()) != same:
                ctx.fail("pyhash-not-hash-equality", "__hash__ collision pattern differs from hash equality", {"a": objs[i][0], "b": objs[j][0]})
            if same and len({a, b}) != 1:
                ctx.fail("dict-key-mismatch", "equal cells are distinct dict keys", {"a": objs[i][0], "b": objs[j][0]})
    ctx.extra["eq_pairs"] = npairs
    # equality across levels: a cell above a pruned branch has another representation hash than the full cell (they share
    # only the level-0 hash), and a pruned branch is not the cell it stands for: "equal exactly when the hashes are equal"
    nlev = 0
    for d in ctx.rng.sample(dags, min(len(dags), 60)):
        if not (2 <= len(d) <= 40) or not d[-1][2] or cells.dag_depth(d) > 200:
            continue
        try:
            objs0 = cells.build_py(d)
            full = objs0[-1]
            kid = objs0[d[-1][2][0]]
            pr = cells.build_py([cells.pruned_node(1, [kid.hash], [kid.get_depth(0)])])[0]
            above = Cell(cells.tvm_bits(d[-1][1]), [pr] + [objs0[r] for r in d[-1][2][1:]], -1)
        except Exception as ex:   # noqa
            ctx.fail("pruned-variant-not-constructible", f"{type(ex).__name__}: {ex}", {"dag": d})
            continue
        for a, b, what in ((full, above, "cell above a pruned branch vs the full cell"), (kid, pr, "pruned branch vs the cell it stands for")):
            nlev += 1
            same = a.hash == b.hash
            if (a == b) != same or (a.__hash__() == b.__hash__()) != same or (len({a, b}) == 1) != same:
                ctx.fail("eq-not-hash-equality-across-levels", f"{what}: == / __hash__ / dict keys disagree with hash equality "
                         f"(hashes equal: {same})", {"dag": d})
            if a.__hash__() != int.from_bytes(a.hash, "big") or b.__hash__() != int.from_bytes(b.hash, "big"):
                ctx.fail("pyhash-not-hash-int", "__hash__ is not the integer value of the hash (non-zero level)", {"dag": d})
    ctx.extra["eq_pairs_across_levels"] = nlev
    if ctx.thorough():
        # three-way agreement on a sample of small trees: Model/Cell.build evaluated INSIDE Coq (vm_compute, incl. the
        # Gallina SHA-256) against the extracted OCaml driver's result (already compared with the implementation)
        sample = [d for d in dags if 1 < len(d) <= 5 and all(len(b) <= 40 for _, b, _ in d) and cells.tree_size(d) <= 8][:25]

        def lit(d, i):
            ty, bits, refs = d[i]
            zt = "(Z.opp (Z.of_N %d))" % (-ty) if ty < 0 else "(Z.of_N %d)" % ty
            return ("(Cell %s [%s] [%s])" % (zt, "; ".join("true" if ch == "1" else "false" for ch in bits),
                                                 "; ".join(lit(d, r) for r in refs)))
        term = ("map (fun c => match build_sha c with Ok k => of_be (k_hash k) | Err _ => 0 end) [" +
                "; ".join(lit(d, len(d) - 1) for d in sample) + "]")
        nums, err = core.coq_eval_numbers("Base.Bytes Base.Result Model.Cell Model.Inst", term, "c01_cases", timeout=900)
        if nums is None:
            ctx.broken.append("in-Coq evaluation of the cell model failed: " + err[:200])
        else:
            mmap = dict(zip(map(cells.dag_line, dags), model_out))
            want = []
            for d in sample:
                m = mmap[cells.dag_line(d)]
                f = dict(kv.split("=", 1) for kv in m[3:].split(" ")) if m.startswith("ok ") else {}
                want.append(int(f.get("hashes", "0").split(",")[-1], 16) if f else 0)
            if nums != want:
                ctx.broken.append("extraction cross-check: Coq's vm_compute and the extracted OCaml model disagree on cell hashes")
            ctx.extra["in_coq_cross_check_cases"] = len(sample)
    # sha256 cross-check of the Gallina implementation
    msgs = [ctx.rng.randbytes(n) for n in (0, 1, 55, 56, 63, 64, 65, 119, 120, 128, 300)]
    got = core.run_driver(["sha256 " + (m.hex() or "-") for m in msgs])
    import hashlib
    for m, g in zip(msgs, got):
        if hashlib.sha256(m).hexdigest() != g:
            ctx.broken.append(f"sha256 model differs from hashlib on {len(m)}-byte message")


def _route(d, route):
    from pytoniq_core.boc.cell import Cell
    if route == "builder":
        c = cells.build_py(d, "builder")[-1]
    elif route == "builder-reused":
        # the cell is taken from a builder that is then used further: the reported hash must still be the
        # representation hash of the cell's (unchanged) content
        from pytoniq_core.boc.builder import Builder
        objs = cells.build_py(d)
        ty, bits, refs = d[-1]
        b = Builder()
        b.store_bits(bits)
        for r in refs:
            b.store_ref(objs[r])
        c = b.end_cell()
        for more in (lambda: b.store_bits("101"), lambda: b.store_ref(Cell.empty()), lambda: b.store_uint(5, 7)):
            try:
                more()
            except Exception:
                pass
        b.end_cell()
    elif route == "builder-to-slice-reused":
        # the cell is taken through builder.to_slice().to_cell(); the builder then goes on storing: the cell is a value,
        # it must keep its content, and its hash must stay the representation hash of that content
        from pytoniq_core.boc.builder import Builder
        objs = cells.build_py(d)
        ty, bits, refs = d[-1]
        if ty != -1:
            return cells.info_py(objs[-1])
        b = Builder()
        b.store_bits(bits)
        for r in refs:
            b.store_ref(objs[r])
        c = b.to_slice().to_cell()
        for more in (lambda: b.store_ref(Cell.empty()), lambda: b.store_bits("11"), lambda: b.store_ref(objs[0])):
            try:
                more()
            except Exception:
                pass
    elif route == "builder-after-refused-stores":
        # stores that are refused (too many bits, too many references) are attempted in between: a refused operation must
        # leave the builder as it was, so that the cell finally taken holds exactly the accepted content
        from pytoniq_core.boc.builder import Builder
        objs = cells.build_py(d)
        ty, bits, refs = d[-1]
        if ty != -1:
            return cells.info_py(objs[-1])
        kid = Cell.empty()
        big_bits = Cell(cells.tvm_bits("1" * 1000), [kid, kid], -1)       # too many bits once 24 are stored; 2 refs
        many_refs = Cell(cells.tvm_bits("1"), [kid, kid, kid, kid], -1)   # 4 refs: too many once one is stored
        b = Builder()

        def refused():
            for attempt in (lambda: b.store_cell(big_bits) if len(b.bits) + 1000 > 1023 else None,
                            lambda: b.store_slice(big_bits.begin_parse()) if len(b.bits) + 1000 > 1023 else None,
                            lambda: b.store_cell(many_refs) if len(b.refs) + 4 > 4 and len(b.bits) < 1000 else None,
                            lambda: b.store_slice(many_refs.begin_parse()) if len(b.refs) + 4 > 4 and len(b.bits) < 1000 else None,
                            lambda: b.store_uint(1 << 300, 300) if len(b.bits) < 700 else None,
                            lambda: b.store_bytes(b"\xff" * 128), lambda: b.store_string("x" * 128)):
                try:
                    attempt()
                except Exception:
                    pass
        half = len(bits) // 2
        b.store_bits(bits[:half])
        refused()
        for r in refs:
            b.store_ref(objs[r])
        refused()
        b.store_bits(bits[half:])
        refused()
        c = b.end_cell()
    elif route == "plain-bitarray":
        # the root built directly from a plain bitarray.bitarray (any length, byte-aligned or not)
        from bitarray import bitarray
        objs = cells.build_py(d)
        ty, bits, refs = d[-1]
        c = Cell(bitarray(bits), [objs[r] for r in refs], ty)
        if c.bits.to01() != bits:
            return "cell built from a plain bitarray holds other bits than it was given"
    elif route == "slice-continued":
        c0 = cells.build_py(d)[-1]
        sl = c0.begin_parse()
        c = sl.to_cell()
        try:
            sl.load_bits(min(5, len(sl.bits)))
            if sl.refs:
                sl.load_ref()
        except Exception:
            pass
    else:
        c0 = cells.build_py(d)[-1]
        if route == "copy":
            c = c0.copy()
        elif route == "slice":
            c = c0.begin_parse().to_cell()
        else:
            c = Cell.one_from_boc(c0.to_boc())
    # the cell must still HOLD what the DAG says (a cached hash can stay right while the content drifts)
    ty, bits, refs = d[-1]
    if c.bits.to01() != bits or len(c.refs) != len(refs) or c.type_ != ty:
        return f"cell content changed: {len(c.bits)} bits / {len(c.refs)} refs instead of {len(bits)} / {len(refs)}"
    return cells.info_py(c)


def replay(ctx, obj):
    c = obj["case"]
    sub = Sub(ctx)
    if "dag" in c:
        d = [tuple(x) for x in c["dag"]]
        d = [(t, b, list(r)) for t, b, r in d]
        a = core.call_impl(lambda _: cells.info_py(cells.build_py(d)[-1]), None)
        s = core.run_driver(["s_ord_info " + cells.dag_line(d)])[0]
        if cells.dag_depth(d) >= 1024:
            return None if a.startswith("err") else "over-deep cell constructed"
        if a.startswith("err"):
            return f"valid cell refused: {a}"
        f = dict(kv.split("=", 1) for kv in a[3:].split(" "))
        sh, sd = (kv.split("=")[1] for kv in s.split(" "))
        if "route" in c:
            r = core.call_impl(lambda _: _route(d, c["route"]), None)
            return None if r == a else f"route {c['route']} gives {r[:100]}"
        bad = []
        if f["hashes"] != sh:
            bad.append("hash")
        if f["depths"] != sd:
            bad.append("depth")
        if f["repr"] != "ok:" + sh:
            bad.append("repr " + f["repr"][:30])
        return None if not bad else "differs from specification: " + ", ".join(bad)
    return "replay of pair cases: re-run the check"


class Sub:
    def __init__(self, ctx):
        self.ctx = ctx
