"""C07 - cell capacity, value ranges and read bounds are enforced."""
import bs
import cells
import core

ID = "C07"
GEN = []
RULE = ("store sequences biased to fill levels 1000..1023 bits and 3..4 refs, incl. composite stores (cell, partly "
        "consumed slice, address, string), out-of-range values at every width, and read sequences that over-read by "
        "1..k bits/refs at every remaining length, over cells built from TvmBitarray and from plain bitarray; "
        "non-trivial = at least two operations; distinct by op text")
TRUSTED = [
    "Coq 8.16.1 kernel incl. vm_compute; no native_compute",
    "Spec/TlbVal.v: sop/sstep/need_bits/need_refs (what 'fits' means), tval_ok (what 'in range' means)",
    "Model/Builder.v, Model/Typed.v tied by correspondence; extraction + driver",
]
ASSUMES = ["after an operation raised, the builder is not used again (partial effects of a failed composite store are not modelled)"]


def gen_store(ctx):
    rng = ctx.rng
    out = []
    for _ in range(ctx.n(700, 8000)):
        dag = bs.pool_dag(rng, 6)
        ops, bits, refs = [], 0, 0
        # pre-fill close to a chosen level
        level = rng.choice([0, 500, 900, 1000, 1015, 1020, 1022, 1023])
        if level:
            ops.append(("bits", cells.rand_bits(rng, level)))
            bits = level
        for _ in range(rng.choice([0, 2, 3, 3, 4])):
            ops.append(("ref", rng.randrange(len(dag))))
            refs += 1
        if refs > 4:
            pass
        # then a few ops, some of which will not fit / are out of range
        for _ in range(rng.randrange(1, 5)):
            k = rng.random()
            if k < 0.25:
                op = ("cell", rng.randrange(len(dag)))
            elif k < 0.5:
                i = rng.randrange(len(dag))
                op = ("slice", i, rng.randrange(0, len(dag[i][1]) + 1), rng.randrange(0, len(dag[i][2]) + 1))
            elif k < 0.58:
                op = ("str", rng.randbytes(rng.choice([0, 1, 5, 126, 127, 128, 200])).hex().replace("8", "4").replace("9", "5").replace("a", "6").replace("b", "7").replace("c", "4").replace("d", "5").replace("e", "6").replace("f", "7"))
            elif k < 0.7:
                w = rng.choice([1, 8, 32, 64, 256, 257])
                signed = rng.random() < 0.5
                _, bad = bs.boundary_ints(w, signed)
                op = ("i" if signed else "u", w, rng.choice(bad))
            else:
                op = bs.rand_val_op(rng, len(dag))
            ops.append(op)
        out.append((dag, ops))
    return out


def gen_load(ctx):
    rng = ctx.rng
    out = []
    for _ in range(ctx.n(500, 6000)):
        dag = bs.pool_dag(rng, 4)
        ci = rng.randrange(len(dag))
        nb, nr = len(dag[ci][1]), len(dag[ci][2])
        sb = rng.choice([0, 0, nb, max(0, nb - 1), max(0, nb - 8), rng.randrange(0, nb + 1)])
        sr = rng.choice([0, nr, rng.randrange(0, nr + 1)])
        rem = nb - sb
        tys = []
        for _ in range(rng.randrange(1, 5)):
            k = rng.choice(["u", "i", "bits", "bytes", "b", "ref", "mref", "vu", "c", "addr"])
            if k in ("u", "i"):
                tys.append((k, rng.choice([1, 8, max(1, rem), rem + 1, rem + 2, rem + 9, max(1, rem - 1)])))
            elif k == "bits":
                tys.append((k, rng.choice([0, rem, rem + 1, rem + 7, max(0, rem - 1)])))
            elif k == "bytes":
                tys.append((k, rng.choice([0, rem // 8, rem // 8 + 1, rem // 8 + 2])))
            elif k == "vu":
                tys.append((k, rng.choice([3, 4, 5])))
            else:
                tys.append((k,))
        out.append((dag, ci, sb, sr, tys))
    return out


def run(ctx):
    stores = gen_store(ctx)
    impl_s, _ = ctx.correspond("store-seq", stores, bs.py_rt, lambda c: bs.line("rt", *c), lambda c: len(c[1]) > 1,
                             post=bs.strip_senc)
    loads = gen_load(ctx)
    impl_l, model_l = ctx.correspond("load-seq", loads, bs.py_ld, bs.ld_line, lambda c: len(c[4]) > 1)

    # ---- property oracle on the implementation
    # (a) capacity of whatever was produced, (b)/(c) refusal exactly when something does not fit or is out of range
    spec = core.run_driver([bs.line("senc", c[0], [o for o in c[1] if o[0] not in ("cell", "slice", "str", "snake")])
                            for c in stores])
    n = 0
    for c, a, s in zip(stores, impl_s, spec):
        dag, ops = c
        n += 1
        if a.startswith("ok"):
            f = dict(kv.split("=", 1) for kv in a[3:].split(" "))
            nb = len(f["bits"].replace("-", ""))
            nr = 0 if f["refs"] == "-" else len(f["refs"].split(","))
            if nb > 1023 or nr > 4:
                ctx.fail("capacity-exceeded", f"builder holds {nb} bits / {nr} refs", {"dag": dag, "ops": ops})
        verdict = expected_outcome(dag, ops, s)
        if verdict is None:
            continue
        kind, at = verdict
        if kind == "ok" and not a.startswith("ok"):
            ctx.fail("fitting-store-refused", f"every op fits and is in range, got {a}", {"dag": dag, "ops": ops})
        if kind == "err" and not a.startswith(f"err@{at} "):
            ctx.fail("bad-store-not-refused-at-op", f"op {at} must be refused (range or capacity), got {a[:60]}",
                     {"dag": dag, "ops": ops})
    ctx.extra["store_oracle_cases"] = n

    # (d) over-reads raise; successful reads consume exactly what they return
    n = 0
    for c, a in zip(loads, impl_l):
        dag, ci, sb, sr, tys = c
        n += 1
        rem_b = max(0, len(dag[ci][1]) - sb)
        rem_r = max(0, len(dag[ci][2]) - sr)
        must_fail_at = None
        bits_left, refs_left = rem_b, rem_r
        for k, t in enumerate(tys):
            need = fixed_need(t)
            if need is None:
                break
            nb, nr = need
            if nb > bits_left or nr > refs_left:
                must_fail_at = k
                break
            bits_left -= nb
            refs_left -= nr
        if must_fail_at is not None and not a.startswith(f"err@{must_fail_at} "):
            ctx.fail("over-read-not-refused", f"read {must_fail_at} exceeds what remains ({rem_b} bits/{rem_r} refs): {a[:60]}",
                     {"dag": dag, "ci": ci, "sb": sb, "sr": sr, "tys": tys})
        if a.startswith("ok") and must_fail_at is None:
            rb, rr = a.rsplit("rest=", 1)[1].split("/")
            if all(fixed_need(t) is not None for t in tys):
                eb = rem_b - sum(fixed_need(t)[0] for t in tys)
                er = rem_r - sum(fixed_need(t)[1] for t in tys)
                if (int(rb), int(rr)) != (eb, er):
                    ctx.fail("read-consumed-wrong-amount", f"rest {rb}/{rr}, expected {eb}/{er}",
                             {"dag": dag, "ci": ci, "sb": sb, "sr": sr, "tys": tys})
    ctx.extra["load_oracle_cases"] = n

    # plain bitarray route (the constructor a caller may use directly)
    npl = 0
    for _ in range(ctx.n(200, 2000)):
        nb = ctx.rng.choice([0, 1, 3, 4, 7, 8, 9, 100])
        over = ctx.rng.choice([1, 2, 7, 8, 9])
        r = core.call_impl(lambda _: plain_overread(nb, over), None)
        npl += 1
        if r != "raised":
            ctx.fail("plain-bitarray-over-read", f"{nb}-bit cell from a plain bitarray: load_uint({nb + over}) -> {r}",
                     {"plain_bits": nb, "over": over})
    ctx.extra["plain_bitarray_cases"] = npl

    # generic oracles of harness/bs.py on the implementation: refused stores (capacity never exceeded; the operations of the
    # heap model and the primitive writers leave no trace), over-reads through every consuming reader, views
    for name, fn, cnt in (("refused-store", bs.refused_store_case, ctx.n(300, 3000)), ("over-read", bs.overread_case, ctx.n(150, 1500)),
                          ("views", bs.views_case, ctx.n(20, 200))):
        for i in range(cnt):
            r = core.call_impl(lambda _: fn(i), None)
            if r != "ok":
                ctx.fail(name + ":" + r.split(":")[0].split(" (")[0][:60], r, {"generic": name, "seed": i})
                break
        ctx.extra["generic_" + name.replace("-", "_") + "_cases"] = cnt
    # depth limit through the builder
    r = core.call_impl(lambda _: deep_builder(), None, timeout_s=60)
    if r != "ok":
        ctx.fail("depth-limit", r, {"deep": 1})


def fixed_need(t):
    k = t[0]
    if k in ("u", "i"):
        return (t[1], 0)
    if k == "bits":
        return (t[1], 0)
    if k == "bytes":
        return (8 * t[1], 0)
    if k == "b":
        return (1, 0)
    if k == "ref":
        return (0, 1)
    return None


def expected_outcome(dag, ops, spec_line):
    """('ok', None) if every op is valid and fits; ('err', k) if op k is the first that does not;
    None when the harness cannot tell (strings with non-ASCII etc.)."""
    sp = dict(kv.split("=", 1) for kv in spec_line.split(" "))
    valid = list(sp["valid"])
    bits, refs = 0, 0
    vi = 0
    for k, op in enumerate(ops):
        if op[0] in ("cell", "slice", "str"):
            ok = True
            if op[0] == "str" and len(op[1]) // 2 > 127:
                ok = False
        else:
            ok = valid[vi] == "1"
            vi += 1
        if op[0] == "addr" and op[1] == "ext" and op[2] == 0:
            return None
        nb, nr = bs.op_bits(op, dag)
        if not ok:
            return ("err", k)
        if bits + nb > 1023 or refs + nr > 4:
            return ("err", k)
        bits += nb
        refs += nr
    return ("ok", None)


def plain_overread(nb, over):
    from bitarray import bitarray
    from pytoniq_core.boc.cell import Cell
    ba = bitarray("1" * nb)
    c = Cell(ba, [])
    s = c.begin_parse()
    try:
        v = s.load_uint(nb + over)
    except Exception:
        return "raised"
    return f"returned {v}"


def deep_builder():
    from pytoniq_core.boc.builder import Builder
    c = Builder().end_cell()
    for i in range(1023):
        c = Builder().store_ref(c).end_cell()
    if c.get_depth(0) != 1023:
        return "depth 1023 chain has wrong depth"
    try:
        Builder().store_ref(c).end_cell()
    except Exception:
        pass
    else:
        return "a cell of depth 1024 was produced"
    # the same limit when the depth comes from a pruned branch's recorded depth (every level counts, not only the top one)
    import cells
    for mask in (1, 2, 3, 5, 7):
        n = bin(mask).count("1")
        for d, must_fit in ((1022, True), (1023, False), (5000, False)):
            pb = cells.build_py([cells.pruned_node(mask, [bytes([i + 1]) * 32 for i in range(n)], [d] + [3] * (n - 1))])[-1]
            try:
                parent = Builder().store_uint(1, 1).store_ref(pb).end_cell()
                depths = [parent.get_depth(l) for l in range(4)]
            except Exception:
                if must_fit:
                    return f"a cell over a pruned branch (mask {mask}) recording depth {d} was refused although it fits"
                continue
            if max(depths) > 1023:
                return f"a cell of depth {max(depths)} was produced over a pruned branch (mask {mask}) recording depth {d}"
    return "ok"


def replay(ctx, obj):
    c = obj["case"]
    if "generic" in c:
        fn = {"refused-store": bs.refused_store_case, "over-read": bs.overread_case, "views": bs.views_case}[c["generic"]]
        r = core.call_impl(lambda _: fn(c["seed"]), None)
        return None if r == "ok" else r
    if "plain_bits" in c:
        r = core.call_impl(lambda _: plain_overread(c["plain_bits"], c["over"]), None)
        return None if r == "raised" else f"over-read on plain bitarray cell {r}"
    if "deep" in c:
        r = core.call_impl(lambda _: deep_builder(), None, timeout_s=60)
        return None if r == "ok" else r
    dag = [(t, b, list(r)) for t, b, r in c["dag"]]
    if "ops" in c:
        ops = [tuple(o) for o in c["ops"]]
        a = core.call_impl(bs.py_rt, (dag, ops))
        s = core.run_driver([bs.line("senc", dag, [o for o in ops if o[0] not in ("cell", "slice", "str", "snake")])])[0]
        v = expected_outcome(dag, ops, s)
        if v is None:
            return None
        if v[0] == "ok":
            return None if a.startswith("ok") else f"fitting store refused: {a}"
        return None if a.startswith(f"err@{v[1]} ") else f"op {v[1]} must be refused, got {a[:80]}"
    tys = [tuple(t) for t in c["tys"]]
    a = core.call_impl(bs.py_ld, (dag, c["ci"], c["sb"], c["sr"], tys))
    m = core.run_driver([bs.ld_line((dag, c["ci"], c["sb"], c["sr"], tys))])[0]
    return None if a.split()[0] == m.split()[0] and (a == m or a.startswith("err")) else f"impl {a[:80]} vs model {m[:80]}"
