"""C04 - emitted bag-of-cells bytes conform to the TON BoC wire format."""
import boc
import cells
import core
from props import c03

ID = "C04"
GEN = ["CrcTables.v"]
RULE = c03.RULE + "; every emitted serialisation is decoded by the extracted strict decoder of Spec/BocFormat.v"
TRUSTED = c03.TRUSTED
ASSUMES = c03.ASSUMES


def wide_tree(rng, n, bits=12):
    """n distinct cells, no sharing, depth about log4 n: crosses the 255/256 boundary of the cell-count width while the
    strict decoder's tree text stays linear in n"""
    dag = []
    for i in range(n):
        kids = [4 * i + 1 + k for k in range(4) if 4 * i + 1 + k < n]
        dag.append((kids, cells.rand_bits(rng, bits) + format(i, "016b")))
    # children-first order: reverse the heap numbering
    return [(-1, b, [n - 1 - k for k in kids]) for kids, b in reversed(dag)]


def run(ctx):
    rng = ctx.rng
    dags = [d for d in c03.gen(ctx) if cells.tree_size(d) <= 3000 and len(d) <= 3000 and cells.dag_depth(d) < 200]
    dags += [wide_tree(rng, 255), wide_tree(rng, 256), wide_tree(rng, 257), wide_tree(rng, 700, bits=900)]
    cases = []
    for d in dags:
        for o in (c03.OPTS if len(d) <= 60 else rng.sample(c03.OPTS, 2)):
            cases.append((d,) + o)
    impl, model = ctx.correspond("to_boc", cases, boc.py_to_boc,
                                 lambda c: f"boc_ser {c[1]} {c[2]} {c[3]} {cells.dag_line(c[0])}", lambda c: len(c[0]) > 1,
                                 timeout_s=120)
    blobs = [(c, a[3:]) for c, a in zip(cases, impl) if a.startswith("ok ")]
    spec = core.run_driver([f"s_boc {h}" for _, h in blobs])
    n = 0
    for (c, h), s in zip(blobs, spec):
        d = c[0]
        n += 1
        if s == "none":
            ctx.fail("emitted-bytes-rejected-by-strict-decoder", why_rejected(c, h), {"dag": d, "opts": c[1:]})
            continue
        parts = s.split(" ")
        want = boc.tree_text_of_dag(d)
        if parts[1] != "1" or parts[2] != want:
            ctx.fail("strict-decoder-reads-another-dag", f"{parts[2][:60]} vs {want[:60]}", {"dag": d, "opts": c[1:]})
        if "nodup=1" not in s:
            ctx.fail("cell-serialised-twice", "the bag contains the same cell more than once", {"dag": d, "opts": c[1:]})
        objs = cells.build_py(d)
        reach, todo = set(), [len(d) - 1]
        while todo:
            i = todo.pop()
            if i not in reach:
                reach.add(i)
                todo.extend(d[i][2])
        distinct = len({objs[i].hash for i in reach})
        if f"ncells={distinct}" not in s:
            ctx.fail("cell-count-differs", f"{s.split('ncells=')[1]} cells emitted, {distinct} distinct reachable", {"dag": d, "opts": c[1:]})
    for c, a in zip(cases, impl):
        if not a.startswith("ok "):
            ctx.fail("to_boc-failed", f"{a}", {"dag": c[0], "opts": c[1:]})
    ctx.extra["strictly_decoded"] = n
    # history: serialising sub-DAGs first (alone, under other option sets) must not change the bytes emitted for the root
    nh = 0
    for c, a in zip(cases, impl):
        if not a.startswith("ok ") or not (3 <= len(c[0]) <= 40) or nh >= ctx.n(150, 1500):
            continue
        nh += 1
        firsts = [rng.randrange(len(c[0]) - 1) for _ in range(rng.choice([1, 2, 3]))]
        r = core.call_impl(lambda _: history_boc(c, firsts), None, timeout_s=60)
        if r != a:
            ctx.fail("to_boc-depends-on-earlier-serialisations",
                     f"after serialising sub-cells {firsts} alone, to_boc{c[1:]} of the root gives other bytes ({r[:40]})",
                     {"dag": c[0], "opts": c[1:], "firsts": firsts})
    ctx.extra["history_cases"] = nh


def history_boc(c, firsts):
    dag, idx, crc, cache = c
    objs = cells.build_py(dag)
    for i in firsts:
        objs[i].to_boc()
        objs[i].to_boc(has_idx=True, hash_crc32=True)
    return "ok " + objs[-1].to_boc(has_idx=bool(idx), hash_crc32=bool(crc), has_cache_bits=bool(cache)).hex()


def why_rejected(c, h):
    b = bytes.fromhex(h)
    return f"to_boc(has_idx={c[1]}, hash_crc32={c[2]}, has_cache_bits={c[3]}) of a {len(c[0])}-node DAG: header {b[:12].hex()}"


def replay(ctx, obj):
    c = obj["case"]
    d = [(t, b, list(r)) for t, b, r in c["dag"]]
    o = tuple(c["opts"])
    if "firsts" in c:
        a = core.call_impl(boc.py_to_boc, (d,) + o, timeout_s=120)
        r = core.call_impl(lambda _: history_boc((d,) + o, c["firsts"]), None, timeout_s=120)
        return None if r == a else "to_boc of the root depends on earlier serialisations of its sub-cells"
    a = core.call_impl(boc.py_to_boc, (d,) + o, timeout_s=120)
    if not a.startswith("ok "):
        return f"to_boc failed: {a}"
    s = core.run_driver([f"s_boc {a[3:]}"])[0]
    if s == "none":
        return "emitted bytes are rejected by the strict decoder"
    parts = s.split(" ")
    if parts[2] != boc.tree_text_of_dag(d):
        return "strict decoder reads another DAG"
    if "nodup=1" not in s:
        return "a cell is serialised twice"
    return None
