"""C20 - ADNL channel crypto is symmetric between peers; signatures and keys consistent (partial)."""
import hashlib

import core

ID = "C20"
GEN = []
RULE = ("pairs of Ed25519 seeds with both byte orders of the derived ids and equal ids, plaintexts of length 0..2000; "
        "sign/verify with altered message, key and signature; generated mnemonics (seeded os.urandom), their validity recomputed with hmac/pbkdf2, deterministic key derivation equal to the TON derivation; non-trivial = any pair; distinct "
        "by seeds and plaintext")
TRUSTED = [
    "Coq 8.16.1 kernel; no native_compute",
    "Model/Adnl.v: transcription of AdnlChannel key assignment, packet layout and AES key/iv derivation",
    "X25519, AES-CTR, SHA-256, Ed25519, HMAC/PBKDF2 are PARAMETERS of the model; their laws (DH commutativity, CTR "
    "involution, 32-byte outputs, sign-then-verify) are hypotheses of the theorems and are only sampled here",
    "extraction + driver; PyNaCl, x25519, PyCryptodome on the implementation side",
]
ASSUMES = ["existential unforgeability of Ed25519 is neither assumed nor claimed; 'fails for any other message/key/"
           "signature' is sampled, not proved"]


def mk(seed_a, seed_b, ida, idb):
    from pytoniq_core.crypto.ciphers import Client, Server, AdnlChannel
    ca, cb = Client(seed_a), Client(seed_b)
    sa = Server("h", 1, bytes(ca.ed25519_public))
    sb = Server("h", 1, bytes(cb.ed25519_public))
    A = AdnlChannel(ca, sb, ida, idb)
    B = AdnlChannel(cb, sa, idb, ida)
    return A, B


def observe(c):
    """implementation-side observables in the driver's format"""
    from pytoniq_core.crypto import ciphers
    seed_a, seed_b, ida, idb, msg = (bytes.fromhex(x) if x != "-" else b"" for x in c)
    rec = []
    orig = ciphers.create_aes_ctr_cipher

    def spy(key, iv):
        rec.append((key, iv))
        return orig(key, iv)
    ciphers.create_aes_ctr_cipher = spy
    try:
        A, B = mk(seed_a, seed_b, ida, idb)
        p = A.encrypt(msg)
        ek = rec[-1]
        A.decrypt(b"", p[32:64])
        dk = rec[-1]
    finally:
        ciphers.create_aes_ctr_cipher = orig
    return (f"enc={A.enc_key.hex()} dec={A.dec_key.hex()} cid={A.client_aes_key_id.hex()} sid={A.server_aes_key_id.hex()} "
            f"cs={p[32:64].hex()} ekiv={ek[0].hex()}/{ek[1].hex()} dkiv={dk[0].hex()}/{dk[1].hex()}")


def shared_of(c):
    from pytoniq_core.crypto.ciphers import Client, get_shared_key
    ca, cb = Client(bytes.fromhex(c[0])), Client(bytes.fromhex(c[1]))
    return get_shared_key(ca.x25519_private.encode(), cb.x25519_public.encode()).hex()


def run(ctx):
    rng = ctx.rng
    cases = []
    for _ in range(ctx.n(150, 2000)):
        sa, sb = rng.randbytes(32), rng.randbytes(32)
        # several local keys talk to the SAME peer within one process, and one local key to several peers: each pair has its
        # own shared secret
        if cases and rng.random() < 0.35:
            prev = rng.choice(cases)
            if rng.random() < 0.5:
                sb = bytes.fromhex(prev[1])
            else:
                sa = bytes.fromhex(prev[0])
        ida, idb = rng.randbytes(32), rng.randbytes(32)
        k = rng.random()
        if k < 0.2:
            idb = ida
        elif k < 0.3:
            idb = ida[:31] + bytes([ida[31] ^ 1])
        elif k < 0.35:
            ida, idb = b"\x00" * 32, b"\xff" * 32
        msg = rng.randbytes(rng.choice([0, 1, 15, 16, 17, 64, 1000]))
        cases.append((sa.hex(), sb.hex(), ida.hex(), idb.hex(), msg.hex() or "-"))
    ctx.correspond("channel-observables", cases, observe,
                   lambda c: f"adnl {shared_of(c)} {c[2]} {c[3]} {c[4]}")
    # property oracle with the real primitives
    n = 0
    for c in cases:
        r = core.call_impl(sym_check, c)
        n += 1
        if r != "ok":
            ctx.fail("channel-asymmetric:" + r.split(":")[0], r, {"channel": c})
    ctx.extra["channel_cases"] = n
    for _ in range(ctx.n(60, 600)):
        r = core.call_impl(lambda _: sign_check(rng), None)
        if r != "ok":
            ctx.fail("signature-glue", r, {"sign": r})
    nm = ctx.n(40, 400)
    for k in range(nm):
        r = core.call_impl(lambda _: mnemonic_check(rng.getrandbits(64), derive=k < ctx.n(4, 20)), None, timeout_s=120)
        if r != "ok":
            ctx.fail("mnemonic", r, {"mnemonic": r})
    ctx.extra["mnemonics"] = nm


def sym_check(c):
    seed_a, seed_b, ida, idb, msg = (bytes.fromhex(x) if x != "-" else b"" for x in c)
    A, B = mk(seed_a, seed_b, ida, idb)
    for X, Y, d in ((A, B, "a->b"), (B, A, "b->a")):
        p = X.encrypt(msg)
        if p[32:64] != hashlib.sha256(msg).digest():
            return f"checksum: {d} packet does not carry sha256(plaintext)"
        if p[:32] != Y.server_aes_key_id:
            return f"keyid: {d} packet key id is not the one the peer expects"
        if Y.decrypt(p[64:], p[32:64]) != msg:
            return f"decrypt: {d} peer does not recover the plaintext"
    return "ok"


def sign_check(rng):
    from nacl.signing import SigningKey
    from pytoniq_core.crypto.signature import sign_message, verify_sign
    from pytoniq_core.crypto.ciphers import Client
    seed = rng.randbytes(32)
    sk = SigningKey(seed)
    pk = bytes(sk.verify_key)
    msg = rng.randbytes(rng.choice([0, 1, 32, 100]))
    sig = sign_message(msg, bytes(sk) + pk)
    if len(sig) != 64 or not verify_sign(pk, msg, sig):
        return "sign_message output does not verify"
    if Client(seed).sign(msg) != sig:
        return "Client.sign differs from sign_message"
    # the optional encoder argument: the result is the encoding of the same 64-byte signature (decoded independently)
    import base64
    import nacl.encoding as ne
    for enc, dec in ((ne.HexEncoder, bytes.fromhex), (ne.Base64Encoder, base64.b64decode), (ne.Base32Encoder, base64.b32decode),
                     (ne.URLSafeBase64Encoder, base64.urlsafe_b64decode), (ne.Base16Encoder, lambda t: bytes.fromhex(t.decode())),
                     (ne.RawEncoder, bytes)):
        try:
            got = sign_message(msg, bytes(sk) + pk, enc)
            raw = dec(got) if enc is not ne.HexEncoder else bytes.fromhex(got.decode())
        except Exception as ex:
            return f"sign_message with {enc.__name__}: {type(ex).__name__}"
        if raw != sig:
            return f"sign_message with {enc.__name__} is not the encoding of the signature"
    bad = bytearray(sig)
    bad[rng.randrange(64)] ^= 1 << rng.randrange(8)
    if verify_sign(pk, msg, bytes(bad)):
        return "altered signature accepted"
    for alt in (sig + b"\x00", sig + rng.randbytes(3), sig[:63], b""):
        try:
            if verify_sign(pk, msg, alt):
                return f"a {len(alt)}-byte altered signature was accepted"
        except Exception:
            pass            # refusing by raising is fine
    if verify_sign(pk, msg + b"x", sig):
        return "other message accepted"
    other = bytes(SigningKey(rng.randbytes(32)).verify_key)
    if verify_sign(other, msg, sig):
        return "other key accepted"
    return "ok"


def mnemonic_check(seed, derive=False):
    """mnemonic_new with os.urandom replaced by a seeded stream (reproducible); validity recomputed independently with
    hmac/pbkdf2; key derivation deterministic and equal to the TON derivation written out with hashlib + nacl"""
    import hmac
    import random
    from unittest import mock
    from pytoniq_core.crypto import keys
    r = random.Random(seed)
    with mock.patch.object(keys.os, "urandom", lambda n: r.randbytes(n)):
        # the optional arguments are exercised too: "generated mnemonics are always valid" whatever way they are asked for
        k = r.randrange(4)
        ws = keys.mnemonic_new() if k < 2 else (keys.mnemonic_new(24) if k == 2 else keys.mnemonic_new(24, r.choice(["", "pw", "correct horse"])))
    if len(ws) != 24 or any(w not in keys.words for w in ws):
        return f"generated mnemonic has {len(ws)} words / unknown words"
    entropy = hmac.new(" ".join(ws).encode(), b"", hashlib.sha512).digest()
    if hashlib.pbkdf2_hmac("sha512", entropy, b"TON seed version", 390)[0] != 0:
        return "generated mnemonic fails the basic-seed test"
    if not keys.mnemonic_is_valid(ws):
        return "generated mnemonic is not valid according to mnemonic_is_valid"
    if keys.mnemonic_is_valid(ws[:23]) or keys.mnemonic_is_valid(ws + ["abandon"]):
        return "mnemonic_is_valid accepts a 23/25-word mnemonic"
    if derive:
        from nacl.signing import SigningKey
        k1, k2 = keys.mnemonic_to_private_key(ws), keys.mnemonic_to_private_key(list(ws))
        if k1 != k2 or keys.mnemonic_to_wallet_key(ws) != keys.mnemonic_to_wallet_key(ws):
            return "key derivation is not deterministic"
        seed32 = hashlib.pbkdf2_hmac("sha512", entropy, b"TON default seed", 100000)[:32]
        sk = SigningKey(seed32)
        pub, sec = k1
        if bytes(pub) != bytes(sk.verify_key) or bytes(sec) != seed32 + bytes(sk.verify_key):
            return "mnemonic_to_private_key is not Ed25519(pbkdf2(hmac(mnemonic), 'TON default seed')[:32])"
        if keys.private_key_to_public_key(sec) != bytes(pub):
            return "private_key_to_public_key disagrees with the derived pair"
    return "ok"


def replay(ctx, obj):
    c = obj["case"]
    if "channel" in c:
        r = core.call_impl(sym_check, tuple(c["channel"]))
        return None if r == "ok" else r
    return "randomised sub-check: re-run the check with the same seed"
