"""C03 - bag-of-cells serialisation round-trips for every DAG and option set."""
import boc
import cells
import core
import hm

ID = "C03"
GEN = ["CrcTables.v"]
RULE = ("DAGs of ordinary and exotic cells with controlled sharing, 1 .. 3000 cells (70000 in the thorough tier, "
        "crossing 256/65536 cells and 255/256/65535/65536 payload bytes), chains up to depth 1023, maximal-sharing "
        "diamonds; all 6 valid option sets; bytes / hex / base64 inputs; Cell / Slice / Builder entry points; "
        "non-trivial = DAG with at least one reference; distinct by DAG text and options")
TRUSTED = [
    "Coq 8.16.1 kernel incl. vm_compute; no native_compute",
    "Spec/BocFormat.v: executable strict decoder of boc.tlb (my reading of the format)",
    "Model/Boc.v: hand transcription of Cell.order/serialize/to_boc and Boc.deserialize*, tied by correspondence; "
    "Cell.order is modelled as the recursive memoised DFS it implements with an explicit stack",
    "Gen/CrcTables.v regenerated from crc.py; Base/Sha256.v; extraction + driver",
]
ASSUMES = ["hash-equal cells are equal cells (collision-relative reading of de-duplication)"]

OPTS = [(0, 0, 0), (0, 1, 0), (1, 0, 0), (1, 1, 0), (1, 0, 1), (1, 1, 1)]


def big_dag(rng, n, bits=8):
    """exactly n distinct cells, all reachable from the root, with sharing, of depth about log3 n (the depth limit of
    1023 must not be what the case exercises): heap numbering with three tree children per node plus one extra
    reference to a random node of a deeper level; returned in children-first order"""
    nodes = []
    for i in range(n):
        kids = [3 * i + 1 + k for k in range(3) if 3 * i + 1 + k < n]
        if 3 * i + 4 < n and rng.random() < 0.5:
            kids.append(rng.randrange(3 * i + 4, n))          # a node below the children's level start: no cycle
        tag = format(i, "020b")
        nodes.append((kids, (cells.rand_bits(rng, bits) + tag) if bits + 20 <= 1023 else cells.rand_bits(rng, bits - 20) + tag))
    return [(-1, b, [n - 1 - k for k in kids]) for kids, b in reversed(nodes)]


def diamond(k):
    dag = [(-1, "", [])]
    for i in range(k):
        dag.append((-1, "", [i, i]))
    return dag


def gen(ctx):
    rng = ctx.rng
    out = []
    for _ in range(ctx.n(120, 1500)):
        out.append(cells.rand_ordinary_dag(rng, rng.choice([1, 2, 3, 5, 9, 20, 50]), share=rng.choice([0, .3, .8])))
    for _ in range(ctx.n(60, 800)):
        out.append(cells.rand_exotic_dag(rng, rng.choice([2, 5, 10, 25]), valid=True))
    out.append(diamond(40))
    out.append(cells.chain(1023))
    out.append(big_dag(rng, 255))
    out.append(big_dag(rng, 256))
    out.append(big_dag(rng, 300, bits=1000))      # payload > 32 KiB
    out.append(big_dag(rng, 600, bits=1016))      # payload > 65535 bytes
    if ctx.thorough():
        out.append(big_dag(rng, 3000))
        out.append(big_dag(rng, 65535, bits=0))
        out.append(big_dag(rng, 65536, bits=0))
        out.append(big_dag(rng, 70000, bits=3))
    # a subtree together with the pruned branch that stands for it (and a cell above each of them): the two share their
    # level-0 hash but are different cells; both must be written, and the bag must come back as the same tree
    for _ in range(ctx.n(25, 250)):
        sub = cells.rand_ordinary_dag(rng, rng.choice([1, 2, 4]), max_bits=40)
        info = cells.ref_hd(sub)[-1]
        t = len(sub) - 1
        d = list(sub)
        d.append(cells.pruned_node(1, [info[1][0]], [info[2][0]]))          # index t + 1
        wrap = cells.rand_bits(rng, rng.choice([0, 5, 8]))
        d.append((-1, wrap, [t]))                                            # above the full subtree
        d.append((-1, wrap, [t + 1]))                                        # the same cell above the pruned branch
        kind = rng.choice(["pair", "above", "update"])
        if kind == "pair":
            d.append((-1, "1", [t, t + 1]))
        elif kind == "above":
            d.append((-1, "11", [t + 2, t + 3]))
        else:
            hd = cells.ref_hd(d)
            d.append(cells.mupdate_node(hd[t + 2][1][0], hd[t + 3][1][0], hd[t + 2][2][0], hd[t + 3][2][0], t + 2, t + 3))
        out.append(d)
    # payload sizes forced across 255/256 bytes
    for nbits in (1000, 1008, 1016):
        out.append([(-1, cells.rand_bits(rng, nbits), []), (-1, cells.rand_bits(rng, 1016 - 16), [0])])
    return out


def _shared_objects_history(seed, c):
    import random
    r = random.Random(seed)
    d = c[0]
    objs = cells.build_py(d)
    order = list(range(len(objs) - 1))
    r.shuffle(order)
    for i in order[:12]:
        o = r.choice(OPTS)
        objs[i].to_boc(bool(o[0]), bool(o[1]), bool(o[2]))
    # a second parent over the same objects, serialised before the root
    from pytoniq_core.boc.cell import Cell
    kids = [objs[i] for i in sorted(r.sample(range(len(objs) - 1), min(len(objs) - 1, r.choice([1, 2, 3]))), reverse=bool(r.getrandbits(1)))]
    try:
        Cell(cells.tvm_bits("1"), kids, -1).to_boc()
    except Exception:
        pass
    return "ok " + objs[-1].to_boc(bool(c[1]), bool(c[2]), bool(c[3])).hex()


def run(ctx):
    rng = ctx.rng
    dags = gen(ctx)
    ser_cases = []
    for d in dags:
        opts = OPTS if len(d) < 400 else [rng.choice(OPTS)]
        for o in (opts if ctx.thorough() or len(d) > 60 else rng.sample(OPTS, 3)):
            ser_cases.append((d,) + o)
    # the extracted model's traversal is super-quadratic in the number of cells (membership by hash over lists): bags of
    # more than MODEL_MAX_CELLS cells are serialised, parsed and round-tripped by the implementation only (oracle below)
    MODEL_MAX_CELLS = 3000
    for_model = [c for c in ser_cases if len(c[0]) <= MODEL_MAX_CELLS]
    impl_only = [c for c in ser_cases if len(c[0]) > MODEL_MAX_CELLS]
    impl_m, model_s = ctx.correspond(
        "to_boc", for_model, boc.py_to_boc,
        lambda c: f"boc_ser {c[1]} {c[2]} {c[3]} {cells.dag_line(c[0])}", lambda c: len(c[0]) > 1, timeout_s=300)
    impl_o = [core.call_impl(boc.py_to_boc, c, 600) for c in impl_only]
    ser_cases = for_model + impl_only
    impl_s = impl_m + impl_o
    ctx.extra["bags_beyond_the_model_limit"] = len(impl_only)
    small, big = [], []
    for c, a in zip(for_model, impl_m):
        if a.startswith("ok "):
            (small if cells.tree_size(c[0]) <= 1500 and cells.dag_depth(c[0]) < 200 else big).append(a[3:])
    ctx.correspond("from_boc", small, boc.py_parse, lambda h: f"boc_parse {h}", lambda h: len(h) > 40)
    ctx.correspond("from_boc-by-hash", big, boc.py_parse_hash, lambda h: f"boc_parse_hash {h}", timeout_s=300)

    # property oracle on the implementation: round trip, three encodings, three entry points
    n = 0
    for c, a in zip(ser_cases, impl_s):
        d = c[0]
        n += 1
        if not a.startswith("ok "):
            sig = "to_boc-recursion" if "Recursion" in a else "to_boc-failed"
            ctx.fail(sig, f"to_boc{c[1:]} failed: {a}", {"dag": d, "opts": c[1:]})
            continue
        r = core.call_impl(lambda _: roundtrip(d, bytes.fromhex(a[3:])), None, timeout_s=300)
        if r != "ok":
            ctx.fail("roundtrip:" + r.split(":")[0], r, {"dag": d, "opts": c[1:]})
    ctx.extra["roundtrips"] = n
    # history: the same Cell OBJECTS written into several bags (every sub-cell serialised alone first, in random order and
    # with random options, then the root): the root's bag must be byte for byte the bag of a freshly built equal DAG
    nhist = 0
    okmap = {(cells.dag_line(c[0]), c[1:]): a for c, a in zip(ser_cases, impl_s) if a.startswith("ok ")}
    for c in rng.sample(ser_cases, min(len(ser_cases), ctx.n(150, 1500))):
        d = c[0]
        want = okmap.get((cells.dag_line(d), c[1:]))
        if want is None or len(d) < 3 or len(d) > 300 or cells.dag_depth(d) > 300:
            continue
        nhist += 1
        r = core.call_impl(lambda _: _shared_objects_history(rng.getrandbits(32), c), None, timeout_s=120)
        if r != want:
            ctx.fail("to_boc-depends-on-earlier-bags", f"after the sub-cells had been serialised on their own: {r[:60]} vs {want[:60]}",
                     {"dag": d, "opts": c[1:], "history": True})
    ctx.extra["shared_object_histories"] = nhist
    # input forms (Boc.__init__): the model's boc_normalize / entry points against the library on hex, base64 and
    # adversarial text (whitespace, wrong padding, url-safe alphabet, non-ASCII, odd digit counts, hex-looking base64)
    texts = form_texts(rng, [a[3:] for a in impl_s if a.startswith("ok ") and len(a) < 4000], ctx.n(400, 4000))
    ctx.correspond("Boc.__init__", texts, py_norm, lambda t: "boc_norm " + codes(t), lambda t: len(t) > 0)
    good = [t for t in texts if t.startswith(("te6cc", "b5ee9c72", "B5EE9C72"))][:ctx.n(150, 1500)]
    ctx.correspond("one_from_boc-entry-points", good, py_entry, lambda t: "boc_in " + codes(t), lambda t: True)
    ctx.extra["size_distribution"] = dist([len(c[0]) for c in ser_cases])


def dist(xs):
    out = {}
    for x in xs:
        k = "1" if x == 1 else "2-9" if x < 10 else "10-99" if x < 100 else "100-999" if x < 1000 else ">=1000"
        out[k] = out.get(k, 0) + 1
    return out


def same_structure(a, b, memo=None):
    """identical data bits, types and references, recursively (memoised on hash pairs)"""
    stack = [(a, b)]
    seen = set()
    while stack:
        x, y = stack.pop()
        key = (x.hash, y.hash, id(x), id(y))
        if (id(x), id(y)) in seen:
            continue
        seen.add((id(x), id(y)))
        if x.type_ != y.type_ or x.bits.to01() != y.bits.to01() or len(x.refs) != len(y.refs):
            return False
        stack.extend(zip(x.refs, y.refs))
    return True


def codes(t):
    return ",".join(str(ord(ch)) for ch in t) or "-"


def form_texts(rng, blobs, n):
    import base64
    out = []
    if not blobs:
        return out
    for _ in range(n):
        b = bytes.fromhex(rng.choice(blobs))
        k = rng.randrange(12)
        if k == 0:
            t = b.hex()
        elif k == 1:
            t = base64.b64encode(b).decode()
        elif k == 2:
            t = b.hex().upper()
        elif k == 3:                        # whitespace between bytes (accepted by bytes.fromhex) or inside a byte (not)
            h = b.hex()
            i = rng.randrange(0, len(h) + 1)
            t = h[:i] + rng.choice([" ", "\t", "\n", "  ", "\r\n", "\x0b"]) + h[i:]
        elif k == 4:                        # odd number of digits / a non-hex character
            h = b.hex()
            t = h[:-1] if rng.random() < 0.5 else h[:rng.randrange(len(h))] + rng.choice("gxz:-") + h[rng.randrange(len(h)):]
        elif k == 5:                        # base64 with broken padding / extra characters / url-safe alphabet
            e = base64.b64encode(b).decode()
            t = rng.choice([e.rstrip("="), e + "=", e[:-1], e.replace("+", "-").replace("/", "_"), e[:5] + "\n" + e[5:],
                            e + e, "=" + e, e[:rng.randrange(len(e))]])
        elif k == 6:                        # non-ASCII
            e = base64.b64encode(b).decode()
            t = e[:3] + rng.choice(["\u00e9", "\u0416", "\u20ac"]) + e[3:]
        elif k == 7:                        # base64 text made of hex digits only: read as hex
            t = "".join(rng.choice("0123456789abcdefABCDEF") for _ in range(rng.choice([4, 8, 12, 16])))
        elif k == 8:
            t = "".join(rng.choice("ABCDEFGHabcdefgh0123456789+/=") for _ in range(rng.randrange(0, 12)))
        elif k == 9:
            t = ""
        elif k == 10:                       # corrupted payload in otherwise valid text
            bb = bytearray(b)
            bb[rng.randrange(len(bb))] ^= 1 << rng.randrange(8)
            t = bytes(bb).hex() if rng.random() < 0.5 else base64.b64encode(bytes(bb)).decode()
        else:
            t = base64.b64encode(b[:rng.randrange(len(b) + 1)]).decode()
        out.append(t)
    return out


def py_norm(t):
    from pytoniq_core.boc.deserialize import Boc, BocError
    try:
        return "ok " + (Boc(t).data.hex() or "-")
    except BocError:
        return "err Boc"
    except ValueError:
        return "err Value"


def py_entry(t):
    from pytoniq_core.boc.cell import Cell
    from pytoniq_core.boc.slice import Slice
    from pytoniq_core.boc.builder import Builder
    c = Cell.one_from_boc(t)

    def view(f):
        try:
            x = f()
            return f"{x.bits.to01() or '-'}/{len(x.refs) - getattr(x, 'ref_offset', 0)}"
        except Exception as e:
            return "err"
    return f"ok {c.hash.hex()} slice={view(lambda: Slice.one_from_boc(t))} builder={view(lambda: Builder.one_from_boc(t))}"


def roundtrip(dag, blob):
    from pytoniq_core.boc.cell import Cell
    from pytoniq_core.boc.slice import Slice
    from pytoniq_core.boc.builder import Builder
    orig = cells.build_py(dag)[-1]
    back = Cell.one_from_boc(blob)
    if back.hash != orig.hash:
        return "hash: parsed root has another hash"
    if not same_structure(orig, back):
        return "structure: parsed DAG differs in bits/types/references"
    small = len(blob) < 20000
    if small:
        for form, enc in (("hex", blob.hex()), ("base64", boc.b64(blob))):
            c2 = Cell.one_from_boc(enc)
            if c2.hash != orig.hash:
                return f"{form}: parses to another cell"
        s = Slice.one_from_boc(blob)
        if s.bits.to01() != orig.bits.to01() or [r.hash for r in s.refs] != [r.hash for r in orig.refs]:
            return "slice: Slice.one_from_boc differs"
        if s.is_special() != (orig.type_ != -1) or s.to_cell().hash != orig.hash:
            return "slice: Slice.one_from_boc loses the cell type of an exotic root"
        if orig.type_ == -1:
            b = Builder.one_from_boc(blob)
            if b.end_cell().hash != orig.hash:
                return "builder: Builder.one_from_boc differs"
        if len(Cell.from_boc(blob)) != 1:
            return "roots: from_boc does not return exactly one root"
    return "ok"


def replay(ctx, obj):
    c = obj["case"]
    d = [(t, b, list(r)) for t, b, r in c["dag"]]
    o = tuple(c["opts"])
    a = core.call_impl(boc.py_to_boc, (d,) + o, timeout_s=300)
    if not a.startswith("ok "):
        return f"to_boc failed: {a}"
    r = core.call_impl(lambda _: roundtrip(d, bytes.fromhex(a[3:])), None, timeout_s=300)
    return None if r == "ok" else r
