"""C08 - cells are immutable values; derived objects are isolated snapshots."""
import bs
import cells
import core

ID = "C08"
GEN = []
RULE = ("random operation histories over a pool of cells, slices and builders derived from one another (builder "
        "stores incl. store_cell/store_slice, end_cell, to_slice, begin_parse, copy, to_builder, load_bits, load_ref, "
        "slice to_cell/copy/to_builder, hashing/order/to_boc reads); at least 30% of the operations act on an object "
        "derived from an object mutated earlier; after EVERY operation the hash, bits, references and to_boc bytes of "
        "every live cell are compared with their values at creation; plus direct constructor routes (plain bitarray, "
        "caller-held list), statelessness of order(), and to_boc under all option sets in random repeated order "
        "against a fresh equal cell; non-trivial = history with a mutation after a derivation; "
        "distinct by history text")
TRUSTED = [
    "Coq 8.16.1 kernel; no native_compute",
    "Model/Heap.v: heap model of the containers behind Cell/Slice/Builder (which statement copies, which shares, which "
    "mutates in place) - hand-written from cell.py/slice.py/builder.py, tied by the correspondence run on histories",
    "what the model cannot exhibit: mutation through CPython internals (buffer export of a bitarray), and callers that "
    "keep and mutate a TvmBitarray/list they passed to the raw Cell constructor",
    "extraction + driver",
]
ASSUMES = ["operations that raise are not followed by further use of a partially modified builder (refused stores are "
           "atomic in the modelled operations)"]


def gen_history(rng, n_ops):
    """well-typed op list; kinds[i] in 'C','S','B' tracks the object table as the model will build it"""
    ops, kinds = [], []
    derived_from_mutated = 0
    mutated = set()

    def pick(k):
        idx = [i for i, x in enumerate(kinds) if x == k]
        return rng.choice(idx) if idx else None
    for _ in range(n_ops):
        choice = rng.choice(["nb", "ec", "sb", "sb", "sr", "sc", "ss", "end", "end", "b2s", "bp", "bp", "cp", "tb", "lb", "lb",
                             "lr", "s2c", "scp", "s2b", "rd"])
        b, c, s = pick("B"), pick("C"), pick("S")
        if choice == "nb":
            ops.append("nb"); kinds.append("B")
        elif choice == "ec":
            ops.append("ec"); kinds.append("C")
        elif choice == "sb" and b is not None:
            ops.append(f"sb:{b}:{cells.rand_bits(rng, rng.choice([1, 3, 8, 40, 500])) }"); mutated.add(b)
        elif choice == "sr" and b is not None and c is not None:
            ops.append(f"sr:{b}:{c}"); mutated.add(b)
        elif choice == "sc" and b is not None and c is not None:
            ops.append(f"sc:{b}:{c}"); mutated.add(b)
        elif choice == "ss" and b is not None and s is not None:
            ops.append(f"ss:{b}:{s}"); mutated.add(b)
        elif choice == "end" and b is not None:
            ops.append(f"end:{b}"); kinds.append("C"); derived_from_mutated += b in mutated
        elif choice == "b2s" and b is not None:
            ops.append(f"b2s:{b}"); kinds.append("S"); derived_from_mutated += b in mutated
        elif choice == "bp" and c is not None:
            ops.append(f"bp:{c}"); kinds.append("S")
        elif choice == "cp" and c is not None:
            ops.append(f"cp:{c}"); kinds.append("C")
        elif choice == "tb" and c is not None:
            ops.append(f"tb:{c}"); kinds.append("B")
        elif choice == "lb" and s is not None:
            ops.append(f"lb:{s}:{rng.choice([0, 1, 2, 8, 30])}"); mutated.add(s)
        elif choice == "lr" and s is not None:
            ops.append(f"lr:{s}"); mutated.add(s)
        elif choice == "s2c" and s is not None:
            ops.append(f"s2c:{s}"); kinds.append("C"); derived_from_mutated += s in mutated
        elif choice == "scp" and s is not None:
            ops.append(f"scp:{s}"); kinds.append("S"); derived_from_mutated += s in mutated
        elif choice == "s2b" and s is not None:
            ops.append(f"s2b:{s}"); kinds.append("B"); derived_from_mutated += s in mutated
        elif choice == "rd" and c is not None:
            ops.append(f"rd:{c}")
    return ops, derived_from_mutated


def snapshot(c):
    return (c.hash, c.bits.to01(), tuple(id(r) for r in c.refs), c.to_boc(), c.get_hash(0), c.get_depth(0))


def run_history(ops, check_every=True):
    """executes the history on the library; returns (final views, violation text or None)"""
    from pytoniq_core.boc.builder import Builder
    from pytoniq_core.boc.cell import Cell
    objs = []
    snaps = {}

    def new(o):
        objs.append(o)
        if isinstance(o, Cell):
            snaps[len(objs) - 1] = snapshot(o)
    for k, t in enumerate(ops):
        f = t.split(":")
        try:
            op = f[0]
            if op == "nb":
                new(Builder())
            elif op == "ec":
                new(Cell.empty())
            elif op == "sb":
                # "append these bits", through a different writer depending on the length (all are the same operation in
                # the model): byte-aligned strings through store_bytes, 3 bits bit by bit, 500 bits as one integer
                bld, bits_ = objs[int(f[1])], f[2]
                if len(bits_) % 8 == 0:
                    bld.store_bytes(int(bits_, 2).to_bytes(len(bits_) // 8, "big"))
                elif len(bits_) == 3:
                    if len(bld.bits) + 3 > 1023:
                        raise OverflowError("refused as a whole")
                    for ch in bits_:
                        bld.store_bit(int(ch))
                elif len(bits_) >= 100:
                    bld.store_uint(int(bits_, 2), len(bits_))
                else:
                    bld.store_bits(bits_)
            elif op == "sr":
                objs[int(f[1])].store_ref(objs[int(f[2])])
            elif op == "sc":
                objs[int(f[1])].store_cell(objs[int(f[2])])
            elif op == "ss":
                objs[int(f[1])].store_slice(objs[int(f[2])])
            elif op == "end":
                new(objs[int(f[1])].end_cell())
            elif op == "b2s":
                new(objs[int(f[1])].to_slice())
            elif op == "bp":
                new(objs[int(f[1])].begin_parse())
            elif op == "cp":
                new(objs[int(f[1])].copy())
            elif op == "tb":
                new(objs[int(f[1])].to_builder())
            elif op == "lb":
                objs[int(f[1])].load_bits(int(f[2]))
            elif op == "lr":
                objs[int(f[1])].load_ref()
            elif op == "s2c":
                new(objs[int(f[1])].to_cell())
            elif op == "scp":
                new(objs[int(f[1])].copy())
            elif op == "s2b":
                new(objs[int(f[1])].to_builder())
            elif op == "rd":
                c = objs[int(f[1])]
                c.order()
                c.to_boc(has_idx=True, hash_crc32=True)
                c.calculate_representation_hash()
                c.get_data_bytes()
        except Exception:
            pass       # a refused operation: the model leaves the heap unchanged
        if check_every:
            for i, s0 in snaps.items():
                if snapshot(objs[i]) != s0:
                    return None, f"cell #{i} changed after op {k} ({t[:30]})"
    views = []
    for o in objs:
        ident = lambda r: next(j for j, x in enumerate(objs) if x is r)
        if isinstance(o, Cell):
            views.append("C" + (o.bits.to01() or "-") + "/" + (",".join(str(ident(r)) for r in o.refs) or "-"))
        elif isinstance(o, Builder):
            views.append("B" + (o.bits.to01() or "-") + "/" + (",".join(str(ident(r)) for r in o.refs) or "-"))
        else:
            views.append("S" + (o.bits.to01() or "-") + "/" + (",".join(str(ident(r)) for r in o.refs[o.ref_offset:]) or "-"))
    return "ok " + " ".join(views), None


def run(ctx):
    rng = ctx.rng
    hist = []
    dm = 0
    for _ in range(ctx.n(400, 10000)):
        ops, d = gen_history(rng, rng.choice([5, 15, 40]) if not ctx.thorough() else rng.choice([15, 40, 120]))
        hist.append(ops)
        dm += d
    # directed histories: stores that must be refused AS A WHOLE (the model leaves the heap unchanged; C08_store_all_or_nothing)
    b500 = "10" * 250
    hist.append(["nb", "ec", "sb:0:1010", "sr:0:1", "sr:0:1", "end:0", "bp:2", "nb", "sr:4:1", "sr:4:1", "sr:4:1", "sb:4:11",
                 "ss:4:3", "end:4", "sc:4:2", "end:4"])                       # slice/cell with 2 references into a builder holding 3
    hist.append(["nb", "ec", "sb:0:" + b500, "sb:0:" + b500, "nb", "sb:2:" + "1" * 100, "sr:2:1", "end:2", "sc:0:3", "end:0",
                 "bp:3", "ss:0:5", "end:0"])                                    # 100 bits + 1 reference into a builder holding 1000 bits
    hist.append(["nb", "ec", "sr:0:1", "sr:0:1", "sr:0:1", "sr:0:1", "sr:0:1", "end:0", "sb:0:" + b500, "sb:0:" + b500, "sb:0:" + b500,
                 "end:0", "tb:2", "sr:4:1", "end:4"])                          # a fifth reference; bits beyond 1023; to_builder of a full cell
    for _ in range(ctx.n(40, 400)):
        # random fill, then a store that cannot fit
        nbits, nrefs = rng.choice([0, 500, 900, 1000, 1023]), rng.choice([0, 2, 3, 4])
        ops = ["nb", "ec", "nb"] + ([f"sb:0:{cells.rand_bits(rng, nbits // 2)}", f"sb:0:{cells.rand_bits(rng, nbits - nbits // 2)}"] if nbits else [])
        ops += ["sr:0:1"] * nrefs
        vb, vr = rng.choice([1, 30, 200, 600]), rng.choice([0, 1, 2, 4])
        ops += [f"sb:2:{cells.rand_bits(rng, vb)}"] + ["sr:2:1"] * vr + ["end:2", "bp:3"]
        ops += [rng.choice(["sc:0:3", "ss:0:4"]), "end:0", rng.choice(["sc:0:3", "ss:0:4", "sr:0:3"]), "end:0"]
        hist.append(ops)
    viol = {}

    def impl(ops):
        v, bad = run_history(ops)
        if bad:
            viol[id(ops)] = bad
            return "violation"
        return v
    impl_out, model_out = ctx.correspond("histories", hist, impl, lambda ops: "heap " + " ".join(ops), lambda ops: len(ops) > 3,
                                         timeout_s=60)
    for ops in hist:
        if id(ops) in viol:
            ctx.fail("cell-mutated-by-later-operation", viol[id(ops)], {"ops": ops})
    ctx.extra["derivations_from_mutated_objects"] = dm
    kinds = {}
    for ops in hist:
        for t in ops:
            k = t.split(":")[0]
            kinds[k] = kinds.get(k, 0) + 1
    ctx.extra["op_kinds"] = kinds

    # generic oracles of harness/bs.py on the implementation: refused stores (capacity never exceeded; the operations of the
    # heap model and the primitive writers leave no trace), over-reads through every consuming reader, views
    for name, fn, cnt in (("refused-store", bs.refused_store_case, ctx.n(300, 3000)), ("over-read", bs.overread_case, ctx.n(150, 1500)),
                          ("views", bs.views_case, ctx.n(20, 200)),
                          ("shared-state", bs.shared_state_case, ctx.n(40, 400))):
        for i in range(cnt):
            r = core.call_impl(lambda _: fn(i), None)
            if r != "ok":
                ctx.fail(name + ":" + r.split(":")[0].split(" (")[0][:60], r, {"generic": name, "seed": i})
                break
        ctx.extra["generic_" + name.replace("-", "_") + "_cases"] = cnt
    # direct constructor routes and statelessness
    for name, fn in (("plain-bitarray", plain_bitarray_case), ("order-state", order_state_case), ("repeat", repeat_case),
                     ("option-history", option_history_case), ("vm-stack-inputs", vm_stack_case), ("hashmap-state", hashmap_state_case)):
        for _ in range(ctx.n(30, 300)):
            r = core.call_impl(lambda _: fn(rng), None)
            if r != "ok":
                ctx.fail("aliasing:" + name, r, {"special": name})
                break


def plain_bitarray_case(rng):
    from bitarray import bitarray
    from pytoniq_core.boc.cell import Cell
    n = rng.choice([0, 1, 3, 7, 8, 9, 100])
    ba = bitarray(cells.rand_bits(rng, n))
    before = ba.to01()
    c = Cell(ba, [])
    h0, b0 = c.hash, c.bits.to01()
    if ba.to01() != before:
        return "the constructor modified the caller's plain bitarray"
    if len(c.bits) != n:
        return "cell built from a plain bitarray holds padded bits"
    ba.extend("1111")
    c.to_boc(); c.get_data_bytes(); c.calculate_representation_hash()
    if c.hash != h0 or c.bits.to01() != b0 or Cell.one_from_boc(c.to_boc()).hash != h0:
        return "cell built from a plain bitarray changed after the caller mutated the bitarray / after hashing"
    return "ok"


def order_state_case(rng):
    from pytoniq_core.boc.builder import Builder
    from pytoniq_core.boc.cell import Cell
    e = Cell.empty()
    a = Builder().store_uint(rng.getrandbits(8), 8).store_ref(Builder().store_uint(5, 3).store_ref(e).end_cell()).store_ref(e).end_cell()
    b = Builder().store_uint(rng.getrandbits(8), 9).end_cell()
    r1 = list(b.order().keys())
    a.order()
    a.to_boc()
    r2 = list(b.order().keys())
    if len(r1) != 1 or len(r2) != 1 or r2[0].hash != b.hash:
        return "order() of one cell depends on earlier order() calls on other cells"
    if b.to_boc() != Cell.one_from_boc(b.to_boc()).to_boc():
        return "to_boc depends on earlier calls"
    return "ok"


def repeat_case(rng):
    d = cells.rand_ordinary_dag(rng, rng.choice([2, 5, 9]), share=0.5, max_bits=64)
    objs = cells.build_py(d)
    c = objs[-1]
    snaps = [snapshot(x) for x in objs]
    outs = set()
    for _ in range(3):
        outs.add((c.hash, c.to_boc(True, True, True), c.calculate_representation_hash(), tuple(k.hash for k in c.order())))
        s = c.begin_parse()
        if s.bits:
            s.load_bits(min(3, len(s.bits)))
    if len(outs) != 1:
        return "hashing/serialising the same cell repeatedly gives different results"
    if [snapshot(x) for x in objs] != snaps:
        return "hashing/serialising modified a cell of the DAG"
    return "ok"


def option_history_case(rng):
    """to_boc under every option set, in a random order and repeated: each result must equal what a FRESH equal cell
    (rebuilt from the same DAG) gives for that option set - results may not depend on earlier calls"""
    opts = [(0, 0, 0), (0, 1, 0), (1, 0, 0), (1, 1, 0), (1, 0, 1), (1, 1, 1)]
    d = cells.rand_ordinary_dag(rng, rng.choice([1, 3, 6]), share=0.4, max_bits=80)
    c = cells.build_py(d)[-1]
    seq = opts + opts
    rng.shuffle(seq)
    for o in seq:
        got = c.to_boc(bool(o[0]), bool(o[1]), bool(o[2]))
        want = cells.build_py(d)[-1].to_boc(bool(o[0]), bool(o[1]), bool(o[2]))
        if got != want:
            return f"to_boc{o} after earlier to_boc calls differs from to_boc{o} of a fresh equal cell"
        s = c.begin_parse()
        if s.refs:
            s.load_ref()
    return "ok"


def hashmap_state_case(rng):
    """dictionary objects created one after the other do not share entries; serialising one leaves the others alone"""
    from pytoniq_core.boc.hashmap.hashmap import HashMap
    n = rng.choice([8, 32, 256])
    a = HashMap(n).with_uint_values(16)
    keys_a = sorted({rng.getrandbits(n) for _ in range(rng.choice([1, 3]))})
    for k in keys_a:
        a.set_int_key(k, k % 65536)
    ca = a.serialize()
    b = HashMap(n).with_uint_values(16)
    if b.serialize() is not None:
        return "a fresh HashMap is not empty after another one was filled"
    kb = rng.getrandbits(n)
    b.set_int_key(kb, 7)
    back = HashMap.parse(b.serialize().begin_parse(), n, value_deserializer=lambda v: v.load_uint(16))
    if back != {kb: 7}:
        return f"a second HashMap holds {len(back)} entries after one insertion"
    if a.serialize().hash != ca.hash:
        return "filling a second HashMap changed the first one"
    return "ok"


def vm_stack_case(rng):
    """serialising a TVM stack any number of times gives the same cell and leaves the caller's values (nested tuples,
    cells, slices) untouched"""
    from pytoniq_core.boc.builder import Builder
    from pytoniq_core.tlb.vm_stack import VmStack, VmTuple

    def val(depth):
        k = rng.randrange(5 if depth < 3 else 3)
        if k == 0:
            return rng.choice([0, -1, 2 ** 63, -2 ** 63 - 1, rng.getrandbits(200)])
        if k == 1:
            return Builder().store_uint(rng.getrandbits(16), 16).end_cell()
        if k == 2:
            return Builder().store_uint(rng.getrandbits(8), 8).store_ref(Builder().end_cell()).end_cell().begin_parse()
        return VmTuple([val(depth + 1) for _ in range(rng.choice([0, 1, 2, 3, 4]))])

    def snap(v):
        if isinstance(v, VmTuple):
            return ("t", tuple(snap(x) for x in v.list))
        if hasattr(v, "hash"):
            return ("c", v.hash)
        if hasattr(v, "bits"):
            return ("s", v.bits.to01(), len(v.refs), getattr(v, "ref_offset", 0))
        return ("i", v)
    stack = [val(0) for _ in range(rng.choice([1, 2, 4]))]
    before = [snap(v) for v in stack]
    a = VmStack.serialize(stack)
    mid = [snap(v) for v in stack]
    b = VmStack.serialize(stack)
    if mid != before or [snap(v) for v in stack] != before:
        return "VmStack.serialize modified the caller's values"
    if a.hash != b.hash:
        return "serialising the same stack twice gave two different cells"
    return "ok"


def replay(ctx, obj):
    c = obj["case"]
    if "generic" in c:
        fn = {"refused-store": bs.refused_store_case, "over-read": bs.overread_case, "views": bs.views_case, "shared-state": bs.shared_state_case}[c["generic"]]
        r = core.call_impl(lambda _: fn(c["seed"]), None)
        return None if r == "ok" else r
    if "ops" in c:
        v, bad = run_history(c["ops"])
        return bad
    fn = {"plain-bitarray": plain_bitarray_case, "order-state": order_state_case, "repeat": repeat_case,
          "option-history": option_history_case, "vm-stack-inputs": vm_stack_case,
          "hashmap-state": hashmap_state_case}[c["special"]]
    for _ in range(50):
        r = core.call_impl(lambda _: fn(ctx.rng), None)
        if r != "ok":
            return r
    return None
