"""C10 - canonical TON Hashmap encoding; parsers accept every valid tree."""
import bs
import cells
import core
import hm

ID = "C10"
GEN = []
RULE = ("label-kind decision for (label length n, remaining key length m, all-same / mixed): every n <= m for a "
        "stratified set of m (all m <= 1023 in the thorough tier); serialised maps compared with an independent "
        "encoder following dict.cpp; valid trees with arbitrary label kinds per edge; trees with pruned subtrees; "
        "augmented trees with extras; non-trivial = tree with a fork; distinct by case text")
TRUSTED = [
    "Coq 8.16.1 kernel incl. vm_compute; no native_compute",
    "Spec/Hashmap.v: s_label_kind (dict.cpp append_dict_label[_same]), HmLabel encodings, valid-tree grammar",
    "harness/hm.py: independent Python encoder of (non-)canonical trees used to build inputs and expected cells",
    "Model/Hashmap.v tied by correspondence; extraction + driver",
]
ASSUMES = []


def run(ctx):
    rng = ctx.rng
    # 1. label kind: implementation vs model vs reference rule
    ms = list(range(0, 1024)) if ctx.thorough() else sorted(set(
        list(range(0, 40)) + [63, 64, 65, 127, 128, 129, 255, 256, 257, 511, 512, 513, 1022, 1023]
        + [rng.randrange(40, 1024) for _ in range(25)]))
    impl, model = ctx.correspond("label-kind", ms, py_kinds, lambda m: f"hm_kinds {m}", lambda m: m > 1)
    nk = 0
    for m, a, mo in zip(ms, impl, model):
        # model line interleaves model kind and reference kind; implementation line repeats its own
        ref = mo[1::2]
        mine = a[0::2]
        nk += len(ref)
        if a.startswith("err") or ref != mine:
            n_bad = next((i for i in range(len(ref)) if i >= len(mine) or ref[i] != mine[i]), 0)
            ctx.fail("label-kind-differs-from-reference",
                     f"m={m} n={n_bad // 2} {'same' if n_bad % 2 == 0 else 'mixed'}: library {mine[n_bad:n_bad+1]} reference {ref[n_bad]}",
                     {"m": m})
    ctx.extra["label_kind_triples"] = nk
    if ctx.thorough():
        # three-way agreement: detect_label_type and s_label_kind evaluated INSIDE Coq (vm_compute, no extraction) for a
        # sample of m must give what the extracted OCaml driver gave (and hence what the implementation gave)
        sample = [m for m in ms if m <= 70][:50] + [255, 256, 1023]
        code = "(fun k => match k with KShort => 0 | KLong => 1 | KSame => 2 end)"
        term = ("flat_map (fun m => flat_map (fun n => flat_map (fun l => [" + code + " (detect_label_type l m); " + code +
                " (s_label_kind l m)]) [repeat true n; firstn n (true :: repeat false n)]) (seq 0 (S m))) [" +
                "; ".join(f"{m}%nat" for m in sample) + "]")
        nums, err = core.coq_eval_numbers("Base.Result Base.Bits Model.Cell Model.Builder Model.Hashmap Spec.Hashmap", term, "c10_cases",
                                          timeout=900)
        if nums is None:
            ctx.broken.append("in-Coq evaluation of the label-kind model failed: " + err[:200])
        else:
            mmap = dict(zip(ms, model))
            want = []
            for m in sample:
                want += [{"s": 0, "l": 1, "e": 2}[ch] for ch in mmap[m]]
            if nums != want:
                ctx.broken.append("extraction cross-check: Coq's vm_compute and the extracted OCaml model disagree on label kinds")
            ctx.extra["in_coq_cross_check_label_kinds"] = len(want)

    # 1b. the secondary paths into the same logic: a refused key must not alter the (canonical) cell written afterwards, and
    # the peek variant of load_dict must parse the CURRENT reference
    from props import c09
    for n in (1, 2, 4, 8, 64, 267):
        for k in (-1, 1 << n, (1 << n) + 5):
            r = core.call_impl(lambda _: c09.bad_key(n, k), None)
            if r != "rejected":
                ctx.fail("refused-key-alters-dictionary", f"key {k} in a {n}-bit map: {r}", {"badkey": [n, k]})
    for _ in range(ctx.n(80, 800)):
        r = core.call_impl(lambda _: c09.maybe_dict_case(rng), None)
        if r != "ok":
            ctx.fail("preload-dict-differs", r, {"maybe": r})
            break
    # 2. canonical encoding: library cell == independent reference encoder
    dag0 = bs.pool_dag(rng, 3)
    nc = 0
    for _ in range(ctx.n(300, 4000)):
        n = rng.choice([1, 2, 3, 4, 8, 16, 32, 64, 256, 267, 600, rng.randrange(1, 900)])
        cnt = rng.choice([1, 2, 3, 5, 10, 30])
        ks = hm.rand_keyset(rng, n, cnt, rng.choice(["dense", "cluster", "runs", "uniform"]))
        d = {k: (cells.rand_bits(rng, rng.choice([0, 8, 16])), []) for k in ks}
        exp = []
        hm.build_any_tree(rng, sorted(d), d, n, exp, canonical=True)
        if not all(len(b) <= 1023 for _, b, _ in exp):
            continue
        nc += 1
        a = core.call_impl(hm.py_ser, (n, dag0, [(k, d[k][0], d[k][1]) for k in ks]))
        e = "ok " + dag_text(exp)
        if a != e:
            ctx.fail("cell-differs-from-canonical-encoding", f"width {n}, {len(ks)} keys", {"n": n, "keys": ks, "vals": [d[k][0] for k in ks]})
    ctx.extra["canonical_cases"] = nc

    # 3. parse any valid tree (random label kinds), with and without pruned subtrees
    cases, expect = [], {}
    for _ in range(ctx.n(400, 5000)):
        n = rng.choice([1, 2, 3, 4, 5, 8, 16, 40, 100, 300])
        cnt = rng.choice([1, 2, 3, 4, 8, 20])
        ks = hm.rand_keyset(rng, n, cnt, rng.choice(["dense", "cluster", "runs", "uniform"]))
        d = {k: (cells.rand_bits(rng, rng.choice([0, 5, 8])), []) for k in ks}
        dag, pruned = [], []
        hm.build_any_tree(rng, sorted(d), d, n, dag, canonical=False, prune=rng.choice([0, 0, 0.2, 0.5]),
                          pruned_out=pruned)
        c = (n, dag)
        cases.append(c)
        left = [k for k in sorted(d) if k not in pruned]
        expect[id(c)] = "ok " + (",".join(f"{k}={d[k][0] or '-'}/-" for k in left) or "-")
    impl, model = ctx.correspond("parse-any", cases, hm.py_parse, hm.parse_line, lambda c: len(c[1]) > 1)
    for c, a in zip(cases, impl):
        if a != expect[id(c)]:
            ctx.fail("valid-tree-not-parsed", f"expected {expect[id(c)][:60]} got {a[:60]}", {"n": c[0], "dag": c[1], "expect": expect[id(c)]})

    # 4. augmented trees
    acases, aexp = [], {}
    for _ in range(ctx.n(200, 3000)):
        n = rng.choice([1, 2, 3, 8, 16, 64])
        ylen = rng.choice([0, 4, 8])
        ks = hm.rand_keyset(rng, n, rng.choice([1, 2, 3, 6, 12]), rng.choice(["dense", "cluster", "uniform"]))
        d = {k: (cells.rand_bits(rng, rng.choice([0, 7])), []) for k in ks}
        order = []

        def aug(keys_below, _o=order, _y=ylen):
            y = cells.rand_bits(rng, _y)
            _o.append((tuple(sorted(keys_below)), y))
            return y
        dag, pruned = [], []
        hm.build_any_tree(rng, sorted(d), d, n, dag, canonical=rng.random() < 0.5, prune=rng.choice([0, 0, 0.3]),
                          aug_y=aug, pruned_out=pruned)
        c = (n, ylen, dag)
        acases.append(c)
        left = [k for k in sorted(d) if k not in pruned]
        aexp[id(c)] = (left, d)
    impl, model = ctx.correspond("parse-aug", acases, hm.py_parse_aug, hm.parse_aug_line, lambda c: len(c[2]) > 1)
    for c, a in zip(acases, impl):
        left, d = aexp[id(c)]
        if not a.startswith("ok"):
            ctx.fail("valid-aug-tree-not-parsed", f"{a}", {"n": c[0], "ylen": c[1], "dag": c[2]})
            continue
        got_keys = [kv.split("=")[0] for kv in a[3:].split(" ")[0].split(",")] if a[3:].split(" ")[0] != "-" else []
        if got_keys != left:
            ctx.fail("aug-leaves-differ", f"keys {got_keys[:5]} expected {left[:5]}", {"n": c[0], "ylen": c[1], "dag": c[2]})


def py_kinds(m):
    from pytoniq_core.boc.hashmap.utils import detect_label_type
    ch = {"short": "s", "long": "l", "same": "e"}
    out = []
    for n in range(m + 1):
        for lab in ("1" * n, ("1" + "0" * (n - 1)) if n else ""):
            k = ch[detect_label_type(lab, m)]
            out.append(k + k)
    return "".join(out)


def dag_text(dag):
    def rec(i):
        ty, bits, refs = dag[i]
        return f"[{'' if ty == -1 else str(ty) + '!'}{bits or '-'}{''.join(rec(r) for r in refs)}]"
    return rec(len(dag) - 1)


def replay(ctx, obj):
    c = obj["case"]
    if "m" in c and "dag" not in c:
        a = core.call_impl(py_kinds, c["m"])
        mo = core.run_driver([f"hm_kinds {c['m']}"])[0]
        return None if a[0::2] == mo[1::2] else f"label kinds differ from the reference rule at m={c['m']}"
    if "keys" in c:
        d = {k: (v, []) for k, v in zip(c["keys"], c["vals"])}
        exp = []
        hm.build_any_tree(ctx.rng, sorted(d), d, c["n"], exp, canonical=True)
        a = core.call_impl(hm.py_ser, (c["n"], [(-1, "", [])], [(k, d[k][0], []) for k in c["keys"]]))
        return None if a == "ok " + dag_text(exp) else "cell differs from the canonical encoding"
    dag = [(t, b, list(r)) for t, b, r in c["dag"]]
    if "ylen" in c:
        a = core.call_impl(hm.py_parse_aug, (c["n"], c["ylen"], dag))
        m = core.run_driver([hm.parse_aug_line((c["n"], c["ylen"], dag))])[0]
        return None if a == m else f"impl {a[:80]} model {m[:80]}"
    a = core.call_impl(hm.py_parse, (c["n"], dag))
    return None if a == c.get("expect", a) else f"valid tree parsed to {a[:100]}"
