"""C05 - BoC parser agrees with the format on foreign input and rejects corruption."""
import boc
import cells
import core
import hm

ID = "C05"
GEN = ["CrcTables.v"]
RULE = ("conforming encodings produced by an independent encoder using every freedom of the format (size 1..4, "
        "offset 1..8, index, cache bits, CRC, stored hashes, several roots, random valid cell orders, three magic "
        "prefixes); every truncation, random extensions, every single-bit flip of CRC-protected bags, reference "
        "indexes replaced by self/backward/dangling ones; non-trivial = at least 2 cells; distinct by bytes")
TRUSTED = [
    "Coq 8.16.1 kernel incl. vm_compute; no native_compute",
    "Spec/BocFormat.v: executable strict decoder of boc.tlb",
    "harness/boc.py: independent Python encoder (with its own bitwise CRC-32C) producing the foreign inputs",
    "Model/Boc.v tied by correspondence; Gen/CrcTables.v; Base/Sha256.v; extraction + driver",
]
ASSUMES = ["cells in the bag are constructible (valid exotic shapes, depth <= 1023)"]


def run(ctx):
    rng = ctx.rng
    enc = []
    for _ in range(ctx.n(500, 6000)):
        k = rng.random()
        if k < 0.08:
            # nearly full and full cells (1009..1023 data bits, 0..4 references)
            leaf = (-1, cells.rand_bits(rng, rng.choice([0, 5, 1023])), [])
            nr = rng.randrange(5)
            dag = [leaf] * 0 + [(-1, cells.rand_bits(rng, rng.choice([3, 8])) + format(j, "03b"), []) for j in range(nr)]
            dag.append((-1, cells.rand_bits(rng, rng.choice([1009, 1015, 1016, 1017, 1022, 1023])), list(range(nr))))
            if rng.random() < 0.5:
                dag = [leaf] + [(t, b, [x + 1 for x in r]) for t, b, r in dag]
                dag.append((-1, cells.rand_bits(rng, 7), [0, len(dag) - 1]))
        elif k < 0.7:
            dag = cells.rand_ordinary_dag(rng, rng.choice([1, 2, 3, 5, 8, 20]), share=rng.choice([0, .4]), max_bits=200)
        else:
            dag = cells.rand_exotic_dag(rng, rng.choice([2, 5, 10]), valid=True)
        roots = None
        if rng.random() < 0.25 and len(dag) > 1:
            extra = rng.sample(range(len(dag) - 1), min(len(dag) - 1, rng.choice([1, 2])))
            roots = [len(dag) - 1] + extra
        r = boc.foreign_encode(rng, dag, roots)
        if r is None:
            continue
        blob, roots, desc = r
        enc.append((blob.hex(), dag, roots, desc))
    # the smallest bags under every width combination and magic
    for tiny in ([(-1, "", [])], [(-1, "1", [])], [(-1, "", []), (-1, "", [0])]):
        for size in (1, 2, 3, 4):
            for off in range(1, 9):
                for magic in ("reach", "idx", "idxcrc"):
                    for idx in ((False, True) if magic == "reach" else (True,)):
                        r = boc.foreign_encode(rng, tiny, None, True, force={"size": size, "off": off, "magic": magic, "idx": idx})
                        if r:
                            enc.append((r[0].hex(), tiny, r[1], r[2]))
    hexes = [e[0] for e in enc]
    impl, model = ctx.correspond("foreign-valid", hexes, boc.py_parse, lambda h: f"boc_parse {h}", lambda h: len(h) > 40)
    spec = core.run_driver([f"s_boc {h}" for h in hexes])
    freed = {}
    for (h, dag, roots, desc), a, s in zip(enc, impl, spec):
        for k, v in desc.items():
            if k not in ("cells",):
                freed[f"{k}={v}"] = freed.get(f"{k}={v}", 0) + 1
        want = f"ok {len(roots)} " + " ".join(boc.tree_text_of_dag(dag, r) for r in roots)
        if s == "none":
            ctx.broken.append(f"strict decoder rejects a harness encoding ({desc})")
            continue
        if "some " + want[3:] != s.split(" nodup=")[0]:
            ctx.broken.append(f"strict decoder disagrees with the harness encoder ({desc})")
        if a != want:
            ctx.fail("conforming-encoding-misparsed:" + desc["magic"] + (":hashes" if desc["hashes"] else ""),
                     f"{desc}: got {a[:70]}", {"boc": h, "want": want})
    ctx.extra["encoder_freedoms"] = freed
    # the same conforming bags given in the other accepted input forms (hex text in either case, base64 text; bytearray is not an input form the library accepts):
    # all three magics must be recognised in every form, and give the same cells
    import base64
    nform = 0
    byh = {e[0]: a for e, a in zip(enc, impl)}
    for h, dag, roots, desc in (enc[:: max(1, len(enc) // ctx.n(120, 1200))]):
        base_res = byh[h]
        raw = bytes.fromhex(h)
        for form_name, form in (("hex", h), ("HEX", h.upper()), ("base64", base64.b64encode(raw).decode())):
            nform += 1
            r = core.call_impl(lambda _: boc.py_parse_any(form), None)
            if r != base_res:
                ctx.fail("input-form-changes-result:" + form_name + ":" + desc["magic"],
                         f"{desc['magic']} bag given as {form_name}: {r[:60]} vs bytes: {base_res[:60]}", {"boc": h, "form": form_name, "want": base_res})
    ctx.extra["input_form_cases"] = nform

    # corruption: must raise
    corrupt = []
    base = [e for e in enc if len(e[0]) < 400][: ctx.n(25, 300)]
    for h, dag, roots, desc in base:
        b = bytes.fromhex(h)
        for cut in range(len(b)):
            corrupt.append(("trunc", b[:cut].hex() or "-"))
        for _ in range(4):
            corrupt.append(("ext", (b + rng.randbytes(rng.choice([1, 2, 4, 5]))).hex()))
        if desc["crc"]:
            for bit in (range(len(b) * 8) if len(b) < 120 or ctx.thorough() else rng.sample(range(len(b) * 8), 200)):
                m = bytearray(b)
                m[bit // 8] ^= 1 << (bit % 8)
                corrupt.append(("flip", bytes(m).hex()))
    for _ in range(ctx.n(150, 2000)):
        dag = cells.rand_ordinary_dag(rng, rng.choice([2, 3, 5, 8]), share=0.3, max_bits=64)
        r = bad_ref_encode(rng, dag)
        if r:
            corrupt.append(r)
    ch = [c[1] for c in corrupt]
    ci, cm = ctx.correspond("corrupted", ch, boc.py_parse, lambda h: f"boc_parse {h}", lambda h: len(h) > 10)
    kinds = {}
    for (kind, h), a in zip(corrupt, ci):
        kinds[kind] = kinds.get(kind, 0) + 1
        if a.startswith("ok"):
            ctx.fail("corruption-accepted:" + kind, f"{kind}: parser returned {a[:60]}", {"boc": h, "kind": kind})
    ctx.extra["corruptions"] = kinds


def bad_ref_encode(rng, dag):
    """valid encoding in which one reference index is replaced by itself, an earlier or a dangling index"""
    n = len(dag)
    holders = [i for i in range(n) if dag[i][2]]
    if not holders:
        return None
    r = boc.foreign_encode(rng, dag, None, freedoms=False)
    blob, roots, desc = r
    # re-encode by hand with a corrupted index (size 1, no index/crc): order = reversed(range(n))
    order = list(range(n - 1, -1, -1))
    pos = {node: k for k, node in enumerate(order)}
    victim = rng.choice(holders)
    which = rng.randrange(len(dag[victim][2]))
    kind = rng.choice(["self", "backward", "dangling"])
    masks = boc.dag_masks(dag)
    body = []
    for i in order:
        idx = [pos[r] for r in dag[i][2]]
        if i == victim:
            if kind == "self":
                idx[which] = pos[i]
            elif kind == "backward":
                if pos[i] == 0:
                    idx[which] = pos[i]
                    kind = "self"
                else:
                    idx[which] = rng.randrange(pos[i])
            else:
                idx[which] = rng.choice([n, n + 1, 255])
        body.append(boc.node_bytes(dag[i][0], dag[i][1], masks[i], idx, 1, False, rng))
    payload = b"".join(body)
    off = max(1, (len(payload).bit_length() + 7) // 8)
    out = bytes.fromhex("b5ee9c72") + bytes([1, off, n, 1, 0]) + len(payload).to_bytes(off, "big") + bytes([0]) + payload
    return ("ref-" + kind, out.hex())


def replay(ctx, obj):
    c = obj["case"]
    a = core.call_impl(boc.py_parse, c["boc"])
    if "want" in c:
        return None if a == c["want"] else f"conforming encoding parsed to {a[:100]}"
    return f"corrupted input accepted: {a[:100]}" if a.startswith("ok") else None
