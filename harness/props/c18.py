"""C18 - CRC-16/XMODEM and CRC-32C equal their bitwise definitions."""
ID = "C18"
GEN = ["CrcTables.v"]
RULE = ("byte strings: all 256 one-byte messages (each indexes one table entry), two-byte messages, "
        "standard check strings, random messages of growing length; non-trivial = non-empty message; "
        "distinct by content and function")
TRUSTED = [
    "Coq 8.16.1 kernel incl. vm_compute (table sweeps: 256 + 65536 cases); no native_compute",
    "tools/translate_crc.py (tables, constants and loop bodies regenerated from crypto/crc.py each run)",
    "Spec/Crc.v: the bit-at-a-time definitions of CRC-16/XMODEM and CRC-32C as I read them",
    "extraction (ExtrOcamlBasic only) + Extract/driver.ml for the correspondence run",
    "CPython int/bytes semantics of <<, >>, ^, &, list indexing, int.to_bytes",
]
ASSUMES = ["input is a bytes object (every element < 256)"]


def hx(b):
    return b.hex() if b else "-"


def cases(ctx):
    rng = ctx.rng
    cs = [b"", b"123456789", b"\x00", b"\xff" * 7, bytes(range(256))]
    cs += [bytes([i]) for i in range(256)]
    n2 = ctx.n(300, 65536)
    if n2 >= 65536:
        cs += [bytes([i, j]) for i in range(256) for j in range(256)]
    else:
        cs += [bytes([rng.randrange(256), rng.randrange(256)]) for _ in range(n2)]
    for _ in range(ctx.n(150, 1500)):
        ln = rng.choice([3, 4, 5, 8, 16, 31, 32, 33, 34, 36, 64, 100, 255, 256, 257, 1000])
        cs.append(rng.randbytes(ln))
    for ln in ([4096, 65535, 65536, 65537] if not ctx.thorough() else [4096, 65535, 65536, 65537, 131072, 200001]):
        cs.append(rng.randbytes(ln))
    return cs


def run(ctx):
    from pytoniq_core.crypto.crc import crc16, crc32c
    cs = cases(ctx)
    hexes = [hx(c) for c in cs]
    nt = lambda h: h != "-"
    i16, m16 = ctx.correspond("crc16", hexes, lambda h: hx(crc16(bytes.fromhex(h) if h != "-" else b"")),
                              lambda h: f"crc16 {h}", nt)
    i32l, model32l = ctx.correspond("crc32c-little", hexes,
                             lambda h: hx(crc32c(bytes.fromhex(h) if h != "-" else b"")),
                             lambda h: f"crc32c {h} little", nt)
    i32b, model32b = ctx.correspond("crc32c-big", hexes,
                             lambda h: hx(crc32c(bytes.fromhex(h) if h != "-" else b"", 'big')),
                             lambda h: f"crc32c {h} big", nt)
    # property oracle: implementation against the extracted bitwise specification
    import core
    s16 = core.run_driver([f"s_crc16 {h}" for h in hexes])
    s32l = core.run_driver([f"s_crc32c {h} little" for h in hexes])
    s32b = core.run_driver([f"s_crc32c {h} big" for h in hexes])
    for h, a, s in zip(hexes, i16, s16):
        if a != s:
            ctx.fail("crc16-differs-from-xmodem", f"crc16({h[:40]}) = {a}, CRC-16/XMODEM = {s}", {"fn": "crc16", "data": h})
    for order, impl, spec in (("little", i32l, s32l), ("big", i32b, s32b)):
        for h, a, s in zip(hexes, impl, spec):
            if a != s:
                ctx.fail("crc32c-differs-from-castagnoli", f"crc32c({h[:40]},{order}) = {a}, CRC-32C = {s}",
                         {"fn": "crc32c", "data": h, "order": order})
    # history: the same data checksummed in both byte orders back to back, and crc16 twice: no call may depend on an
    # earlier one
    nh = 0
    for h, sl, sb, s6 in list(zip(hexes, s32l, s32b, s16))[:ctx.n(300, 3000)]:
        d = bytes.fromhex(h) if h != "-" else b""
        nh += 1
        seq = core.call_impl(lambda _: " ".join([hx(crc32c(d)), hx(crc32c(d, "big")), hx(crc32c(d, "little")), hx(crc32c(d, "big")),
                                                  hx(crc16(d)), hx(crc16(d))]), None)
        if seq != " ".join([sl, sb, sl, sb, s6, s6]):
            ctx.fail("crc-depends-on-earlier-calls", f"little/big/little/big crc32c and crc16 twice on {h[:40]}: {seq}",
                     {"fn": "history", "data": h})
    ctx.extra["history_cases"] = nh
    if ctx.thorough():
        # three-way agreement on a sample: the same model functions evaluated INSIDE Coq (vm_compute, no extraction) must
        # give what the extracted OCaml driver gave (and hence what the implementation gave)
        sample = [c for c in cs if 0 < len(c) <= 64][:120]
        lit = "[" + "; ".join("[" + "; ".join(str(b) for b in c) + "]" for c in sample) + "]"
        term = (f"flat_map (fun d => [of_be (crc16 d); of_be (crc32c d false); of_be (crc32c d true); "
                f"of_be (s_crc16 d); of_be (s_crc32c d false)]) ({lit} : list (list N))")
        nums, err = core.coq_eval_numbers("Base.Bytes Gen.CrcTables Spec.Crc Model.Crc", term, "c18_cases")
        if nums is None:
            ctx.broken.append("in-Coq evaluation of the CRC model failed: " + err[:200])
        else:
            idx = {h: k for k, h in enumerate(hexes)}
            want = []
            for c in sample:
                k = idx[hx(c)]
                want += [int(m16[k], 16), int(model32l[k], 16), int(model32b[k], 16), int(s16[k], 16), int(s32l[k], 16)]
            if nums != want:
                ctx.broken.append("extraction cross-check: Coq's vm_compute and the extracted OCaml model disagree on the CRC functions")
            ctx.extra["in_coq_cross_check_cases"] = len(sample)
    ctx.extra["oracle_cases"] = 3 * len(hexes)
    ctx.extra["length_distribution"] = _dist(cs)


def _dist(cs):
    d = {}
    for c in cs:
        k = "0" if not c else "1" if len(c) == 1 else "2" if len(c) == 2 else "3-64" if len(c) <= 64 else \
            "65-1000" if len(c) <= 1000 else ">1000"
        d[k] = d.get(k, 0) + 1
    return d


def replay(ctx, obj):
    import core
    from pytoniq_core.crypto.crc import crc16, crc32c
    c = obj["case"]
    data = bytes.fromhex(c["data"]) if c["data"] != "-" else b""
    if c["fn"] == "history":
        a = core.call_impl(lambda _: " ".join([hx(crc32c(data)), hx(crc32c(data, "big")), hx(crc32c(data, "little")), hx(crc16(data))]), None)
        s = " ".join(core.run_driver([f"s_crc32c {c['data']} little", f"s_crc32c {c['data']} big", f"s_crc32c {c['data']} little", f"s_crc16 {c['data']}"]))
        return None if a == s else f"results depend on earlier calls: {a} vs {s}"
    if c["fn"] == "crc16":
        a = core.call_impl(lambda _: hx(crc16(data)), None)
        s = core.run_driver([f"s_crc16 {c['data']}"])[0]
    else:
        a = core.call_impl(lambda _: hx(crc32c(data, c["order"])), None)
        s = core.run_driver([f"s_crc32c {c['data']} {c['order']}"])[0]
    return None if a == s else f"{c['fn']}({c['data'][:60]}) = {a}, specification = {s}"
