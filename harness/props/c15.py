"""C15 - messages, state-inits and currency values serialise per block.tlb and round-trip."""
import bs
import cells
import core
import hm
import tlb

ID = "C15"
GEN = ["TlbImpl.v"]
RULE = ("messages over the product header kind (internal / external-in / external-out) x extra-currency dictionary "
        "size {0,1,3} x state-init shape (absent; each of split_depth/special/code/data/library present or not) x "
        "body bits {0, 1, boundary-1, boundary, boundary+1, 1023} x body refs 0..4, the boundary computed from the "
        "room left after header and init; alternative placements (init/body forced inline or by reference) for the "
        "parser; stand-alone StateInit / CurrencyCollection / HashUpdate / wallet and NFT data; non-trivial = message "
        "with a body or init; distinct by case text")
TRUSTED = [
    "Coq 8.16.1 kernel incl. vm_compute; no native_compute",
    "Spec/MessageSpec.v: independent decoder of Message / CommonMsgInfo / StateInit / CurrencyCollection / HASH_UPDATE "
    "written from block.tlb over the primitive readers proved in C06 / C09",
    "Model/Message.v: hand transcription of the serialisers, tied by correspondence; the parsers are the traced "
    "decision trees of Gen/TlbImpl.v (regenerated every run by the concolic tracer tools/trace_tlb.py)",
    "extraction + driver",
]
ASSUMES = ["extra-currency ids are in 0..2^32-1 (HashMap is built from a ready dict without the range check of set_int_key)"]


def addr_tok(a):
    return bs.op_tok(a)[5:]


def gen_info(rng):
    k = rng.choice(["int", "int", "extin", "extout"])
    std = lambda: ("addr", "std", rng.choice([0, -1, 5]), rng.randbytes(32).hex())
    ext = lambda: rng.choice([("addr", "none"), ("addr", "ext", rng.choice([8, 64, 256]), 1)])
    coins = lambda: rng.choice([0, 1, 10 ** 9, (1 << 64) - 1, (1 << 120) - 1, rng.getrandbits(rng.choice([8, 40, 100]))])
    if k == "int":
        n = rng.choice([0, 0, 1, 3])
        ec = sorted({rng.getrandbits(32): rng.choice([0, 1, 5, rng.getrandbits(60), (1 << 248) - 1]) for _ in range(n)}.items())
        src = std()
        if rng.random() < 0.15:
            src = src + (rng.choice([1, 5, 30]), 0)
        return ("int", rng.choice(["000", "100", "110", "011"]), src, std(), coins(), ec, coins(), coins(),
                rng.getrandbits(64), rng.getrandbits(32))
    if k == "extin":
        return ("extin", ext(), std(), coins())
    return ("extout", std(), ext(), rng.getrandbits(64), rng.getrandbits(32))


def big_info(rng):
    """internal headers of 900..1020 bits: anycast on both addresses, long amounts"""
    def std():
        a = ("addr", "std", rng.choice([0, -1, 5]), rng.randbytes(32).hex())
        if rng.random() < 0.8:
            a = a + (rng.randrange(1, 31), 0)
        return a
    big = lambda: rng.getrandbits(8 * rng.randrange(9, 16)) | (1 << (8 * rng.randrange(8, 15)))
    return ("int", rng.choice(["000", "100", "110"]), std(), std(), big(), [], big(), big(), rng.getrandbits(64), rng.getrandbits(32))


def info_tok(i):
    if i[0] == "int":
        ec = ",".join(f"{bs.hz(k)}={bs.hz(v)}" for k, v in i[5]) or "-"
        return "|".join(["int", i[1], addr_tok(i[2]), addr_tok(i[3]), bs.hz(i[4]), ec, bs.hz(i[6]), bs.hz(i[7]), bs.hz(i[8]), bs.hz(i[9])])
    if i[0] == "extin":
        return "|".join(["extin", addr_tok(i[1]), addr_tok(i[2]), bs.hz(i[3])])
    return "|".join(["extout", addr_tok(i[1]), addr_tok(i[2]), bs.hz(i[3]), bs.hz(i[4])])


def gen_init(rng, pool):
    if rng.random() < 0.35:
        return None
    oc = lambda: rng.choice([None, rng.randrange(pool)])
    return (rng.choice([None, 0, 31, 7]), rng.choice([None, "10", "01", "11", "00"]), oc(), oc(), oc())


def init_tok(si):
    if si is None:
        return "-"
    f = lambda x: "-" if x is None else str(x)
    return "|".join(["-" if si[0] is None else bs.hz(si[0]), si[1] or "-", f(si[2]), f(si[3]), f(si[4])])


def py_info(i):
    from pytoniq_core.tlb.transaction import InternalMsgInfo, ExternalMsgInfo, ExternalOutMsgInfo
    from pytoniq_core.tlb.block import CurrencyCollection, ExtraCurrencyCollection
    if i[0] == "int":
        return InternalMsgInfo(i[1][0] == "1", i[1][1] == "1", i[1][2] == "1", bs.mk_addr(i[2]), bs.mk_addr(i[3]),
                               CurrencyCollection(i[4], ExtraCurrencyCollection(dict(i[5]))), i[6], i[7], i[8], i[9])
    if i[0] == "extin":
        return ExternalMsgInfo(bs.mk_addr(i[1]), bs.mk_addr(i[2]), i[3])
    return ExternalOutMsgInfo(bs.mk_addr(i[1]), bs.mk_addr(i[2]), i[3], i[4])


def py_init(si, objs):
    from pytoniq_core.tlb.account import StateInit, TickTock
    if si is None:
        return None
    oc = lambda x: None if x is None else objs[x]
    return StateInit(si[0], None if si[1] is None else TickTock(si[1][0] == "1", si[1][1] == "1"), oc(si[2]), oc(si[3]), oc(si[4]))


def py_ser(case):
    from pytoniq_core.tlb.transaction import MessageAny
    dag, info, si, body = case
    objs = cells.build_py(dag)
    c = MessageAny(py_info(info), py_init(si, objs), objs[body]).serialize()
    return "ok " + hm.cell_text(c)


def show_msg(m):
    """the driver's msg_dec line for a parsed MessageAny"""
    from pytoniq_core.tlb.transaction import InternalMsgInfo, ExternalMsgInfo
    i = m.info
    b01 = lambda x: "1" if x else "0"
    if isinstance(i, InternalMsgInfo):
        d = i.value.other.dict or {}
        ec = ",".join(f"{bs.hz(k)}={bs.hz(v)}" for k, v in d.items()) or "-"
        info = "|".join(["int", b01(i.ihr_disabled) + b01(i.bounce) + b01(i.bounced), bs.show_addr(i.src), bs.show_addr(i.dest),
                         bs.hz(i.value.grams), ec, bs.hz(i.ihr_fee), bs.hz(i.fwd_fee), bs.hz(i.created_lt), bs.hz(i.created_at)])
    elif isinstance(i, ExternalMsgInfo):
        info = "|".join(["extin", bs.show_addr(i.src), bs.show_addr(i.dest), bs.hz(i.import_fee)])
    else:
        info = "|".join(["extout", bs.show_addr(i.src), bs.show_addr(i.dest), bs.hz(i.created_lt), bs.hz(i.created_at)])
    si = m.init
    if si is None:
        init = "-"
    else:
        oc = lambda c: "-" if c is None else hm.cell_text(c)
        init = "|".join(["-" if si.split_depth is None else bs.hz(si.split_depth),
                         "-" if si.special is None else b01(si.special.tick) + b01(si.special.tock),
                         oc(si.code), oc(si.data), oc(si.library)])
    return f"ok {info} {init} {hm.cell_text(m.body)}"


def py_dec(dag):
    from pytoniq_core.tlb.transaction import MessageAny
    c = cells.build_py(dag)[-1]
    return show_msg(MessageAny.deserialize(c.begin_parse()))


def info_bits(info):
    """size of the header, from the implementation-independent field widths"""
    def ab(a):
        return bs.op_bits(a, [])[0]
    def cb(v):
        return 4 + 8 * ((v.bit_length() + 7) // 8)
    if info[0] == "int":
        return 4 + ab(info[2]) + ab(info[3]) + cb(info[4]) + 1 + cb(info[6]) + cb(info[7]) + 96
    if info[0] == "extin":
        return 2 + ab(info[1]) + ab(info[2]) + cb(info[3])
    return 2 + ab(info[1]) + ab(info[2]) + 96


def run(ctx):
    rng = ctx.rng
    cases = []
    for _ in range(ctx.n(500, 6000)):
        dag = bs.pool_dag(rng, 4)
        info = gen_info(rng)
        si = gen_init(rng, len(dag))
        hb = info_bits(info)
        ib = 0 if si is None else 5 + (5 if si[0] is not None else 0) + (2 if si[1] else 0)
        room = 1023 - hb - 1 - (1 + ib if si is not None else 0) - 1
        nb = rng.choice([0, 1, max(0, room - 1), max(0, room), min(1023, max(0, room + 1)), 1023, rng.randrange(0, 1024)])
        nr = rng.randrange(0, 5)
        dag.append((-1, cells.rand_bits(rng, min(nb, 1023)), [rng.randrange(4) for _ in range(nr)]))
        cases.append((dag, info, si, len(dag) - 1))
    # headers sized so that header + inline state-init lands exactly on the cell capacity and one bit either side
    # (the inline-or-reference decision for the state-init), with small and boundary bodies
    nb_hits = 0
    for _ in range(ctx.n(4000, 40000)):
        if nb_hits >= ctx.n(60, 600):
            break
        dag = bs.pool_dag(rng, 4)
        si = gen_init(rng, len(dag))
        if si is None:
            continue
        ib = 5 + (5 if si[0] is not None else 0) + (2 if si[1] else 0)
        info = big_info(rng)
        tot = info_bits(info) + ib
        if tot not in (1019, 1020, 1021, 1022, 1023):
            continue
        nb_hits += 1
        nb = rng.choice([0, 0, 1, 2, 3, 500])
        dag.append((-1, cells.rand_bits(rng, nb), [rng.randrange(4) for _ in range(rng.choice([0, 0, 1]))]))
        cases.append((dag, info, si, len(dag) - 1))
    ctx.extra["state_init_boundary_cases"] = nb_hits
    impl, model = ctx.correspond("MessageAny.serialize", cases, py_ser,
                                 lambda c: f"msg_ser {info_tok(c[1])} {init_tok(c[2])} {c[3]} {cells.dag_line(c[0])}",
                                 lambda c: True)
    # parse what was produced: implementation parser, traced tree, independent decoder
    produced = []
    for c, a in zip(cases, impl):
        if a.startswith("ok "):
            produced.append((c, text_to_dag(a[3:])))
    dec_cases = [d for _, d in produced]
    idec, mdec = ctx.correspond("MessageAny.deserialize-vs-spec-decoder", dec_cases, py_dec,
                                lambda d: "msg_dec " + cells.dag_line(d), lambda d: True)
    ctx.correspond_templated("MessageAny.deserialize-vs-traced-tree", [("MessageAny", d) for d in dec_cases],
                             lambda c: f"tlb_run {c[0]} {cells.dag_line(c[1])}", tlb.py_dump)
    # ---- oracle
    n_over = 0
    for c, a in zip(cases, impl):
        dag, info, si, body = c
        if info_bits(info) > 1020:
            continue
        if not a.startswith("ok "):
            n_over += 1
            ctx.fail("serialize-fails-for-lack-of-room", f"{a}: header {info_bits(info)} bits, init {init_tok(si)[:30]}, body "
                     f"{len(dag[body][1])} bits/{len(dag[body][2])} refs", {"dag": dag, "info": info, "init": si, "body": body})
    for (c, d), a in zip(produced, idec):
        dag, info, si, body = c
        want = f"ok {info_tok(info)} {want_init(si, dag)} {cells_text(dag, body)}"
        if a != want:
            ctx.fail("message-roundtrip-differs", f"parsed {a[:120]} expected {want[:120]}", {"dag": dag, "info": info, "init": si, "body": body})
    # alternative valid encodings: force the other placement where it also fits
    alt = []
    for (c, d) in produced[: ctx.n(200, 2000)]:
        a2 = alt_encoding(rng, c)
        if a2 is not None:
            alt.append((c, a2))
    ia, ma = ctx.correspond("alternative-placements", [d for _, d in alt], py_dec, lambda d: "msg_dec " + cells.dag_line(d))
    for (c, d), a in zip(alt, ia):
        dag, info, si, body = c
        want = f"ok {info_tok(info)} {want_init(si, dag)} {cells_text(dag, body)}"
        if a != want:
            ctx.fail("other-valid-encoding-misparsed", f"parsed {a[:100]} expected {want[:100]}", {"alt": d})
    ctx.extra["alternative_encodings"] = len(alt)
    # stand-alone wrappers
    import random
    for _ in range(ctx.n(100, 1000)):
        sd = rng.getrandbits(48)
        r = core.call_impl(lambda _: wrapper_case(random.Random(sd)), None)
        if r != "ok":
            ctx.fail("wrapper:" + r.split(":")[0], r, {"wrapper": r, "fn": "wrapper_case", "seed": sd})
    for _ in range(ctx.n(150, 1500)):
        sd = rng.getrandbits(48)
        r = core.call_impl(lambda _: nft_case(random.Random(sd)), None)
        if r != "ok":
            ctx.fail("wrapper:" + r.split("(")[0].split(":")[0], r, {"wrapper": r, "fn": "nft_case", "seed": sd})


def cells_text(dag, i):
    import boc
    return boc.tree_text_of_dag(dag, i)


def want_init(si, dag):
    if si is None:
        return "-"
    oc = lambda x: "-" if x is None else cells_text(dag, x)
    return "|".join(["-" if si[0] is None else bs.hz(si[0]), si[1] or "-", oc(si[2]), oc(si[3]), oc(si[4])])


def text_to_dag(t):
    """inverse of hm.cell_text for ordinary cells: '[bits[child][child]]' -> dag list"""
    dag = []
    pos = 0

    def rec():
        nonlocal pos
        assert t[pos] == "["
        pos += 1
        j = pos
        while t[j] not in "[]":
            j += 1
        head = t[pos:j]
        pos = j
        ty = -1
        if "!" in head:
            ty, head = head.split("!")
            ty = int(ty)
        kids = []
        while t[pos] == "[":
            kids.append(rec())
        pos += 1
        dag.append((ty, "" if head == "-" else head, kids))
        return len(dag) - 1
    rec()
    return dag


def alt_encoding(rng, c):
    """re-encode the same logical message with init and body both by reference (always valid when refs allow)"""
    from pytoniq_core.boc.builder import Builder
    from pytoniq_core.tlb.transaction import MessageAny
    dag, info, si, body = c
    objs = cells.build_py(dag)
    try:
        b = Builder().store_cell(py_info(info).serialize())
        init = py_init(si, objs)
        need = (1 if init else 0) + 1
        if b.available_refs < need or b.available_bits < 3:
            return None
        if init:
            b.store_bit(1).store_bit(1).store_ref(init.serialize())
        else:
            b.store_bit(0)
        b.store_bit(1).store_ref(objs[body])
        return text_to_dag(hm.cell_text(b.end_cell()))
    except Exception:
        return None


def wrapper_case(rng):
    from pytoniq_core.boc.cell import Cell
    from pytoniq_core.tlb.utils import HashUpdate
    from pytoniq_core.tlb.account import StateInit, TickTock
    from pytoniq_core.tlb.block import CurrencyCollection, ExtraCurrencyCollection
    from pytoniq_core.tlb.custom.wallet import WalletV3Data, WalletV4Data
    k = rng.choice(["hash", "init", "cc", "cc-history", "w3", "w4"])
    e = Cell.empty()
    if k == "hash":
        o, n = rng.randbytes(32), rng.randbytes(32)
        h = HashUpdate.deserialize(HashUpdate(o, n).serialize().begin_parse())
        return "ok" if (h.old_hash, h.new_hash) == (o, n) else "hash: HashUpdate round trip"
    if k == "init":
        si = StateInit(rng.choice([None, 3]), rng.choice([None, TickTock(True, False)]), rng.choice([None, e]), e, None)
        s = si.serialize().begin_parse()
        b = StateInit.deserialize(s)
        ok = b.split_depth == si.split_depth and (b.special is None) == (si.special is None) and (b.code is None) == (si.code is None) \
            and b.data.hash == e.hash and b.library is None and len(s.bits) == 0 and s.remaining_refs == 0
        return "ok" if ok else "init: StateInit round trip"
    if k == "cc-history":
        # a grams-only collection that later receives an extra currency must not leak it into other collections
        first = CurrencyCollection(rng.getrandbits(40))
        if first.other is not None and isinstance(first.other.dict, dict):
            first.other.dict[rng.getrandbits(16)] = rng.getrandbits(30) + 1
        g = rng.getrandbits(50)
        second = CurrencyCollection(g)
        s2 = second.serialize().begin_parse()
        b = CurrencyCollection.deserialize(s2)
        if b.grams != g or (b.other.dict or {}) != {} or second.serialize().refs:
            return "cc-history: a fresh grams-only CurrencyCollection carries the extra currencies of an earlier one"
        e1, e2 = ExtraCurrencyCollection({1: 2}), ExtraCurrencyCollection({})
        if (e2.dict or {}) != {}:
            return "cc-history: ExtraCurrencyCollection({}) is not empty"
        return "ok"
    if k == "cc":
        d = {rng.getrandbits(32): rng.getrandbits(70) for _ in range(rng.choice([0, 1, 4]))}
        cc = CurrencyCollection(rng.getrandbits(90), ExtraCurrencyCollection(dict(d)))
        s = cc.serialize().begin_parse()
        b = CurrencyCollection.deserialize(s)
        ok = b.grams == cc.grams and (b.other.dict or {}) == d and len(s.bits) == 0
        return "ok" if ok else "cc: CurrencyCollection round trip"
    if k == "w3":
        w = WalletV3Data(rng.getrandbits(32), rng.getrandbits(32), rng.randbytes(32))
        b = WalletV3Data.deserialize(w.serialize().begin_parse())
        return "ok" if (b.seqno, b.wallet_id, b.public_key) == (w.seqno, w.wallet_id, w.public_key) else "w3: WalletV3Data round trip"
    w = WalletV4Data(rng.getrandbits(32), rng.getrandbits(32), rng.randbytes(32), rng.choice([None, e]))
    b = WalletV4Data.deserialize(w.serialize().begin_parse())
    ok = (b.seqno, b.wallet_id, b.public_key) == (w.seqno, w.wallet_id, w.public_key) and (b.plugins is None) == (w.plugins is None)
    return "ok" if ok else "w4: WalletV4Data round trip"


def _addr_bits(a):
    """independent TL-B encoding of MsgAddress: None -> addr_none$00, (wc, hash) -> addr_std$10 nothing$0 wc:int8 addr:bits256"""
    if a is None:
        return "00"
    wc, h = a
    return "100" + format(wc & 0xFF, "08b") + "".join(format(x, "08b") for x in h)


def _coins_bits(v):
    n = (v.bit_length() + 7) // 8
    return format(n, "04b") + (format(v, f"0{8 * n}b") if n else "")


def nft_case(rng):
    """NFT-data wrappers: bits are the TL-B encoding written out by hand; the parser returns the same fields"""
    from pytoniq_core.boc.address import Address
    from pytoniq_core.boc.cell import Cell
    from pytoniq_core.boc.builder import Builder
    from pytoniq_core.tlb.custom.nft import NftItemData, NftItemSaleFees, NftItemSaleData

    def rnd_addr(allow_none=True):
        if allow_none and rng.random() < 0.2:
            return None
        return (rng.choice([0, -1, 127, -128, 5]), rng.randbytes(32))

    def mk(a, as_str):
        if a is None:
            return None
        ad = Address(a)
        return ad.to_str(is_user_friendly=rng.random() < 0.5) if as_str else ad

    def same(x, a):
        return (x is None) == (a is None) and (a is None or (x.wc, x.hash_part) == a)
    k = rng.choice(["item", "fees", "sale"])
    if k == "item":
        ca, oa = rnd_addr(), rnd_addr()
        idx = rng.choice([0, 1, 2 ** 63, 2 ** 64 - 1, rng.getrandbits(64)])
        content = Builder().store_uint(rng.getrandbits(16), 16).end_cell()
        how = rng.choice(["obj", "obj", "str-collection", "str-owner", "str-both"])
        try:
            it = NftItemData(idx, mk(ca, how in ("str-collection", "str-both")), mk(oa, how in ("str-owner", "str-both")), content)
            c = it.serialize()
        except Exception as e:
            return f"nft-item({how}): cannot be built/serialised: {type(e).__name__}: {e}"
        want = format(idx, "064b") + _addr_bits(ca) + _addr_bits(oa)
        if c.bits.to01() != want or len(c.refs) != 1 or c.refs[0].hash != content.hash:
            return f"nft-item({how}): cell is not index:uint64 collection_address owner_address content:^Cell"
        s = c.begin_parse()
        b = NftItemData.deserialize(s)
        if not (b.index == idx and same(b.collection_address, ca) and same(b.owner_address, oa) and b.content.hash == content.hash
                and len(s.bits) == 0 and s.remaining_refs == 0):
            return f"nft-item({how}): round trip differs"
        return "ok"
    ma, ra = rnd_addr(), rnd_addr()
    mf, rf = rng.choice([0, 1, 255, 256, rng.getrandbits(100), 2 ** 120 - 1]), rng.choice([0, rng.getrandbits(40)])
    fees = NftItemSaleFees(mk(ma, False), mf, mk(ra, False), rf)
    fwant = _addr_bits(ma) + _coins_bits(mf) + _addr_bits(ra) + _coins_bits(rf)
    if k == "fees":
        c = fees.serialize()
        if c.bits.to01() != fwant or c.refs:
            return "nft-fees: cell is not marketplace_fee_address marketplace_fee:Grams royalty_address royalty_amount:Grams"
        s = c.begin_parse()
        b = NftItemSaleFees.deserialize(s)
        ok = same(b.marketplace_fee_address, ma) and b.marketplace_fee == mf and same(b.royalty_address, ra) and b.royalty_amount == rf \
            and len(s.bits) == 0
        return "ok" if ok else "nft-fees: round trip differs"
    a1, a2, a3 = rnd_addr(), rnd_addr(), rnd_addr()
    comp, ext = rng.random() < 0.5, rng.random() < 0.5
    at, price = rng.choice([0, 2 ** 32 - 1, rng.getrandbits(32)]), rng.choice([0, rng.getrandbits(64), 2 ** 120 - 1])
    how = rng.choice(["obj", "str"])
    try:
        sd = NftItemSaleData(comp, at, mk(a1, how == "str"), mk(a2, how == "str"), mk(a3, how == "str"), price, fees, ext)
        c = sd.serialize()
    except Exception as e:
        return f"nft-sale({how}): cannot be built/serialised: {type(e).__name__}: {e}"
    want = "01"[comp] + format(at, "032b") + _addr_bits(a1) + _addr_bits(a2) + _addr_bits(a3) + _coins_bits(price) + "01"[ext]
    if c.bits.to01() != want or len(c.refs) != 1 or c.refs[0].bits.to01() != fwant:
        return f"nft-sale({how}): cell is not the nft_item_sale_data layout"
    s = c.begin_parse()
    b = NftItemSaleData.deserialize(s)
    ok = (b.is_complete, b.created_at, b.full_price, b.can_deploy_by_external) == (comp, at, price, ext) \
        and same(b.marketplace_address, a1) and same(b.nft_address, a2) and same(b.nft_owner_address, a3) \
        and same(b.fees_cell.marketplace_fee_address, ma) and b.fees_cell.marketplace_fee == mf \
        and same(b.fees_cell.royalty_address, ra) and b.fees_cell.royalty_amount == rf and len(s.bits) == 0 and s.remaining_refs == 0
    return "ok" if ok else f"nft-sale({how}): round trip differs"


def replay(ctx, obj):
    c = obj["case"]
    if "wrapper" in c and "seed" in c:
        import random
        r = core.call_impl(lambda _: {"wrapper_case": wrapper_case, "nft_case": nft_case}[c["fn"]](random.Random(c["seed"])), None)
        return None if r == "ok" else r
    if "wrapper" in c or "alt" in c:
        return "randomised sub-check: re-run the check with the same seed"
    dag = [(t, b, list(r)) for t, b, r in c["dag"]]
    info = tuple(tuple(x) if isinstance(x, list) and x and x[0] == "addr" else x for x in c["info"])
    if info[0] == "int":
        info = info[:5] + ([tuple(kv) for kv in info[5]],) + info[6:]
    si = None if c["init"] is None else tuple(c["init"])
    a = core.call_impl(py_ser, (dag, info, si, c["body"]))
    if not a.startswith("ok "):
        return None if info_bits(info) > 1020 else f"serialize fails: {a}"
    d = text_to_dag(a[3:])
    r = core.call_impl(py_dec, d)
    want = f"ok {info_tok(info)} {want_init(si, dag)} {cells_text(dag, c['body'])}"
    return None if r == want else f"round trip differs: {r[:100]}"
