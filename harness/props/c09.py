"""C09 - dictionary (HashMap) serialise/parse round trip."""
import itertools

import bs
import cells
import core
import hm

ID = "C09"
GEN = []
RULE = ("maps given as insertion sequences: all key sets for widths 1..3 (and width 4 in the thorough tier), all "
        "insertion orders of small sets, duplicate insertions, random sets for widths 5..1023 with dense / "
        "clustered / all-zero-all-one-run / uniform key patterns, single-entry maps, values with bits and refs; "
        "key forms int/bytes/bit-string/address/hashed string; invalid keys; non-trivial = at least two keys; "
        "distinct by case text")
TRUSTED = [
    "Coq 8.16.1 kernel incl. vm_compute; no native_compute",
    "Spec/Hashmap.v: canonical Patricia tree, HmLabel encodings, valid-tree grammar, sorted association list",
    "Model/Hashmap.v hand transcription of hashmap/utils.py, parse.py, hashmap.py tied by correspondence",
    "Python dict insertion-order semantics, sorted() on '0'/'1' strings as modelled",
    "extraction + driver",
]
ASSUMES = ["Patricia trees deeper than about 300 forks exceed CPython's recursion limit in build/parse (recorded finding)"]


def payload(rng, nrefs_pool):
    vb = cells.rand_bits(rng, rng.choice([0, 1, 8, 8, 32, 64]))
    vr = [rng.randrange(nrefs_pool) for _ in range(rng.choice([0, 0, 0, 1, 2]))]
    return vb, vr


def gen(ctx):
    rng = ctx.rng
    dag = bs.pool_dag(rng, 3)
    out = []
    for n in (1, 2, 3):
        universe = [format(i, f"0{n}b") for i in range(1 << n)]
        for r in range(1, len(universe) + 1):
            for ks in itertools.combinations(universe, r):
                ks = list(ks)
                rng.shuffle(ks)
                out.append((n, dag, [(k,) + payload(rng, len(dag)) for k in ks]))
    universe = [format(i, "04b") for i in range(16)]
    for _ in range(ctx.n(150, 65535)):
        ks = [k for k in universe if rng.random() < 0.5] or ["0101"]
        rng.shuffle(ks)
        out.append((4, dag, [(k,) + payload(rng, len(dag)) for k in ks]))
    for _ in range(ctx.n(300, 4000)):
        n = rng.choice([5, 8, 16, 32, 64, 256, 267, 500, 1000, 1023, rng.randrange(5, 1024)])
        cnt = rng.choice([1, 1, 2, 3, 5, 10, 30])
        ks = hm.rand_keyset(rng, n, cnt, rng.choice(["dense", "cluster", "runs", "uniform"]))
        seq = [(k,) + payload(rng, len(dag)) for k in ks]
        if rng.random() < 0.2 and seq:
            seq.append((rng.choice(ks),) + payload(rng, len(dag)))   # overwrite an existing key
        out.append((n, dag, seq))
    out.append((8, dag, []))
    return out


def final_map(seq):
    d = {}
    for k, vb, vr in seq:
        d[k] = (vb, vr)
    return d


def run(ctx):
    rng = ctx.rng
    cases = gen(ctx)
    impl_out, model_out = ctx.correspond("serialize", cases, hm.py_ser, lambda c: hm.ser_line(*c),
                                         lambda c: len(c[2]) > 1)
    # parse what the implementation produced (round trip) with implementation and model
    rt_cases = []
    for c, a in zip(cases, impl_out):
        if a.startswith("ok [") and len(rt_cases) < ctx.n(600, 6000):
            rt_cases.append(c)
    ri, rm = ctx.correspond("serialize-parse", rt_cases, py_roundtrip, rt_line, lambda c: len(c[2]) > 1,
                            post=lambda c, m: m)
    # ---- property oracle on the implementation
    nor = 0
    for c, a in zip(cases, impl_out):
        n, dag, seq = c
        d = final_map(seq)
        nor += 1
        if not d:
            if a != "ok none":
                ctx.fail("empty-map-not-none", f"empty map serialised to {a[:40]}", {"n": n, "dag": dag, "seq": seq})
            continue
        exp_dag = []
        hm.build_any_tree(rng, sorted(d), d, n, exp_dag, canonical=True)
        fits = all(len(b) <= 1023 and len(r) <= 4 for _, b, r in exp_dag)
        if not fits:
            if a.startswith("ok"):
                ctx.fail("oversized-dict-accepted", "an edge exceeding 1023 bits was serialised", {"n": n, "dag": dag, "seq": seq})
            continue
        if not a.startswith("ok ["):
            ctx.fail("valid-map-not-serialised", f"map of {len(d)} keys (width {n}) refused: {a}", {"n": n, "dag": dag, "seq": seq})
            continue
        # order independence: another insertion order gives the same cell
        seq2 = list({k: (k, vb, vr) for k, vb, vr in seq}.values())
        rng.shuffle(seq2)
        a2 = core.call_impl(hm.py_ser, (n, dag, seq2))
        if a2 != a:
            ctx.fail("insertion-order-changes-cell", "a different insertion order gave a different cell", {"n": n, "dag": dag, "seq": seq, "seq2": seq2})
    for c, a in zip(rt_cases, ri):
        n, dag, seq = c
        d = final_map(seq)
        exp = "ok " + ",".join(f"{k}={d[k][0] or '-'}/{','.join(tag_of(dag, i) for i in d[k][1]) or '-'}" for k in sorted(d))
        if a != exp:
            ctx.fail("roundtrip-differs", f"parse(serialize(m)) != sorted m: {a[:80]} vs {exp[:80]}", {"n": n, "dag": dag, "seq": seq})
    ctx.extra["oracle_cases"] = nor + len(rt_cases)

    # key forms and invalid keys, on the implementation
    nk = 0
    for _ in range(ctx.n(200, 2000)):
        r = core.call_impl(lambda _: key_form_case(rng), None)
        nk += 1
        if r != "ok":
            ctx.fail("key-form:" + r.split(":")[0], r, {"keyform": r})
    for n in (1, 2, 4, 8, 64, 267, 1023):
        for k in (-1, -2, -(1 << n), 1 << n, (1 << n) + 1, 1 << (n + 7)):
            nk += 1
            r = core.call_impl(lambda _: bad_key(n, k), None)
            m = core.run_driver([f"hm_key {n} {bs.hz(k)}"])[0]
            if r != "rejected":
                ctx.fail("out-of-range-key-accepted", f"key {k} accepted in a {n}-bit map: {r}", {"badkey": [n, k]})
            if not m.startswith("err"):
                ctx.broken.append(f"model accepts key {k} for width {n}")
    ctx.extra["key_cases"] = nk
    # maybe-dict wrapper
    for _ in range(ctx.n(100, 1000)):
        r = core.call_impl(lambda _: maybe_dict_case(rng), None)
        if r != "ok":
            ctx.fail("store-load-dict", r, {"maybe": r})
    # deep comb (recursion) - recorded finding
    r = core.call_impl(lambda _: comb_case(600), None, timeout_s=60)
    if r != "ok":
        ctx.fail("dict-recursion-limit", f"600-key comb of width 700: {r}", {"comb": 600})


def tag_of(dag, i):
    ty, bits, refs = dag[i]
    return f"c{len(bits)}.{len(refs)}.{bits[:16] or '-'}"


def py_roundtrip(case):
    from pytoniq_core.boc.hashmap.hashmap import HashMap
    from pytoniq_core.boc.cell import Cell
    from pytoniq_core.boc.hashmap.parse import parse_hashmap
    n, dag, kvs = case
    objs = cells.build_py(dag)
    h = HashMap(n, value_serializer=lambda src, dest: dest.store_slice(src))
    for k, vb, vr in kvs:
        h.set_int_key(int(k, 2), Cell(cells.tvm_bits(vb), [objs[i] for i in vr], -1).begin_parse())
    c = h.serialize()
    r = parse_hashmap(c.begin_parse(), n)
    return "ok " + (",".join(hm.show_leaf(k, v) for k, v in r.items()) or "-")


def rt_line(case):
    """model: serialise with the model, then parse with the model"""
    n, dag, kvs = case
    return f"hm_rt {n} {cells.dag_line(dag)} " + " ".join(hm.kv_tok(*kv) for kv in kvs)


def key_form_case(rng):
    """The same logical key given as int, bytes, bit string, Address, hashed string must address the same entry."""
    import hashlib
    from pytoniq_core.boc.hashmap.hashmap import HashMap
    from pytoniq_core.boc.address import Address
    form = rng.choice(["bytes", "bits", "addr", "hash"])
    if form == "bytes":
        nb = rng.choice([1, 4, 32])
        raw = rng.randbytes(nb)
        n, key, ik = nb * 8, raw, int.from_bytes(raw, "big")
    elif form == "bits":
        n = rng.choice([1, 5, 64, 300])
        s = cells.rand_bits(rng, n)
        key, ik = s, int(s, 2)
    elif form == "addr":
        wc = rng.randrange(-128, 128)
        hp = rng.randbytes(32)
        n, key = 267, Address((wc, hp))
        ik = (0b100 << 264) | ((wc & 0xFF) << 256) | int.from_bytes(hp, "big")
    else:
        text = "k" + str(rng.randrange(10 ** 6))
        n, key, ik = 256, text, int.from_bytes(hashlib.sha256(text.encode()).digest(), "big")
    a = HashMap(n).with_uint_values(16)
    a.set(key, 7, hash_key=(form == "hash"))
    b = HashMap(n).with_uint_values(16).set_int_key(ik, 7)
    if a.serialize().hash != b.serialize().hash:
        return f"{form}: key form maps to another key than its integer value"
    back = HashMap.parse(a.serialize().begin_parse(), n)
    if list(back.keys()) != [ik]:
        return f"{form}: parsed key {list(back.keys())} != {ik}"
    return "ok"


def bad_key(n, k):
    from pytoniq_core.boc.hashmap.hashmap import HashMap
    h = HashMap(n).with_uint_values(8)
    try:
        h.set_int_key(k, 1)
    except Exception:
        # a refused key must leave no trace: the map is still empty, and after a valid entry it serialises as a fresh map does
        if n > 900:
            return "rejected"
        try:
            if h.serialize() is not None:
                return "rejected, but the map is no longer empty afterwards"
            h.set_int_key(1, 9)
            for form in (k, format(k & ((1 << (n + 8)) - 1), "b").zfill(n + 1)):
                try:
                    h.set(form, 2) if hasattr(h, "set") else h.set_int_key(form, 2)
                except Exception:
                    pass
            fresh = HashMap(n).with_uint_values(8).set_int_key(1, 9).serialize()
            if h.serialize().hash != fresh.hash:
                return "rejected, but the refused key changed what the map serialises to"
        except Exception as e:
            return "rejected, but the map is unusable afterwards: " + type(e).__name__
        return "rejected"
    try:
        c = h.serialize()
        return "accepted: " + hm.cell_text(c)[:40]
    except Exception as e:
        return "accepted by set, serialize raised " + type(e).__name__


def maybe_dict_case(rng):
    from pytoniq_core.boc.hashmap.hashmap import HashMap
    from pytoniq_core.boc.builder import Builder
    n = rng.choice([3, 16, 64])
    h = HashMap(n).with_uint_values(12)
    keys = sorted({rng.getrandbits(n) for _ in range(rng.choice([0, 1, 3, 9]))})
    for k in keys:
        h.set_int_key(k, k % 4096)
    # 0..2 plain references are stored (and consumed) before the optional dictionary: the peek must look at the
    # CURRENT reference, not at the first one of the cell
    lead = rng.choice([0, 0, 1, 2])
    b = Builder()
    for j in range(lead):
        b.store_ref(Builder().store_uint(j, 8).end_cell())
    c = b.store_dict(h.serialize()).store_uint(5, 3).end_cell()
    s = c.begin_parse()
    for j in range(lead):
        if s.load_ref().begin_parse().load_uint(8) != j:
            return "leading reference read back wrongly"
    pre = s.preload_dict(n, value_deserializer=lambda v: v.load_uint(12))
    got = s.load_dict(n, value_deserializer=lambda v: v.load_uint(12))
    if not keys:
        ok = got is None and pre is None and len(c.bits) == 4 and len(c.refs) == lead
    else:
        ok = got == {k: k % 4096 for k in keys} and list(got) == keys and pre == got
    if not ok or s.load_uint(3) != 5:
        return f"store_dict/load_dict round trip failed for {len(keys)} keys"
    return "ok"


def comb_case(k):
    from pytoniq_core.boc.hashmap.hashmap import HashMap
    n = k + 100
    h = HashMap(n).with_uint_values(8)
    keys = [(1 << (n - 1 - i)) for i in range(k)]
    for key in keys:
        h.set_int_key(key, 1)
    try:
        c = h.serialize()
        back = HashMap.parse(c.begin_parse(), n)
    except RecursionError:
        return "err Recursion"
    return "ok" if sorted(back) == sorted(keys) else "mismatch"


def replay(ctx, obj):
    c = obj["case"]
    rng = ctx.rng
    if "keyform" in c or "maybe" in c:
        return "randomised sub-check: re-run the check with the same seed"
    if "badkey" in c:
        r = core.call_impl(lambda _: bad_key(*c["badkey"]), None)
        return None if r == "rejected" else r
    if "comb" in c:
        r = core.call_impl(lambda _: comb_case(c["comb"]), None, timeout_s=60)
        return None if r == "ok" else r
    n, dag, seq = c["n"], [(t, b, list(r)) for t, b, r in c["dag"]], [(k, vb, list(vr)) for k, vb, vr in c["seq"]]
    d = final_map(seq)
    a = core.call_impl(hm.py_ser, (n, dag, seq))
    if not d:
        return None if a == "ok none" else "empty map not None"
    exp_dag = []
    hm.build_any_tree(rng, sorted(d), d, n, exp_dag, canonical=True)
    if not all(len(b) <= 1023 and len(r) <= 4 for _, b, r in exp_dag):
        return None if not a.startswith("ok") else "oversized dict accepted"
    if not a.startswith("ok ["):
        return f"valid map refused: {a}"
    if "seq2" in c:
        a2 = core.call_impl(hm.py_ser, (n, dag, [(k, vb, list(vr)) for k, vb, vr in c["seq2"]]))
        return None if a2 == a else "insertion order changes the cell"
    r = core.call_impl(py_roundtrip, (n, dag, seq))
    exp = "ok " + ",".join(f"{k}={d[k][0] or '-'}/{','.join(tag_of(dag, i) for i in d[k][1]) or '-'}" for k in sorted(d))
    return None if r == exp else f"round trip differs: {r[:100]}"
