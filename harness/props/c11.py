"""C11 - Merkle proof checks are complete and sound."""
from types import SimpleNamespace

import boc
import cells
import core

ID = "C11"
GEN = []
RULE = ("random ordinary trees with random sets of pruned subtrees wrapped in a Merkle-proof cell (generic and "
        "block-header checks); mutation stream: every single-bit flip of every cell of small proofs, substituted "
        "pruned hashes, wrong expected hash, wrong cell type; synthetic shard states with 1..40 accounts for the "
        "account-state check incl. a pruned-branch impostor; non-trivial = proof with at least one pruned branch; "
        "distinct by DAG text")
TRUSTED = [
    "Coq 8.16.1 kernel incl. vm_compute; no native_compute",
    "Spec/MerkleProof.v (virt_of, covers), Spec/CellRepr.v level-wise hashes",
    "Model/Proof.v: transcription of check_proof / check_block_header_proof and of the hash comparisons of "
    "check_account_proof; the TL-B walk from the shard state to the ShardAccount cell is NOT modelled (exercised on "
    "the implementation only, with synthetic states)",
    "Model/Cell.v tied by correspondence (C01, C02); Base/Sha256.v; extraction + driver",
]
ASSUMES = ["soundness is collision-relative: 'accepted => covers the original tree, or an explicit SHA-256 collision'"]


def prune_dag(rng, dag, p, start=None, mdepth0=0):
    """Replace random proper subtrees (of the subtree rooted at `start`) by pruned branches carrying the real level-0
    hash/depth, computed by the independent reference cells.ref_hd (not by the library).  A hole below j Merkle cells
    of the tree itself gets mask 1 << (mdepth0 + j): it sits under mdepth0 + j + 1 Merkle cells once the proof cell is
    on top.  Only subtrees of level 0 are pruned.  Returns (virtual dag, number of pruned branches)."""
    info = cells.ref_hd(dag)
    out, remap, n = [], {}, 0
    start = len(dag) - 1 if start is None else start

    def emit(i, md, root=False):
        nonlocal n
        if (i, md, root) in remap:
            return remap[(i, md, root)]
        ty, bits, refs = dag[i]
        if not root and md <= 2 and info[i] is not None and info[i][0] < (1 << md) and rng.random() < p:
            # the pruned branch gets the subtree's own mask plus bit md; it stores the subtree's hash and depth at level 0
            # and at level b+1 for every bit b of the subtree's mask (a subtree of level 0 gives the plain 1 << md branch)
            m = info[i][0]
            levels = [0] + [b + 1 for b in range(3) if (m >> b) & 1]
            out.append(cells.pruned_node(m | (1 << md), [info[i][1][l] for l in levels], [info[i][2][l] for l in levels]))
            n += 1
        else:
            kids = [emit(r, md + (1 if ty in (3, 4) else 0)) for r in refs]
            out.append((ty, bits, kids))
        remap[(i, md, root)] = len(out) - 1
        return len(out) - 1
    emit(start, mdepth0, True)
    return out, n


def nested_tree(rng):
    """an ordinary tree in which one subtree is replaced by a Merkle proof cell over a partly pruned version of it
    (level-1 pruned branches below the inner proof); the root has level 0"""
    dag0 = cells.rand_ordinary_dag(rng, rng.choice([5, 8, 12, 20]), max_bits=60, share=0)
    if len(dag0) < 2:
        return dag0
    info0 = cells.ref_hd(dag0)
    x = rng.randrange(len(dag0) - 1)
    inner, _ = prune_dag(rng, dag0, rng.choice([.3, .6, .8]), start=x)
    out, remap = [], {}

    def emit(i):
        if i in remap:
            return remap[i]
        if i == x:
            base = len(out)
            for ty, bits, refs in inner:
                out.append((ty, bits, [base + r for r in refs]))
            out.append(cells.mproof_node(info0[x][1][0], info0[x][2][0], len(out) - 1))
        else:
            ty, bits, refs = dag0[i]
            kids = [emit(r) for r in refs]
            out.append((ty, bits, kids))
        remap[i] = len(out) - 1
        return len(out) - 1
    emit(len(dag0) - 1)
    return out


def nested_two_level(rng):
    """a proof whose virtual tree has, under ONE ordinary parent, a level-1 pruned branch (pruned by an inner Merkle
    proof of the original tree) and a level-2 pruned branch (pruned by this proof below that inner proof): the parent's
    level mask is 0b11, the union of two incomparable masks"""
    rb = lambda: cells.rand_bits(rng, rng.choice([3, 8, 20]))
    a, b, dd = (-1, rb() + "0", []), (-1, rb() + "1", []), (-1, rb(), [])
    orig_parent = [a, b, (-1, rb(), [0, 1])]
    ip = cells.ref_hd(orig_parent)
    pa = cells.pruned_node(1, [ip[0][1][0]], [ip[0][2][0]])                  # A pruned by the inner proof
    inner_virtual = [pa, b, (-1, orig_parent[2][1], [0, 1])]
    # the ORIGINAL tree: root[ M(inner_virtual), D ]
    orig = inner_virtual + [cells.mproof_node(ip[2][1][0], ip[2][2][0], 2), dd, (-1, rb(), [3, 4])]
    io = cells.ref_hd(orig)
    # this proof prunes B (level 0, below one Merkle cell of the original) with mask 0b10
    pb = cells.pruned_node(2, [io[1][1][0]], [io[1][2][0]])
    virt = [pa, pb, (-1, orig_parent[2][1], [0, 1]), orig[3], dd, (-1, orig[5][1], [3, 4])]
    virt[3] = cells.mproof_node(ip[2][1][0], ip[2][2][0], 2)
    root = io[5]
    return virt + [cells.mproof_node(root[1][0], root[2][0], 5)], root[1][0], 2


def proof_dag(rng, dag, p):
    v, n = prune_dag(rng, dag, p)
    info = cells.ref_hd(dag)[-1]
    return v + [cells.mproof_node(info[1][0], info[2][0], len(v) - 1)], info[1][0], n


def py_check_proof(c):
    from pytoniq_core.proof.check_proof import check_proof
    from pytoniq_core.boc.cell import Cell
    dag, h = c
    root = cells.build_py(dag)[-1]
    check_proof(root, bytes.fromhex(h))
    # the same proof reached by other routes (a copy, a BoC round trip, slice -> cell) is the same proof: it must be
    # accepted as well (a rejected proof raised above already)
    for name, other in (("copy", lambda: root.copy()), ("boc", lambda: Cell.one_from_boc(root.to_boc())),
                        ("slice", lambda: root.begin_parse().to_cell())):
        try:
            check_proof(other(), bytes.fromhex(h))
        except Exception as e:
            return f"ok-but-{name}-rejected {type(e).__name__}"
    return "ok"


def py_header(c):
    from pytoniq_core.proof.check_proof import check_block_header_proof
    dag, h, store = c
    r = check_block_header_proof(cells.build_py(dag)[-1], bytes.fromhex(h), bool(store))
    return "ok none" if r is None else "ok " + r.hex()


def run(ctx):
    rng = ctx.rng
    valid, mutated = [], []
    for _ in range(ctx.n(250, 3000)):
        if rng.random() < 0.4:
            dag = nested_tree(rng)       # the tree itself contains a Merkle proof cell: holes below it need mask 0b10
        else:
            dag = cells.rand_ordinary_dag(rng, rng.choice([1, 2, 3, 5, 8, 15]), max_bits=100, share=rng.choice([0, .3]))
        pd, h, npr = proof_dag(rng, dag, rng.choice([0, .2, .5, .9]) if not any(t == 3 for t, _, _ in dag) else rng.choice([.5, .8]))
        if rng.random() < 0.05:
            pd, h, npr = nested_two_level(rng)
        valid.append((pd, h.hex(), npr))
        # mutations
        k = rng.random()
        if k < 0.25:
            mutated.append((pd, rng.randbytes(32).hex(), "wrong-hash"))
        elif k < 0.45:
            i = rng.randrange(len(pd) - 1)
            ty, bits, refs = pd[i]
            if bits:
                j = rng.randrange(len(bits))
                if ty == 1 and j < 16:
                    j = 16 + rng.randrange(256)
                nb = bits[:j] + ("1" if bits[j] == "0" else "0") + bits[j + 1:]
                mutated.append((pd[:i] + [(ty, nb, refs)] + pd[i + 1:], h.hex(), "bit-flip-pruned" if ty == 1 else "bit-flip"))
        elif k < 0.55:
            ty, bits, refs = pd[-1]
            mutated.append((pd[:-1] + [(-1, bits, refs)], h.hex(), "not-merkle"))
        elif k < 0.60 and len(pd) >= 2:
            # a Merkle UPDATE cell whose first child is the (virtual) tree and whose stored old hash is the expected one:
            # "a cell that is not a Merkle proof" must be rejected although bytes 1..32 and ref 0 match
            vinfo = cells.ref_hd(pd[:-1])[-1]
            if vinfo is not None:
                extra = (-1, "1", [])
                einfo = cells.ref_hd([extra])[0]
                upd = cells.mupdate_node(vinfo[1][0], einfo[1][0], vinfo[2][0], einfo[2][0], len(pd) - 2, len(pd) - 1)
                mutated.append((pd[:-1] + [extra, upd], h.hex(), "merkle-update-as-proof"))
        elif k < 0.68 and len(pd) > 2:
            i = rng.randrange(len(pd) - 1)
            ty, bits, refs = pd[i]
            if refs:
                mutated.append((pd[:i] + [(ty, bits, refs[:-1])] + pd[i + 1:], h.hex(), "dropped-ref"))
    if ctx.thorough():
        # every single-bit flip of every cell of a few small proofs
        for pd, h, _ in valid[:40]:
            for i in range(len(pd) - 1):
                ty, bits, refs = pd[i]
                for j in range(16 if ty == 1 else 0, len(bits)):
                    nb = bits[:j] + ("1" if bits[j] == "0" else "0") + bits[j + 1:]
                    mutated.append((pd[:i] + [(ty, nb, refs)] + pd[i + 1:], h, "bit-flip"))
    iv, mv = ctx.correspond("check_proof-valid", [(d, h) for d, h, _ in valid], py_check_proof,
                            lambda c: f"ckproof {c[1]} {cells.dag_line(c[0])}", lambda c: any(t == 1 for t, _, _ in c[0]))
    im, mm = ctx.correspond("check_proof-mutated", [(d, h) for d, h, _ in mutated], py_check_proof,
                            lambda c: f"ckproof {c[1]} {cells.dag_line(c[0])}")
    hv = [(d[:-1], h, 0) for d, h, _ in valid]
    ih, mh = ctx.correspond("header-proof", hv, py_header, lambda c: f"hdrproof {c[1]} {c[2]} {cells.dag_line(c[0])}")
    for (d, h, npr), a in zip(valid, iv):
        if a != "ok":
            ctx.fail("valid-proof-rejected", f"proof with {npr} pruned branches rejected: {a}", {"dag": d, "hash": h})
    for (d, h, _), a in zip(hv, ih):
        if a != "ok none":
            ctx.fail("valid-header-proof-rejected", a, {"dag": d, "hash": h, "header": 1})
    kinds = {}
    for (d, h, kind), a in zip(mutated, im):
        kinds[kind] = kinds.get(kind, 0) + 1
        if a == "ok":
            ctx.fail("forged-proof-accepted:" + kind, f"{kind}: accepted", {"dag": d, "hash": h, "mutated": kind})
    ctx.extra["mutations"] = kinds
    ctx.extra["pruned_distribution"] = {str(k): sum(1 for v in valid if min(v[2], 5) == k) for k in range(6)}

    # account-state proofs through the real check_account_proof
    na = 0
    for _ in range(ctx.n(40, 400)):
        r = core.call_impl(lambda _: account_case(ctx, rng), None, timeout_s=60)
        na += 1
        if r != "ok":
            ctx.fail("account-proof:" + r.split(":")[0], r, {"account": r})
    ctx.extra["account_cases"] = na
    # Model/Proof.check_account_hashes against check_account_proof on the very same cells
    ctx.correspond_pre("check_account_hashes", [a[0] for a in ACC_CORR], [a[1] for a in ACC_CORR], [a[2] for a in ACC_CORR])


# ------------------------------------------------------------------------------------ synthetic shard state
def account_case(ctx, rng):
    from pytoniq_core.boc.builder import Builder
    from pytoniq_core.boc.cell import Cell
    from pytoniq_core.boc.address import Address
    from pytoniq_core.proof.check_proof import check_account_proof
    import hm
    n_acc = rng.choice([1, 2, 3, 8, 40])
    ids = {rng.getrandbits(256) for _ in range(n_acc)}
    if rng.random() < 0.4:
        # addresses with long runs of equal bits: their edge labels use hml_same with v = 0 and v = 1
        ids |= set(rng.sample([0, 1, (1 << 256) - 1, 1 << 255, (1 << 255) - 1, (1 << 256) - 2], rng.choice([1, 2, 3])))
    ids = sorted(ids)
    # real account state cells (ordinary trees; contents irrelevant to the proof check)
    accounts = {i: Builder().store_uint(i & 0xFFFF, 16).store_ref(Builder().store_uint(7, 8).end_cell()).end_cell() for i in ids}
    target = rng.choice(ids) if rng.random() < 0.6 else rng.choice([i for i in ids if i in (0, 1, (1 << 256) - 1, 1 << 255, (1 << 255) - 1, (1 << 256) - 2)] or ids)
    # HashmapAugE 256 ShardAccount DepthBalanceInfo, account cells pruned (as in a real proof)
    keys = [format(i, "0256b") for i in ids]
    dag = []
    vals = {}
    for i, k in zip(ids, keys):
        a = accounts[i]
        pr = cells.pruned_node(1, [a.get_hash(0)], [a.get_depth(0)])
        dag.append(pr)
        # extra: DepthBalanceInfo = split_depth:(#<= 30) balance:CurrencyCollection (grams var_uint16 0 + dict bit 0)
        extra = "00000" + "0000" + "0"
        vals[k] = (extra + format(rng.getrandbits(256), "0256b") + format(rng.getrandbits(64), "064b"), [len(dag) - 1])
    fork_extra = "00000" + "0000" + "0"
    root_idx = hm.build_any_tree(rng, sorted(keys), vals, 256, dag, canonical=True, aug_y=None)
    # aug_y=None wrote no extras on forks: rebuild with extras placed after the label of every node
    dag = []
    for i, k in zip(ids, keys):
        a = accounts[i]
        dag.append(cells.pruned_node(1, [a.get_hash(0)], [a.get_depth(0)]))
    # some accounts hold extra currencies: their DepthBalanceInfo carries a dictionary reference, which comes BEFORE
    # account:^Account among the references of the leaf
    leaf_extra, vals2 = {}, {}
    for j, k in enumerate(keys):
        refs = [j]
        if rng.random() < 0.35:
            dag.append((-1, "10" + format(32, "06b") + format(rng.getrandbits(32), "032b") + "00001" + format(rng.randrange(1, 256), "08b"), []))
            refs = [len(dag) - 1, j]
            leaf_extra[k] = "00000" + "0000" + "1"
        vals2[k] = (format(rng.getrandbits(256), "0256b") + format(rng.getrandbits(64), "064b"), refs)
    root_idx = hm.build_any_tree(rng, sorted(keys), vals2, 256, dag, canonical=True,
                                 aug_y=lambda ks: leaf_extra.get(ks[0], fork_extra) if len(ks) == 1 else fork_extra)
    dict_root = cells.build_py(dag)[-1]
    acc_cell = Builder().store_bit(1).store_ref(dict_root).store_bits(fork_extra).end_cell()   # ahme_root$1 root extra
    b = Builder().store_bytes(bytes.fromhex("9023afe2")).store_int(-239, 32)
    b.store_bits("00").store_uint(0, 6).store_int(0, 32).store_uint(1 << 63, 64)     # shard_ident$00
    b.store_uint(5, 32).store_uint(0, 32).store_uint(1700000000, 32).store_uint(99, 64).store_uint(3, 32)
    b.store_ref(Builder().store_uint(1, 8).end_cell())        # out_msg_queue_info (opaque)
    b.store_bit(0)
    b.store_ref(acc_cell)
    pruned_rest = cells.pruned_node(1, [rng.randbytes(32)], [1])
    b.store_ref(Cell(cells.tvm_bits(pruned_rest[1]), [], 1))
    b.store_bit(0)
    state = b.end_cell()
    state_hash = state.get_hash(0)
    # block: 4 refs; ref[2] = state update (Merkle update) whose second child names the new state hash
    new_pr = cells.pruned_node(1, [state_hash], [state.get_depth(0)])
    old_pr = cells.pruned_node(1, [rng.randbytes(32)], [3])
    newc, oldc = Cell(cells.tvm_bits(new_pr[1]), [], 1), Cell(cells.tvm_bits(old_pr[1]), [], 1)
    mu = cells.mupdate_node(oldc.get_hash(0), newc.get_hash(0), oldc.get_depth(0), newc.get_depth(0), 0, 1)
    upd = Cell(cells.tvm_bits(mu[1]), [oldc, newc], 4)
    dummy = Builder().store_uint(1, 1).end_cell()
    block = Builder().store_uint(0x11ef55aa, 32).store_ref(dummy).store_ref(dummy).store_ref(upd).store_ref(dummy).end_cell()

    def mp(c):
        data = bytes([3]) + c.get_hash(0) + c.get_depth(0).to_bytes(2, "big")
        return Cell(cells.tvm_bits(cells.bits_of_bytes(data)), [c], 3)
    roots = [mp(block), mp(state)]
    proof = two_root_boc(roots)
    blk = SimpleNamespace(root_hash=block.get_hash(0))
    addr = Address((0, target.to_bytes(32, "big")))
    genuine = accounts[target]
    # the same inputs for Model/Proof.check_account_hashes: the two proof roots, a stand-in for the located
    # ShardAccount cell (only its first reference, the committed account cell, is read) and the claimed state
    tpr = cells.pruned_node(1, [genuine.get_hash(0)], [genuine.get_depth(0)])
    sa = Builder().store_ref(Cell(cells.tvm_bits(tpr[1]), [], 1)).end_cell()

    def model_line(claimed, root_hash):
        index, mdag = {}, []

        def walk(c):
            key = (c.hash, c.type_)
            if key in index:
                return index[key]
            kids = [walk(r) for r in c.refs]
            mdag.append((c.type_, c.bits.to01(), kids))
            index[key] = len(mdag) - 1
            return len(mdag) - 1
        ix = [walk(x) for x in (roots[0], roots[1], sa, claimed)]
        return f"acchashes {root_hash.hex()} {ix[0]} {ix[1]} {ix[2]} {ix[3]} {cells.dag_line(mdag)}"

    def both(name, claimed, root_hash):
        try:
            check_account_proof(proof, SimpleNamespace(root_hash=root_hash), addr, claimed)
            r = "ok"
        except Exception as e:
            r = "err " + type(e).__name__
        # the rarely used return_account_descr=True must take the same decision
        try:
            check_account_proof(proof, SimpleNamespace(root_hash=root_hash), addr, claimed, True)
            r2 = "ok"
        except Exception as e:
            r2 = "err " + type(e).__name__
        if (r == "ok") != (r2 == "ok"):
            r = "ok" if r2 == "ok" else r          # an acceptance on either path counts
        ACC_CORR.append((name, r, model_line(claimed, root_hash)))
        return r
    if both("genuine", genuine, blk.root_hash) != "ok":
        return "genuine: genuine account state rejected"
    impostor_n = cells.pruned_node(rng.choice([1, 2, 3, 7]), [genuine.get_hash(0)] * 3, [genuine.get_depth(0)] * 3)
    m = int(impostor_n[1][8:16], 2)
    k = bin(m).count("1")
    impostor_n = cells.pruned_node(m, [genuine.get_hash(0)] * k, [genuine.get_depth(0)] * k)
    impostor = Cell(cells.tvm_bits(impostor_n[1]), [], 1)
    other = accounts[rng.choice(ids)] if len(ids) > 1 else Builder().store_uint(1, 2).end_cell()
    for name, claimed in (("impostor", impostor), ("other", other if other.hash != genuine.hash else dummy), ("dummy", dummy)):
        if both(name, claimed, blk.root_hash) == "ok":
            return f"{name}: a claimed state whose own hash is not the committed one was accepted"
    if both("blockhash", genuine, rng.randbytes(32)) == "ok":
        return "blockhash: proof accepted against another block hash"
    # history: after this block's header has been checked and accepted, ANOTHER header presented under the same block hash
    # (here: the same state update under a block cell with other contents) must still be rejected - directly, and as the
    # first root of an account proof
    from pytoniq_core.proof.check_proof import check_block_header_proof
    dummy2 = Builder().store_uint(2, 2).end_cell()
    block2 = Builder().store_uint(0x11ef55aa, 32).store_ref(dummy2).store_ref(dummy).store_ref(upd).store_ref(dummy2).end_cell()
    for store in (True, False):
        try:
            check_block_header_proof(block2, blk.root_hash, store)
            return f"header-replaced: another header cell was accepted for a block hash checked before (store_state_hash={store})"
        except Exception:
            pass
    try:
        check_account_proof(two_root_boc([mp(block2), mp(state)]), blk, addr, genuine)
        return "header-replaced: an account proof under another header cell was accepted for a block hash checked before"
    except Exception:
        pass
    # history: an account proved in an EARLIER shard state and absent from this one must not be accepted here
    for old_addr, old_state in LAST_ACCOUNT:
        if int.from_bytes(old_addr.hash_part, "big") not in ids:
            try:
                check_account_proof(proof, blk, old_addr, old_state)
                return "stale: an account of an earlier shard state, absent from this one, was accepted for this block"
            except Exception:
                pass
    LAST_ACCOUNT[:] = [(addr, genuine)]
    return "ok"


LAST_ACCOUNT = []


ACC_CORR = []


def two_root_boc(roots):
    """serialise two roots into one bag with the independent encoder of harness/boc.py"""
    # flatten to a DAG in children-first order
    index, dag = {}, []

    def walk(c):
        if c.hash in index:
            return index[c.hash]
        kids = [walk(r) for r in c.refs]
        dag.append((c.type_, c.bits.to01(), kids))
        index[c.hash] = len(dag) - 1
        return len(dag) - 1
    ridx = [walk(r) for r in roots]
    import random
    blob, _, _ = boc.foreign_encode(random.Random(1), dag, ridx, freedoms=False)
    return blob


def replay(ctx, obj):
    c = obj["case"]
    if "account" in c:
        return "randomised sub-check: re-run the check with the same seed"
    d = [(t, b, list(r)) for t, b, r in c["dag"]]
    if "header" in c:
        a = core.call_impl(py_header, (d, c["hash"], 0))
        return None if a == "ok none" else f"valid header proof rejected: {a}"
    a = core.call_impl(py_check_proof, (d, c["hash"]))
    if "mutated" in c:
        return f"forged proof ({c['mutated']}) accepted" if a == "ok" else None
    return None if a == "ok" else f"valid proof rejected: {a}"
