(* TON Hashmap (block.tlb HashmapE / Hashmap / HashmapNode / HmLabel; dict.cpp label selection),
   written independently of Model/Hashmap.v. *)
From Coq Require Import NArith ZArith List Bool.
From PTQ Require Import Base.Result Base.Bytes Base.Bits Model.Cell Model.Builder Model.Hashmap Spec.TlbPrim.
Import ListNotations.

(* ---- the canonical Patricia tree of a finite map with equal-length bit-string keys ---- *)
Fixpoint lcp_all (k : list bool) (rest : list (list bool)) : list bool :=
  match rest with [] => k | k' :: r => lcp_all (lcp k k') r end.

Definition starts_with (b : bool) (k : list bool) : bool :=
  match k with x :: _ => Bool.eqb x b | [] => false end.

(* fuel = key length + 1 *)
Fixpoint s_patricia (fuel : nat) (src : kvs) : option hedge :=
  match fuel with
  | O => None
  | S f =>
    match src with
    | [] => None
    | [(k, v)] => Some (HEdge k (HLeaf v))
    | (k, _) :: rest =>
      let label := lcp_all k (map fst rest) in
      let n := length label in
      let tails := map (fun kv => (skipn n (fst kv), snd kv)) src in
      let l := map (fun kv => (tl (fst kv), snd kv)) (filter (fun kv => starts_with false (fst kv)) tails) in
      let r := map (fun kv => (tl (fst kv), snd kv)) (filter (fun kv => starts_with true (fst kv)) tails) in
      match s_patricia f l, s_patricia f r with
      | Some el, Some er => Some (HEdge label (HFork el er))
      | _, _ => None
      end
    end
  end.

(* ---- label kind chosen by the reference implementation (dict.cpp append_dict_label[_same]) ----
   n = label length, m = remaining key length (max_len), k = bit length of m *)
Definition s_label_kind (l : list bool) (m : nat) : lkind :=
  let n := length l in
  let k := nbitlen m in
  if (0 <? n)%nat && is_same l then
    if (1 <? n)%nat && (k <? 2 * n - 1)%nat then KSame
    else if (k <? n)%nat then KLong else KShort
  else
    if (k <? n)%nat then KLong else KShort.

(* ---- HmLabel encodings: hml_short$0 len:(Unary ~n) s:(n * Bit) | hml_long$10 n:(#<= m) s:(n * Bit)
        | hml_same$11 v:Bit n:(#<= m) ---- *)
Definition s_label_bits (kind : lkind) (l : list bool) (m : nat) : list bool :=
  let n := length l in
  match kind with
  | KShort => [false] ++ repeat true n ++ [false] ++ l
  | KLong => [true; false] ++ enc (nbitlen m) (Z.of_nat n) ++ l
  | KSame => [true; true; hd false l] ++ enc (nbitlen m) (Z.of_nat n)
  end.

(* which kinds can express a label *)
Definition kind_ok (kind : lkind) (l : list bool) : bool :=
  match kind with KSame => is_same l | _ => true end.

(* ---- every spec-valid tree, with an arbitrary label kind on every edge ---- *)
Inductive vtree :=
| VLeaf (label : list bool) (kind : lkind) (v : payload)
| VFork (label : list bool) (kind : lkind) (l r : vtree)
| VPruned (c : cell).          (* a non-ordinary cell standing for a removed subtree *)

(* validity at remaining key length m: labels fit, kinds can express them, a leaf consumes the whole
   remaining key, a fork leaves at least one bit, every cell respects the capacity limits *)
Fixpoint vtree_ok (t : vtree) (m : nat) : bool :=
  match t with
  | VLeaf l k v =>
      (length l =? m)%nat && kind_ok k l &&
      (length (s_label_bits k l m) + length (fst v) <=? 1023)%nat && (length (snd v) <=? 4)%nat
  | VFork l k a b =>
      (length l <? m)%nat && kind_ok k l && (length (s_label_bits k l m) <=? 1023)%nat &&
      vtree_ok a (m - length l - 1) && vtree_ok b (m - length l - 1)
  | VPruned (Cell ty bits _) =>
      negb (ty =? ty_ordinary)%Z && starts_with false bits && starts_with false (tl bits)
  end.

Fixpoint cell_of (t : vtree) (m : nat) : cell :=
  match t with
  | VLeaf l k v => Cell ty_ordinary (s_label_bits k l m ++ fst v) (snd v)
  | VFork l k a b =>
      Cell ty_ordinary (s_label_bits k l m)
           [cell_of a (m - length l - 1); cell_of b (m - length l - 1)]
  | VPruned c => c
  end.

(* the key/value pairs a tree denotes, in key order; pruned parts contribute nothing *)
Fixpoint leaves_of (t : vtree) (prefix : list bool) : list (list bool * slice) :=
  match t with
  | VLeaf l _ v => [(prefix ++ l, mkS (fst v) (snd v))]
  | VFork l _ a b => leaves_of a (prefix ++ l ++ [false]) ++ leaves_of b (prefix ++ l ++ [true])
  | VPruned _ => []
  end.

(* the canonical tree with the reference label kinds *)
Fixpoint canon_vtree (e : hedge) : vtree :=
  match e with
  | HEdge l (HLeaf v) => VLeaf l KShort v      (* kind filled in by canon_kinds *)
  | HEdge l (HFork a b) => VFork l KShort (canon_vtree a) (canon_vtree b)
  end.
Fixpoint canon_kinds (t : vtree) (m : nat) : vtree :=
  match t with
  | VLeaf l _ v => VLeaf l (s_label_kind l m) v
  | VFork l _ a b => VFork l (s_label_kind l m) (canon_kinds a (m - length l - 1)) (canon_kinds b (m - length l - 1))
  | VPruned c => VPruned c
  end.

(* sorted-by-key association list *)
Fixpoint insert_kv (kv : list bool * payload) (l : kvs) : kvs :=
  match l with
  | [] => [kv]
  | x :: r => if lex_leb (fst kv) (fst x) then kv :: l else x :: insert_kv kv r
  end.
Definition sort_kvs (l : kvs) : kvs := fold_right insert_kv [] l.
