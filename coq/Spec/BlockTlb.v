(* Layouts of the TL-B types of pytoniq_core/tlb/schemas/block.tlb, transcribed by hand from the schema.
   Each layout is preceded by the schema line(s) it transcribes.  Field NAMES (and the constant
   attributes such as type_="vm") are those of the Python classes in pytoniq_core/tlb/*.py: this is the
   attribute-naming map of the library, everything else (tags, widths, signedness, order, references)
   is read off block.tlb.  The way a tag is READ (bit by bit, load_bits(n), load_uint(n), load_bytes(k))
   is recorded in the tag mode of a layout; it does not influence the encoder.
   Definitions only. *)
From Coq Require Import NArith ZArith List Bool String.
From PTQ Require Import Base.Result Model.Dtree Spec.Tlb.
Import ListNotations.
Local Open Scope string_scope.

Local Notation "nm ':::' f" := (INamed nm f) (at level 60).
Local Notation ty T := (FType T []).
Local Notation "'^' T" := (FRefType T []) (at level 9).
Local Notation obj cls := (RObj cls []).
Local Notation tagged_obj cls t := (RObj cls [("type_", CStr t)]).
(* a type with one constructor and no tag *)
Local Notation record cls items := (mkType TagBitwise [mkCtor [] (obj cls) items]).

(* acst_unchanged$0 = AccStatusChange;
   acst_frozen$10 = AccStatusChange;
   acst_deleted$11 = AccStatusChange; *)
Definition spec_AccStatusChange : tlayout :=
  mkType TagBitwise
    [ mkCtor (bin "0") (tagged_obj "AccStatusChange" "unchanged") [];
      mkCtor (bin "10") (tagged_obj "AccStatusChange" "frozen") [];
      mkCtor (bin "11") (tagged_obj "AccStatusChange" "deleted") [] ].

(* acc_state_uninit$00 = AccountStatus;
   acc_state_frozen$01 = AccountStatus;
   acc_state_active$10 = AccountStatus;
   acc_state_nonexist$11 = AccountStatus; *)
Definition spec_AccountStatus : tlayout :=
  mkType TagBitwise
    [ mkCtor (bin "00") (tagged_obj "AccountStatus" "uninitialized") [];
      mkCtor (bin "01") (tagged_obj "AccountStatus" "frozen") [];
      mkCtor (bin "10") (tagged_obj "AccountStatus" "active") [];
      mkCtor (bin "11") (tagged_obj "AccountStatus" "nonexist") [] ].

(* cskip_no_state$00 = ComputeSkipReason;
   cskip_bad_state$01 = ComputeSkipReason;
   cskip_no_gas$10 = ComputeSkipReason;
   cskip_suspended$110 = ComputeSkipReason; *)
Definition spec_ComputeSkipReason : tlayout :=
  mkType TagBitwise
    [ mkCtor (bin "00") (tagged_obj "ComputeSkipReason" "no_state") [];
      mkCtor (bin "01") (tagged_obj "ComputeSkipReason" "bad_state") [];
      mkCtor (bin "10") (tagged_obj "ComputeSkipReason" "no_gas") [];
      mkCtor (bin "110") (tagged_obj "ComputeSkipReason" "suspended") [] ].

(* tick_tock$_ tick:Bool tock:Bool = TickTock; *)
Definition spec_TickTock : tlayout :=
  record "TickTock" [ "tick" ::: FBool; "tock" ::: FBool ].

(* extra_currencies$_ dict:(HashmapE 32 (VarUInteger 32)) = ExtraCurrencyCollection; *)
Definition spec_ExtraCurrencyCollection : tlayout :=
  record "ExtraCurrencyCollection" [ "dict" ::: FDict 32 (FVarUint 32) ].

(* currencies$_ grams:Grams other:ExtraCurrencyCollection = CurrencyCollection; *)
Definition spec_CurrencyCollection : tlayout :=
  record "CurrencyCollection" [ "grams" ::: FCoins; "other" ::: ty "ExtraCurrencyCollection" ].

(* storage_used$_ cells:(VarUInteger 7) bits:(VarUInteger 7) public_cells:(VarUInteger 7) = StorageUsed; *)
Definition spec_StorageUsed : tlayout :=
  record "StorageUsed" [ "cells" ::: FVarUint 7; "bits" ::: FVarUint 7; "public_cells" ::: FVarUint 7 ].

(* storage_used_short$_ cells:(VarUInteger 7) bits:(VarUInteger 7) = StorageUsedShort; *)
Definition spec_StorageUsedShort : tlayout :=
  record "StorageUsedShort" [ "cells" ::: FVarUint 7; "bits" ::: FVarUint 7 ].

(* storage_info$_ used:StorageUsed last_paid:uint32 due_payment:(Maybe Grams) = StorageInfo; *)
Definition spec_StorageInfo : tlayout :=
  record "StorageInfo"
    [ "used" ::: ty "StorageUsed"; "last_paid" ::: FUint 32; "due_payment" ::: FMaybe FCoins ].

(* tr_phase_storage$_ storage_fees_collected:Grams storage_fees_due:(Maybe Grams)
     status_change:AccStatusChange = TrStoragePhase; *)
Definition spec_TrStoragePhase : tlayout :=
  record "TrStoragePhase"
    [ "storage_fees_collected" ::: FCoins; "storage_fees_due" ::: FMaybe FCoins;
      "status_change" ::: ty "AccStatusChange" ].

(* tr_phase_credit$_ due_fees_collected:(Maybe Grams) credit:CurrencyCollection = TrCreditPhase; *)
Definition spec_TrCreditPhase : tlayout :=
  record "TrCreditPhase"
    [ "due_fees_collected" ::: FMaybe FCoins; "credit" ::: ty "CurrencyCollection" ].

(* tr_phase_compute_skipped$0 reason:ComputeSkipReason = TrComputePhase;
   tr_phase_compute_vm$1 success:Bool msg_state_used:Bool account_activated:Bool gas_fees:Grams
     ^[ gas_used:(VarUInteger 7) gas_limit:(VarUInteger 7) gas_credit:(Maybe (VarUInteger 3))
        mode:int8 exit_code:int32 exit_arg:(Maybe int32) vm_steps:uint32
        vm_init_state_hash:bits256 vm_final_state_hash:bits256 ] = TrComputePhase; *)
Definition spec_TrComputePhase : tlayout :=
  mkType TagBitwise
    [ mkCtor (bin "0") (tagged_obj "TrComputePhase" "skipped") [ "reason" ::: ty "ComputeSkipReason" ];
      mkCtor (bin "1") (tagged_obj "TrComputePhase" "vm")
        [ "success" ::: FBool; "msg_state_used" ::: FBool; "account_activated" ::: FBool;
          "gas_fees" ::: FCoins;
          IGroup [ ("gas_used", FVarUint 7); ("gas_limit", FVarUint 7); ("gas_credit", FMaybe (FVarUint 3));
                   ("mode", FInt 8); ("exit_code", FInt 32); ("exit_arg", FMaybe (FInt 32));
                   ("vm_steps", FUint 32); ("vm_init_state_hash", FBytes 32);
                   ("vm_final_state_hash", FBytes 32) ] ] ].

(* tr_phase_bounce_negfunds$00 = TrBouncePhase;
   tr_phase_bounce_nofunds$01 msg_size:StorageUsedShort req_fwd_fees:Grams = TrBouncePhase;
   tr_phase_bounce_ok$1 msg_size:StorageUsedShort msg_fees:Grams fwd_fees:Grams = TrBouncePhase; *)
Definition spec_TrBouncePhase : tlayout :=
  mkType TagBitwise
    [ mkCtor (bin "00") (tagged_obj "TrBouncePhase" "negfunds") [];
      mkCtor (bin "01") (tagged_obj "TrBouncePhase" "nofunds")
        [ "msg_size" ::: ty "StorageUsedShort"; "req_fwd_fees" ::: FCoins ];
      mkCtor (bin "1") (tagged_obj "TrBouncePhase" "ok")
        [ "msg_size" ::: ty "StorageUsedShort"; "msg_fees" ::: FCoins; "fwd_fees" ::: FCoins ] ].

(* tr_phase_action$_ success:Bool valid:Bool no_funds:Bool status_change:AccStatusChange
     total_fwd_fees:(Maybe Grams) total_action_fees:(Maybe Grams) result_code:int32
     result_arg:(Maybe int32) tot_actions:uint16 spec_actions:uint16 skipped_actions:uint16
     msgs_created:uint16 action_list_hash:bits256 tot_msg_size:StorageUsedShort = TrActionPhase; *)
Definition spec_TrActionPhase : tlayout :=
  record "TrActionPhase"
    [ "success" ::: FBool; "valid" ::: FBool; "no_funds" ::: FBool;
      "status_change" ::: ty "AccStatusChange";
      "total_fwd_fees" ::: FMaybe FCoins; "total_action_fees" ::: FMaybe FCoins;
      "result_code" ::: FInt 32; "result_arg" ::: FMaybe (FInt 32);
      "tot_actions" ::: FUint 16; "spec_actions" ::: FUint 16; "skipped_actions" ::: FUint 16;
      "msgs_created" ::: FUint 16; "action_list_hash" ::: FBytes 32;
      "tot_msg_size" ::: ty "StorageUsedShort" ].

(* ext_blk_ref$_ end_lt:uint64 seq_no:uint32 root_hash:bits256 file_hash:bits256 = ExtBlkRef; *)
Definition spec_ExtBlkRef : tlayout :=
  record "ExtBlkRef"
    [ "end_lt" ::: FUint 64; "seqno" ::: FUint 32; "root_hash" ::: FBytes 32; "file_hash" ::: FBytes 32 ].

(* master_info$_ master:ExtBlkRef = BlkMasterInfo; *)
Definition spec_BlkMasterInfo : tlayout :=
  record "BlkMasterInfo" [ "master" ::: ty "ExtBlkRef" ].

(* capabilities#c4 version:uint32 capabilities:uint64 = GlobalVersion; *)
Definition spec_GlobalVersion : tlayout :=
  mkType (TagChunk (CkBytes 1))
    [ mkCtor (hex "c4") (obj "GlobalVersion") [ "version" ::: FUint 32; "capabilities" ::: FUint 64 ] ].

(* shard_ident$00 shard_pfx_bits:(#<= 60) workchain_id:int32 shard_prefix:uint64 = ShardIdent; *)
Definition spec_ShardIdent : tlayout :=
  mkType (TagChunk (CkBits 2))
    [ mkCtor (bin "00") (obj "ShardIdent")
        [ "shard_pfx_bits" ::: FUintLe 60; "workchain_id" ::: FInt 32; "shard_prefix" ::: FUint 64 ] ].

(* fsm_none$0 = FutureSplitMerge;
   fsm_split$10 split_utime:uint32 interval:uint32 = FutureSplitMerge;
   fsm_merge$11 merge_utime:uint32 interval:uint32 = FutureSplitMerge; *)
Definition spec_FutureSplitMerge : tlayout :=
  mkType TagBitwise
    [ mkCtor (bin "0") RNone [];
      mkCtor (bin "10") (tagged_obj "FutureSplitMerge" "fsm_split")
        [ "split_utime" ::: FUint 32; "interval" ::: FUint 32 ];
      mkCtor (bin "11") (tagged_obj "FutureSplitMerge" "fsm_merge")
        [ "merge_utime" ::: FUint 32; "interval" ::: FUint 32 ] ].

(* split_merge_info$_ cur_shard_pfx_len:(## 6) acc_split_depth:(## 6) this_addr:bits256
     sibling_addr:bits256 = SplitMergeInfo; *)
Definition spec_SplitMergeInfo : tlayout :=
  record "SplitMergeInfo"
    [ "cur_shard_pfx_len" ::: FUint 6; "acc_split_depth" ::: FUint 6;
      "this_addr" ::: FBytesHex 32; "sibling_addr" ::: FBytesHex 32 ].

(* update_hashes#72 {X:Type} old_hash:bits256 new_hash:bits256 = HASH_UPDATE X; *)
Definition spec_HashUpdate : tlayout :=
  mkType (TagChunk (CkBytes 1))
    [ mkCtor (hex "72") (obj "HashUpdate") [ "old_hash" ::: FBytes 32; "new_hash" ::: FBytes 32 ] ].

(* interm_addr_regular$0 use_dest_bits:(#<= 96) = IntermediateAddress;
   interm_addr_simple$10 workchain_id:int8 addr_pfx:uint64 = IntermediateAddress;
   interm_addr_ext$11 workchain_id:int32 addr_pfx:uint64 = IntermediateAddress; *)
Definition spec_IntermediateAddress : tlayout :=
  mkType TagBitwise
    [ mkCtor (bin "0")
        (RObj "IntermediateAddress"
           [("addr_pfx", CNone); ("type_", CStr "interm_addr_regular"); ("workchain_id", CNone)])
        [ "use_dest_bits" ::: FUintLe 96 ];
      mkCtor (bin "10")
        (RObj "IntermediateAddress" [("type_", CStr "interm_addr_simple"); ("use_dest_bits", CNone)])
        [ "workchain_id" ::: FInt 8; "addr_pfx" ::: FUint 64 ];
      mkCtor (bin "11")
        (RObj "IntermediateAddress" [("type_", CStr "interm_addr_ext"); ("use_dest_bits", CNone)])
        [ "workchain_id" ::: FInt 32; "addr_pfx" ::: FUint 64 ] ].

(* (docstring of class MsgMetadata, tlb/transaction.py; the type is not in the shipped block.tlb)
   msg_metadata#0 depth:uint32 initiator_addr:MsgAddressInt initiator_lt:uint64 = MsgMetadata; *)
Definition spec_MsgMetadata : tlayout :=
  mkType (TagChunk (CkUint 4))
    [ mkCtor (hex "0") (obj "MsgMetadata")
        [ "depth" ::: FUint 32; "initiator_addr" ::: FAddrInt; "initiator_lt" ::: FUint 64 ] ].

(* int_msg_info$0 ihr_disabled:Bool bounce:Bool bounced:Bool src:MsgAddressInt dest:MsgAddressInt
     value:CurrencyCollection ihr_fee:Grams fwd_fee:Grams created_lt:uint64 created_at:uint32
     = CommonMsgInfo; *)
Definition spec_InternalMsgInfo : tlayout :=
  mkType TagBitwise
    [ mkCtor (bin "0") (obj "InternalMsgInfo")
        [ "ihr_disabled" ::: FBool; "bounce" ::: FBool; "bounced" ::: FBool;
          "src" ::: FAddrInt; "dest" ::: FAddrInt; "value" ::: ty "CurrencyCollection";
          "ihr_fee" ::: FCoins; "fwd_fee" ::: FCoins; "created_lt" ::: FUint 64; "created_at" ::: FUint 32 ] ].

(* ext_in_msg_info$10 src:MsgAddressExt dest:MsgAddressInt import_fee:Grams = CommonMsgInfo; *)
Definition spec_ExternalMsgInfo : tlayout :=
  mkType (TagChunk (CkBits 2))
    [ mkCtor (bin "10") (obj "ExternalMsgInfo")
        [ "src" ::: FAddrExt; "dest" ::: FAddrInt; "import_fee" ::: FCoins ] ].

(* ext_out_msg_info$11 src:MsgAddressInt dest:MsgAddressExt created_lt:uint64 created_at:uint32
     = CommonMsgInfo; *)
Definition spec_ExternalOutMsgInfo : tlayout :=
  mkType (TagChunk (CkBits 2))
    [ mkCtor (bin "11") (obj "ExternalOutMsgInfo")
        [ "src" ::: FAddrInt; "dest" ::: FAddrExt; "created_lt" ::: FUint 64; "created_at" ::: FUint 32 ] ].

(* _ split_depth:(Maybe (## 5)) special:(Maybe TickTock) code:(Maybe ^Cell) data:(Maybe ^Cell)
     library:(Maybe ^Cell) = StateInit; *)
Definition spec_StateInit : tlayout :=
  record "StateInit"
    [ "split_depth" ::: FMaybe (FUint 5); "special" ::: FMaybe (ty "TickTock");
      "code" ::: FMaybe FCell; "data" ::: FMaybe FCell; "library" ::: FMaybe FCell ].

(* ed25519_pubkey#8e81278a pubkey:bits256 = SigPubKey; *)
Definition spec_SigPubKey : tlayout :=
  mkType (TagChunk (CkBytes 4))
    [ mkCtor (hex "8e81278a") (obj "SigPubKey") [ "pubkey" ::: FBytes 32 ] ].

(* catchain_config#c1 mc_catchain_lifetime:uint32 shard_catchain_lifetime:uint32
     shard_validators_lifetime:uint32 shard_validators_num:uint32 = CatchainConfig;
   catchain_config_new#c2 flags:(## 7) { flags = 0 } shuffle_mc_validators:Bool
     mc_catchain_lifetime:uint32 shard_catchain_lifetime:uint32
     shard_validators_lifetime:uint32 shard_validators_num:uint32 = CatchainConfig; *)
Definition spec_CatchainConfig : tlayout :=
  mkType (TagChunk (CkBytes 1))
    [ mkCtor (hex "c1")
        (RObj "CatchainConfig" [("shuffle_mc_validators", CNone); ("type_", CStr "catchain_config")])
        [ "mc_catchain_lifetime" ::: FUint 32; "shard_catchain_lifetime" ::: FUint 32;
          "shard_validators_lifetime" ::: FUint 32; "shard_validators_num" ::: FUint 32 ];
      mkCtor (hex "c2") (tagged_obj "CatchainConfig" "catchain_config_new")
        [ IConst (CkUint 7) (bin "0000000"); "shuffle_mc_validators" ::: FBool;
          "mc_catchain_lifetime" ::: FUint 32; "shard_catchain_lifetime" ::: FUint 32;
          "shard_validators_lifetime" ::: FUint 32; "shard_validators_num" ::: FUint 32 ] ].

(* validator#53 public_key:SigPubKey weight:uint64 = ValidatorDescr;
   validator_addr#73 public_key:SigPubKey weight:uint64 adnl_addr:bits256 = ValidatorDescr; *)
Definition spec_ValidatorDescr : tlayout :=
  mkType (TagChunk (CkBytes 1))
    [ mkCtor (hex "53") (RObj "ValidatorDescr" [("adnl_addr", CNone); ("type_", CStr "validator")])
        [ "public_key" ::: ty "SigPubKey"; "weight" ::: FUint 64 ];
      mkCtor (hex "73") (tagged_obj "ValidatorDescr" "validator_addr")
        [ "public_key" ::: ty "SigPubKey"; "weight" ::: FUint 64; "adnl_addr" ::: FBytes 32 ] ].

(* ---- transaction descriptions: the classes parse what FOLLOWS the tag of TransactionDescr (the tag is
   consumed by TransactionDescr.deserialize, whose tree is not of the canonical shape: it loads 3 bits,
   then a 4th one in some branches only) ---- *)

(* trans_ord$0000 credit_first:Bool storage_ph:(Maybe TrStoragePhase) credit_ph:(Maybe TrCreditPhase)
     compute_ph:TrComputePhase action:(Maybe ^TrActionPhase) aborted:Bool bounce:(Maybe TrBouncePhase)
     destroyed:Bool = TransactionDescr; *)
Definition spec_TransactionOrdinary : tlayout :=
  mkType TagBitwise
    [ mkCtor [] (tagged_obj "TransactionOrdinary" "ordinary")
        [ "credit_first" ::: FBool; "storage_ph" ::: FMaybe (ty "TrStoragePhase");
          "credit_ph" ::: FMaybe (ty "TrCreditPhase"); "compute_ph" ::: ty "TrComputePhase";
          "action" ::: FMaybe (^"TrActionPhase"); "aborted" ::: FBool;
          "bounce" ::: FMaybe (ty "TrBouncePhase"); "destroyed" ::: FBool ] ].

(* trans_storage$0001 storage_ph:TrStoragePhase = TransactionDescr; *)
Definition spec_TransactionStorage : tlayout :=
  mkType TagBitwise
    [ mkCtor [] (tagged_obj "TransactionStorage" "storage") [ "storage_ph" ::: ty "TrStoragePhase" ] ].

(* trans_tick_tock$001 is_tock:Bool storage_ph:TrStoragePhase compute_ph:TrComputePhase
     action:(Maybe ^TrActionPhase) aborted:Bool destroyed:Bool = TransactionDescr; *)
Definition spec_TransactionTickTock : tlayout :=
  mkType TagBitwise
    [ mkCtor [] (tagged_obj "TransactionTickTock" "tick_tock")
        [ "is_tock" ::: FBool; "storage_ph" ::: ty "TrStoragePhase"; "compute_ph" ::: ty "TrComputePhase";
          "action" ::: FMaybe (^"TrActionPhase"); "aborted" ::: FBool; "destroyed" ::: FBool ] ].

(* trans_split_prepare$0100 split_info:SplitMergeInfo storage_ph:(Maybe TrStoragePhase)
     compute_ph:TrComputePhase action:(Maybe ^TrActionPhase) aborted:Bool destroyed:Bool
     = TransactionDescr; *)
Definition spec_TransactionSplitPrepare : tlayout :=
  mkType TagBitwise
    [ mkCtor [] (tagged_obj "TransactionSplitPrepare" "split_prepare")
        [ "split_info" ::: ty "SplitMergeInfo"; "storage_ph" ::: FMaybe (ty "TrStoragePhase");
          "compute_ph" ::: ty "TrComputePhase"; "action" ::: FMaybe (^"TrActionPhase");
          "aborted" ::: FBool; "destroyed" ::: FBool ] ].

(* trans_split_install$0101 split_info:SplitMergeInfo prepare_transaction:^Transaction installed:Bool
     = TransactionDescr; *)
Definition spec_TransactionSplitInstall : tlayout :=
  mkType TagBitwise
    [ mkCtor [] (tagged_obj "TransactionSplitInstall" "split_install")
        [ "split_info" ::: ty "SplitMergeInfo"; "prepare_transaction" ::: ^"Transaction";
          "installed" ::: FBool ] ].

(* trans_merge_prepare$0110 split_info:SplitMergeInfo storage_ph:TrStoragePhase aborted:Bool
     = TransactionDescr; *)
Definition spec_TransactionMergePrepare : tlayout :=
  mkType TagBitwise
    [ mkCtor [] (tagged_obj "TransactionMergePrepare" "merge_prepare")
        [ "split_info" ::: ty "SplitMergeInfo"; "storage_ph" ::: ty "TrStoragePhase"; "aborted" ::: FBool ] ].

(* trans_merge_install$0111 split_info:SplitMergeInfo prepare_transaction:^Transaction
     storage_ph:(Maybe TrStoragePhase) credit_ph:(Maybe TrCreditPhase) compute_ph:TrComputePhase
     action:(Maybe ^TrActionPhase) aborted:Bool destroyed:Bool = TransactionDescr; *)
Definition spec_TransactionMergeInstall : tlayout :=
  mkType TagBitwise
    [ mkCtor [] (tagged_obj "TransactionMergeInstall" "merge_install")
        [ "split_info" ::: ty "SplitMergeInfo"; "prepare_transaction" ::: ^"Transaction";
          "storage_ph" ::: FMaybe (ty "TrStoragePhase"); "credit_ph" ::: FMaybe (ty "TrCreditPhase");
          "compute_ph" ::: ty "TrComputePhase"; "action" ::: FMaybe (^"TrActionPhase");
          "aborted" ::: FBool; "destroyed" ::: FBool ] ].

(* ---- accounts ---- *)

(* account_uninit$00 = AccountState;
   account_active$1 _:StateInit = AccountState;
   account_frozen$01 state_hash:bits256 = AccountState; *)
Definition spec_AccountState : tlayout :=
  mkType TagBitwise
    [ mkCtor (bin "00") (tagged_obj "AccountState" "account_uninit") [];
      mkCtor (bin "1") (tagged_obj "AccountState" "account_active") [ "state_init" ::: ty "StateInit" ];
      mkCtor (bin "01") (tagged_obj "AccountState" "account_frozen") [ "state_hash" ::: FBytesHex 32 ] ].

(* account_storage$_ last_trans_lt:uint64 balance:CurrencyCollection state:AccountState
     = AccountStorage; *)
Definition spec_AccountStorage : tlayout :=
  record "AccountStorage"
    [ "last_trans_lt" ::: FUint 64; "balance" ::: ty "CurrencyCollection"; "state" ::: ty "AccountState" ].

(* account_none$0 = Account;
   account$1 addr:MsgAddressInt storage_stat:StorageInfo storage:AccountStorage = Account; *)
Definition spec_Account : tlayout :=
  mkType TagBitwise
    [ mkCtor (bin "0") RNone [];
      mkCtor (bin "1") (obj "Account")
        [ "addr" ::: FAddrInt; "storage_stat" ::: ty "StorageInfo"; "storage" ::: ty "AccountStorage" ] ].

(* depth_balance$_ split_depth:(#<= 30) balance:CurrencyCollection = DepthBalanceInfo; *)
Definition spec_DepthBalanceInfo : tlayout :=
  record "DepthBalanceInfo" [ "split_depth" ::: FUintLe 30; "balance" ::: ty "CurrencyCollection" ].

(* import_fees$_ fees_collected:Grams value_imported:CurrencyCollection = ImportFees; *)
Definition spec_ImportFees : tlayout :=
  record "ImportFees" [ "fees_collected" ::: FCoins; "value_imported" ::: ty "CurrencyCollection" ].

(* libref_hash$0 lib_hash:bits256 = LibRef;
   libref_ref$1 library:^Cell = LibRef; *)
Definition spec_LibRef : tlayout :=
  mkType TagBitwise
    [ mkCtor (bin "0") (RObj "LibRef" [("library", CNone); ("type_", CStr "libref_hash")])
        [ "lib_hash" ::: FBytes 32 ];
      mkCtor (bin "1") (RObj "LibRef" [("lib_hash", CNone); ("type_", CStr "libref_ref")])
        [ "library" ::: FCell ] ].

(* msg_envelope#4 cur_addr:IntermediateAddress next_addr:IntermediateAddress fwd_fee_remaining:Grams
     msg:^(Message Any) = MsgEnvelope;
   (docstring of class MsgEnvelope; not in the shipped block.tlb)
   msg_envelope_v2#5 cur_addr:IntermediateAddress next_addr:IntermediateAddress fwd_fee_remaining:Grams
     msg:^(Message Any) emitted_lt:(Maybe uint64) metadata:(Maybe MsgMetadata) = MsgEnvelope; *)
Definition spec_MsgEnvelope : tlayout :=
  mkType (TagChunk (CkUint 4))
    [ mkCtor (hex "4")
        (RObj "MsgEnvelope" [("emitted_lt", CNone); ("metadata", CNone); ("type_", CStr "msg_envelope")])
        [ "cur_addr" ::: ty "IntermediateAddress"; "next_addr" ::: ty "IntermediateAddress";
          "fwd_fee_remaining" ::: FCoins; "msg" ::: ^"MessageAny" ];
      mkCtor (hex "5") (tagged_obj "MsgEnvelope" "msg_envelope_v2")
        [ "cur_addr" ::: ty "IntermediateAddress"; "next_addr" ::: ty "IntermediateAddress";
          "fwd_fee_remaining" ::: FCoins; "msg" ::: ^"MessageAny";
          "emitted_lt" ::: FMaybe (FUint 64); "metadata" ::: FMaybe (ty "MsgMetadata") ] ].

(* ---- masterchain state ---- *)

(* validator_info$_ validator_list_hash_short:uint32 catchain_seqno:uint32 nx_cc_updated:Bool
     = ValidatorInfo; *)
Definition spec_ValidatorInfo : tlayout :=
  record "ValidatorInfo"
    [ "validator_list_hash_short" ::: FUint 32; "catchain_seqno" ::: FUint 32; "nx_cc_updated" ::: FBool ].

(* _ key:Bool max_end_lt:uint64 = KeyMaxLt; *)
Definition spec_KeyMaxLt : tlayout :=
  record "KeyMaxLt" [ "key" ::: FBool; "max_end_lt" ::: FUint 64 ].

(* _ key:Bool blk_ref:ExtBlkRef = KeyExtBlkRef; *)
Definition spec_KeyExtBlkRef : tlayout :=
  record "KeyExtBlkRef" [ "key" ::: FBool; "blk_ref" ::: ty "ExtBlkRef" ].

(* counters#_ last_updated:uint32 total:uint64 cnt2048:uint64 cnt65536:uint64 = Counters; *)
Definition spec_Counters : tlayout :=
  record "Counters"
    [ "last_updated" ::: FUint 32; "total" ::: FUint 64; "cnt2048" ::: FUint 64; "cnt65536" ::: FUint 64 ].

(* creator_info#4 mc_blocks:Counters shard_blocks:Counters = CreatorStats; *)
Definition spec_CreatorStats : tlayout :=
  mkType (TagChunk (CkUint 4))
    [ mkCtor (hex "4") (obj "CreatorStats")
        [ "mc_blocks" ::: ty "Counters"; "shard_blocks" ::: ty "Counters" ] ].

(* ---- configuration parameters ---- *)

(* _ mint_new_price:Grams mint_add_price:Grams = ConfigParam 6; *)
Definition spec_ConfigParam6 : tlayout :=
  record "ConfigParam6" [ "mint_new_price" ::: FCoins; "mint_add_price" ::: FCoins ].

(* _ to_mint:ExtraCurrencyCollection = ConfigParam 7; *)
Definition spec_ConfigParam7 : tlayout :=
  record "ConfigParam7" [ "to_mint" ::: ty "ExtraCurrencyCollection" ].

(* cfg_vote_cfg#36 min_tot_rounds:uint8 max_tot_rounds:uint8 min_wins:uint8 max_losses:uint8
     min_store_sec:uint32 max_store_sec:uint32 bit_price:uint32 cell_price:uint32
     = ConfigProposalSetup; *)
Definition spec_ConfigProposalSetup : tlayout :=
  mkType (TagChunk (CkBytes 1))
    [ mkCtor (hex "36") (obj "ConfigProposalSetup")
        [ "min_tot_rounds" ::: FUint 8; "max_tot_rounds" ::: FUint 8; "min_wins" ::: FUint 8;
          "max_losses" ::: FUint 8; "min_store_sec" ::: FUint 32; "max_store_sec" ::: FUint 32;
          "bit_price" ::: FUint 32; "cell_price" ::: FUint 32 ] ].

(* cfg_vote_setup#91 normal_params:^ConfigProposalSetup critical_params:^ConfigProposalSetup
     = ConfigVotingSetup; *)
Definition spec_ConfigVotingSetup : tlayout :=
  mkType (TagChunk (CkBytes 1))
    [ mkCtor (hex "91") (obj "ConfigVotingSetup")
        [ "normal_params" ::: ^"ConfigProposalSetup"; "critical_params" ::: ^"ConfigProposalSetup" ] ].

(* wfmt_basic#1 vm_version:int32 vm_mode:uint64 = WorkchainFormat 1; *)
Definition spec_WorkchainFormat_1 : tlayout :=
  mkType (TagChunk (CkUint 4))
    [ mkCtor (hex "1")
        (RObj "WorkchainFormat"
           [("addr_len_step", CNone); ("max_addr_len", CNone); ("min_addr_len", CNone);
            ("type_", CStr "wfmt_basic"); ("workchain_type_id", CNone)])
        [ "vm_version" ::: FInt 32; "vm_mode" ::: FUint 64 ] ].

(* wc_split_merge_timings#0 split_merge_delay:uint32 split_merge_interval:uint32
     min_split_merge_interval:uint32 max_split_merge_delay:uint32 = WcSplitMergeTimings; *)
Definition spec_WcSplitMergeTimings : tlayout :=
  mkType (TagChunk (CkUint 4))
    [ mkCtor (hex "0") (obj "WcSplitMergeTimings")
        [ "split_merge_delay" ::: FUint 32; "split_merge_interval" ::: FUint 32;
          "min_split_merge_interval" ::: FUint 32; "max_split_merge_delay" ::: FUint 32 ] ].

(* complaint_prices#1a deposit:Grams bit_price:Grams cell_price:Grams = ComplaintPricing; *)
Definition spec_ComplaintPricing : tlayout :=
  mkType (TagChunk (CkBytes 1))
    [ mkCtor (hex "1a") (obj "ComplaintPricing")
        [ "deposit" ::: FCoins; "bit_price" ::: FCoins; "cell_price" ::: FCoins ] ].

(* block_grams_created#6b masterchain_block_fee:Grams basechain_block_fee:Grams = BlockCreateFees; *)
Definition spec_BlockCreateFees : tlayout :=
  mkType (TagChunk (CkBytes 1))
    [ mkCtor (hex "6b") (obj "BlockCreateFees")
        [ "masterchain_block_fee" ::: FCoins; "basechain_block_fee" ::: FCoins ] ].

(* _ validators_elected_for:uint32 elections_start_before:uint32 elections_end_before:uint32
     stake_held_for:uint32 = ConfigParam 15; *)
Definition spec_ConfigParam15 : tlayout :=
  record "ConfigParam15"
    [ "validators_elected_for" ::: FUint 32; "elections_start_before" ::: FUint 32;
      "elections_end_before" ::: FUint 32; "stake_held_for" ::: FUint 32 ].

(* _ min_stake:Grams max_stake:Grams min_total_stake:Grams max_stake_factor:uint32 = ConfigParam 17; *)
Definition spec_ConfigParam17 : tlayout :=
  record "ConfigParam17"
    [ "min_stake" ::: FCoins; "max_stake" ::: FCoins; "min_total_stake" ::: FCoins;
      "max_stake_factor" ::: FUint 32 ].

(* _#cc utime_since:uint32 bit_price_ps:uint64 cell_price_ps:uint64 mc_bit_price_ps:uint64
     mc_cell_price_ps:uint64 = StoragePrices; *)
Definition spec_StoragePrices : tlayout :=
  mkType (TagChunk (CkBytes 1))
    [ mkCtor (hex "cc") (obj "StoragePrices")
        [ "utime_since" ::: FUint 32; "bit_price_ps" ::: FUint 64; "cell_price_ps" ::: FUint 64;
          "mc_bit_price_ps" ::: FUint 64; "mc_cell_price_ps" ::: FUint 64 ] ].

(* block_limits#5d bytes:ParamLimits gas:ParamLimits lt_delta:ParamLimits = BlockLimits; *)
Definition spec_BlockLimits : tlayout :=
  mkType (TagChunk (CkBytes 1))
    [ mkCtor (hex "5d") (obj "BlockLimits")
        [ "bytes" ::: ty "ParamLimits"; "gas" ::: ty "ParamLimits"; "lt_delta" ::: ty "ParamLimits" ] ].

(* msg_forward_prices#ea lump_price:uint64 bit_price:uint64 cell_price:uint64 ihr_price_factor:uint32
     first_frac:uint16 next_frac:uint16 = MsgForwardPrices; *)
Definition spec_MsgForwardPrices : tlayout :=
  mkType (TagChunk (CkBytes 1))
    [ mkCtor (hex "ea") (obj "MsgForwardPrices")
        [ "lump_price" ::: FUint 64; "bit_price" ::: FUint 64; "cell_price" ::: FUint 64;
          "ihr_price_factor" ::: FUint 32; "first_frac" ::: FUint 16; "next_frac" ::: FUint 16 ] ].

(* _ prev_validators:ValidatorSet = ConfigParam 32;      _ prev_temp_validators:ValidatorSet = ConfigParam 33;
   _ cur_validators:ValidatorSet = ConfigParam 34;       _ cur_temp_validators:ValidatorSet = ConfigParam 35;
   _ next_validators:ValidatorSet = ConfigParam 36;      _ next_temp_validators:ValidatorSet = ConfigParam 37; *)
Definition spec_ConfigParam32 : tlayout := record "ConfigParam32" [ "prev_validators" ::: ty "ValidatorSet" ].
Definition spec_ConfigParam33 : tlayout := record "ConfigParam33" [ "prev_temp_validators" ::: ty "ValidatorSet" ].
Definition spec_ConfigParam34 : tlayout := record "ConfigParam34" [ "cur_validators" ::: ty "ValidatorSet" ].
Definition spec_ConfigParam35 : tlayout := record "ConfigParam35" [ "cur_temp_validators" ::: ty "ValidatorSet" ].
Definition spec_ConfigParam36 : tlayout := record "ConfigParam36" [ "next_validators" ::: ty "ValidatorSet" ].
Definition spec_ConfigParam37 : tlayout := record "ConfigParam37" [ "next_temp_validators" ::: ty "ValidatorSet" ].

(* jetton_bridge_prices#_ bridge_burn_fee:Coins bridge_mint_fee:Coins wallet_min_tons_for_storage:Coins
     wallet_gas_consumption:Coins minter_min_tons_for_storage:Coins discover_gas_consumption:Coins
     = JettonBridgePrices; *)
Definition spec_JettonBridgePrices : tlayout :=
  record "JettonBridgePrices"
    [ "bridge_burn_fee" ::: FCoins; "bridge_mint_fee" ::: FCoins; "wallet_min_tons_for_storage" ::: FCoins;
      "wallet_gas_consumption" ::: FCoins; "minter_min_tons_for_storage" ::: FCoins;
      "discover_gas_consumption" ::: FCoins ].

(* ---- constraints, aliases, wrappers ---- *)
Local Notation "a '<=!' b" := (IGuard GLe (GName a) (GName b)) (at level 60).
Local Notation "a '>=!' b" := (IGuard GGe (GName a) (GName b)) (at level 60).
(* _ X = T: the parser returns what X's parser returns *)
Local Notation same_as T := (mkType TagBitwise [mkCtor [] RSame [ "_" ::: ty T ]]).

(* param_limits#c3 underload:# soft_limit:# { underload <= soft_limit }
     hard_limit:# { soft_limit <= hard_limit } = ParamLimits; *)
Definition spec_ParamLimits : tlayout :=
  mkType (TagChunk (CkBytes 1))
    [ mkCtor (hex "c3") (obj "ParamLimits")
        [ "underload" ::: FUint 32; "soft_limit" ::: FUint 32; "underload" <=! "soft_limit";
          "hard_limit" ::: FUint 32; "soft_limit" <=! "hard_limit" ] ].

(* _ max_validators:(## 16) max_main_validators:(## 16) min_validators:(## 16)
     { max_validators >= max_main_validators } { max_main_validators >= min_validators }
     { min_validators >= 1 } = ConfigParam 16; *)
Definition spec_ConfigParam16 : tlayout :=
  record "ConfigParam16"
    [ "max_validators" ::: FUint 16; "max_main_validators" ::: FUint 16; "min_validators" ::: FUint 16;
      "max_validators" >=! "max_main_validators"; "max_main_validators" >=! "min_validators";
      IGuard GGe (GName "min_validators") (GNum 1) ].

(* _ config_addr:bits256 = ConfigParam 0;          _ elector_addr:bits256 = ConfigParam 1;
   _ minter_addr:bits256 = ConfigParam 2;          _ fee_collector_addr:bits256 = ConfigParam 3;
   _ dns_root_addr:bits256 = ConfigParam 4;
   (the classes keep the address twice: as bytes and as <name>_hex) *)
Definition spec_ConfigParam0 : tlayout :=
  record "ConfigParam0" [ INamedHex "config_addr" "config_addr_hex" 32 ].
Definition spec_ConfigParam1 : tlayout :=
  record "ConfigParam1" [ INamedHex "elector_addr" "elector_addr_hex" 32 ].
Definition spec_ConfigParam2 : tlayout :=
  record "ConfigParam2" [ INamedHex "minter_addr" "minter_addr_hex" 32 ].
Definition spec_ConfigParam3 : tlayout :=
  record "ConfigParam3" [ INamedHex "fee_collector_addr" "fee_collector_addr_hex" 32 ].
Definition spec_ConfigParam4 : tlayout :=
  record "ConfigParam4" [ INamedHex "dns_root_addr" "dns_root_addr_hex" 32 ].

(* _ GlobalVersion = ConfigParam 8;                _ ConfigVotingSetup = ConfigParam 11;
   _ ComplaintPricing = ConfigParam 13;            _ BlockCreateFees = ConfigParam 14;
   config_mc_gas_prices#_ GasLimitsPrices = ConfigParam 20;
   config_gas_prices#_ GasLimitsPrices = ConfigParam 21;
   config_mc_block_limits#_ BlockLimits = ConfigParam 22;
   config_block_limits#_ BlockLimits = ConfigParam 23;
   config_mc_fwd_prices#_ MsgForwardPrices = ConfigParam 24;
   config_fwd_prices#_ MsgForwardPrices = ConfigParam 25;
   _ CatchainConfig = ConfigParam 28;              _ ConsensusConfig = ConfigParam 29;
   _ SuspendedAddressList = ConfigParam 44;
   _ OracleBridgeParams = ConfigParam 71;  _ OracleBridgeParams = ConfigParam 72;
   _ OracleBridgeParams = ConfigParam 73;
   _ JettonBridgeParams = ConfigParam 79;  _ JettonBridgeParams = ConfigParam 81;
   _ JettonBridgeParams = ConfigParam 82;
   The classes ConfigParamN(T) inherit T's deserialize (`return super().deserialize(cell_slice)`): the same tags
   and fields as T, and the object built is of class ConfigParamN (cls(...) in the parent's classmethod). *)
Definition as_class (cls : string) (L : tlayout) : tlayout :=
  mkLayout (t_mode L)
    (map (fun c => mkCtor (c_tag c) (match c_ret c with RObj _ consts => RObj cls consts | r => r end) (c_items c))
         (t_ctors L))
    (t_snap L) (t_special L).
Definition spec_ConfigParam8 : tlayout := as_class "ConfigParam8" spec_GlobalVersion.
Definition spec_ConfigParam11 : tlayout := as_class "ConfigParam11" spec_ConfigVotingSetup.
Definition spec_ConfigParam13 : tlayout := as_class "ConfigParam13" spec_ComplaintPricing.
Definition spec_ConfigParam14 : tlayout := as_class "ConfigParam14" spec_BlockCreateFees.
Definition spec_ConfigParam22 : tlayout := as_class "ConfigParam22" spec_BlockLimits.
Definition spec_ConfigParam23 : tlayout := as_class "ConfigParam23" spec_BlockLimits.
Definition spec_ConfigParam24 : tlayout := as_class "ConfigParam24" spec_MsgForwardPrices.
Definition spec_ConfigParam25 : tlayout := as_class "ConfigParam25" spec_MsgForwardPrices.
Definition spec_ConfigParam28 : tlayout := as_class "ConfigParam28" spec_CatchainConfig.
(* GasLimitsPrices and ConsensusConfig are not traced (no tree for ConfigParam 20, 21, 29): not in the table *)
Definition spec_ConfigParam20 : tlayout := same_as "GasLimitsPrices".
Definition spec_ConfigParam21 : tlayout := same_as "GasLimitsPrices".
Definition spec_ConfigParam29 : tlayout := same_as "ConsensusConfig".
(* _ workchains:(HashmapE 32 WorkchainDescr) = ConfigParam 12; *)
Definition spec_ConfigParam12 : tlayout :=
  record "ConfigParam12" [ "workchains" ::: FDict 32 (ty "WorkchainDescr") ].

(* _ fundamental_smc_addr:(HashmapE 256 True) = ConfigParam 31; *)
Definition spec_ConfigParam31 : tlayout :=
  record "ConfigParam31" [ "fundamental_smc_addr" ::: FDict 256 (FConst (CBool true)) ].

(* suspended_address_list#00 addresses:(HashmapE 288 Unit) suspended_until:uint32 = SuspendedAddressList; *)
Definition spec_SuspendedAddressList : tlayout :=
  mkType (TagChunk (CkBytes 1))
    [ mkCtor (hex "00") (obj "SuspendedAddressList")
        [ "addresses" ::: FDict 288 (FConst CNone); "suspended_until" ::: FUint 32 ] ].

(* oracle_bridge_params#_ bridge_address:bits256 oracle_mutlisig_address:bits256
     oracles:(HashmapE 256 uint256) external_chain_address:bits256 = OracleBridgeParams; *)
Definition spec_OracleBridgeParams : tlayout :=
  record "OracleBridgeParams"
    [ INamedHex "bridge_address" "bridge_address_hex" 32;
      INamedHex "oracle_mutlisig_address" "oracle_mutlisig_address_hex" 32;
      "oracles" ::: FDict 256 (FUint 256); "external_chain_address_hex" ::: FBytesHex 32 ].

(* jetton_bridge_params_v0#00 bridge_address:bits256 oracles_address:bits256
     oracles:(HashmapE 256 uint256) state_flags:uint8 burn_bridge_fee:Coins = JettonBridgeParams;
   jetton_bridge_params_v1#01 bridge_address:bits256 oracles_address:bits256
     oracles:(HashmapE 256 uint256) state_flags:uint8 prices:^JettonBridgePrices
     external_chain_address:bits256 = JettonBridgeParams;
   FINDING: for jetton_bridge_params_v1 the library does not read external_chain_address (the attribute is
   None and 256 bits are left in the slice): impl_JettonBridgeParams differs from the compilation of this
   layout. *)
Definition spec_JettonBridgeParams : tlayout :=
  mkType (TagChunk (CkBytes 1))
    [ mkCtor (hex "00")
        (RObj "JettonBridgeParams" [("external_chain_address", CNone); ("prices", CNone)])
        [ INamedHex "bridge_address" "bridge_address_hex" 32;
          INamedHex "oracles_address" "oracles_address_hex" 32;
          "oracles" ::: FDict 256 (FUint 256); "state_flags" ::: FUint 8; "burn_bridge_fee" ::: FCoins ];
      mkCtor (hex "01") (RObj "JettonBridgeParams" [("burn_bridge_fee", CNone)])
        [ INamedHex "bridge_address" "bridge_address_hex" 32;
          INamedHex "oracles_address" "oracles_address_hex" 32;
          "oracles" ::: FDict 256 (FUint 256); "state_flags" ::: FUint 8;
          "prices" ::: ^"JettonBridgePrices"; "external_chain_address" ::: FBytes 32 ] ].

(* ConfigParam 44, 71-73, 79, 81, 82 (see as_class above).  ConfigParam 79 / 81 / 82 inherit the FINDING of
   JettonBridgeParams (external_chain_address of jetton_bridge_params_v1 is not read): not in the table. *)
Definition spec_ConfigParam44 : tlayout := as_class "ConfigParam44" spec_SuspendedAddressList.
Definition spec_ConfigParam71 : tlayout := as_class "ConfigParam71" spec_OracleBridgeParams.
Definition spec_ConfigParam72 : tlayout := as_class "ConfigParam72" spec_OracleBridgeParams.
Definition spec_ConfigParam73 : tlayout := as_class "ConfigParam73" spec_OracleBridgeParams.
Definition spec_ConfigParam79 : tlayout := as_class "ConfigParam79" spec_JettonBridgeParams.
Definition spec_ConfigParam81 : tlayout := as_class "ConfigParam81" spec_JettonBridgeParams.
Definition spec_ConfigParam82 : tlayout := as_class "ConfigParam82" spec_JettonBridgeParams.

(* wfmt_ext#0 min_addr_len:(## 12) max_addr_len:(## 12) addr_len_step:(## 12)
     { min_addr_len >= 64 } { min_addr_len <= max_addr_len } { max_addr_len <= 1023 }
     { addr_len_step <= 1023 } workchain_type_id:(## 32) { workchain_type_id >= 1 } = WorkchainFormat 0;
   (the constraints are placed where the library checks them: after the last field; a constraint
   occupies no bits)
   FINDING: as for WorkchainFormat 1, the library accepts both tags #0 and #1. *)
Definition spec_WorkchainFormat_0 : tlayout :=
  mkType (TagChunk (CkUint 4))
    [ mkCtor (hex "0")
        (RObj "WorkchainFormat" [("type_", CStr "wfmt_ext"); ("vm_mode", CNone); ("vm_version", CNone)])
        [ "min_addr_len" ::: FUint 12; "max_addr_len" ::: FUint 12; "addr_len_step" ::: FUint 12;
          "workchain_type_id" ::: FUint 32;
          IGuard GGe (GName "min_addr_len") (GNum 64); "min_addr_len" <=! "max_addr_len";
          IGuard GLe (GName "max_addr_len") (GNum 1023); IGuard GLe (GName "addr_len_step") (GNum 1023);
          IGuard GGe (GName "workchain_type_id") (GNum 1) ] ].

(* ---- contract data (pytoniq_core/tlb/custom/*.py; the schema lines are the class docstrings) ---- *)

(* wallet_v3_data#_ seqno:uint32 wallet_id:uint32 public_key:bits256 = WalletV3Data; *)
Definition spec_WalletV3Data : tlayout :=
  record "WalletV3Data" [ "seqno" ::: FUint 32; "wallet_id" ::: FUint 32; "public_key" ::: FBytes 32 ].

(* wallet_v4_data#_ seqno:uint32 wallet_id:uint32 public_key:bits256 plugins:(Maybe ^Cell) = WalletV4Data; *)
Definition spec_WalletV4Data : tlayout :=
  record "WalletV4Data"
    [ "seqno" ::: FUint 32; "wallet_id" ::: FUint 32; "public_key" ::: FBytes 32; "plugins" ::: FMaybeCell ].

(* highload_wallet_data#_ wallet_id:uint32 last_cleaned:uint64 public_key:bits256
     old_queries:(HashmapE 64 WalletMessage) = HighloadWalletData; *)
Definition spec_HighloadWalletData : tlayout :=
  record "HighloadWalletData"
    [ "wallet_id" ::: FUint 32; "last_cleaned" ::: FUint 64; "public_key" ::: FBytes 32;
      "old_queries" ::: FDict 64 (ty "WalletMessage") ].

(* nft_item_data#_ index:uint64 collection_address:Address owner_address:Address content:^Cell
     = NftItemData; *)
Definition spec_NftItemData : tlayout :=
  record "NftItemData"
    [ "index" ::: FUint 64; "collection_address" ::: FAddr; "owner_address" ::: FAddr; "content" ::: FCell ].

(* nft_item_sale_fees#_ marketplace_fee_address:Address marketplace_fee:Grams royalty_address:Address
     royalty_amount:Grams = NftItemSaleFees; *)
Definition spec_NftItemSaleFees : tlayout :=
  record "NftItemSaleFees"
    [ "marketplace_fee_address" ::: FAddr; "marketplace_fee" ::: FCoins; "royalty_address" ::: FAddr;
      "royalty_amount" ::: FCoins ].

(* nft_item_sale_data#_ is_complete:bool created_at:uint32 marketplace_address:Address
     nft_address:Address nft_owner_address:Address full_price:grams fees_cell:^NftItemSaleFees
     can_deploy_by_external:bool = NftItemSaleData; *)
Definition spec_NftItemSaleData : tlayout :=
  record "NftItemSaleData"
    [ "is_complete" ::: FBool; "created_at" ::: FUint 32; "marketplace_address" ::: FAddr;
      "nft_address" ::: FAddr; "nft_owner_address" ::: FAddr; "full_price" ::: FCoins;
      "fees_cell" ::: ^"NftItemSaleFees"; "can_deploy_by_external" ::: FBool ].

(* ---- step 1: snapshot, inline Hashmap, dispatch, exotic-cell test ---- *)

(* account_descr$_ account:^Account last_trans_hash:bits256 last_trans_lt:uint64 = ShardAccount;
   (the object also keeps, as `cell`, the cell it was parsed from) *)
Definition spec_ShardAccount : tlayout :=
  mkLayout TagBitwise
    [ mkCtor [] (obj "ShardAccount")
        [ "account" ::: ^"Account"; "last_trans_hash" ::: FBytes 32; "last_trans_lt" ::: FUint 64 ] ]
    (Some "cell") SpNo.

(* validators#11 utime_since:uint32 utime_until:uint32 total:(## 16) main:(## 16) { main <= total }
     { main >= 1 } list:(Hashmap 16 ValidatorDescr) = ValidatorSet;
   validators_ext#12 utime_since:uint32 utime_until:uint32 total:(## 16) main:(## 16) { main <= total }
     { main >= 1 } total_weight:uint64 list:(HashmapE 16 ValidatorDescr) = ValidatorSet; *)
Definition spec_ValidatorSet : tlayout :=
  mkType (TagChunk (CkBytes 1))
    [ mkCtor (hex "11") (RObj "ValidatorSet" [("total_weight", CNone); ("type_", CStr "validators")])
        [ "utime_since" ::: FUint 32; "utime_until" ::: FUint 32; "total" ::: FUint 16; "main" ::: FUint 16;
          "main" <=! "total"; IGuard GGe (GName "main") (GNum 1);
          "list" ::: FHashmap 16 (ty "ValidatorDescr") ];
      mkCtor (hex "12") (tagged_obj "ValidatorSet" "validators_ext")
        [ "utime_since" ::: FUint 32; "utime_until" ::: FUint 32; "total" ::: FUint 16; "main" ::: FUint 16;
          "main" <=! "total"; IGuard GGe (GName "main") (GNum 1);
          "total_weight" ::: FUint 64; "list" ::: FDict 16 (ty "ValidatorDescr") ] ].

(* a constructor that stands for a type (the value is an object of that class) *)
Local Notation is_a t T := (mkCtor t (RSameCls T) [ "_" ::: ty T ]).

(* trans_ord$0000 ... = TransactionDescr;          trans_storage$0001 ... = TransactionDescr;
   trans_tick_tock$001 ... = TransactionDescr;     trans_split_prepare$0100 ... = TransactionDescr;
   trans_split_install$0101 ... = TransactionDescr; trans_merge_prepare$0110 ... = TransactionDescr;
   trans_merge_install$0111 ... = TransactionDescr;
   (the fields of each constructor: spec_TransactionOrdinary ... above; the tag is read as load_bits(3)
   then, unless it is 001, load_bit()) *)
Definition spec_TransactionDescr : tlayout :=
  mkType (TagChunks [(CkBits 3, true); (CkBit, true)])
    [ is_a (bin "0000") "TransactionOrdinary";
      is_a (bin "0001") "TransactionStorage";
      is_a (bin "001") "TransactionTickTock";
      is_a (bin "0100") "TransactionSplitPrepare";
      is_a (bin "0101") "TransactionSplitInstall";
      is_a (bin "0110") "TransactionMergePrepare";
      is_a (bin "0111") "TransactionMergeInstall" ].

(* value_flow#b8e48dfb ^[ from_prev_blk:CurrencyCollection to_next_blk:CurrencyCollection
     imported:CurrencyCollection exported:CurrencyCollection ] fees_collected:CurrencyCollection
     ^[ fees_imported:CurrencyCollection recovered:CurrencyCollection created:CurrencyCollection
        minted:CurrencyCollection ] = ValueFlow;
   value_flow_v2#3ebf98b7 ^[ from_prev_blk:CurrencyCollection to_next_blk:CurrencyCollection
     imported:CurrencyCollection exported:CurrencyCollection ] fees_collected:CurrencyCollection
     burned:CurrencyCollection
     ^[ fees_imported:CurrencyCollection recovered:CurrencyCollection created:CurrencyCollection
        minted:CurrencyCollection ] = ValueFlow;
   (deserialize returns None for an exotic cell)
   (repaired in the library: it used to load both references before reading fees_collected / burned, and so
   took the dictionary root of their extra currencies for the second group) *)
Local Notation cc := (ty "CurrencyCollection").
Definition spec_ValueFlow : tlayout :=
  mkLayout (TagChunk (CkBytes 4))
    [ mkCtor (hex "b8e48dfb") (tagged_obj "ValueFlow" "value_flow")
        [ IGroup [ ("from_prev_blk", cc); ("to_next_blk", cc); ("imported", cc); ("exported", cc) ];
          "fees_collected" ::: cc;
          IGroup [ ("fees_imported", cc); ("recovered", cc); ("created", cc); ("minted", cc) ] ];
      mkCtor (hex "3ebf98b7") (tagged_obj "ValueFlow" "value_flow_v2")
        [ IGroup [ ("from_prev_blk", cc); ("to_next_blk", cc); ("imported", cc); ("exported", cc) ];
          "fees_collected" ::: cc; "burned" ::: cc;
          IGroup [ ("fees_imported", cc); ("recovered", cc); ("created", cc); ("minted", cc) ] ] ]
    None SpNone.

(* ---- step 2: messages ---- *)

(* int_msg_info$0 ... = CommonMsgInfo;  ext_in_msg_info$10 ... = CommonMsgInfo;
   ext_out_msg_info$11 ... = CommonMsgInfo;
   (the fields of each constructor, and its tag: spec_InternalMsgInfo, spec_ExternalMsgInfo,
   spec_ExternalOutMsgInfo above; CommonMsgInfo.deserialize only looks at the tag: preload_bit(), then
   preload_bits(2), and hands the slice over) *)
Definition spec_CommonMsgInfo : tlayout :=
  mkType TagPeek
    [ is_a (bin "0") "InternalMsgInfo";
      is_a (bin "10") "ExternalMsgInfo";
      is_a (bin "11") "ExternalOutMsgInfo" ].

(* message$_ {X:Type} info:CommonMsgInfo init:(Maybe (Either StateInit ^StateInit))
     body:(Either X ^X) = Message X;
   _ (Message Any) = MessageAny;
   (X = Any inline: the body is what remains of the cell, kept as a cell) *)
Definition spec_MessageAny : tlayout :=
  record "MessageAny"
    [ "info" ::: ty "CommonMsgInfo";
      "init" ::: FMaybe (FEither (ty "StateInit") (^"StateInit"));
      "body" ::: FEither FRest FCell ].

(* ---- step 3: transactions, account blocks, inbound message descriptors ---- *)

(* transaction$0111 account_addr:bits256 lt:uint64 prev_trans_hash:bits256 prev_trans_lt:uint64 now:uint32
     outmsg_cnt:uint15 orig_status:AccountStatus end_status:AccountStatus
     ^[ in_msg:(Maybe ^(Message Any)) out_msgs:(HashmapE 15 ^(Message Any)) ]
     total_fees:CurrencyCollection state_update:^(HASH_UPDATE Account)
     description:^TransactionDescr = Transaction;
   (the object keeps the address twice, as bytes and as account_addr_hex; out_msgs as the list of the
   messages in key order; as `cell` the cell it was parsed from; for an exotic cell deserialize returns
   the cell itself) *)
Definition spec_Transaction : tlayout :=
  mkLayout (TagChunk (CkBits 4))
    [ mkCtor (bin "0111") (obj "Transaction")
        [ INamedHex "account_addr" "account_addr_hex" 32; "lt" ::: FUint 64;
          "prev_trans_hash" ::: FBytes 32; "prev_trans_lt" ::: FUint 64; "now" ::: FUint 32;
          "outmsg_cnt" ::: FUint 15;
          "orig_status" ::: ty "AccountStatus"; "end_status" ::: ty "AccountStatus";
          IGroup [ ("in_msg", FMaybe (^"MessageAny")); ("out_msgs", FDictVals 15 (^"MessageAny")) ];
          "total_fees" ::: cc; "state_update" ::: ^"HashUpdate"; "description" ::: ^"TransactionDescr" ] ]
    (Some "cell") SpCell.

(* acc_trans#5 account_addr:bits256 transactions:(HashmapAug 64 ^Transaction CurrencyCollection)
     state_update:^(HASH_UPDATE Account) = AccountBlock;
   (account_addr is kept as hex only; transactions as the pair (dict, extras) parse_hashmap_aug returns: the
   extras of ALL the nodes of the tree, in visiting order) *)
Definition spec_AccountBlock : tlayout :=
  mkType (TagChunk (CkUint 4))
    [ mkCtor (hex "5") (obj "AccountBlock")
        [ "account_addr" ::: FBytesHex 32; "transactions" ::: FAugDict 64 (^"Transaction") cc;
          "state_update" ::: ^"HashUpdate" ] ].

(* _ (HashmapAugE 256 ShardAccount DepthBalanceInfo) = ShardAccounts;
   (tree equality only.  ahme_empty$0 extra:Y / ahme_root$1 root:^(HashmapAug n X Y) extra:Y: load_hashmap_aug_e
   never reads the top-level extra:Y, and for ahme_empty returns ({}, [the slice]); no value is well typed) *)
Definition spec_ShardAccounts : tlayout :=
  mkType TagBitwise
    [ mkCtor [] RSame [ "_" ::: FAugDictE 256 (ty "ShardAccount") (ty "DepthBalanceInfo") ] ].

(* msg_import_ext$000 msg:^(Message Any) transaction:^Transaction = InMsg;
   msg_import_ihr$010 msg:^(Message Any) transaction:^Transaction ihr_fee:Grams proof_created:^Cell = InMsg;
   msg_import_imm$011 in_msg:^MsgEnvelope transaction:^Transaction fwd_fee:Grams = InMsg;
   msg_import_fin$100 in_msg:^MsgEnvelope transaction:^Transaction fwd_fee:Grams = InMsg;
   msg_import_tr$101  in_msg:^MsgEnvelope out_msg:^MsgEnvelope transit_fee:Grams = InMsg;
   msg_discard_fin$110 in_msg:^MsgEnvelope transaction_id:uint64 fwd_fee:Grams = InMsg;
   msg_discard_tr$111 in_msg:^MsgEnvelope transaction_id:uint64 fwd_fee:Grams proof_delivered:^Cell = InMsg;
   (docstring of class InMsg; not in the shipped block.tlb)
   msg_import_deferred_fin$00100 in_msg:^MsgEnvelope transaction:^Transaction fwd_fee:Grams = InMsg;
   msg_import_deferred_tr$00101 in_msg:^MsgEnvelope out_msg:^MsgEnvelope = InMsg;
   (the tag is read as load_bits(3) then, for 001, load_bits(2)) *)
Definition spec_InMsg : tlayout :=
  mkType (TagChunks [(CkBits 3, true); (CkBits 2, false)])
    [ mkCtor (bin "000") (RObj "InMsg" [("in_msg", CNone); ("type_", CStr "msg_import_ext")])
        [ "msg" ::: ^"MessageAny"; "transaction" ::: ^"Transaction" ];
      mkCtor (bin "010") (RObj "InMsg" [("in_msg", CNone); ("type_", CStr "msg_import_ihr")])
        [ "msg" ::: ^"MessageAny"; "transaction" ::: ^"Transaction"; "ihr_fee" ::: FCoins;
          "proof_created" ::: FCell ];
      mkCtor (bin "011") (RObj "InMsg" [("msg", CNone); ("type_", CStr "msg_import_imm")])
        [ "in_msg" ::: ^"MsgEnvelope"; "transaction" ::: ^"Transaction"; "fwd_fee" ::: FCoins ];
      mkCtor (bin "100") (RObj "InMsg" [("msg", CNone); ("type_", CStr "msg_import_fin")])
        [ "in_msg" ::: ^"MsgEnvelope"; "transaction" ::: ^"Transaction"; "fwd_fee" ::: FCoins ];
      mkCtor (bin "101") (RObj "InMsg" [("msg", CNone); ("transaction", CNone); ("type_", CStr "msg_import_tr")])
        [ "in_msg" ::: ^"MsgEnvelope"; "out_msg" ::: ^"MsgEnvelope"; "transit_fee" ::: FCoins ];
      mkCtor (bin "110") (RObj "InMsg" [("msg", CNone); ("transaction", CNone); ("type_", CStr "msg_discard_fin")])
        [ "in_msg" ::: ^"MsgEnvelope"; "transaction_id" ::: FUint 64; "fwd_fee" ::: FCoins ];
      mkCtor (bin "111") (RObj "InMsg" [("msg", CNone); ("transaction", CNone); ("type_", CStr "msg_discard_tr")])
        [ "in_msg" ::: ^"MsgEnvelope"; "transaction_id" ::: FUint 64; "fwd_fee" ::: FCoins;
          "proof_delivered" ::: FCell ];
      mkCtor (bin "00100") (RObj "InMsg" [("msg", CNone); ("type_", CStr "msg_import_deferred_fin")])
        [ "in_msg" ::: ^"MsgEnvelope"; "transaction" ::: ^"Transaction"; "fwd_fee" ::: FCoins ];
      mkCtor (bin "00101")
        (RObj "InMsg" [("msg", CNone); ("transaction", CNone); ("type_", CStr "msg_import_deferred_tr")])
        [ "in_msg" ::: ^"MsgEnvelope"; "out_msg" ::: ^"MsgEnvelope" ] ].

(* ---- block headers, shard descriptors, outbound message descriptors ---- *)

(* prev_blk_info$_ prev:ExtBlkRef = BlkPrevInfo 0;
   prev_blks_info$_ prev1:^ExtBlkRef prev2:^ExtBlkRef = BlkPrevInfo 1; *)
Definition spec_BlkPrevInfo_0 : tlayout :=
  mkType TagBitwise [ mkCtor [] (tagged_obj "BlkPrevInfo" "prev_blk_info") [ "prev" ::: ty "ExtBlkRef" ] ].
Definition spec_BlkPrevInfo_1 : tlayout :=
  mkType TagBitwise
    [ mkCtor [] (tagged_obj "BlkPrevInfo" "prev_blks_info") [ "prev1" ::: ^"ExtBlkRef"; "prev2" ::: ^"ExtBlkRef" ] ].

(* block_info#9bc7a987 version:uint32 not_master:(## 1) after_merge:(## 1) before_split:(## 1)
     after_split:(## 1) want_split:Bool want_merge:Bool key_block:Bool vert_seqno_incr:(## 1)
     flags:(## 8) { flags <= 1 } seq_no:# vert_seq_no:# { vert_seq_no >= vert_seqno_incr }
     { prev_seq_no:# } { ~prev_seq_no + 1 = seq_no }
     shard:ShardIdent gen_utime:uint32 start_lt:uint64 end_lt:uint64
     gen_validator_list_hash_short:uint32 gen_catchain_seqno:uint32 min_ref_mc_seqno:uint32
     prev_key_block_seqno:uint32 gen_software:flags . 0?GlobalVersion master_ref:not_master?^BlkMasterInfo
     prev_ref:^(BlkPrevInfo after_merge) prev_vert_ref:vert_seqno_incr?^(BlkPrevInfo 0) = BlockInfo;
   (the implicit prev_seq_no occupies no bits; the class names seq_no / vert_seq_no `seqno` / `vert_seqno`;
   deserialize returns None for an exotic cell) *)
Definition spec_BlockInfo : tlayout :=
  mkLayout (TagChunk (CkBytes 4))
    [ mkCtor (hex "9bc7a987") (obj "BlockInfo")
        [ "version" ::: FUint 32; "not_master" ::: FBit; "after_merge" ::: FBit; "before_split" ::: FBit;
          "after_split" ::: FBit; "want_split" ::: FBool; "want_merge" ::: FBool; "key_block" ::: FBool;
          "vert_seqno_incr" ::: FBit; "flags" ::: FUint 8; IGuard GLe (GName "flags") (GNum 1);
          "seqno" ::: FUint 32; "vert_seqno" ::: FUint 32; "vert_seqno" >=! "vert_seqno_incr";
          "shard" ::: ty "ShardIdent"; "gen_utime" ::: FUint 32; "start_lt" ::: FUint 64; "end_lt" ::: FUint 64;
          "gen_validator_list_hash_short" ::: FUint 32; "gen_catchain_seqno" ::: FUint 32;
          "min_ref_mc_seqno" ::: FUint 32; "prev_key_block_seqno" ::: FUint 32;
          ICond (CLowBit "flags" 8) "gen_software" (ty "GlobalVersion");
          ICond (CBit "not_master") "master_ref" (^"BlkMasterInfo");
          IRefParam "prev_ref" "BlkPrevInfo" "after_merge";
          ICond (CBit "vert_seqno_incr") "prev_vert_ref" (FRefType "BlkPrevInfo" [0%Z]) ] ]
    None SpNone.

(* shard_descr#b seq_no:uint32 reg_mc_seqno:uint32 start_lt:uint64 end_lt:uint64 root_hash:bits256
     file_hash:bits256 before_split:Bool before_merge:Bool want_split:Bool want_merge:Bool nx_cc_updated:Bool
     flags:(## 3) { flags = 0 } next_catchain_seqno:uint32 next_validator_shard:uint64 min_ref_mc_seqno:uint32
     gen_utime:uint32 split_merge_at:FutureSplitMerge fees_collected:CurrencyCollection
     funds_created:CurrencyCollection = ShardDescr;
   shard_descr_new#a (the same fields) ... split_merge_at:FutureSplitMerge
     ^[ fees_collected:CurrencyCollection funds_created:CurrencyCollection ] = ShardDescr;
   (the object does not record which constructor it comes from: RObjAlt, false = shard_descr, true =
   shard_descr_new; its attribute next_validator_shard_signed is computed from next_validator_shard and is not
   part of the traced object) *)
Local Notation shard_descr_common :=
  [ "seq_no" ::: FUint 32; "reg_mc_seqno" ::: FUint 32; "start_lt" ::: FUint 64; "end_lt" ::: FUint 64;
    "root_hash" ::: FBytes 32; "file_hash" ::: FBytes 32; "before_split" ::: FBool; "before_merge" ::: FBool;
    "want_split" ::: FBool; "want_merge" ::: FBool; "nx_cc_updated" ::: FBool;
    INamedConst "flags" (CkUint 3) (bin "000");
    "next_catchain_seqno" ::: FUint 32; "next_validator_shard" ::: FUint 64; "min_ref_mc_seqno" ::: FUint 32;
    "gen_utime" ::: FUint 32; "split_merge_at" ::: ty "FutureSplitMerge" ].
Definition spec_ShardDescr : tlayout :=
  mkType (TagChunk (CkBits 4))
    [ mkCtor (hex "b") (RObjAlt "ShardDescr" [] false)
        (shard_descr_common ++ [ "fees_collected" ::: cc; "funds_created" ::: cc ]);
      mkCtor (hex "a") (RObjAlt "ShardDescr" [] true)
        (shard_descr_common ++ [ IGroup [ ("fees_collected", cc); ("funds_created", cc) ] ]) ].

(* msg_export_ext$000 msg:^(Message Any) transaction:^Transaction = OutMsg;
   msg_export_imm$010 out_msg:^MsgEnvelope transaction:^Transaction reimport:^InMsg = OutMsg;
   msg_export_new$001 out_msg:^MsgEnvelope transaction:^Transaction = OutMsg;
   msg_export_tr$011  out_msg:^MsgEnvelope imported:^InMsg = OutMsg;
   msg_export_deq$1100 out_msg:^MsgEnvelope import_block_lt:uint63 = OutMsg;
   msg_export_deq_short$1101 msg_env_hash:bits256 next_workchain:int32 next_addr_pfx:uint64
     import_block_lt:uint64 = OutMsg;
   msg_export_tr_req$111 out_msg:^MsgEnvelope imported:^InMsg = OutMsg;
   msg_export_deq_imm$100 out_msg:^MsgEnvelope reimport:^InMsg = OutMsg;
   (docstring of class OutMsg; not in the shipped block.tlb)
   msg_export_new_defer$10100 out_msg:^MsgEnvelope transaction:^Transaction = OutMsg;
   msg_export_deferred_tr$10101 out_msg:^MsgEnvelope imported:^InMsg = OutMsg;
   (the tag is read as load_bits(3), then load_bit(), then, for 1010, load_bits(1); the library used to label
   msg_export_deq_short$1101 with type_ = "msg_export_deq": repaired) *)
Definition spec_OutMsg : tlayout :=
  mkType (TagChunks [(CkBits 3, true); (CkBit, true); (CkBits 1, false)])
    [ mkCtor (bin "000") (RObj "OutMsg" [("out_msg", CNone); ("type_", CStr "msg_export_ext")])
        [ "msg" ::: ^"MessageAny"; "transaction" ::: ^"Transaction" ];
      mkCtor (bin "010") (RObj "OutMsg" [("msg", CNone); ("type_", CStr "msg_export_imm")])
        [ "out_msg" ::: ^"MsgEnvelope"; "transaction" ::: ^"Transaction"; "reimport" ::: ^"InMsg" ];
      mkCtor (bin "001") (RObj "OutMsg" [("msg", CNone); ("type_", CStr "msg_export_new")])
        [ "out_msg" ::: ^"MsgEnvelope"; "transaction" ::: ^"Transaction" ];
      mkCtor (bin "011") (RObj "OutMsg" [("msg", CNone); ("transaction", CNone); ("type_", CStr "msg_export_tr")])
        [ "out_msg" ::: ^"MsgEnvelope"; "imported" ::: ^"InMsg" ];
      mkCtor (bin "1101")
        (RObj "OutMsg" [("msg", CNone); ("out_msg", CNone); ("transaction", CNone); ("type_", CStr "msg_export_deq_short")])
        [ "msg_env_hash" ::: FBytes 32; "next_workchain" ::: FInt 32; "next_addr_pfx" ::: FUint 64;
          "import_block_lt" ::: FUint 64 ];
      mkCtor (bin "1100") (RObj "OutMsg" [("msg", CNone); ("transaction", CNone); ("type_", CStr "msg_export_deq")])
        [ "out_msg" ::: ^"MsgEnvelope"; "import_block_lt" ::: FUint 63 ];
      mkCtor (bin "111") (RObj "OutMsg" [("msg", CNone); ("transaction", CNone); ("type_", CStr "msg_export_tr_req")])
        [ "out_msg" ::: ^"MsgEnvelope"; "imported" ::: ^"InMsg" ];
      mkCtor (bin "100") (RObj "OutMsg" [("msg", CNone); ("transaction", CNone); ("type_", CStr "msg_export_deq_imm")])
        [ "out_msg" ::: ^"MsgEnvelope"; "reimport" ::: ^"InMsg" ];
      mkCtor (bin "10100") (RObj "OutMsg" [("msg", CNone); ("type_", CStr "msg_export_new_defer")])
        [ "out_msg" ::: ^"MsgEnvelope"; "transaction" ::: ^"Transaction" ];
      mkCtor (bin "10101")
        (RObj "OutMsg" [("msg", CNone); ("transaction", CNone); ("type_", CStr "msg_export_deferred_tr")])
        [ "out_msg" ::: ^"MsgEnvelope"; "imported" ::: ^"InMsg" ] ].

(* ------------------------------------------------------------------------------------------------ *)
(* The table: every layout above whose generated tree equals its compilation (Proofs/TlbProofs.v).
   NOT in the table (findings: the generated tree differs from the compilation of the faithful layout):
   - spec_WorkchainFormat_0, spec_WorkchainFormat_1: the library accepts both tags #0 and #1 for either
     constructor (`if tag not in (0, 1)` in WorkchainFormat.deserialize);
   - spec_JettonBridgeParams, and with it spec_ConfigParam79 / 81 / 82: external_chain_address:bits256 of
     jetton_bridge_params_v1 is not read;
   - spec_ConfigParam20 / 21 / 29: their parent types are not traced;
   - spec_ShardAccounts (tree equal; the library does not read the top-level extra of a HashmapAugE). *)
Definition spec_table : stable :=
  [ ("AccStatusChange", [], spec_AccStatusChange);
    ("AccountStatus", [], spec_AccountStatus);
    ("ComputeSkipReason", [], spec_ComputeSkipReason);
    ("TickTock", [], spec_TickTock);
    ("ExtraCurrencyCollection", [], spec_ExtraCurrencyCollection);
    ("CurrencyCollection", [], spec_CurrencyCollection);
    ("StorageUsed", [], spec_StorageUsed);
    ("StorageUsedShort", [], spec_StorageUsedShort);
    ("StorageInfo", [], spec_StorageInfo);
    ("TrStoragePhase", [], spec_TrStoragePhase);
    ("TrCreditPhase", [], spec_TrCreditPhase);
    ("TrComputePhase", [], spec_TrComputePhase);
    ("TrBouncePhase", [], spec_TrBouncePhase);
    ("TrActionPhase", [], spec_TrActionPhase);
    ("ExtBlkRef", [], spec_ExtBlkRef);
    ("BlkMasterInfo", [], spec_BlkMasterInfo);
    ("GlobalVersion", [], spec_GlobalVersion);
    ("ShardIdent", [], spec_ShardIdent);
    ("FutureSplitMerge", [], spec_FutureSplitMerge);
    ("SplitMergeInfo", [], spec_SplitMergeInfo);
    ("HashUpdate", [], spec_HashUpdate);
    ("IntermediateAddress", [], spec_IntermediateAddress);
    ("MsgMetadata", [], spec_MsgMetadata);
    ("InternalMsgInfo", [], spec_InternalMsgInfo);
    ("ExternalMsgInfo", [], spec_ExternalMsgInfo);
    ("ExternalOutMsgInfo", [], spec_ExternalOutMsgInfo);
    ("StateInit", [], spec_StateInit);
    ("SigPubKey", [], spec_SigPubKey);
    ("CatchainConfig", [], spec_CatchainConfig);
    ("ValidatorDescr", [], spec_ValidatorDescr);
    ("TransactionOrdinary", [], spec_TransactionOrdinary);
    ("TransactionStorage", [], spec_TransactionStorage);
    ("TransactionTickTock", [], spec_TransactionTickTock);
    ("TransactionSplitPrepare", [], spec_TransactionSplitPrepare);
    ("TransactionSplitInstall", [], spec_TransactionSplitInstall);
    ("TransactionMergePrepare", [], spec_TransactionMergePrepare);
    ("TransactionMergeInstall", [], spec_TransactionMergeInstall);
    ("AccountState", [], spec_AccountState);
    ("AccountStorage", [], spec_AccountStorage);
    ("Account", [], spec_Account);
    ("DepthBalanceInfo", [], spec_DepthBalanceInfo);
    ("ImportFees", [], spec_ImportFees);
    ("LibRef", [], spec_LibRef);
    ("MsgEnvelope", [], spec_MsgEnvelope);
    ("ValidatorInfo", [], spec_ValidatorInfo);
    ("KeyMaxLt", [], spec_KeyMaxLt);
    ("KeyExtBlkRef", [], spec_KeyExtBlkRef);
    ("Counters", [], spec_Counters);
    ("CreatorStats", [], spec_CreatorStats);
    ("ConfigParam6", [], spec_ConfigParam6);
    ("ConfigParam7", [], spec_ConfigParam7);
    ("ConfigProposalSetup", [], spec_ConfigProposalSetup);
    ("ConfigVotingSetup", [], spec_ConfigVotingSetup);
    ("WcSplitMergeTimings", [], spec_WcSplitMergeTimings);
    ("ComplaintPricing", [], spec_ComplaintPricing);
    ("BlockCreateFees", [], spec_BlockCreateFees);
    ("ConfigParam15", [], spec_ConfigParam15);
    ("ConfigParam17", [], spec_ConfigParam17);
    ("StoragePrices", [], spec_StoragePrices);
    ("BlockLimits", [], spec_BlockLimits);
    ("MsgForwardPrices", [], spec_MsgForwardPrices);
    ("ConfigParam32", [], spec_ConfigParam32);
    ("ConfigParam33", [], spec_ConfigParam33);
    ("ConfigParam34", [], spec_ConfigParam34);
    ("ConfigParam35", [], spec_ConfigParam35);
    ("ConfigParam36", [], spec_ConfigParam36);
    ("ConfigParam37", [], spec_ConfigParam37);
    ("JettonBridgePrices", [], spec_JettonBridgePrices);
    ("ParamLimits", [], spec_ParamLimits);
    ("ConfigParam16", [], spec_ConfigParam16);
    ("ConfigParam0", [], spec_ConfigParam0);
    ("ConfigParam1", [], spec_ConfigParam1);
    ("ConfigParam2", [], spec_ConfigParam2);
    ("ConfigParam3", [], spec_ConfigParam3);
    ("ConfigParam4", [], spec_ConfigParam4);
    ("ConfigParam8", [], spec_ConfigParam8);
    ("ConfigParam11", [], spec_ConfigParam11);
    ("ConfigParam12", [], spec_ConfigParam12);
    ("ConfigParam13", [], spec_ConfigParam13);
    ("ConfigParam14", [], spec_ConfigParam14);
    ("ConfigParam22", [], spec_ConfigParam22);
    ("ConfigParam23", [], spec_ConfigParam23);
    ("ConfigParam24", [], spec_ConfigParam24);
    ("ConfigParam25", [], spec_ConfigParam25);
    ("ConfigParam28", [], spec_ConfigParam28);
    ("ConfigParam31", [], spec_ConfigParam31);
    ("ConfigParam44", [], spec_ConfigParam44);
    ("ConfigParam71", [], spec_ConfigParam71);
    ("ConfigParam72", [], spec_ConfigParam72);
    ("ConfigParam73", [], spec_ConfigParam73);
    ("SuspendedAddressList", [], spec_SuspendedAddressList);
    ("OracleBridgeParams", [], spec_OracleBridgeParams);
    ("WalletV3Data", [], spec_WalletV3Data);
    ("WalletV4Data", [], spec_WalletV4Data);
    ("HighloadWalletData", [], spec_HighloadWalletData);
    ("NftItemData", [], spec_NftItemData);
    ("NftItemSaleFees", [], spec_NftItemSaleFees);
    ("NftItemSaleData", [], spec_NftItemSaleData);
    ("ShardAccount", [], spec_ShardAccount);
    ("ValidatorSet", [], spec_ValidatorSet);
    ("TransactionDescr", [], spec_TransactionDescr);
    ("CommonMsgInfo", [], spec_CommonMsgInfo);
    ("MessageAny", [], spec_MessageAny);
    ("Transaction", [], spec_Transaction);
    ("InMsg", [], spec_InMsg);
    ("ValueFlow", [], spec_ValueFlow);
    ("AccountBlock", [], spec_AccountBlock);
    ("BlkPrevInfo", [0%Z], spec_BlkPrevInfo_0);
    ("BlkPrevInfo", [1%Z], spec_BlkPrevInfo_1);
    ("BlockInfo", [], spec_BlockInfo);
    ("ShardDescr", [], spec_ShardDescr);
    ("OutMsg", [], spec_OutMsg) ].
