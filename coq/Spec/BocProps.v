(* Vocabulary for the BoC theorems: sub-cells, collisions, corruptions. *)
From Coq Require Import NArith ZArith List Bool.
From PTQ Require Import Base.Result Base.Bytes Base.Bits Model.Cell Model.Boc Spec.BocFormat.
Import ListNotations.
Local Open Scope N_scope.

(* every cell object reachable from k, k included (with repetitions along different paths) *)
Fixpoint subcells (k : kcell) : list kcell :=
  let 'KCell _ _ refs _ _ _ := k in k :: flat_map subcells refs.

(* sub-trees of a tree *)
Fixpoint subtrees (t : cell) : list cell :=
  let 'Cell _ _ refs := t in t :: flat_map subtrees refs.

(* no two different sub-cells of k share a representation hash (the collision-free reading of
   "de-duplication by hash"); for SHA-256 a counterexample would be a collision *)
Definition no_collision (k : kcell) : Prop :=
  forall a b, In a (subcells k) -> In b (subcells k) -> k_hash a = k_hash b -> k_tree a = k_tree b.

(* what a tree must satisfy to be representable in a bag at all: at most 4 references per cell, and an
   exotic cell's declared type is the signed value of its first data byte (the wire format has no other
   place for the type) *)
Fixpoint boc_wf (t : cell) : bool :=
  let 'Cell ty bits refs := t in
  (length refs <=? 4)%nat &&
  ((ty =? -1)%Z || ((8 <=? length bits)%nat && (of_bits_signed (firstn 8 bits) =? ty)%Z)) &&
  forallb boc_wf refs.

(* flip bit i (counted from the most significant bit of byte 0) *)
Definition flip_bit (i : nat) (d : list N) : list N :=
  firstn (i / 8) d ++
  match skipn (i / 8) d with
  | [] => []
  | b :: r => N.lxor b (N.shiftl 1 (N.of_nat (7 - i mod 8))) :: r
  end.

(* the bag carries a CRC-32C: flag bit of the generic layout, or the crc32c legacy layout *)
Definition crc_protected (d : list N) : bool :=
  (bytes_eqb (firstn 4 d) boc_magic && N.testbit (nth 4 d 0) 6) || bytes_eqb (firstn 4 d) boc_magic_idx_crc.
