(* Reading of block.tlb for messages, independent of the serialisers of Model/Message.v:
     message$_ {X:Type} info:CommonMsgInfo init:(Maybe (Either StateInit ^StateInit)) body:(Either X ^X) = Message X;
     int_msg_info$0 ihr_disabled:Bool bounce:Bool bounced:Bool src:MsgAddressInt dest:MsgAddressInt
       value:CurrencyCollection ihr_fee:Grams fwd_fee:Grams created_lt:uint64 created_at:uint32 = CommonMsgInfo;
     ext_in_msg_info$10 src:MsgAddressExt dest:MsgAddressInt import_fee:Grams = CommonMsgInfo;
     ext_out_msg_info$11 src:MsgAddressInt dest:MsgAddressExt created_lt:uint64 created_at:uint32 = CommonMsgInfo;
     currencies$_ grams:Grams other:ExtraCurrencyCollection = CurrencyCollection;
     extra_currencies$_ dict:(HashmapE 32 (VarUInteger 32)) = ExtraCurrencyCollection;
     _ split_depth:(Maybe (## 5)) special:(Maybe TickTock) code:(Maybe ^Cell) data:(Maybe ^Cell)
       library:(Maybe ^Cell) = StateInit;     tick_tock$_ tick:Bool tock:Bool = TickTock;
     update_hashes#72 {X:Type} old_hash:bits256 new_hash:bits256 = HASH_UPDATE X;
   The primitive readers (uint, Grams, MsgAddress, HashmapE) are those of Model/Builder.v and Model/Hashmap.v,
   whose agreement with the TL-B encodings is C06 / C09. *)
From Coq Require Import NArith ZArith List Bool.
From PTQ Require Import Base.Result Base.Bytes Base.Bits Model.Cell Spec.CellRepr Model.Builder Model.Hashmap Model.Message Spec.TlbPrim.
Import ListNotations.
Local Open Scope Z_scope.

Definition s_dec_extra (s : slice) : result (extra_currencies * slice) :=
  bind (s_load_dict s 32) (fun '(ol, s') =>
  match ol with
  | None => Ok ([], s')
  | Some leaves =>
      bind (mapM (fun '(k, ls) => rmap (fun '(v, _) => (Z.of_N (of_bits k), v)) (s_load_var_uint ls 5)) leaves)
           (fun kvs => Ok (kvs, s'))
  end).

Definition s_dec_currency (s : slice) : result (Z * extra_currencies * slice) :=
  bind (s_load_coins s) (fun '(g, s1) => bind (s_dec_extra s1) (fun '(ec, s2) => Ok (g, ec, s2))).

Definition s_dec_info (s : slice) : result (msg_info * slice) :=
  bind (s_load_bit s) (fun '(t0, s0) =>
  if negb t0 then
    bind (s_load_bit s0) (fun '(d, s1) => bind (s_load_bit s1) (fun '(b, s2) => bind (s_load_bit s2) (fun '(bd, s3) =>
    bind (s_load_address s3) (fun '(src, s4) => bind (s_load_address s4) (fun '(dst, s5) =>
    bind (s_dec_currency s5) (fun '(g, ec, s6) =>
    bind (s_load_coins s6) (fun '(ihr, s7) => bind (s_load_coins s7) (fun '(fwd, s8) =>
    bind (s_load_uint s8 64) (fun '(lt, s9) => bind (s_load_uint s9 32) (fun '(at_, s10) =>
    Ok (IntInfo d b bd src dst g ec ihr fwd lt at_, s10)))))))))))
  else
    bind (s_load_bit s0) (fun '(t1, s1) =>
    if negb t1 then
      bind (s_load_address s1) (fun '(src, s2) => bind (s_load_address s2) (fun '(dst, s3) =>
      bind (s_load_coins s3) (fun '(fee, s4) => Ok (ExtInInfo src dst fee, s4))))
    else
      bind (s_load_address s1) (fun '(src, s2) => bind (s_load_address s2) (fun '(dst, s3) =>
      bind (s_load_uint s3 64) (fun '(lt, s4) => bind (s_load_uint s4 32) (fun '(at_, s5) =>
      Ok (ExtOutInfo src dst lt at_, s5))))))).

Definition s_dec_maybe {A} (f : slice -> result (A * slice)) (s : slice) : result (option A * slice) :=
  bind (s_load_bit s) (fun '(p, s1) => if p then rmap (fun '(a, s2) => (Some a, s2)) (f s1) else Ok (None, s1)).

Definition s_dec_state_init (s : slice) : result (state_init * slice) :=
  bind (s_dec_maybe (fun x => s_load_uint x 5) s) (fun '(sd, s1) =>
  bind (s_dec_maybe (fun x => bind (s_load_bit x) (fun '(a, x1) => bind (s_load_bit x1) (fun '(b, x2) => Ok ((a, b), x2)))) s1)
       (fun '(sp, s2) =>
  bind (s_load_maybe_ref s2) (fun '(co, s3) =>
  bind (s_load_maybe_ref s3) (fun '(da, s4) =>
  bind (s_load_maybe_ref s4) (fun '(li, s5) => Ok (mkSI sd sp co da li, s5)))))).

(* Message X with X = Cell: the body is whatever remains (inline) or the referenced cell *)
Definition s_dec_message (c : cell) : result (msg_info * option state_init * cell) :=
  bind (s_dec_info (begin_parse c)) (fun '(info, s1) =>
  bind (s_load_bit s1) (fun '(has_init, s2) =>
  bind (if has_init then
          bind (s_load_bit s2) (fun '(by_ref, s3) =>
          if by_ref then
            bind (s_load_ref s3) (fun '(ic, s4) =>
            bind (s_dec_state_init (begin_parse ic)) (fun '(si, _) => Ok (Some si, s4)))
          else rmap (fun '(si, s4) => (Some si, s4)) (s_dec_state_init s3))
        else Ok (None, s2)) (fun '(init, s5) =>
  bind (s_load_bit s5) (fun '(body_ref, s6) =>
  if body_ref then bind (s_load_ref s6) (fun '(b, _) => Ok (info, init, b))
  else Ok (info, init, Cell ty_ordinary (s_bits s6) (s_refs s6)))))).

Definition s_dec_hash_update (c : cell) : result (list N * list N) :=
  bind (s_load_bytes (begin_parse c) 1) (fun '(tag, s1) =>
  match tag with
  | [0x72%N] => bind (s_load_bytes s1 32) (fun '(o, s2) => bind (s_load_bytes s2 32) (fun '(n, _) => Ok (o, n)))
  | _ => Err EOther
  end).

(* which messages are encodable at all *)
Definition coins_ok (v : Z) : bool := (0 <=? v) && (v <? 2 ^ 120).
Definition info_ok (i : msg_info) : bool :=
  match i with
  | IntInfo _ _ _ src dst g ec ihr fwd lt at_ =>
      addr_ok src && addr_ok dst && coins_ok g && coins_ok ihr && coins_ok fwd &&
      (0 <=? lt) && (lt <? 2 ^ 64) && (0 <=? at_) && (at_ <? 2 ^ 32) &&
      forallb (fun kv => (0 <=? fst kv) && (fst kv <? 2 ^ 32) && (0 <=? snd kv) && (snd kv <? 2 ^ 248)) ec
  | ExtInInfo src dst fee => addr_ok src && addr_ok dst && coins_ok fee
  | ExtOutInfo src dst lt at_ =>
      addr_ok src && addr_ok dst && (0 <=? lt) && (lt <? 2 ^ 64) && (0 <=? at_) && (at_ <? 2 ^ 32)
  end.
Definition cell_ok (c : cell) : bool :=
  let 'Cell ty bits refs := c in (ty =? ty_ordinary) && (length bits <=? 1023)%nat && (length refs <=? 4)%nat.
Definition init_ok (si : state_init) : bool :=
  match si_split_depth si with Some d => (0 <=? d) && (d <? 32) | None => true end.

(* extra currencies in canonical order: strictly ascending ids (what a parser returns) *)
Fixpoint ec_sorted (ec : extra_currencies) : bool :=
  match ec with
  | [] => true
  | (k, _) :: r => match r with [] => true | (k', _) :: _ => (k <? k') && ec_sorted r end
  end.
Definition info_canon (i : msg_info) : bool :=
  match i with IntInfo _ _ _ _ _ _ ec _ _ _ _ => ec_sorted ec | _ => true end.
Definition opt_depth_ok (oc : option cell) : bool :=
  match oc with Some c => (s_depth c <? 1022)%N | None => true end.
