(* A declarative layout language for TL-B types: the independent reading of block.tlb.
   - a layout says, constructor by constructor, which tag bits and which fields follow each other;
   - [encode] turns a Python value (Model.Dtree.pv) into the bits and references block.tlb prescribes for
     it, using the bit-level encodings of Spec/TlbPrim.v and Spec/TlbVal.v and, for dictionaries, the
     canonical Hashmap tree of Spec/Hashmap.v only;
   - [wt] says which values a layout admits;
   - [compile] turns a layout into the canonical decision tree of slice operations, in exactly the shape
     tools/trace_tlb.py reports for the library's hand-written `deserialize` methods.
   Beyond plain records and tagged unions the language has: Either X Y fields (the encoder is told by a
   choice function ch which alternative to use), X = Any inline (FRest: the rest of the cell, kept as a
   cell), dictionaries inline (FHashmap) or kept as the list of their values (FDictVals), the snapshot
   attribute (t_snap: the object keeps the cell it was parsed from), the exotic-cell test (t_special), tags
   read in pieces (TagChunks) or only looked at (TagPeek).  A value may depend on what FOLLOWS it in its cell (FRest, t_snap): [wt] takes that tail as a
   context (ctx).
   Definitions only.  The theorem relating them is Proofs/TlbProofs.v (compile_correct). *)
From Coq Require Import NArith ZArith List Bool String Ascii.
From PTQ Require Import Base.Result Base.Bytes Base.Bits Model.Cell Model.Builder Model.Hashmap Model.Dtree
  Spec.TlbPrim Spec.TlbVal Spec.Hashmap.
Import ListNotations.
Local Open Scope Z_scope.

(* ------------------------------------------------------------------------------------------------ *)
(* Layouts                                                                                           *)
(* ------------------------------------------------------------------------------------------------ *)

(* constant attributes the Python constructor call receives (type_="vm", exit_arg=None, ...) *)
Inductive cval := CStr (s : string) | CNone | CBool (b : bool) | CInt (z : Z).

Inductive fty :=
| FUint (n : nat)                       (* uintN, (## N) *)
| FUintLe (m : nat)                     (* (#<= m): bit_length(m) bits, value <= m *)
| FUintLt (m : nat)                     (* (#< m): bit_length(m-1) bits, value < m *)
| FInt (n : nat)                        (* intN *)
| FBool                                 (* Bool, read with load_bool *)
| FBit                                  (* (## 1) / Bool, read with load_bit *)
| FBits (n : nat)                       (* bitsN kept as a bit string *)
| FBytes (n : nat)                      (* bits(8n) kept as bytes *)
| FBytesHex (n : nat)                   (* bits(8n) kept as bytes.hex() *)
| FCoins                                (* Grams = VarUInteger 16 *)
| FVarUint (m : nat)                    (* VarUInteger m *)
| FVarInt (m : nat)                     (* VarInteger m *)
| FAddr                                 (* MsgAddress *)
| FAddrInt                              (* MsgAddressInt (addr_std only: addr_var is not representable) *)
| FAddrExt                              (* MsgAddressExt *)
| FCell                                 (* ^Cell, load_ref *)
| FMaybeCell                            (* Maybe ^Cell, load_maybe_ref *)
| FType (T : string) (args : list Z)    (* nested type, parsed inline *)
| FRefType (T : string) (args : list Z) (* ^T *)
| FMaybe (f : fty)                      (* Maybe X: presence bit (load_bit), then X *)
| FDict (n : nat) (v : fty)             (* HashmapE n V, load_dict: None when empty, else a dict *)
| FConst (c : cval)                     (* no bits: True, Unit (dictionary values) *)
| FEither (l r : fty)                   (* Either X Y: a bit (load_bit), then X (0) or Y (1); both kept under the
                                           same attribute, so the encoder is told which one to use (choice) *)
| FRest                                 (* X = Any, inline: what remains of the cell, kept as a cell (to_cell);
                                           nothing is consumed: the value IS what follows *)
| FHashmap (n : nat) (v : fty)          (* Hashmap n V, inline (never empty), HashMap.parse on the slice itself *)
| FDictVals (n : nat) (v : fty)         (* HashmapE n V kept as the list of its values in key order
                                           (sorted(dict.items())); [] when empty; keys 0 .. len-1 *)
| FAugDict (n : nat) (v x : fty)        (* HashmapAug n V X, inline (never empty), load_hashmap_aug: the pair
                                           (dict, extras): the extras of all nodes in the order parse_aug
                                           visits them (left subtree, right subtree, the fork itself) *)
| FAugDictE (n : nat) (v x : fty).      (* HashmapAugE n V X, load_hashmap_aug_e: compiled only; no value is well
                                           typed (the library never reads the top-level extra:Y) *)

(* how a run of constant bits is read before it is compared *)
Inductive chunk := CkBits (n : nat) | CkUint (n : nat) | CkBytes (k : nat) | CkBit.
(* how the constructor tag is read:
   - TagBitwise: one load_bit per tested bit;
   - TagChunk c: the whole tag at once;
   - TagChunks cs: in several pieces (load_bits(3) then load_bit(), load_bits(3) then load_bits(2)).  A piece
     flagged true is loaded as soon as no remaining constructor can be recognised without it (the code loads
     it before it compares anything, even for tags that will be rejected); a piece flagged false only once
     all the bits loaded before it have been looked at;
   - TagPeek: the tag is only looked at (preload_bits) and left to the parser of the type the
     constructor stands for (_ X = T with the tag of X written in front), constructor after constructor,
     the last one being the default. *)
Inductive tagmode := TagBitwise | TagChunk (c : chunk) | TagChunks (cs : list (chunk * bool)) | TagPeek.
(* what deserialize does with an exotic (pruned) cell before anything is read *)
Inductive special := SpNo | SpNone (* returns None *) | SpCell (* returns the cell *).

(* operands of a constraint { a <= b }: an integer field bound earlier in the constructor, or a literal *)
Inductive gref := GName (nm : string) | GNum (z : Z).

(* conditions of conditional fields: `b?` on a one-bit field, `x . 0?` on the lowest bit of a w-bit field *)
Inductive cond := CBit (src : string) | CLowBit (src : string) (w : nat).

Inductive item :=
| INamed (nm : string) (f : fty)
| IGroup (fs : list (string * fty))              (* ^[ fields ] *)
| IConst (c : chunk) (bits : list bool)          (* x:(## n) { x = const }: read, checked, not kept *)
| INamedHex (nm hexnm : string) (n : nat)        (* bits(8n) kept twice: as bytes and as bytes.hex() *)
| IGuard (op : gop) (a b : gref)                 (* { a op b }: no bits, checked *)
| ICond (c : cond) (nm : string) (f : fty)       (* nm:(c ? X): present when the condition on an earlier field holds,
                                                    else None *)
| IRefParam (nm T src : string)                  (* nm:^(T src): the type parameter is an earlier one-bit field *)
| INamedConst (nm : string) (c : chunk) (bits : list bool).   (* x:(## n) { x = const }, kept as an attribute *)

Inductive cret :=
| RObj (cls : string) (consts : list (string * cval))
| RNone                                          (* the constructor is represented by None *)
| RSame                                          (* _ X = T: the value of the only field is returned *)
| RSameCls (cls : string)                        (* the same, for a type with several such constructors: this one
                                                    is the constructor of the values of class cls *)
| RObjAlt (cls : string) (consts : list (string * cval)) (alt : bool).
                                                 (* an object that does not record which constructor built it: the
                                                    encoder is told (the choice function, as for Either) *)

Record ctor := mkCtor { c_tag : list bool; c_ret : cret; c_items : list item }.
(* t_snap: the attribute under which the object keeps the cell it was parsed from (cell_slice.to_cell()
   taken before anything is read) *)
Record tlayout := mkLayout { t_mode : tagmode; t_ctors : list ctor; t_snap : option string; t_special : special }.
Definition mkType (m : tagmode) (cs : list ctor) : tlayout := mkLayout m cs None SpNo.

Definition stable := list (string * list Z * tlayout).
Fixpoint slookup (t : stable) (name : string) (args : list Z) : option tlayout :=
  match t with
  | [] => None
  | (n, a, d) :: r =>
      if (String.eqb n name && (List.length a =? List.length args)%nat
          && forallb (fun p => Z.eqb (fst p) (snd p)) (combine a args))%bool
      then Some d else slookup r name args
  end.

(* tags as they are written in block.tlb: $0111 -> bin "0111", #c4 -> hex "c4" *)
Fixpoint bin (s : string) : list bool :=
  match s with
  | EmptyString => []
  | String c r => Ascii.eqb c "1"%char :: bin r
  end.
Definition hexv (c : ascii) : N :=
  let n := N_of_ascii c in if (n <? 58)%N then (n - 48)%N else (n - 87)%N.
Fixpoint hex (s : string) : list bool :=
  match s with
  | EmptyString => []
  | String c r => to_bits 4 (hexv c) ++ hex r
  end.

(* bit_length *)
Definition bitlen (m : Z) : nat := if m <=? 0 then 0%nat else Z.to_nat (Z.log2 m + 1).
Definition le_bits (m : nat) : nat := bitlen (Z.of_nat m).          (* width of (#<= m) *)
Definition lt_bits (m : nat) : nat := bitlen (Z.of_nat m - 1).      (* width of (#< m) *)

(* ------------------------------------------------------------------------------------------------ *)
(* Values                                                                                            *)
(* ------------------------------------------------------------------------------------------------ *)

Fixpoint assoc (nm : string) (l : list (string * pv)) : pv :=
  match l with
  | [] => PNone
  | (k, v) :: r => if String.eqb k nm then v else assoc nm r
  end.
(* getattr(v, nm) *)
Definition field_of (v : pv) (nm : string) : pv :=
  match v with PObj _ fs => assoc nm fs | _ => PNone end.

Definition cval_pv (c : cval) : pv :=
  match c with CStr s => PStr s | CNone => PNone | CBool b => PBool b | CInt z => PInt z end.
Definition cval_expr (c : cval) : dexpr :=
  match c with CStr s => EConstStr s | CNone => ENone | CBool b => EConstBool b | CInt z => EConstInt z end.
Definition cval_matchb (c : cval) (v : pv) : bool :=
  match c, v with
  | CStr s, PStr s' => String.eqb s s'
  | CNone, PNone => true
  | CBool b, PBool b' => Bool.eqb b b'
  | CInt z, PInt z' => Z.eqb z z'
  | _, _ => false
  end.

(* attribute dictionaries are compared in name order (sorted(vars(obj).items())) *)
Fixpoint insert_by_name {A} (p : string * A) (l : list (string * A)) : list (string * A) :=
  match l with
  | [] => [p]
  | q :: r => if String.leb (fst p) (fst q) then p :: q :: r else q :: insert_by_name p r
  end.
Fixpoint sort_by_name {A} (l : list (string * A)) : list (string * A) :=
  match l with [] => [] | p :: r => insert_by_name p (sort_by_name r) end.
Definition sort_names (l : list string) : list string :=
  map fst (sort_by_name (map (fun n => (n, tt)) l)).

Definition item_names (it : item) : list string :=
  match it with
  | INamed nm _ => [nm]
  | IGroup fs => map fst fs
  | IConst _ _ => []
  | INamedHex nm hexnm _ => [nm; hexnm]
  | IGuard _ _ _ => []
  | ICond _ nm _ | IRefParam nm _ _ | INamedConst nm _ _ => [nm]
  end.
Definition items_names (its : list item) : list string := flat_map item_names its.
Definition snap_names (snap : option string) : list string := match snap with Some nm => [nm] | None => [] end.
Definition ctor_names (consts : list (string * cval)) (snap : option string) (its : list item) : list string :=
  sort_names (map fst consts ++ snap_names snap ++ items_names its).

(* which constructor a value belongs to: class name and constant attributes *)
Definition ctor_matches (ch : pv -> bool) (c : ctor) (v : pv) : bool :=
  match c_ret c, v with
  | RNone, PNone => true
  | RObj cls consts, PObj cls' fs =>
      String.eqb cls cls' && forallb (fun '(nm, cv) => cval_matchb cv (assoc nm fs)) consts
  | RObjAlt cls consts alt, PObj cls' fs =>
      String.eqb cls cls' && forallb (fun '(nm, cv) => cval_matchb cv (assoc nm fs)) consts
      && Bool.eqb (ch v) alt
  | RSame, _ => true
  | RSameCls cls, PObj cls' _ => String.eqb cls cls'
  | _, _ => false
  end.
(* where the constructor's fields are found in its value *)
Definition ctor_look (c : ctor) (v : pv) : string -> pv :=
  match c_ret c with RSame | RSameCls _ => fun _ => v | _ => field_of v end.

(* int(x) as the comparisons of the tracer see it *)
Definition numof (v : pv) : Z := match v with PInt z => z | PBool true => 1 | _ => 0 end.
Definition gnum (look : string -> pv) (g : gref) : Z :=
  match g with GName nm => numof (look nm) | GNum z => z end.
Definition cond_holds (look : string -> pv) (c : cond) : bool :=
  match c with
  | CBit s => match look s with PBool b => b | _ => false end
  | CLowBit s _ => match look s with PInt z => Z.testbit z 0 | _ => false end
  end.
Definition cond_src_ok (look : string -> pv) (c : cond) : Prop :=
  match c with
  | CBit s => match look s with PBool _ => True | _ => False end
  | CLowBit s _ => match look s with PInt z => 0 <= z | _ => False end
  end.
(* the value a checked-and-kept constant has *)
Definition chunk_val (c : chunk) (bits : list bool) : pv :=
  match c with
  | CkBits _ => PBits bits
  | CkUint _ => PInt (Z.of_N (of_bits bits))
  | CkBytes _ => PBytes (bits_to_bytes bits)
  | CkBit => PBool (hd false bits)
  end.
Definition guard_holds (look : string -> pv) (op : gop) (a b : gref) : bool :=
  let x := gnum look a in let y := gnum look b in
  match op with GLt => x <? y | GLe => x <=? y | GGt => y <? x | GGe => y <=? x end.

(* ------------------------------------------------------------------------------------------------ *)
(* The encoder                                                                                       *)
(* ------------------------------------------------------------------------------------------------ *)

Definition enc_res := result (list bool * list cell).
Definition ok_bits (l : list bool) : enc_res := Ok (l, []).

Definition enc_var (m : nat) (len : Z) (z : Z) : list bool :=
  enc (lt_bits m) len ++ enc (Z.to_nat (8 * len)) z.

(* the canonical Patricia tree (Spec/Hashmap.v) of n-bit keys and encoded values, with the reference label
   kinds; every cell of it must respect the capacity limits *)
Definition dict_tree (n : nat) (src : kvs) : result vtree :=
  match s_patricia (S n) src with
  | Some e => let t := canon_kinds (canon_vtree e) n in if vtree_ok t n then Ok t else Err ECell
  | None => Err EDict
  end.
Definition enc_kvs (n : nat) (encv : pv -> enc_res) (l : list (Z * pv)) : result kvs :=
  mapM (fun kv => rmap (fun p => (enc n (fst kv), p)) (encv (snd kv))) l.
(* the keys of a dictionary kept as a list: 0, 1, 2, ... *)
Fixpoint index_kvs (i : nat) (l : list pv) : list (Z * pv) :=
  match l with [] => [] | v :: r => (Z.of_nat i, v) :: index_kvs (S i) r end.

(* HashmapAug: ahm_edge label node; ahmn_leaf extra:Y value:X; ahmn_fork left:^.. right:^.. extra:Y.
   The cell of an edge of the Patricia tree e at remaining key length m, the extras (already encoded) being
   taken from the list fx in visiting order; what is left of the list.  Every cell must respect the limits. *)
Definition cell_fits (bits : list bool) (refs : list cell) : bool :=
  (List.length bits <=? 1023)%nat && (List.length refs <=? 4)%nat.
Fixpoint aug_cell (e : hedge) (m : nat) (fx : list payload) : option (cell * list payload) :=
  match e with
  | HEdge l (HLeaf v) =>
      match fx with
      | x :: fx' =>
          let bits := s_label_bits (s_label_kind l m) l m ++ fst x ++ fst v in
          let refs := snd x ++ snd v in
          if cell_fits bits refs then Some (Cell ty_ordinary bits refs, fx') else None
      | [] => None
      end
  | HEdge l (HFork a b) =>
      let m1 := (m - List.length l - 1)%nat in
      match aug_cell a m1 fx with
      | Some (ca, fx1) =>
          match aug_cell b m1 fx1 with
          | Some (cb, fx2) =>
              match fx2 with
              | x :: fx3 =>
                  let bits := s_label_bits (s_label_kind l m) l m ++ fst x in
                  let refs := ca :: cb :: snd x in
                  if cell_fits bits refs then Some (Cell ty_ordinary bits refs, fx3) else None
              | [] => None
              end
          | None => None
          end
      | None => None
      end
  end.

(* what follows a value in its cell, when that matters to the value (FRest): bits and references *)
Definition tail := (list bool * list cell)%type.
Definition no_tail : tail := ([], []).

Section Enc.
  (* Either X Y: which alternative a value is stored with (true: the right one) *)
  Variable ch : pv -> bool.
  (* the encoder of named types (ties the knot through the table) *)
  Variable ety : string -> list Z -> pv -> enc_res.
  (* the inline remainder (FRest) of a value of a named type: it is part of the cell of ^T *)
  Variable rty : string -> list Z -> pv -> tail.

  Fixpoint enc_field (f : fty) (x : pv) : enc_res :=
    match f with
    | FUint n => match x with PInt z => ok_bits (enc n z) | _ => Err EType end
    | FUintLe m => match x with PInt z => ok_bits (enc (le_bits m) z) | _ => Err EType end
    | FUintLt m => match x with PInt z => ok_bits (enc (lt_bits m) z) | _ => Err EType end
    | FInt n => match x with PInt z => ok_bits (enc n z) | _ => Err EType end
    | FBool | FBit => match x with PBool b => ok_bits [b] | _ => Err EType end
    | FBits n => match x with PBits l => ok_bits l | _ => Err EType end
    | FBytes n => match x with PBytes bs => ok_bits (enc_bytes bs) | _ => Err EType end
    | FBytesHex n => match x with PHex bs => ok_bits (enc_bytes bs) | _ => Err EType end
    | FCoins => match x with PInt z => ok_bits (enc_var 16 (ulen0 z) z) | _ => Err EType end
    | FVarUint m => match x with PInt z => ok_bits (enc_var m (ulen0 z) z) | _ => Err EType end
    | FVarInt m => match x with PInt z => ok_bits (enc_var m (slen0 z) z) | _ => Err EType end
    | FAddr | FAddrInt | FAddrExt => match x with PAddr a => ok_bits (enc_addr a) | _ => Err EType end
    | FCell => match x with PCell c => Ok ([], [c]) | _ => Err EType end
    | FMaybeCell =>
        match x with PNone => ok_bits [false] | PCell c => Ok ([true], [c]) | _ => Err EType end
    | FType T a => ety T a x
    | FRefType T a =>
        (* the cell of ^T: the encoding of the value, then its inline remainder if it has one *)
        bind (ety T a x) (fun '(b, r) => Ok ([], [Cell ty_ordinary (b ++ fst (rty T a x)) (r ++ snd (rty T a x))]))
    | FMaybe g =>
        match x with
        | PNone => ok_bits [false]
        | _ => bind (enc_field g x) (fun '(b, r) => Ok (true :: b, r))
        end
    | FDict n vf =>
        (* hme_empty$0 | hme_root$1 root:^(Hashmap n X) *)
        match x with
        | PNone => ok_bits [false]
        | PDict kvs =>
            bind (enc_kvs n (enc_field vf) kvs) (fun src =>
            bind (dict_tree n src) (fun t => Ok ([true], [cell_of t n])))
        | _ => Err EType
        end
    | FConst _ => ok_bits []
    | FEither l r =>
        if ch x then bind (enc_field r x) (fun '(b, rf) => Ok (true :: b, rf))
        else bind (enc_field l x) (fun '(b, rf) => Ok (false :: b, rf))
    | FRest => match x with PCell _ => Ok ([], []) | _ => Err EType end
    | FHashmap n vf =>
        (* the root edge of the tree, inline *)
        match x with
        | PDict kvs =>
            bind (enc_kvs n (enc_field vf) kvs) (fun src =>
            bind (dict_tree n src) (fun t => let 'Cell _ b r := cell_of t n in Ok (b, r)))
        | _ => Err EType
        end
    | FDictVals n vf =>
        match x with
        | PList [] => ok_bits [false]
        | PList vals =>
            bind (enc_kvs n (enc_field vf) (index_kvs 0 vals)) (fun src =>
            bind (dict_tree n src) (fun t => Ok ([true], [cell_of t n])))
        | _ => Err EType
        end
    | FAugDict n vf xf =>
        (* the root edge inline; as many extras as the canonical tree of the keys has nodes *)
        match x with
        | PAugDict kvs extras =>
            bind (enc_kvs n (enc_field vf) kvs) (fun src =>
            bind (mapM (enc_field xf) extras) (fun exs =>
            match s_patricia (S n) src with
            | Some e =>
                match aug_cell e n exs with
                | Some (Cell _ b r, []) => Ok (b, r)
                | _ => Err ECell
                end
            | None => Err EDict
            end))
        | _ => Err EType
        end
    | FAugDictE _ _ _ => Err EOther
    end.

  Fixpoint enc_fields (look : string -> pv) (fs : list (string * fty)) : enc_res :=
    match fs with
    | [] => Ok ([], [])
    | (nm, f) :: r =>
        bind (enc_field f (look nm)) (fun '(b1, r1) =>
        bind (enc_fields look r) (fun '(b2, r2) => Ok (b1 ++ b2, r1 ++ r2)))
    end.

  Definition enc_item (look : string -> pv) (it : item) : enc_res :=
    match it with
    | INamed nm f => enc_field f (look nm)
    | IGroup fs => bind (enc_fields look fs) (fun '(b, r) => Ok ([], [Cell ty_ordinary b r]))
    | IConst _ bits => ok_bits bits
    | INamedHex nm _ _ => match look nm with PBytes bs => ok_bits (enc_bytes bs) | _ => Err EType end
    | IGuard _ _ _ => ok_bits []
    | ICond c nm f => if cond_holds look c then enc_field f (look nm) else ok_bits []
    | IRefParam nm T src =>
        let a := [if cond_holds look (CBit src) then 1 else 0] in
        bind (ety T a (look nm)) (fun '(b, r) =>
        Ok ([], [Cell ty_ordinary (b ++ fst (rty T a (look nm))) (r ++ snd (rty T a (look nm)))]))
    | INamedConst _ _ bits => ok_bits bits
    end.

  Fixpoint enc_items (look : string -> pv) (its : list item) : enc_res :=
    match its with
    | [] => Ok ([], [])
    | it :: r =>
        bind (enc_item look it) (fun '(b1, r1) =>
        bind (enc_items look r) (fun '(b2, r2) => Ok (b1 ++ b2, r1 ++ r2)))
    end.

  (* a peeked tag is written by the type the constructor stands for *)
  Definition own_tag (m : tagmode) (c : ctor) : list bool :=
    match m with TagPeek => [] | _ => c_tag c end.

  Definition enc_ctor (m : tagmode) (c : ctor) (v : pv) : enc_res :=
    bind (enc_items (ctor_look c v) (c_items c)) (fun '(b, r) => Ok (own_tag m c ++ b, r)).

  Definition enc_layout (L : tlayout) (v : pv) : enc_res :=
    match find (fun c => ctor_matches ch c v) (t_ctors L) with
    | Some c => enc_ctor (t_mode L) c v
    | None => Err EType
    end.

  (* the inline remainder of a value: the cell its last field keeps, when that field is X = Any inline *)
  Fixpoint rest_field (f : fty) (x : pv) : tail :=
    match f with
    | FRest => match x with PCell (Cell _ b r) => (b, r) | _ => no_tail end
    | FMaybe g => match x with PNone => no_tail | _ => rest_field g x end
    | FEither l r => if ch x then rest_field r x else rest_field l x
    | _ => no_tail
    end.
  Fixpoint rest_items (look : string -> pv) (its : list item) : tail :=
    match its with
    | [] => no_tail
    | [INamed nm f] => rest_field f (look nm)
    | _ :: r => rest_items look r
    end.
  Definition rest_layout (L : tlayout) (v : pv) : tail :=
    match find (fun c => ctor_matches ch c v) (t_ctors L) with
    | Some c => rest_items (ctor_look c v) (c_items c)
    | None => no_tail
    end.
End Enc.

Definition rest_type (ch : pv -> bool) (st : stable) (T : string) (a : list Z) (v : pv) : tail :=
  match slookup st T a with Some L => rest_layout ch L v | None => no_tail end.

Fixpoint enc_type (ch : pv -> bool) (st : stable) (d : nat) (T : string) (a : list Z) (v : pv) : enc_res :=
  match d with
  | O => Err ERecursion
  | S d' => match slookup st T a with
            | None => Err EOther
            | Some L => enc_layout ch (enc_type ch st d') (rest_type ch st) L v
            end
  end.

(* ------------------------------------------------------------------------------------------------ *)
(* Well-typed values                                                                                 *)
(* ------------------------------------------------------------------------------------------------ *)

Definition addr_int (a : addr) : bool := match a with AddrStd _ _ _ => true | _ => false end.
Definition addr_ext (a : addr) : bool := match a with AddrNone | AddrExt _ _ => true | _ => false end.

Fixpoint ascending (l : list Z) : bool :=
  match l with
  | a :: (b :: _) as r => (a <? b) && ascending r
  | _ => true
  end.

(* Forall, as a conjunction (so that it computes on a closed list) *)
Fixpoint all_of {A} (P : A -> Prop) (l : list A) : Prop :=
  match l with [] => True | x :: r => P x /\ all_of P r end.

(* what is known of the bits and references that follow a value in its (ordinary) cell: nothing, or
   exactly these.  Only FRest (the value is what follows) and t_snap (the value keeps the cell it was
   parsed from) depend on it. *)
Definition ctx := option tail.

Section Wt.
  Variable ch : pv -> bool.
  Variable wty : string -> list Z -> ctx -> pv -> Prop.
  Variable ety : string -> list Z -> pv -> enc_res.
  Variable rty : string -> list Z -> pv -> tail.

  Fixpoint wt_field (f : fty) (x : pv) (c : ctx) : Prop :=
    match f with
    | FUint n => match x with PInt z => in_uint (Z.of_nat n) z = true | _ => False end
    | FUintLe m => match x with PInt z => 0 <= z <= Z.of_nat m | _ => False end
    | FUintLt m => match x with PInt z => 0 <= z < Z.of_nat m | _ => False end
    | FInt n => match x with PInt z => in_int (Z.of_nat n) z = true | _ => False end
    | FBool | FBit => match x with PBool _ => True | _ => False end
    | FBits n => match x with PBits l => List.length l = n | _ => False end
    | FBytes n => match x with PBytes bs => List.length bs = n /\ bytes_okb bs = true | _ => False end
    | FBytesHex n => match x with PHex bs => List.length bs = n /\ bytes_okb bs = true | _ => False end
    | FCoins => match x with PInt z => 0 <= z /\ ulen0 z < 16 | _ => False end
    | FVarUint m => match x with PInt z => 0 <= z /\ ulen0 z < Z.of_nat m | _ => False end
    | FVarInt m => match x with PInt z => slen0 z < Z.of_nat m | _ => False end
    | FAddr => match x with PAddr a => addr_ok a = true | _ => False end
    | FAddrInt => match x with PAddr a => addr_ok a = true /\ addr_int a = true | _ => False end
    | FAddrExt => match x with PAddr a => addr_ok a = true /\ addr_ext a = true | _ => False end
    | FCell => match x with PCell _ => True | _ => False end
    | FMaybeCell => match x with PNone | PCell _ => True | _ => False end
    | FType T a => wty T a c x
    | FRefType T a => wty T a (Some (rty T a x)) x        (* the cell of ^T ends with the value *)
    | FMaybe g => match x with PNone => True | _ => wt_field g x c end
    | FDict n vf =>
        (* None for the empty dictionary, else a Python dict in ascending key order *)
        match x with
        | PNone => True
        | PDict kvs =>
            kvs <> [] /\ ascending (map fst kvs) = true /\
            all_of (fun kv => 0 <= fst kv < 2 ^ Z.of_nat n /\ wt_field vf (snd kv) None) kvs
        | _ => False
        end
    | FConst cv => x = cval_pv cv
    | FEither l r => if ch x then wt_field r x c else wt_field l x c
    | FRest => match c with Some (tb, tr) => x = PCell (Cell ty_ordinary tb tr) | None => False end
    | FHashmap n vf =>
        match x with
        | PDict kvs =>
            kvs <> [] /\ ascending (map fst kvs) = true /\
            all_of (fun kv => 0 <= fst kv < 2 ^ Z.of_nat n /\ wt_field vf (snd kv) None) kvs
        | _ => False
        end
    | FDictVals n vf =>
        match x with
        | PList vals =>
            Z.of_nat (List.length vals) <= 2 ^ Z.of_nat n /\ all_of (fun v => wt_field vf v None) vals
        | _ => False
        end
    | FAugDict n vf xf =>
        match x with
        | PAugDict kvs extras =>
            kvs <> [] /\ ascending (map fst kvs) = true /\
            all_of (fun kv => 0 <= fst kv < 2 ^ Z.of_nat n /\ wt_field vf (snd kv) None) kvs /\
            all_of (fun ex => wt_field xf ex None) extras
        | _ => False
        end
    | FAugDictE _ _ _ => False
    end.

  Fixpoint wt_fields (look : string -> pv) (fs : list (string * fty)) : Prop :=
    match fs with [] => True | (nm, f) :: r => wt_field f (look nm) None /\ wt_fields look r end.

  Definition wt_item (look : string -> pv) (c : ctx) (it : item) : Prop :=
    match it with
    | INamed nm f => wt_field f (look nm) c
    | IGroup fs => wt_fields look fs
    | IConst _ _ => True
    | INamedHex nm hexnm n =>
        match look nm with
        | PBytes bs => List.length bs = n /\ bytes_okb bs = true /\ look hexnm = PHex bs
        | _ => False
        end
    | IGuard op a b => guard_holds look op a b = true
    | ICond cd nm f =>
        cond_src_ok look cd /\
        if cond_holds look cd then wt_field f (look nm) c else look nm = PNone
    | IRefParam nm T src =>
        cond_src_ok look (CBit src) /\
        let a := [if cond_holds look (CBit src) then 1 else 0] in
        wty T a (Some (rty T a (look nm))) (look nm)
    | INamedConst nm ck bits => look nm = chunk_val ck bits
    end.

  (* what follows the last item is what follows the value *)
  Fixpoint wt_items (look : string -> pv) (c : ctx) (its : list item) : Prop :=
    match its with
    | [] => True
    | it :: r => wt_item look (match r with [] => c | _ => None end) it /\ wt_items look c r
    end.

  (* the value is exactly the object the Python constructor builds: the class, and the constant and
     loaded attributes in name order *)
  Definition wt_ctor (snap : option string) (c : ctor) (cx : ctx) (v : pv) : Prop :=
    match c_ret c with
    | RNone => v = PNone
    | RObj cls consts | RObjAlt cls consts _ =>
        v = PObj cls (map (fun nm => (nm, field_of v nm)) (ctor_names consts snap (c_items c)))
    | RSame | RSameCls _ => True
    end /\ wt_items (ctor_look c v) cx (c_items c).

  (* the snapshot attribute holds the cell the value is parsed from: its encoding and what follows *)
  Definition snap_ok (L : tlayout) (cx : ctx) (v : pv) : Prop :=
    match t_snap L with
    | None => True
    | Some nm =>
        match cx, enc_layout ch ety rty L v with
        | Some (tb, tr), Ok (bits, refs) => field_of v nm = PCell (Cell ty_ordinary (bits ++ tb) (refs ++ tr))
        | _, _ => False
        end
    end.

  Definition wt_layout (L : tlayout) (cx : ctx) (v : pv) : Prop :=
    match find (fun c => ctor_matches ch c v) (t_ctors L) with
    | Some c => wt_ctor (t_snap L) c cx v /\ snap_ok L cx v
    | None => False
    end.
End Wt.

Fixpoint wt_type (ch : pv -> bool) (st : stable) (d : nat) (T : string) (a : list Z) (cx : ctx) (v : pv) : Prop :=
  match d with
  | O => False
  | S d' => match slookup st T a with
            | None => False
            | Some L => wt_layout ch (wt_type ch st d') (enc_type ch st d') (rest_type ch st) L cx v
            end
  end.

(* nesting depth of named types explored by [wt] and [encode] *)
Definition tdepth : nat := 12.
Definition wt_in (ch : pv -> bool) (st : stable) (L : tlayout) (cx : ctx) (v : pv) : Prop :=
  wt_layout ch (wt_type ch st tdepth) (enc_type ch st tdepth) (rest_type ch st) L cx v.
Definition encode_ch (ch : pv -> bool) (st : stable) (L : tlayout) (v : pv) : enc_res :=
  enc_layout ch (enc_type ch st tdepth) (rest_type ch st) L v.
(* for the types without Either / Any / snapshot: no choice to make, nothing known of what follows *)
Definition ch_ref : pv -> bool := fun _ => true.
Definition wt (st : stable) (L : tlayout) (v : pv) : Prop := wt_in ch_ref st L None v.
Definition encode (st : stable) (L : tlayout) (v : pv) : enc_res := encode_ch ch_ref st L v.

(* ------------------------------------------------------------------------------------------------ *)
(* The compiler to decision trees                                                                    *)
(* ------------------------------------------------------------------------------------------------ *)

(* continuation: number of variables bound so far, next fresh sub-slice id, attributes collected *)
Definition kont := nat -> nat -> list (string * dexpr) -> dtree.

Definition chunk_op (c : chunk) : dop :=
  match c with CkBits n => OBits n | CkUint n => OUint n | CkBytes k => OBytes k | CkBit => OBit end.
Definition chunk_width (c : chunk) : nat :=
  match c with CkBits n | CkUint n => n | CkBytes k => (8 * k)%nat | CkBit => 1%nat end.

(* the value of a dictionary leaf: the tree ends by returning the only attribute *)
Definition kret : kont := fun _ _ a => DRet (match a with [(_, e)] => e | _ => ENone end).

Fixpoint compile_field (f : fty) (nm : string) (sid n ns : nat) (acc : list (string * dexpr)) (k : kont)
  : dtree :=
  let simple o := DOp sid o (k (S n) ns (acc ++ [(nm, EVar n)])) in
  match f with
  | FUint w => simple (OUint w)
  | FUintLe m => simple (OUint (le_bits m))
  | FUintLt m => simple (OUint (lt_bits m))
  | FInt w => simple (OInt w)
  | FBool => simple OBool
  | FBit => simple OBit
  | FBits w => simple (OBits w)
  | FBytes w => simple (OBytes w)
  | FBytesHex w => DOp sid (OBytes w) (k (S n) ns (acc ++ [(nm, EHex (EVar n))]))
  | FCoins => simple OCoins
  | FVarUint m => simple (OVarUint (lt_bits m))
  | FVarInt m => simple (OVarInt (lt_bits m))
  | FAddr | FAddrInt | FAddrExt => simple OAddr
  | FCell => simple ORefCell
  | FMaybeCell =>
      DOp sid OMaybeRefCell
        (DIf n 0 (k (S n) ns (acc ++ [(nm, ENone)])) (k (S n) ns (acc ++ [(nm, EVar n)])))
  | FType T a => simple (OCall T a)
  | FRefType T a =>
      DOp sid (ORef ns) (DOp ns (OCall T a) (k (S (S n)) (S ns) (acc ++ [(nm, EVar (S n))])))
  | FMaybe g =>
      DOp sid OBit (DIf n 0 (k (S n) ns (acc ++ [(nm, ENone)])) (compile_field g nm sid (S n) ns acc k))
  | FDict w vf =>
      DOp sid (ODict w (compile_field vf ""%string 0 0 1 [] kret))
        (DIf n 0 (k (S n) ns (acc ++ [(nm, ENone)])) (k (S n) ns (acc ++ [(nm, EVar n)])))
  | FConst c => k n ns (acc ++ [(nm, cval_expr c)])
  | FEither l r =>
      DOp sid OBit (DIf n 0 (compile_field l nm sid (S n) ns acc k) (compile_field r nm sid (S n) ns acc k))
  | FRest => simple OToCell
  | FHashmap w vf => simple (OHashmap w (compile_field vf ""%string 0 0 1 [] kret))
  | FDictVals w vf =>
      DOp sid (ODict w (compile_field vf ""%string 0 0 1 [] kret))
        (DIf n 0 (k (S n) ns (acc ++ [(nm, EList [])])) (k (S n) ns (acc ++ [(nm, ESortedValues (EVar n))])))
  | FAugDict w vf xf =>
      simple (OAugDict w (compile_field vf ""%string 0 0 1 [] kret) (compile_field xf ""%string 0 0 1 [] kret))
  | FAugDictE w vf xf =>
      simple (OAugDictE w (compile_field vf ""%string 0 0 1 [] kret) (compile_field xf ""%string 0 0 1 [] kret))
  end.

Fixpoint compile_fields (fs : list (string * fty)) (sid n ns : nat) (acc : list (string * dexpr)) (k : kont)
  : dtree :=
  match fs with
  | [] => k n ns acc
  | (nm, f) :: r => compile_field f nm sid n ns acc (fun n' ns' acc' => compile_fields r sid n' ns' acc' k)
  end.

(* compare the bits of variable v, from bit i on, with the expected ones *)
Fixpoint check_bits (v i : nat) (bits : list bool) (t : dtree) : dtree :=
  match bits with
  | [] => t
  | b :: r => if b then DIf v i DFail (check_bits v (S i) r t) else DIf v i (check_bits v (S i) r t) DFail
  end.

(* the variable an earlier field was loaded into *)
Fixpoint assoc_expr (nm : string) (l : list (string * dexpr)) : dexpr :=
  match l with
  | [] => ENone
  | (k, e) :: r => if String.eqb k nm then e else assoc_expr nm r
  end.
Definition gexpr_of (acc : list (string * dexpr)) (g : gref) : gexpr :=
  match g with
  | GNum z => GConst z
  | GName nm =>
      match assoc_expr nm acc with
      | EVar i => GVar i
      | EConstInt z => GConst z
      | EConstBool true => GConst 1
      | _ => GConst 0
      end
  end.

(* where a condition is tested: the variable its source was loaded into, and the bit *)
Definition var_of (acc : list (string * dexpr)) (s : string) : nat :=
  match assoc_expr s acc with EVar i => i | _ => 0%nat end.
Definition cond_test (acc : list (string * dexpr)) (c : cond) : nat * nat :=
  match c with CBit s => (var_of acc s, 0%nat) | CLowBit s w => (var_of acc s, (w - 1)%nat) end.

Fixpoint compile_items (its : list item) (sid n ns : nat) (acc : list (string * dexpr)) (k : kont) : dtree :=
  match its with
  | [] => k n ns acc
  | INamed nm f :: r =>
      compile_field f nm sid n ns acc (fun n' ns' acc' => compile_items r sid n' ns' acc' k)
  | IGroup fs :: r =>
      DOp sid (ORef ns)
        (compile_fields fs ns (S n) (S ns) acc (fun n' ns' acc' => compile_items r sid n' ns' acc' k))
  | IConst c bits :: r =>
      DOp sid (chunk_op c) (check_bits n 0 bits (compile_items r sid (S n) ns acc k))
  | INamedHex nm hexnm w :: r =>
      DOp sid (OBytes w) (compile_items r sid (S n) ns (acc ++ [(nm, EVar n); (hexnm, EHex (EVar n))]) k)
  | IGuard op a b :: r =>
      DGuard op (gexpr_of acc a) (gexpr_of acc b) DFail (compile_items r sid n ns acc k)
  | ICond c nm f :: r =>
      DIf (fst (cond_test acc c)) (snd (cond_test acc c))
        (compile_items r sid n ns (acc ++ [(nm, ENone)]) k)
        (compile_field f nm sid n ns acc (fun n' ns' acc' => compile_items r sid n' ns' acc' k))
  | IRefParam nm T src :: r =>
      DOp sid (ORef ns)
        (DIf (var_of acc src) 0
           (DOp ns (OCall T [0]) (compile_items r sid (S (S n)) (S ns) (acc ++ [(nm, EVar (S n))]) k))
           (DOp ns (OCall T [1]) (compile_items r sid (S (S n)) (S ns) (acc ++ [(nm, EVar (S n))]) k)))
  | INamedConst nm c bits :: r =>
      DOp sid (chunk_op c) (check_bits n 0 bits (compile_items r sid (S n) ns (acc ++ [(nm, EVar n)]) k))
  end.

Definition ret_expr (r : cret) (snap acc : list (string * dexpr)) : dexpr :=
  match r with
  | RNone => ENone
  | RObj cls consts | RObjAlt cls consts _ =>
      EObj cls (sort_by_name (map (fun '(nm, cv) => (nm, cval_expr cv)) consts ++ snap ++ acc))
  | RSame | RSameCls _ => match acc with [(_, e)] => e | _ => ENone end
  end.

(* the body of a constructor, entered with n variables bound; snap: the snapshot attribute, if any *)
Definition compile_ctor (snap : list (string * dexpr)) (c : ctor) (n : nat) : dtree :=
  compile_items (c_items c) 0 n 1 [] (fun _ _ acc => DRet (ret_expr (c_ret c) snap acc)).

(* the binary trie of the constructor tags, tested most significant bit first *)
Definition tagged := list (list bool * ctor).
Definition sub_tags (b : bool) (cs : tagged) : tagged :=
  flat_map (fun '(t, c) => match t with
                           | x :: t' => if Bool.eqb x b then [(t', c)] else []
                           | [] => []
                           end) cs.
Definition find_done (cs : tagged) : option ctor :=
  match find (fun '(t, _) => match t with [] => true | _ => false end) cs with
  | Some (_, c) => Some c
  | None => None
  end.

Section Tries.
  Variable snap : list (string * dexpr).

  (* one load_bit per level *)
  Fixpoint trie_bits (fuel : nat) (cs : tagged) (n : nat) : dtree :=
    match fuel with
    | O => DFail
    | S f =>
        match cs with
        | [] => DFail
        | _ => match find_done cs with
               | Some c => compile_ctor snap c n
               | None => DOp 0 OBit (DIf n 0 (trie_bits f (sub_tags false cs) (S n))
                                             (trie_bits f (sub_tags true cs) (S n)))
               end
        end
    end.

  (* the tag was loaded at once as variable v; bit i is examined next *)
  Fixpoint trie_chunk (fuel : nat) (cs : tagged) (v i : nat) : dtree :=
    match fuel with
    | O => DFail
    | S f =>
        match cs with
        | [] => DFail
        | _ => match find_done cs with
               | Some c => compile_ctor snap c (S v)
               | None => DIf v i (trie_chunk f (sub_tags false cs) v (S i))
                                 (trie_chunk f (sub_tags true cs) v (S i))
               end
        end
    end.

  (* the tag is loaded in pieces.  pend: the (variable, bit) pairs loaded and not yet tested; rest: the
     pieces not yet loaded (with their flag); n variables are bound. *)
  Definition can_finish (cs : tagged) (p : nat) : bool :=
    existsb (fun '(t, _) => (List.length t <=? p)%nat) cs.
  Definition chunk_srcs (v w : nat) : list (nat * nat) := map (fun i => (v, i)) (seq 0 w).
  Definition next_eager (rest : list (chunk * bool)) : bool :=
    match rest with (_, e) :: _ => e | [] => false end.
  Fixpoint trie_multi (fuel : nat) (cs : tagged) (pend : list (nat * nat)) (rest : list (chunk * bool)) (n : nat)
    : dtree :=
    match fuel with
    | O => DFail
    | S f =>
        match cs with
        | [] =>
            (* no constructor left: a piece the code loads unconditionally is still loaded *)
            match rest with
            | (ck, true) :: rest' =>
                DOp 0 (chunk_op ck) (trie_multi f [] (pend ++ chunk_srcs n (chunk_width ck)) rest' (S n))
            | _ => DFail
            end
        | _ =>
            let load :=
              match rest with
              | [] => DFail
              | (ck, _) :: rest' =>
                  DOp 0 (chunk_op ck) (trie_multi f cs (pend ++ chunk_srcs n (chunk_width ck)) rest' (S n))
              end in
            match find_done cs with
            | Some c => compile_ctor snap c n
            | None =>
                match pend with
                | (v, i) :: pend' =>
                    if can_finish cs (List.length pend) || negb (next_eager rest)
                    then DIf v i (trie_multi f (sub_tags false cs) pend' rest n)
                                 (trie_multi f (sub_tags true cs) pend' rest n)
                    else load
                | [] => load
                end
            end
        end
    end.

  (* compare the bits of variable v with the expected ones: all equal / some different *)
  Fixpoint match_bits (v i : nat) (bits : list bool) (same other : dtree) : dtree :=
    match bits with
    | [] => same
    | b :: r => if b then DIf v i other (match_bits v (S i) r same other)
                else DIf v i (match_bits v (S i) r same other) other
    end.
  (* the tags are looked at one after the other; the last constructor is the default *)
  Fixpoint peek_list (cs : tagged) (n : nat) : dtree :=
    match cs with
    | [] => DFail
    | (t, c) :: r =>
        match r with
        | [] => compile_ctor snap c n
        | _ => DOp 0 (OPeekBits (List.length t))
                 (match_bits n 0 t (compile_ctor snap c (S n)) (peek_list r (S n)))
        end
    end.
End Tries.

Definition tag_fuel (cs : list ctor) : nat := S (fold_right (fun c m => Nat.max (List.length (c_tag c)) m) 0%nat cs).
Definition tagged_of (cs : list ctor) : tagged := map (fun c => (c_tag c, c)) cs.

Definition snap_acc (L : tlayout) : list (string * dexpr) :=
  match t_snap L with Some nm => [(nm, EVar 0)] | None => [] end.
Definition snap_n (L : tlayout) : nat := match t_snap L with Some _ => 1%nat | None => 0%nat end.

Definition compile_tag (L : tlayout) : dtree :=
  let n0 := snap_n L in
  let cs := tagged_of (t_ctors L) in
  match t_mode L with
  | TagBitwise => trie_bits (snap_acc L) (tag_fuel (t_ctors L)) cs n0
  | TagChunk c => DOp 0 (chunk_op c) (trie_chunk (snap_acc L) (tag_fuel (t_ctors L)) cs n0 0)
  | TagChunks cks => trie_multi (snap_acc L) (tag_fuel (t_ctors L) + List.length cks) cs [] cks n0
  | TagPeek => peek_list (snap_acc L) cs n0
  end.

Definition compile (L : tlayout) : dtree :=
  let body :=
    match t_special L with
    | SpNo => compile_tag L
    | SpNone => DIfSpecial 0 (compile_tag L) (DRet ENone)
    | SpCell => DIfSpecial 0 (compile_tag L) (DOp 0 OToCell (DRet (EVar (snap_n L))))
    end in
  match t_snap L with Some _ => DOp 0 OToCell body | None => body end.

Definition compile_table (st : stable) : table := map (fun '(n, a, L) => (n, a, compile L)) st.

(* ------------------------------------------------------------------------------------------------ *)
(* Static well-formedness of layouts (checked by computation for the table of Spec/BlockTlb.v)        *)
(* ------------------------------------------------------------------------------------------------ *)

Fixpoint list_beq (a b : list bool) : bool :=
  match a, b with
  | [], [] => true
  | x :: a', y :: b' => Bool.eqb x y && list_beq a' b'
  | _, _ => false
  end.

(* what the bit tests see of a chunk that was loaded from exactly these bits *)
Definition chunk_view (c : chunk) (bits : list bool) : list bool :=
  match c with
  | CkBits _ | CkBit => bits
  | CkUint n => to_bits n (of_bits bits)
  | CkBytes _ => bytes_to_bits (bits_to_bytes bits)
  end.
Definition chunk_ok (c : chunk) (bits : list bool) : bool :=
  (1 <=? chunk_width c)%nat && (List.length bits =? chunk_width c)%nat && list_beq (chunk_view c bits) bits.

Fixpoint wf_fty (f : fty) : bool :=
  match f with
  | FUint n | FInt n => (1 <=? n)%nat
  | FUintLe m => (1 <=? m)%nat
  | FUintLt m | FVarUint m | FVarInt m => (2 <=? m)%nat
  | FMaybe g => wf_fty g
  | FDict n vf | FHashmap n vf | FDictVals n vf => (1 <=? n)%nat && (n <=? 1023)%nat && wf_fty vf
  | FAugDict n vf xf => (1 <=? n)%nat && (n <=? 1023)%nat && wf_fty vf && wf_fty xf
  | FEither l r => wf_fty l && wf_fty r
  | _ => true
  end.
Definition wf_item (it : item) : bool :=
  match it with
  | INamed _ f => wf_fty f
  | IGroup fs => forallb (fun p => wf_fty (snd p)) fs
  | IConst c bits => chunk_ok c bits
  | INamedHex _ _ _ | IGuard _ _ _ | IRefParam _ _ _ => true
  | ICond _ _ f => wf_fty f
  | INamedConst _ c bits => chunk_ok c bits
  end.
(* the operands of every constraint are bound by an earlier item of the constructor *)
Definition gref_bound (bound : list string) (g : gref) : bool :=
  match g with GNum _ => true | GName nm => existsb (String.eqb nm) bound end.
Fixpoint guards_bound (bound : list string) (its : list item) : bool :=
  match its with
  | [] => true
  | it :: r =>
      match it with IGuard _ a b => gref_bound bound a && gref_bound bound b | _ => true end
      && guards_bound (bound ++ item_names it) r
  end.
(* pieces a tag may be read in: the widths a tag may have are the partial sums of the piece widths *)
Definition piece_ok (c : chunk) : bool :=
  match c with CkBits n => (1 <=? n)%nat | CkBit => true | _ => false end.
Fixpoint tag_aligned (len : nat) (cks : list (chunk * bool)) : bool :=
  match cks with
  | [] => false
  | (ck, _) :: r => (len =? chunk_width ck)%nat || ((chunk_width ck <? len)%nat && tag_aligned (len - chunk_width ck) r)
  end.
(* the fields a later condition (or type parameter) reads: a one-bit field (width 1), or a w-bit field whose
   lowest bit is tested; the bit test relies on the width the field was loaded with *)
Definition ctor_wtab (its : list item) : list (string * nat) :=
  flat_map (fun it => match it with
                      | ICond (CLowBit s w) _ _ => [(s, w)]
                      | ICond (CBit s) _ _ | IRefParam _ _ s => [(s, 1%nat)]
                      | _ => []
                      end) its.
Definition fty_src_ok (f : fty) (w : nat) : bool :=
  match f with FUint w' => (w' =? w)%nat | FBit | FBool => (w =? 1)%nat | _ => false end.
(* a name of the table is bound by such a field only *)
Definition name_wok (wtab : list (string * nat)) (nm : string) (f : fty) : bool :=
  forallb (fun p => negb (String.eqb (fst p) nm) || fty_src_ok f (snd p)) wtab.
Definition name_free (wtab : list (string * nat)) (nm : string) : bool :=
  forallb (fun p => negb (String.eqb (fst p) nm)) wtab.
Definition item_wok (wtab : list (string * nat)) (it : item) : bool :=
  match it with
  | INamed nm f => name_wok wtab nm f
  | IGroup fs => forallb (fun p => name_wok wtab (fst p) (snd p)) fs
  | _ => forallb (name_free wtab) (item_names it)
  end.
Definition wtab_ok (wtab : list (string * nat)) (its : list item) : bool := forallb (item_wok wtab) its.
(* the source of every condition is bound by an earlier item and is in the table; w >= 1 *)
Definition cond_ok (bound : list string) (wtab : list (string * nat)) (c : cond) : bool :=
  match c with
  | CBit s => existsb (String.eqb s) bound
              && existsb (fun p => String.eqb (fst p) s && (snd p =? 1)%nat) wtab
  | CLowBit s w => existsb (String.eqb s) bound && (1 <=? w)%nat
                   && existsb (fun p => String.eqb (fst p) s && (snd p =? w)%nat) wtab
  end.
Fixpoint conds_ok (bound : list string) (wtab : list (string * nat)) (its : list item) : bool :=
  match its with
  | [] => true
  | it :: r =>
      match it with
      | ICond c _ _ => cond_ok bound wtab c
      | IRefParam _ _ src => cond_ok bound wtab (CBit src)
      | _ => true
      end && conds_ok (bound ++ item_names it) wtab r
  end.

Definition wf_ctor (m : tagmode) (snap : option string) (c : ctor) : bool :=
  forallb wf_item (c_items c) && guards_bound [] (c_items c)
  && match c_ret c with
     | RNone => match c_items c with [] => true | _ => false end
     | RObj _ _ | RObjAlt _ _ _ => true
     | RSame | RSameCls _ => match c_items c with [INamed _ _] => true | _ => false end
     end
  && match snap, c_ret c with Some _, RObj _ _ | Some _, RObjAlt _ _ _ | None, _ => true | _, _ => false end
  && wtab_ok (ctor_wtab (c_items c)) (c_items c) && conds_ok [] (ctor_wtab (c_items c)) (c_items c)
  && match m with
     | TagBitwise => true
     | TagChunk ck => chunk_ok ck (c_tag c)
     | TagChunks cks => forallb (fun p => piece_ok (fst p)) cks && tag_aligned (List.length (c_tag c)) cks
     | TagPeek => match c_items c with [INamed _ (FType _ _)] => true | _ => false end
     end.

(* the tags form a prefix code: along the trie, a finished tag is alone *)
Fixpoint trie_ok (fuel : nat) (cs : tagged) : bool :=
  match fuel with
  | O => false
  | S f =>
      match cs with
      | [] => true
      | _ => match find_done cs with
             | Some _ => match cs with [_] => true | _ => false end
             | None => trie_ok f (sub_tags false cs) && trie_ok f (sub_tags true cs)
             end
      end
  end.

(* peeked tags: an earlier (shorter or equal) tag never matches the beginning of a later one *)
Fixpoint peek_order_ok (cs : list ctor) : bool :=
  match cs with
  | [] => true
  | c :: r =>
      forallb (fun c' => (List.length (c_tag c) <=? List.length (c_tag c'))%nat
                         && negb (list_beq (firstn (List.length (c_tag c)) (c_tag c')) (c_tag c))) r
      && peek_order_ok r
  end.

Definition wf_layout (L : tlayout) : bool :=
  forallb (wf_ctor (t_mode L) (t_snap L)) (t_ctors L)
  && match t_mode L with
     | TagPeek => peek_order_ok (t_ctors L)
     | _ => trie_ok (tag_fuel (t_ctors L)) (tagged_of (t_ctors L))
     end.

(* a peeked tag begins every encoding of the type the constructor stands for *)
Definition peek_ctor_ok (st : stable) (c : ctor) : bool :=
  match c_items c with
  | [INamed _ (FType T a)] =>
      match slookup st T a with
      | Some L' =>
          match t_mode L' with TagPeek => false | _ => true end
          && forallb (fun c' => list_beq (firstn (List.length (c_tag c)) (c_tag c')) (c_tag c)) (t_ctors L')
      | None => false
      end
  | _ => false
  end.
Definition peek_ok (st : stable) (L : tlayout) : bool :=
  match t_mode L with TagPeek => forallb (peek_ctor_ok st) (t_ctors L) | _ => true end.

Definition wf_table (st : stable) : bool := forallb (fun '(_, _, L) => wf_layout L && peek_ok st L) st.

(* ------------------------------------------------------------------------------------------------ *)
(* Fuel: an upper bound of the number of [run] steps, value independent                               *)
(* ------------------------------------------------------------------------------------------------ *)
Section Need.
  Variable nty : string -> list Z -> nat.
  Fixpoint need_field (f : fty) : nat :=
    match f with
    | FType T a => S (nty T a)
    | FRefType T a => S (S (nty T a))
    | FMaybe g => S (S (need_field g))
    | FMaybeCell => 2
    | FDict _ vf | FDictVals _ vf => 3 + need_field vf
    | FHashmap _ vf => 2 + need_field vf
    | FAugDict _ vf xf => 3 + need_field vf + need_field xf
    | FEither l r => 2 + Nat.max (need_field l) (need_field r)
    | FConst _ => 0
    | _ => 1
    end.
  Definition need_fields (fs : list (string * fty)) : nat :=
    fold_right (fun p m => (need_field (snd p) + m)%nat) 0%nat fs.
  Definition need_item (it : item) : nat :=
    match it with
    | INamed _ f => need_field f
    | IGroup fs => S (need_fields fs)
    | IConst _ bits => S (List.length bits)
    | INamedHex _ _ _ | IGuard _ _ _ => 1
    | ICond _ _ f => S (need_field f)
    | IRefParam _ T _ => 3 + Nat.max (nty T [0]) (nty T [1])
    | INamedConst _ _ bits => S (List.length bits)
    end.
  Definition need_items (its : list item) : nat := fold_right (fun it m => (need_item it + m)%nat) 0%nat its.
  Definition need_ctor (c : ctor) : nat := S (need_items (c_items c)).
  Definition need_tag (L : tlayout) : nat :=
    match t_mode L with
    | TagBitwise | TagChunk _ => (2 * tag_fuel (t_ctors L) + 1)%nat
    | TagChunks cks => (2 * tag_fuel (t_ctors L) + List.length cks + 1)%nat
    | TagPeek => (List.length (t_ctors L) * S (tag_fuel (t_ctors L)))%nat
    end.
  Definition need_layout (L : tlayout) : nat :=
    (need_tag L + fold_right (fun c m => Nat.max (need_ctor c) m) 0 (t_ctors L)
     + snap_n L + match t_special L with SpNo => 0 | _ => 1 end)%nat.
End Need.
Fixpoint need_type (st : stable) (d : nat) (T : string) (a : list Z) : nat :=
  match d with
  | O => 0%nat
  | S d' => match slookup st T a with
            | None => 0%nat
            | Some L => need_layout (need_type st d') L
            end
  end.
Definition need (st : stable) (L : tlayout) : nat := need_layout (need_type st tdepth) L.

(* ------------------------------------------------------------------------------------------------ *)
(* Coverage: every named type reachable from a layout is in the table (within depth d)                *)
(* ------------------------------------------------------------------------------------------------ *)
Fixpoint fty_refs (f : fty) : list (string * list Z) :=
  match f with
  | FType T a | FRefType T a => [(T, a)]
  | FMaybe g => fty_refs g
  | FDict _ v | FHashmap _ v | FDictVals _ v => fty_refs v
  | FEither l r => fty_refs l ++ fty_refs r
  | FAugDict _ v x | FAugDictE _ v x => fty_refs v ++ fty_refs x
  | _ => []
  end.
Definition item_refs (it : item) : list (string * list Z) :=
  match it with
  | INamed _ f => fty_refs f
  | IGroup fs => flat_map (fun p => fty_refs (snd p)) fs
  | ICond _ _ f => fty_refs f
  | IRefParam _ T _ => [(T, [0]); (T, [1])]
  | _ => []
  end.
Definition layout_refs (L : tlayout) : list (string * list Z) :=
  flat_map (fun c => flat_map item_refs (c_items c)) (t_ctors L).
Fixpoint resolves_type (st : stable) (d : nat) (T : string) (a : list Z) : bool :=
  match d with
  | O => false
  | S d' => match slookup st T a with
            | None => false
            | Some L => forallb (fun p => resolves_type st d' (fst p) (snd p)) (layout_refs L)
            end
  end.
Definition resolves (st : stable) (L : tlayout) : bool :=
  forallb (fun p => resolves_type st tdepth (fst p) (snd p)) (layout_refs L).
