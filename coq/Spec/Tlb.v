(* A declarative layout language for TL-B types: the independent reading of block.tlb.
   - a layout says, constructor by constructor, which tag bits and which fields follow each other;
   - [encode] turns a Python value (Model.Dtree.pv) into the bits and references block.tlb prescribes for
     it, using the bit-level encodings of Spec/TlbPrim.v and Spec/TlbVal.v and, for dictionaries, the
     canonical Hashmap tree of Spec/Hashmap.v only;
   - [wt] says which values a layout admits;
   - [compile] turns a layout into the canonical decision tree of slice operations, in exactly the shape
     tools/trace_tlb.py reports for the library's hand-written `deserialize` methods.
   Definitions only.  The theorem relating them is Proofs/TlbProofs.v (compile_correct). *)
From Coq Require Import NArith ZArith List Bool String Ascii.
From PTQ Require Import Base.Result Base.Bytes Base.Bits Model.Cell Model.Builder Model.Hashmap Model.Dtree
  Spec.TlbPrim Spec.TlbVal Spec.Hashmap.
Import ListNotations.
Local Open Scope Z_scope.

(* ------------------------------------------------------------------------------------------------ *)
(* Layouts                                                                                           *)
(* ------------------------------------------------------------------------------------------------ *)

(* constant attributes the Python constructor call receives (type_="vm", exit_arg=None, ...) *)
Inductive cval := CStr (s : string) | CNone | CBool (b : bool) | CInt (z : Z).

Inductive fty :=
| FUint (n : nat)                       (* uintN, (## N) *)
| FUintLe (m : nat)                     (* (#<= m): bit_length(m) bits, value <= m *)
| FUintLt (m : nat)                     (* (#< m): bit_length(m-1) bits, value < m *)
| FInt (n : nat)                        (* intN *)
| FBool                                 (* Bool, read with load_bool *)
| FBit                                  (* (## 1) / Bool, read with load_bit *)
| FBits (n : nat)                       (* bitsN kept as a bit string *)
| FBytes (n : nat)                      (* bits(8n) kept as bytes *)
| FBytesHex (n : nat)                   (* bits(8n) kept as bytes.hex() *)
| FCoins                                (* Grams = VarUInteger 16 *)
| FVarUint (m : nat)                    (* VarUInteger m *)
| FVarInt (m : nat)                     (* VarInteger m *)
| FAddr                                 (* MsgAddress *)
| FAddrInt                              (* MsgAddressInt (addr_std only: addr_var is not representable) *)
| FAddrExt                              (* MsgAddressExt *)
| FCell                                 (* ^Cell, load_ref *)
| FMaybeCell                            (* Maybe ^Cell, load_maybe_ref *)
| FType (T : string) (args : list Z)    (* nested type, parsed inline *)
| FRefType (T : string) (args : list Z) (* ^T *)
| FMaybe (f : fty)                      (* Maybe X: presence bit (load_bit), then X *)
| FDict (n : nat) (v : fty)             (* HashmapE n V, load_dict: None when empty, else a dict *)
| FConst (c : cval).                    (* no bits: True, Unit (dictionary values) *)

(* how a run of constant bits is read before it is compared *)
Inductive chunk := CkBits (n : nat) | CkUint (n : nat) | CkBytes (k : nat).
Inductive tagmode := TagBitwise | TagChunk (c : chunk).

(* operands of a constraint { a <= b }: an integer field bound earlier in the constructor, or a literal *)
Inductive gref := GName (nm : string) | GNum (z : Z).

Inductive item :=
| INamed (nm : string) (f : fty)
| IGroup (fs : list (string * fty))              (* ^[ fields ] *)
| IConst (c : chunk) (bits : list bool)          (* x:(## n) { x = const }: read, checked, not kept *)
| INamedHex (nm hexnm : string) (n : nat)        (* bits(8n) kept twice: as bytes and as bytes.hex() *)
| IGuard (op : gop) (a b : gref).                (* { a op b }: no bits, checked *)

Inductive cret :=
| RObj (cls : string) (consts : list (string * cval))
| RNone                                          (* the constructor is represented by None *)
| RSame.                                         (* _ X = T: the value of the only field is returned *)

Record ctor := mkCtor { c_tag : list bool; c_ret : cret; c_items : list item }.
Record tlayout := mkType { t_mode : tagmode; t_ctors : list ctor }.

Definition stable := list (string * list Z * tlayout).
Fixpoint slookup (t : stable) (name : string) (args : list Z) : option tlayout :=
  match t with
  | [] => None
  | (n, a, d) :: r =>
      if (String.eqb n name && (List.length a =? List.length args)%nat
          && forallb (fun p => Z.eqb (fst p) (snd p)) (combine a args))%bool
      then Some d else slookup r name args
  end.

(* tags as they are written in block.tlb: $0111 -> bin "0111", #c4 -> hex "c4" *)
Fixpoint bin (s : string) : list bool :=
  match s with
  | EmptyString => []
  | String c r => Ascii.eqb c "1"%char :: bin r
  end.
Definition hexv (c : ascii) : N :=
  let n := N_of_ascii c in if (n <? 58)%N then (n - 48)%N else (n - 87)%N.
Fixpoint hex (s : string) : list bool :=
  match s with
  | EmptyString => []
  | String c r => to_bits 4 (hexv c) ++ hex r
  end.

(* bit_length *)
Definition bitlen (m : Z) : nat := if m <=? 0 then 0%nat else Z.to_nat (Z.log2 m + 1).
Definition le_bits (m : nat) : nat := bitlen (Z.of_nat m).          (* width of (#<= m) *)
Definition lt_bits (m : nat) : nat := bitlen (Z.of_nat m - 1).      (* width of (#< m) *)

(* ------------------------------------------------------------------------------------------------ *)
(* Values                                                                                            *)
(* ------------------------------------------------------------------------------------------------ *)

Fixpoint assoc (nm : string) (l : list (string * pv)) : pv :=
  match l with
  | [] => PNone
  | (k, v) :: r => if String.eqb k nm then v else assoc nm r
  end.
(* getattr(v, nm) *)
Definition field_of (v : pv) (nm : string) : pv :=
  match v with PObj _ fs => assoc nm fs | _ => PNone end.

Definition cval_pv (c : cval) : pv :=
  match c with CStr s => PStr s | CNone => PNone | CBool b => PBool b | CInt z => PInt z end.
Definition cval_expr (c : cval) : dexpr :=
  match c with CStr s => EConstStr s | CNone => ENone | CBool b => EConstBool b | CInt z => EConstInt z end.
Definition cval_matchb (c : cval) (v : pv) : bool :=
  match c, v with
  | CStr s, PStr s' => String.eqb s s'
  | CNone, PNone => true
  | CBool b, PBool b' => Bool.eqb b b'
  | CInt z, PInt z' => Z.eqb z z'
  | _, _ => false
  end.

(* attribute dictionaries are compared in name order (sorted(vars(obj).items())) *)
Fixpoint insert_by_name {A} (p : string * A) (l : list (string * A)) : list (string * A) :=
  match l with
  | [] => [p]
  | q :: r => if String.leb (fst p) (fst q) then p :: q :: r else q :: insert_by_name p r
  end.
Fixpoint sort_by_name {A} (l : list (string * A)) : list (string * A) :=
  match l with [] => [] | p :: r => insert_by_name p (sort_by_name r) end.
Definition sort_names (l : list string) : list string :=
  map fst (sort_by_name (map (fun n => (n, tt)) l)).

Definition item_names (it : item) : list string :=
  match it with
  | INamed nm _ => [nm]
  | IGroup fs => map fst fs
  | IConst _ _ => []
  | INamedHex nm hexnm _ => [nm; hexnm]
  | IGuard _ _ _ => []
  end.
Definition items_names (its : list item) : list string := flat_map item_names its.
Definition ctor_names (consts : list (string * cval)) (its : list item) : list string :=
  sort_names (map fst consts ++ items_names its).

(* which constructor a value belongs to: class name and constant attributes *)
Definition ctor_matches (c : ctor) (v : pv) : bool :=
  match c_ret c, v with
  | RNone, PNone => true
  | RObj cls consts, PObj cls' fs =>
      String.eqb cls cls' && forallb (fun '(nm, cv) => cval_matchb cv (assoc nm fs)) consts
  | RSame, _ => true
  | _, _ => false
  end.
(* where the constructor's fields are found in its value *)
Definition ctor_look (c : ctor) (v : pv) : string -> pv :=
  match c_ret c with RSame => fun _ => v | _ => field_of v end.

(* int(x) as the comparisons of the tracer see it *)
Definition numof (v : pv) : Z := match v with PInt z => z | PBool true => 1 | _ => 0 end.
Definition gnum (look : string -> pv) (g : gref) : Z :=
  match g with GName nm => numof (look nm) | GNum z => z end.
Definition guard_holds (look : string -> pv) (op : gop) (a b : gref) : bool :=
  let x := gnum look a in let y := gnum look b in
  match op with GLt => x <? y | GLe => x <=? y | GGt => y <? x | GGe => y <=? x end.

(* ------------------------------------------------------------------------------------------------ *)
(* The encoder                                                                                       *)
(* ------------------------------------------------------------------------------------------------ *)

Definition enc_res := result (list bool * list cell).
Definition ok_bits (l : list bool) : enc_res := Ok (l, []).

Definition enc_var (m : nat) (len : Z) (z : Z) : list bool :=
  enc (lt_bits m) len ++ enc (Z.to_nat (8 * len)) z.

Section Enc.
  (* the encoder of named types (ties the knot through the table) *)
  Variable ety : string -> list Z -> pv -> enc_res.

  Fixpoint enc_field (f : fty) (x : pv) : enc_res :=
    match f with
    | FUint n => match x with PInt z => ok_bits (enc n z) | _ => Err EType end
    | FUintLe m => match x with PInt z => ok_bits (enc (le_bits m) z) | _ => Err EType end
    | FUintLt m => match x with PInt z => ok_bits (enc (lt_bits m) z) | _ => Err EType end
    | FInt n => match x with PInt z => ok_bits (enc n z) | _ => Err EType end
    | FBool | FBit => match x with PBool b => ok_bits [b] | _ => Err EType end
    | FBits n => match x with PBits l => ok_bits l | _ => Err EType end
    | FBytes n => match x with PBytes bs => ok_bits (enc_bytes bs) | _ => Err EType end
    | FBytesHex n => match x with PHex bs => ok_bits (enc_bytes bs) | _ => Err EType end
    | FCoins => match x with PInt z => ok_bits (enc_var 16 (ulen0 z) z) | _ => Err EType end
    | FVarUint m => match x with PInt z => ok_bits (enc_var m (ulen0 z) z) | _ => Err EType end
    | FVarInt m => match x with PInt z => ok_bits (enc_var m (slen0 z) z) | _ => Err EType end
    | FAddr | FAddrInt | FAddrExt => match x with PAddr a => ok_bits (enc_addr a) | _ => Err EType end
    | FCell => match x with PCell c => Ok ([], [c]) | _ => Err EType end
    | FMaybeCell =>
        match x with PNone => ok_bits [false] | PCell c => Ok ([true], [c]) | _ => Err EType end
    | FType T a => ety T a x
    | FRefType T a => bind (ety T a x) (fun '(b, r) => Ok ([], [Cell ty_ordinary b r]))
    | FMaybe g =>
        match x with
        | PNone => ok_bits [false]
        | _ => bind (enc_field g x) (fun '(b, r) => Ok (true :: b, r))
        end
    | FDict n vf =>
        (* hme_empty$0 | hme_root$1 root:^(Hashmap n X): the canonical Patricia tree (Spec/Hashmap.v) of
           the n-bit keys and the encoded values, with the reference label kinds *)
        match x with
        | PNone => ok_bits [false]
        | PDict kvs =>
            bind (mapM (fun kv => rmap (fun p => (enc n (fst kv), p)) (enc_field vf (snd kv))) kvs)
              (fun src =>
               match s_patricia (S n) src with
               | Some e =>
                   let t := canon_kinds (canon_vtree e) n in
                   if vtree_ok t n then Ok ([true], [cell_of t n]) else Err ECell
               | None => Err EDict
               end)
        | _ => Err EType
        end
    | FConst _ => ok_bits []
    end.

  Fixpoint enc_fields (look : string -> pv) (fs : list (string * fty)) : enc_res :=
    match fs with
    | [] => Ok ([], [])
    | (nm, f) :: r =>
        bind (enc_field f (look nm)) (fun '(b1, r1) =>
        bind (enc_fields look r) (fun '(b2, r2) => Ok (b1 ++ b2, r1 ++ r2)))
    end.

  Definition enc_item (look : string -> pv) (it : item) : enc_res :=
    match it with
    | INamed nm f => enc_field f (look nm)
    | IGroup fs => bind (enc_fields look fs) (fun '(b, r) => Ok ([], [Cell ty_ordinary b r]))
    | IConst _ bits => ok_bits bits
    | INamedHex nm _ _ => match look nm with PBytes bs => ok_bits (enc_bytes bs) | _ => Err EType end
    | IGuard _ _ _ => ok_bits []
    end.

  Fixpoint enc_items (look : string -> pv) (its : list item) : enc_res :=
    match its with
    | [] => Ok ([], [])
    | it :: r =>
        bind (enc_item look it) (fun '(b1, r1) =>
        bind (enc_items look r) (fun '(b2, r2) => Ok (b1 ++ b2, r1 ++ r2)))
    end.

  Definition enc_ctor (c : ctor) (v : pv) : enc_res :=
    bind (enc_items (ctor_look c v) (c_items c)) (fun '(b, r) => Ok (c_tag c ++ b, r)).

  Definition enc_layout (L : tlayout) (v : pv) : enc_res :=
    match find (fun c => ctor_matches c v) (t_ctors L) with
    | Some c => enc_ctor c v
    | None => Err EType
    end.
End Enc.

Fixpoint enc_type (st : stable) (d : nat) (T : string) (a : list Z) (v : pv) : enc_res :=
  match d with
  | O => Err ERecursion
  | S d' => match slookup st T a with
            | None => Err EOther
            | Some L => enc_layout (enc_type st d') L v
            end
  end.

(* ------------------------------------------------------------------------------------------------ *)
(* Well-typed values                                                                                 *)
(* ------------------------------------------------------------------------------------------------ *)

Definition addr_int (a : addr) : bool := match a with AddrStd _ _ _ => true | _ => false end.
Definition addr_ext (a : addr) : bool := match a with AddrNone | AddrExt _ _ => true | _ => false end.

Fixpoint ascending (l : list Z) : bool :=
  match l with
  | a :: (b :: _) as r => (a <? b) && ascending r
  | _ => true
  end.

(* Forall, as a conjunction (so that it computes on a closed list) *)
Fixpoint all_of {A} (P : A -> Prop) (l : list A) : Prop :=
  match l with [] => True | x :: r => P x /\ all_of P r end.

Section Wt.
  Variable wty : string -> list Z -> pv -> Prop.

  Fixpoint wt_field (f : fty) (x : pv) : Prop :=
    match f with
    | FUint n => match x with PInt z => in_uint (Z.of_nat n) z = true | _ => False end
    | FUintLe m => match x with PInt z => 0 <= z <= Z.of_nat m | _ => False end
    | FUintLt m => match x with PInt z => 0 <= z < Z.of_nat m | _ => False end
    | FInt n => match x with PInt z => in_int (Z.of_nat n) z = true | _ => False end
    | FBool | FBit => match x with PBool _ => True | _ => False end
    | FBits n => match x with PBits l => List.length l = n | _ => False end
    | FBytes n => match x with PBytes bs => List.length bs = n /\ bytes_okb bs = true | _ => False end
    | FBytesHex n => match x with PHex bs => List.length bs = n /\ bytes_okb bs = true | _ => False end
    | FCoins => match x with PInt z => 0 <= z /\ ulen0 z < 16 | _ => False end
    | FVarUint m => match x with PInt z => 0 <= z /\ ulen0 z < Z.of_nat m | _ => False end
    | FVarInt m => match x with PInt z => slen0 z < Z.of_nat m | _ => False end
    | FAddr => match x with PAddr a => addr_ok a = true | _ => False end
    | FAddrInt => match x with PAddr a => addr_ok a = true /\ addr_int a = true | _ => False end
    | FAddrExt => match x with PAddr a => addr_ok a = true /\ addr_ext a = true | _ => False end
    | FCell => match x with PCell _ => True | _ => False end
    | FMaybeCell => match x with PNone | PCell _ => True | _ => False end
    | FType T a | FRefType T a => wty T a x
    | FMaybe g => match x with PNone => True | _ => wt_field g x end
    | FDict n vf =>
        (* None for the empty dictionary, else a Python dict in ascending key order *)
        match x with
        | PNone => True
        | PDict kvs =>
            kvs <> [] /\ ascending (map fst kvs) = true /\
            all_of (fun kv => 0 <= fst kv < 2 ^ Z.of_nat n /\ wt_field vf (snd kv)) kvs
        | _ => False
        end
    | FConst c => x = cval_pv c
    end.

  Fixpoint wt_fields (look : string -> pv) (fs : list (string * fty)) : Prop :=
    match fs with [] => True | (nm, f) :: r => wt_field f (look nm) /\ wt_fields look r end.

  Definition wt_item (look : string -> pv) (it : item) : Prop :=
    match it with
    | INamed nm f => wt_field f (look nm)
    | IGroup fs => wt_fields look fs
    | IConst _ _ => True
    | INamedHex nm hexnm n =>
        match look nm with
        | PBytes bs => List.length bs = n /\ bytes_okb bs = true /\ look hexnm = PHex bs
        | _ => False
        end
    | IGuard op a b => guard_holds look op a b = true
    end.

  Fixpoint wt_items (look : string -> pv) (its : list item) : Prop :=
    match its with [] => True | it :: r => wt_item look it /\ wt_items look r end.

  (* the value is exactly the object the Python constructor builds: the class, and the constant and
     loaded attributes in name order *)
  Definition wt_ctor (c : ctor) (v : pv) : Prop :=
    match c_ret c with
    | RNone => v = PNone
    | RObj cls consts =>
        v = PObj cls (map (fun nm => (nm, field_of v nm)) (ctor_names consts (c_items c)))
    | RSame => True
    end /\ wt_items (ctor_look c v) (c_items c).

  Definition wt_layout (L : tlayout) (v : pv) : Prop :=
    match find (fun c => ctor_matches c v) (t_ctors L) with
    | Some c => wt_ctor c v
    | None => False
    end.
End Wt.

Fixpoint wt_type (st : stable) (d : nat) (T : string) (a : list Z) (v : pv) : Prop :=
  match d with
  | O => False
  | S d' => match slookup st T a with
            | None => False
            | Some L => wt_layout (wt_type st d') L v
            end
  end.

(* nesting depth of named types explored by [wt] and [encode] *)
Definition tdepth : nat := 12.
Definition wt (st : stable) (L : tlayout) (v : pv) : Prop := wt_layout (wt_type st tdepth) L v.
Definition encode (st : stable) (L : tlayout) (v : pv) : enc_res := enc_layout (enc_type st tdepth) L v.

(* ------------------------------------------------------------------------------------------------ *)
(* The compiler to decision trees                                                                    *)
(* ------------------------------------------------------------------------------------------------ *)

(* continuation: number of variables bound so far, next fresh sub-slice id, attributes collected *)
Definition kont := nat -> nat -> list (string * dexpr) -> dtree.

Definition chunk_op (c : chunk) : dop :=
  match c with CkBits n => OBits n | CkUint n => OUint n | CkBytes k => OBytes k end.
Definition chunk_width (c : chunk) : nat :=
  match c with CkBits n | CkUint n => n | CkBytes k => (8 * k)%nat end.

Fixpoint compile_field (f : fty) (nm : string) (sid n ns : nat) (acc : list (string * dexpr)) (k : kont)
  : dtree :=
  let simple o := DOp sid o (k (S n) ns (acc ++ [(nm, EVar n)])) in
  match f with
  | FUint w => simple (OUint w)
  | FUintLe m => simple (OUint (le_bits m))
  | FUintLt m => simple (OUint (lt_bits m))
  | FInt w => simple (OInt w)
  | FBool => simple OBool
  | FBit => simple OBit
  | FBits w => simple (OBits w)
  | FBytes w => simple (OBytes w)
  | FBytesHex w => DOp sid (OBytes w) (k (S n) ns (acc ++ [(nm, EHex (EVar n))]))
  | FCoins => simple OCoins
  | FVarUint m => simple (OVarUint (lt_bits m))
  | FVarInt m => simple (OVarInt (lt_bits m))
  | FAddr | FAddrInt | FAddrExt => simple OAddr
  | FCell => simple ORefCell
  | FMaybeCell =>
      DOp sid OMaybeRefCell
        (DIf n 0 (k (S n) ns (acc ++ [(nm, ENone)])) (k (S n) ns (acc ++ [(nm, EVar n)])))
  | FType T a => simple (OCall T a)
  | FRefType T a =>
      DOp sid (ORef ns) (DOp ns (OCall T a) (k (S (S n)) (S ns) (acc ++ [(nm, EVar (S n))])))
  | FMaybe g =>
      DOp sid OBit (DIf n 0 (k (S n) ns (acc ++ [(nm, ENone)])) (compile_field g nm sid (S n) ns acc k))
  | FDict w vf =>
      DOp sid (ODict w (compile_field vf ""%string 0 0 1 []
                          (fun _ _ a => DRet (match a with [(_, e)] => e | _ => ENone end))))
        (DIf n 0 (k (S n) ns (acc ++ [(nm, ENone)])) (k (S n) ns (acc ++ [(nm, EVar n)])))
  | FConst c => k n ns (acc ++ [(nm, cval_expr c)])
  end.

Fixpoint compile_fields (fs : list (string * fty)) (sid n ns : nat) (acc : list (string * dexpr)) (k : kont)
  : dtree :=
  match fs with
  | [] => k n ns acc
  | (nm, f) :: r => compile_field f nm sid n ns acc (fun n' ns' acc' => compile_fields r sid n' ns' acc' k)
  end.

(* compare the bits of variable v, from bit i on, with the expected ones *)
Fixpoint check_bits (v i : nat) (bits : list bool) (t : dtree) : dtree :=
  match bits with
  | [] => t
  | b :: r => if b then DIf v i DFail (check_bits v (S i) r t) else DIf v i (check_bits v (S i) r t) DFail
  end.

(* the variable an earlier field was loaded into *)
Fixpoint assoc_expr (nm : string) (l : list (string * dexpr)) : dexpr :=
  match l with
  | [] => ENone
  | (k, e) :: r => if String.eqb k nm then e else assoc_expr nm r
  end.
Definition gexpr_of (acc : list (string * dexpr)) (g : gref) : gexpr :=
  match g with
  | GNum z => GConst z
  | GName nm =>
      match assoc_expr nm acc with
      | EVar i => GVar i
      | EConstInt z => GConst z
      | EConstBool true => GConst 1
      | _ => GConst 0
      end
  end.

Fixpoint compile_items (its : list item) (sid n ns : nat) (acc : list (string * dexpr)) (k : kont) : dtree :=
  match its with
  | [] => k n ns acc
  | INamed nm f :: r =>
      compile_field f nm sid n ns acc (fun n' ns' acc' => compile_items r sid n' ns' acc' k)
  | IGroup fs :: r =>
      DOp sid (ORef ns)
        (compile_fields fs ns (S n) (S ns) acc (fun n' ns' acc' => compile_items r sid n' ns' acc' k))
  | IConst c bits :: r =>
      DOp sid (chunk_op c) (check_bits n 0 bits (compile_items r sid (S n) ns acc k))
  | INamedHex nm hexnm w :: r =>
      DOp sid (OBytes w) (compile_items r sid (S n) ns (acc ++ [(nm, EVar n); (hexnm, EHex (EVar n))]) k)
  | IGuard op a b :: r =>
      DGuard op (gexpr_of acc a) (gexpr_of acc b) DFail (compile_items r sid n ns acc k)
  end.

Definition ret_expr (r : cret) (acc : list (string * dexpr)) : dexpr :=
  match r with
  | RNone => ENone
  | RObj cls consts => EObj cls (sort_by_name (map (fun '(nm, cv) => (nm, cval_expr cv)) consts ++ acc))
  | RSame => match acc with [(_, e)] => e | _ => ENone end
  end.

(* the body of a constructor, entered with n variables bound *)
Definition compile_ctor (c : ctor) (n : nat) : dtree :=
  compile_items (c_items c) 0 n 1 [] (fun _ _ acc => DRet (ret_expr (c_ret c) acc)).

(* the binary trie of the constructor tags, tested most significant bit first *)
Definition tagged := list (list bool * ctor).
Definition sub_tags (b : bool) (cs : tagged) : tagged :=
  flat_map (fun '(t, c) => match t with
                           | x :: t' => if Bool.eqb x b then [(t', c)] else []
                           | [] => []
                           end) cs.
Definition find_done (cs : tagged) : option ctor :=
  match find (fun '(t, _) => match t with [] => true | _ => false end) cs with
  | Some (_, c) => Some c
  | None => None
  end.

(* one load_bit per level *)
Fixpoint trie_bits (fuel : nat) (cs : tagged) (n : nat) : dtree :=
  match fuel with
  | O => DFail
  | S f =>
      match cs with
      | [] => DFail
      | _ => match find_done cs with
             | Some c => compile_ctor c n
             | None => DOp 0 OBit (DIf n 0 (trie_bits f (sub_tags false cs) (S n))
                                           (trie_bits f (sub_tags true cs) (S n)))
             end
      end
  end.

(* the tag was loaded at once as variable v; bit i is examined next *)
Fixpoint trie_chunk (fuel : nat) (cs : tagged) (v i : nat) : dtree :=
  match fuel with
  | O => DFail
  | S f =>
      match cs with
      | [] => DFail
      | _ => match find_done cs with
             | Some c => compile_ctor c (S v)
             | None => DIf v i (trie_chunk f (sub_tags false cs) v (S i))
                               (trie_chunk f (sub_tags true cs) v (S i))
             end
      end
  end.

Definition tag_fuel (cs : list ctor) : nat := S (fold_right (fun c m => Nat.max (List.length (c_tag c)) m) 0%nat cs).
Definition tagged_of (cs : list ctor) : tagged := map (fun c => (c_tag c, c)) cs.

Definition compile (L : tlayout) : dtree :=
  match t_mode L with
  | TagBitwise => trie_bits (tag_fuel (t_ctors L)) (tagged_of (t_ctors L)) 0
  | TagChunk c => DOp 0 (chunk_op c) (trie_chunk (tag_fuel (t_ctors L)) (tagged_of (t_ctors L)) 0 0)
  end.

Definition compile_table (st : stable) : table := map (fun '(n, a, L) => (n, a, compile L)) st.

(* ------------------------------------------------------------------------------------------------ *)
(* Static well-formedness of layouts (checked by computation for the table of Spec/BlockTlb.v)        *)
(* ------------------------------------------------------------------------------------------------ *)

Fixpoint list_beq (a b : list bool) : bool :=
  match a, b with
  | [], [] => true
  | x :: a', y :: b' => Bool.eqb x y && list_beq a' b'
  | _, _ => false
  end.

(* what the bit tests see of a chunk that was loaded from exactly these bits *)
Definition chunk_view (c : chunk) (bits : list bool) : list bool :=
  match c with
  | CkBits _ => bits
  | CkUint n => to_bits n (of_bits bits)
  | CkBytes _ => bytes_to_bits (bits_to_bytes bits)
  end.
Definition chunk_ok (c : chunk) (bits : list bool) : bool :=
  (1 <=? chunk_width c)%nat && (List.length bits =? chunk_width c)%nat && list_beq (chunk_view c bits) bits.

Fixpoint wf_fty (f : fty) : bool :=
  match f with
  | FUint n | FInt n => (1 <=? n)%nat
  | FUintLe m => (1 <=? m)%nat
  | FUintLt m | FVarUint m | FVarInt m => (2 <=? m)%nat
  | FMaybe g => wf_fty g
  | FDict n vf => (1 <=? n)%nat && (n <=? 1023)%nat && wf_fty vf
  | _ => true
  end.
Definition wf_item (it : item) : bool :=
  match it with
  | INamed _ f => wf_fty f
  | IGroup fs => forallb (fun p => wf_fty (snd p)) fs
  | IConst c bits => chunk_ok c bits
  | INamedHex _ _ _ | IGuard _ _ _ => true
  end.
(* the operands of every constraint are bound by an earlier item of the constructor *)
Definition gref_bound (bound : list string) (g : gref) : bool :=
  match g with GNum _ => true | GName nm => existsb (String.eqb nm) bound end.
Fixpoint guards_bound (bound : list string) (its : list item) : bool :=
  match its with
  | [] => true
  | it :: r =>
      match it with IGuard _ a b => gref_bound bound a && gref_bound bound b | _ => true end
      && guards_bound (bound ++ item_names it) r
  end.
Definition wf_ctor (m : tagmode) (c : ctor) : bool :=
  forallb wf_item (c_items c) && guards_bound [] (c_items c)
  && match c_ret c with
     | RNone => match c_items c with [] => true | _ => false end
     | RObj _ _ => true
     | RSame => match c_items c with [INamed _ _] => true | _ => false end
     end
  && match m with TagBitwise => true | TagChunk ck => chunk_ok ck (c_tag c) end.

(* the tags form a prefix code: along the trie, a finished tag is alone *)
Fixpoint trie_ok (fuel : nat) (cs : tagged) : bool :=
  match fuel with
  | O => false
  | S f =>
      match cs with
      | [] => true
      | _ => match find_done cs with
             | Some _ => match cs with [_] => true | _ => false end
             | None => trie_ok f (sub_tags false cs) && trie_ok f (sub_tags true cs)
             end
      end
  end.

Definition wf_layout (L : tlayout) : bool :=
  forallb (wf_ctor (t_mode L)) (t_ctors L) && trie_ok (tag_fuel (t_ctors L)) (tagged_of (t_ctors L)).
Definition wf_table (st : stable) : bool := forallb (fun '(_, _, L) => wf_layout L) st.

(* ------------------------------------------------------------------------------------------------ *)
(* Fuel: an upper bound of the number of [run] steps, value independent                               *)
(* ------------------------------------------------------------------------------------------------ *)
Section Need.
  Variable nty : string -> list Z -> nat.
  Fixpoint need_field (f : fty) : nat :=
    match f with
    | FType T a => S (nty T a)
    | FRefType T a => S (S (nty T a))
    | FMaybe g => S (S (need_field g))
    | FMaybeCell => 2
    | FDict _ vf => 3 + need_field vf
    | FConst _ => 0
    | _ => 1
    end.
  Definition need_fields (fs : list (string * fty)) : nat :=
    fold_right (fun p m => (need_field (snd p) + m)%nat) 0%nat fs.
  Definition need_item (it : item) : nat :=
    match it with
    | INamed _ f => need_field f
    | IGroup fs => S (need_fields fs)
    | IConst _ bits => S (List.length bits)
    | INamedHex _ _ _ | IGuard _ _ _ => 1
    end.
  Definition need_items (its : list item) : nat := fold_right (fun it m => (need_item it + m)%nat) 0%nat its.
  Definition need_ctor (c : ctor) : nat := S (need_items (c_items c)).
  Definition need_layout (L : tlayout) : nat :=
    (2 * tag_fuel (t_ctors L) + 1 + fold_right (fun c m => Nat.max (need_ctor c) m) 0 (t_ctors L))%nat.
End Need.
Fixpoint need_type (st : stable) (d : nat) (T : string) (a : list Z) : nat :=
  match d with
  | O => 0%nat
  | S d' => match slookup st T a with
            | None => 0%nat
            | Some L => need_layout (need_type st d') L
            end
  end.
Definition need (st : stable) (L : tlayout) : nat := need_layout (need_type st tdepth) L.

(* ------------------------------------------------------------------------------------------------ *)
(* Coverage: every named type reachable from a layout is in the table (within depth d)                *)
(* ------------------------------------------------------------------------------------------------ *)
Fixpoint fty_refs (f : fty) : list (string * list Z) :=
  match f with
  | FType T a | FRefType T a => [(T, a)]
  | FMaybe g => fty_refs g
  | FDict _ v => fty_refs v
  | _ => []
  end.
Definition item_refs (it : item) : list (string * list Z) :=
  match it with
  | INamed _ f => fty_refs f
  | IGroup fs => flat_map (fun p => fty_refs (snd p)) fs
  | _ => []
  end.
Definition layout_refs (L : tlayout) : list (string * list Z) :=
  flat_map (fun c => flat_map item_refs (c_items c)) (t_ctors L).
Fixpoint resolves_type (st : stable) (d : nat) (T : string) (a : list Z) : bool :=
  match d with
  | O => false
  | S d' => match slookup st T a with
            | None => false
            | Some L => forallb (fun p => resolves_type st d' (fst p) (snd p)) (layout_refs L)
            end
  end.
Definition resolves (st : stable) (L : tlayout) : bool :=
  forallb (fun p => resolves_type st tdepth (fst p) (snd p)) (layout_refs L).
