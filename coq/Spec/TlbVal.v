(* The TL-B encoding of a typed value list, and which values are encodable. *)
From Coq Require Import NArith ZArith List Bool.
From PTQ Require Import Base.Result Base.Bytes Base.Bits Model.Cell Model.Builder Model.Typed Spec.TlbPrim.
Import ListNotations.
Local Open Scope Z_scope.

(* byte lengths chosen by the encoder; proved minimal in C06_var_minimal *)
Definition ulen (v : Z) : Z := (Z.log2 v + 8) / 8.                 (* for v > 0; 0 for v = 0 *)
Definition ulen0 (v : Z) : Z := if v =? 0 then 0 else ulen v.
Definition slen0 (v : Z) : Z :=
  if v =? 0 then 0 else if 0 <? v then (Z.log2 v + 9) / 8 else if v =? -1 then 1 else (Z.log2 (- v - 1) + 9) / 8.

Definition tval_ok (x : tval) : bool :=
  match x with
  | VUint w v => (1 <=? w) && in_uint w v
  | VInt w v => (1 <=? w) && in_int w v
  | VVarUint k v => (1 <=? k) && (0 <=? v) && (ulen0 v <? 2 ^ k)
  | VVarInt k v => (1 <=? k) && (slen0 v <? 2 ^ k)
  | VCoins v => (0 <=? v) && (ulen0 v <? 16)
  | VBytes bs => bytes_okb bs
  | VAddr a => addr_ok a
  | VBit _ | VBits _ | VRef _ | VMaybeRef _ => true
  end.

Definition s_enc (x : tval) : list bool :=
  match x with
  | VUint w v => enc (Z.to_nat w) v
  | VInt w v => enc (Z.to_nat w) v
  | VVarUint k v => enc (Z.to_nat k) (ulen0 v) ++ enc (Z.to_nat (8 * ulen0 v)) v
  | VVarInt k v => enc (Z.to_nat k) (slen0 v) ++ enc (Z.to_nat (8 * slen0 v)) v
  | VCoins v => enc 4 (ulen0 v) ++ enc (Z.to_nat (8 * ulen0 v)) v
  | VBit b => [b]
  | VBits l => l
  | VBytes bs => enc_bytes bs
  | VRef _ => []
  | VMaybeRef None => [false]
  | VMaybeRef (Some _) => [true]
  | VAddr a => enc_addr a
  end.

Definition s_refs_of (x : tval) : list cell :=
  match x with
  | VRef c => [c]
  | VMaybeRef (Some c) => [c]
  | _ => []
  end.

(* ---- C07: the store operations as a state machine ---- *)
Inductive sop :=
| OVal (x : tval) | OCell (c : cell) | OSlice (s : slice) | OString (bs : list N).

Definition sstep (b : builder) (o : sop) : result builder :=
  match o with
  | OVal x => store1 b x
  | OCell c => b_store_cell b c
  | OSlice s => b_store_slice b s
  | OString bs => b_store_string b bs
  end.

Fixpoint srun (b : builder) (ops : list sop) : result builder :=
  match ops with [] => Ok b | o :: r => bind (sstep b o) (fun b' => srun b' r) end.

Definition sop_ok (o : sop) : bool :=
  match o with
  | OVal x => tval_ok x
  | OCell _ | OSlice _ => true
  | OString bs => (length bs <=? 127)%nat
  end.
Definition need_bits (o : sop) : nat :=
  match o with
  | OVal x => length (s_enc x)
  | OCell (Cell _ bits _) => length bits
  | OSlice s => length (s_bits s)
  | OString bs => (8 * length bs)%nat
  end.
Definition need_refs (o : sop) : nat :=
  match o with
  | OVal x => length (s_refs_of x)
  | OCell (Cell _ _ refs) => length refs
  | OSlice s => length (s_refs s)
  | OString _ => 0%nat
  end.
