(* Specification of HashmapAug n X Y trees (block.tlb: ahm_edge / ahmn_leaf extra:Y value:X /
   ahmn_fork left right extra:Y), with an arbitrary label kind on every edge and pruned subtrees.
   The extra Y is modelled as a field of ylen bits (what the y_deserializer consumes); the value X is
   whatever remains of the leaf cell.  Definitions only. *)
From Coq Require Import NArith ZArith List Bool.
From PTQ Require Import Base.Result Base.Bytes Base.Bits Model.Cell Model.Builder Model.Hashmap
  Spec.TlbPrim Spec.Hashmap.
Import ListNotations.

Inductive avtree :=
| AVLeaf (label : list bool) (kind : lkind) (y : list bool) (v : payload)
| AVFork (label : list bool) (kind : lkind) (l r : avtree) (y : list bool)
| AVPruned (c : cell).          (* a non-ordinary cell standing for a removed subtree *)

(* validity at remaining key length m with extras of ylen bits *)
Fixpoint avtree_ok (t : avtree) (m ylen : nat) : bool :=
  match t with
  | AVLeaf l k y v =>
      (length l =? m)%nat && kind_ok k l && (length y =? ylen)%nat &&
      (length (s_label_bits k l m) + ylen + length (fst v) <=? 1023)%nat && (length (snd v) <=? 4)%nat
  | AVFork l k a b y =>
      (length l <? m)%nat && kind_ok k l && (length y =? ylen)%nat &&
      (length (s_label_bits k l m) + ylen <=? 1023)%nat &&
      avtree_ok a (m - length l - 1) ylen && avtree_ok b (m - length l - 1) ylen
  | AVPruned (Cell ty _ _) => negb (ty =? ty_ordinary)%Z
  end.

Fixpoint acell_of (t : avtree) (m : nat) : cell :=
  match t with
  | AVLeaf l k y v => Cell ty_ordinary (s_label_bits k l m ++ y ++ fst v) (snd v)
  | AVFork l k a b y =>
      Cell ty_ordinary (s_label_bits k l m ++ y)
           [acell_of a (m - length l - 1); acell_of b (m - length l - 1)]
  | AVPruned c => c
  end.

(* key -> value part (what x_deserializer is given: the leaf slice after the extra), in key order *)
Fixpoint aleaves_of (t : avtree) (prefix : list bool) : list (list bool * slice) :=
  match t with
  | AVLeaf l _ _ v => [(prefix ++ l, mkS (fst v) (snd v))]
  | AVFork l _ a b _ => aleaves_of a (prefix ++ l ++ [false]) ++ aleaves_of b (prefix ++ l ++ [true])
  | AVPruned _ => []
  end.

(* the extras in the order the library returns them: post-order (left subtree, right subtree, fork) *)
Fixpoint aextras_of (t : avtree) : list (list bool) :=
  match t with
  | AVLeaf _ _ y _ => [y]
  | AVFork _ _ a b y => aextras_of a ++ aextras_of b ++ [y]
  | AVPruned _ => []
  end.

(* forgetting the extras gives a plain tree with the same keys (values = extra ++ value) *)
Fixpoint plain_of (t : avtree) : vtree :=
  match t with
  | AVLeaf l k y v => VLeaf l k (y ++ fst v, snd v)
  | AVFork l k a b _ => VFork l k (plain_of a) (plain_of b)
  | AVPruned c => VPruned c
  end.
