(* TON cell representation, hash, depth and level (tvm.pdf 3.1.4-3.1.7, DataCell.cpp), written
   independently of Model/Cell.v: no hash-index bookkeeping, no loop. *)
From Coq Require Import NArith ZArith List Bool.
From PTQ Require Import Base.Bytes Base.Bits Model.Cell.
Import ListNotations.
Local Open Scope N_scope.

(* data padded with the completion tag: a 1 bit, then 0 bits up to the next multiple of 8 *)
Definition s_pad (bits : list bool) : list bool :=
  if (length bits mod 8 =? 0)%nat then bits
  else bits ++ [true] ++ repeat false (7 - length bits mod 8).

Definition s_d1 (r : nat) (exotic : bool) (lmask : N) : N := N.of_nat r + 8 * b2n exotic + 32 * lmask.
Definition s_d2 (b : nat) : N := N.of_nat (b / 8) + N.of_nat ((b + 7) / 8).

Definition maxl (l : list N) : N := fold_right N.max 0 l.

Section WithHash.
  Variable H : list N -> list N.

  (* ---------------- ordinary cells (C01) ---------------- *)
  Fixpoint s_depth (c : cell) : N :=
    let 'Cell _ _ rs := c in
    match rs with [] => 0 | _ => 1 + maxl (map s_depth rs) end.

  Fixpoint s_hash (c : cell) : list N :=
    let 'Cell _ bits rs := c in
    H ([s_d1 (length rs) false 0; s_d2 (length bits)] ++ bits_to_bytes (s_pad bits)
       ++ concat (map (fun r => be_bytes 2 (s_depth r)) rs) ++ concat (map s_hash rs)).

  Definition s_repr (c : cell) : list N :=
    let 'Cell _ bits rs := c in
    [s_d1 (length rs) false 0; s_d2 (length bits)] ++ bits_to_bytes (s_pad bits)
    ++ concat (map (fun r => be_bytes 2 (s_depth r)) rs) ++ concat (map s_hash rs).

  (* ---------------- all cell types, per level (C02) ---------------- *)
  Fixpoint s_mask (c : cell) : N :=
    let 'Cell ty bits rs := c in
    if (ty =? ty_ordinary)%Z then fold_right (fun r a => N.lor (s_mask r) a) 0 rs
    else if (ty =? ty_pruned)%Z then of_bits (slice bits 8 16)
    else if (ty =? ty_mproof)%Z then match rs with r :: _ => N.shiftr (s_mask r) 1 | [] => 0 end
    else if (ty =? ty_mupdate)%Z then
      match rs with r0 :: r1 :: _ => N.shiftr (N.lor (s_mask r0) (s_mask r1)) 1 | _ => 0 end
    else 0.

  Definition low_mask (m : N) (l : nat) : N := N.land m (2 ^ N.of_nat l - 1).

  (* (hash, depth) of c at level l = 0,1,2,3 *)
  Fixpoint s_hd (c : cell) : nat -> list N * N :=
    let 'Cell ty bits rs := c in
    let m := s_mask c in
    let d2 := s_d2 (length bits) in
    let data := bits_to_bytes (s_pad bits) in
    if (ty =? ty_pruned)%Z then
      fun l =>
        let i := popcount (low_mask m l) in
        let p := popcount m in
        if i =? p then (H ([s_d1 0 true m; d2] ++ data), 0)
        else (slice data (N.to_nat (2 + 32 * i)) (N.to_nat (2 + 32 * i + 32)),
              of_be (slice data (N.to_nat (2 + 32 * p + 2 * i)) (N.to_nat (2 + 32 * p + 2 * i + 2))))
    else
      let kids (l : nat) : list (list N * N) :=
        map (fun r => s_hd r (if is_merkle ty then S l else l)) rs in
      let depth_of (ks : list (list N * N)) : N :=
        match ks with [] => 0 | _ => 1 + maxl (map snd ks) end in
      let tail (ks : list (list N * N)) : list N :=
        concat (map (fun k => be_bytes 2 (snd k)) ks) ++ concat (map fst ks) in
      fix lev (l : nat) : list N * N :=
        match l with
        | O => let ks := kids O in
               (H ([s_d1 (length rs) (is_exotic ty) 0; d2] ++ data ++ tail ks), depth_of ks)
        | S l' =>
            if N.testbit m (N.of_nat l') then
              let ks := kids l in
              (H ([s_d1 (length rs) (is_exotic ty) (low_mask m l); d2] ++ fst (lev l') ++ tail ks),
               depth_of ks)
            else lev l'
        end.

  Definition s_hash_at (c : cell) (l : nat) : list N := fst (s_hd c l).
  Definition s_depth_at (c : cell) (l : nat) : N := snd (s_hd c l).

  (* a pruned-branch cell standing for a level-0 subtree t below j Merkle cells (j = 0,1,2):
     mask 2^j, one stored hash and depth *)
  Definition s_prune (j : nat) (t : cell) : cell :=
    Cell ty_pruned
         (to_bits 8 1 ++ to_bits 8 (2 ^ N.of_nat j) ++ bytes_to_bits (s_hash_at t 0)
          ++ to_bits 16 (s_depth_at t 0)) [].
End WithHash.
