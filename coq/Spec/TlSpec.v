(* The TL (Type Language) binary format, read independently of the implementation from
   https://core.telegram.org/mtproto/serialize and https://core.telegram.org/mtproto/TL-formal :
   - a constructor id is the CRC-32 (zlib / IEEE 802.3) of the schema line with ';', '(' and ')' removed;
   - int / # / long are little-endian two's complement, int128 / int256 are raw bytes;
   - bytes / string: length prefix (1 byte if the length is <= 253, otherwise 0xFE and 3 bytes little-endian),
     the data, zero padding to a multiple of 4;
   - Bool is one of the two constructor ids boolTrue#997275b5 / boolFalse#bc799737 (little-endian on the wire);
   - vector: 4-byte little-endian count, then the elements;
   - a boxed object is its constructor id (little-endian) followed by its fields, a bare object is its fields only;
   - a conditional field  flags.N?T  is present iff bit N of the (earlier) flags field is set.
   Definitions only.  The value and type universes (tv, tltype, tl_ctor) and the table lookup by_name (a Python dict:
   the last entry for a name wins) are those of Model/Tl.v; nothing else of the model is used. *)
From Coq Require Import NArith ZArith List Bool String Ascii.
From PTQ Require Import Base.Bytes Model.Tl.
Import ListNotations.

(* ------------------------------------------------------------------ *)
(* 1. constructor ids                                                   *)
(* ------------------------------------------------------------------ *)

(* CRC-32 (zlib): reflected polynomial 0xEDB88320, initial value all ones, final inversion; bit at a time. *)
Definition z32_bit (c : N) : N :=
  (if N.odd c then N.lxor (N.shiftr c 1) 0xEDB88320 else N.shiftr c 1)%N.
Definition z32_byte (c b : N) : N := N.iter 8%N z32_bit (N.lxor c b).
Definition crc32 (bs : list N) : N := (N.lxor (fold_left z32_byte bs 0xFFFFFFFF) 0xFFFFFFFF)%N.
Definition crc32_be (bs : list N) : list N := be_bytes 4%nat (crc32 bs).

(* the text that is hashed: the schema line without ';', '(' and ')' *)
Fixpoint clear_schema (s : string) : string :=
  match s with
  | EmptyString => EmptyString
  | String c r =>
      if (Ascii.eqb c ";" || Ascii.eqb c "(" || Ascii.eqb c ")")%bool then clear_schema r
      else String c (clear_schema r)
  end.
Definition bytes_of_string (s : string) : list N := map N_of_ascii (list_ascii_of_string s).

Definition s_ctor_id (line : string) : list N := crc32_be (bytes_of_string (clear_schema line)).

(* ------------------------------------------------------------------ *)
(* 2. primitive encodings                                               *)
(* ------------------------------------------------------------------ *)

(* little-endian two's complement on len bytes: Z.modulo / Z.div floor, so z / 256 is the arithmetic shift *)
Fixpoint s_int_le (len : nat) (z : Z) : list N :=
  match len with
  | O => []
  | S k => Z.to_N (z mod 256) :: s_int_le k (z / 256)
  end.
Definition s_int_range (len : nat) (z : Z) : bool :=
  (1 <=? len)%nat && (- 2 ^ (8 * Z.of_nat len - 1) <=? z)%Z && (z <? 2 ^ (8 * Z.of_nat len - 1))%Z.

(* unsigned 32-bit little-endian (vector counts) *)
Definition s_u32_le (n : N) : list N :=
  [n mod 256; (n / 256) mod 256; (n / 65536) mod 256; (n / 16777216) mod 256]%N.

(* bytes / string framing *)
Definition s_len_prefix (n : N) : list N :=
  if (n <=? 253)%N then [n] else [254; n mod 256; (n / 256) mod 256; (n / 65536) mod 256]%N.
Definition s_padding (n : N) : list N := repeat 0%N (N.to_nat ((4 - n mod 4) mod 4)).
Definition s_frame (l : list N) : list N :=
  let pre := s_len_prefix (N.of_nat (List.length l)) in
  pre ++ l ++ s_padding (N.of_nat (List.length pre + List.length l)).

(* Bool: boolTrue#997275b5, boolFalse#bc799737 *)
Definition s_bool (b : bool) : list N := s_u32_le (if b then 0x997275b5 else 0xbc799737)%N.

(* ------------------------------------------------------------------ *)
(* 3. typed values                                                      *)
(* ------------------------------------------------------------------ *)

Fixpoint s_assoc (l : list (string * tv)) (k : string) : option tv :=
  match l with
  | [] => None
  | (n, v) :: r => if String.eqb n k then Some v else s_assoc r k
  end.

(* flags.N?T : bit N of the flags field among the fields that precede.  The library does not keep the name written
   before the dot: it is the field called "mode", else the one called "flags"; '#' is a natural number. *)
Definition s_flag (seen : list (string * tv)) (bit : nat) : option bool :=
  match (match s_assoc seen "mode" with Some x => Some x | None => s_assoc seen "flags" end) with
  | Some (TVInt z) => if (0 <=? z)%Z then Some (Z.testbit z (Z.of_nat bit)) else None
  | _ => None
  end.

(* A bare object has no constructor id on the wire, hence no recoverable '@type': a bare *field* carries the
   constructor name its declared type gives it, a bare *vector element* carries none (modelled as ""). *)
Definition bare_name_ok (in_vector : bool) (ty : tltype) (v : tv) : bool :=
  match ty, v with
  | TBare nm, TVObj n _ => String.eqb n (if in_vector then "" else nm)
  | _, _ => true
  end.

(* vectors the library supports: of base types (Bool, #, int, long, int128, int256, bytes, string: the elements are
   encoded like fields of that type), of bare constructors ("named": the element type is a constructor name) and of
   boxed classes.  Not supported: vectors of vectors and of unclassifiable types. *)
Definition s_vector_supported (el : tltype) (elname : string) (named : bool) : bool :=
  match el, named with
  | TFixed _ _, _ | TBytes, _ | TString, _ => true
  | TBare nm, true => String.eqb nm elname
  | TBoxed _, false => true
  | _, _ => false
  end.

Section Enc.
  Variable enc : tltype -> tv -> option (list N).     (* the encoding of the component values *)

  (* the fields of a constructor, in declaration order; [fs] are the fields still to be matched, [seen] those done *)
  Fixpoint s_fields_with (args : list tl_arg) (fs seen : list (string * tv)) {struct args} : option (list N) :=
    match args with
    | [] => match fs with [] => Some [] | _ => None end
    | a :: args' =>
      match (match a_cond a with None => Some true | Some bit => s_flag seen bit end) with
      | None => None
      | Some false => s_fields_with args' fs seen                      (* absent: no bytes, no entry *)
      | Some true =>
        match fs with
        | (n, x) :: fs' =>
          if String.eqb n (a_field a) && bare_name_ok false (a_ty a) x then
            match enc (a_ty a) x, s_fields_with args' fs' (seen ++ [(n, x)]) with
            | Some b1, Some b2 => Some (b1 ++ b2)
            | _, _ => None
            end
          else None
        | [] => None
        end
      end
    end.

  Definition s_obj_with (c : tl_ctor) (fs : list (string * tv)) (boxed : bool) : option (list N) :=
    match s_fields_with (c_args c) fs [] with
    | Some b => Some ((if boxed then rev (c_id c) else []) ++ b)
    | None => None
    end.

  (* vector elements; an element of zero bytes (a bare constructor without fields) is excluded: the library refuses a
     count larger than the number of remaining bytes.  Elements of a base type are encoded by enc like scalar fields. *)
  Fixpoint s_elems_with (el : tltype) (l : list tv) : option (list N) :=
    match l with
    | [] => Some []
    | x :: r =>
      if bare_name_ok true el x then
        match enc el x, s_elems_with el r with
        | Some (y :: b1), Some b2 => Some ((y :: b1) ++ b2)
        | _, _ => None
        end
      else None
    end.
End Enc.

(* s_enc tbl fuel ty v = Some bytes : v is a well-typed value of type ty (nesting depth < fuel) and bytes is its
   TL encoding; None: not well-typed / not supported *)
Fixpoint s_enc (tbl : tl_tbl) (fuel : nat) (ty : tltype) (v : tv) {struct fuel} : option (list N) :=
  match fuel with
  | O => None
  | S f =>
    match ty, v with
    | TFixed len FIntT, TVInt z => if s_int_range len z then Some (s_int_le len z) else None
    | TFixed len FBoolT, TVBool b => if (len =? 4)%nat then Some (s_bool b) else None
    | TFixed len FRaw, TVHex l => if (List.length l =? len)%nat && bytes_okb l then Some l else None
    | TBytes, TVBytes l =>
        if bytes_okb l && (N.of_nat (List.length l) <? 16777216)%N then Some (s_frame l) else None
    | TString, TVStr l =>
        if valid_utf8 (S (List.length l)) l && (N.of_nat (List.length l) <? 16777216)%N then Some (s_frame l) else None
    | TBare nm, TVObj _ fs =>
        match by_name tbl nm with
        | Some c => s_obj_with (s_enc tbl f) c fs false
        | None => None
        end
    | TBoxed cls, TVObj n fs =>
        match by_name tbl n with
        | Some c => if String.eqb (c_class c) cls then s_obj_with (s_enc tbl f) c fs true else None
        | None => None
        end
    | TNamedBoxed nm, TVObj n fs =>
        if String.eqb n nm then
          match by_name tbl nm with
          | Some c => s_obj_with (s_enc tbl f) c fs true
          | None => None
          end
        else None
    | TVector el elname named, TVVec l =>
        if s_vector_supported el elname named && (N.of_nat (List.length l) <? 4294967296)%N then
          match s_elems_with (s_enc tbl f) el l with
          | Some b => Some (s_u32_le (N.of_nat (List.length l)) ++ b)
          | None => None
          end
        else None
    | _, _ => None
    end
  end.

Definition wt_value (tbl : tl_tbl) (fuel : nat) (ty : tltype) (v : tv) : bool :=
  match s_enc tbl fuel ty v with Some _ => true | None => false end.

(* the top-level entry point: schemas.serialize(name, {'@type': name, fields...}) *)
Definition s_encode (tbl : tl_tbl) (fuel : nat) (name : string) (fs : list (string * tv)) : option (list N) :=
  s_enc tbl fuel (TNamedBoxed name) (TVObj name fs).
