(* The TON bag-of-cells wire format (crypto/tl/boc.tlb: serialized_boc, serialized_boc_idx,
   serialized_boc_idx_crc32c) as an executable STRICT decoder, written independently of Model/Boc.v.
   It accepts exactly the well-formed encodings and returns the roots they denote. *)
From Coq Require Import NArith ZArith List Bool.
From PTQ Require Import Base.Bytes Base.Bits Spec.Crc Model.Cell.
Import ListNotations.
Local Open Scope N_scope.

Record s_cellrec := mkSC {
  sc_ty : Z; sc_bits : list bool; sc_refs : list N; sc_len : nat   (* serialized length in bytes *) }.

Record s_boc := mkSB {
  sb_has_idx : bool; sb_has_crc : bool; sb_has_cache : bool; sb_size : nat; sb_off : nat;
  sb_cells : list s_cellrec; sb_roots : list N; sb_index : list N }.

Definition take (n : nat) (d : list N) : option (list N * list N) :=
  if (length d <? n)%nat then None else Some (firstn n d, skipn n d).
Definition take_uint (w : nat) (d : list N) : option (N * list N) :=
  match take w d with Some (x, r) => Some (of_be x, r) | None => None end.
Fixpoint take_uints (n w : nat) (d : list N) : option (list N * list N) :=
  match n with
  | O => Some ([], d)
  | S n' => match take_uint w d with
            | Some (x, r) => match take_uints n' w r with Some (xs, r') => Some (x :: xs, r') | None => None end
            | None => None
            end
  end.

(* data bits of a cell: d2 even = whole bytes; d2 odd = the last byte carries the completion tag *)
Definition s_untag (bytes : list N) (augmented : bool) : option (list bool) :=
  let bits := bytes_to_bits bytes in
  if negb augmented then Some bits
  else
    match rev bits with
    | [] => None
    | _ =>
      (* drop at most 6 trailing zeros, then the 1: the tag lies in the low 7 bits of the last byte
         (a byte-aligned bit string is never written with a tag byte) *)
      let fix drop (l : list bool) (k : nat) : option (list bool) :=
          match k with
          | O => None
          | S k' => match l with
                    | true :: r => Some (rev r)
                    | false :: r => drop r k'
                    | [] => None
                    end
          end in
      drop (rev bits) 7%nat
    end.

Definition s_cell (d : list N) (size : nat) : option (s_cellrec * list N) :=
  match d with
  | d1 :: d2 :: r0 =>
      let nrefs := N.to_nat (N.land d1 7) in
      let exotic := N.testbit d1 3 in
      let has_hashes := N.testbit d1 4 in
      let lmask := N.shiftr d1 5 in
      if (4 <? nrefs)%nat then None else
      let hc := N.to_nat (popcount lmask + 1) in
      match take (if has_hashes then hc * 34 else 0)%nat r0 with
      | None => None
      | Some (_, r1) =>
          let nbytes := N.to_nat ((d2 + 1) / 2) in
          match take nbytes r1 with
          | None => None
          | Some (data, r2) =>
              match s_untag data (N.odd d2) with
              | None => None
              | Some bits =>
                  match take_uints nrefs size r2 with
                  | None => None
                  | Some (refs, r3) =>
                      let ty := if exotic then of_bits_signed (firstn 8 bits) else (-1)%Z in
                      if exotic && (length bits <? 8)%nat then None
                      else Some (mkSC ty bits refs (length d - length r3), r3)
                  end
              end
          end
      end
  | _ => None
  end.

Fixpoint s_cells (n : nat) (d : list N) (size : nat) : option (list s_cellrec * list N) :=
  match n with
  | O => Some ([], d)
  | S n' => match s_cell d size with
            | Some (c, r) => match s_cells n' r size with Some (cs, r') => Some (c :: cs, r') | None => None end
            | None => None
            end
  end.

Definition s_magic_reach : list N := [0xb5; 0xee; 0x9c; 0x72].
Definition s_magic_idx : list N := [0x68; 0xff; 0x65; 0xf3].
Definition s_magic_idx_crc : list N := [0xac; 0xc3; 0xa7; 0x28].
Definition beqb (a b : list N) : bool :=
  (length a =? length b)%nat && forallb (fun p => fst p =? snd p) (combine a b).

(* structural parse: every field, exact total length *)
Definition s_parse (d : list N) : option s_boc :=
  match take 4 d with
  | None => None
  | Some (magic, r) =>
    match r with
    | fb :: offb :: r1 =>
      let reach := beqb magic s_magic_reach in
      let legacy := beqb magic s_magic_idx || beqb magic s_magic_idx_crc in
      if negb (reach || legacy) then None else
      let has_idx := if reach then N.testbit fb 7 else true in
      let has_crc := if reach then N.testbit fb 6 else beqb magic s_magic_idx_crc in
      let has_cache := if reach then N.testbit fb 5 else false in
      let flags_ok := if reach then negb (N.testbit fb 4) && negb (N.testbit fb 3) else true in
      let size := N.to_nat (if reach then fb mod 8 else fb) in
      let off := N.to_nat offb in
      if negb flags_ok || (size <? 1)%nat || (4 <? size)%nat || (off <? 1)%nat || (8 <? off)%nat
         || (has_cache && negb has_idx) then None else
      match take_uint size r1 with None => None | Some (cells, r2) =>
      match take_uint size r2 with None => None | Some (roots, r3) =>
      match take_uint size r3 with None => None | Some (absent, r4) =>
      match take_uint off r4 with None => None | Some (tot, r5) =>
      match (if reach then take_uints (N.to_nat roots) size r5 else Some ([0], r5)) with None => None | Some (root_list, r6) =>
      match (if has_idx then take_uints (N.to_nat cells) off r6 else Some ([], r6)) with None => None | Some (index, r7) =>
      match take (N.to_nat tot) r7 with None => None | Some (cell_data, r8) =>
      match s_cells (N.to_nat cells) cell_data size with
      | Some (cs, []) =>
          let crc_ok :=
            if has_crc then beqb r8 (s_crc32c (firstn (length d - 4) d) false) && (length r8 =? 4)%nat
            else (length r8 =? 0)%nat in
          if crc_ok && (1 <=? roots) && (absent =? 0) && (roots + absent <=? cells)
             && (if reach then true else roots =? 1)
          then Some (mkSB has_idx has_crc has_cache size off cs root_list index) else None
      | _ => None
      end end end end end end end end
    | _ => None
    end
  end.

(* semantic conditions: references forward and in range, roots in range, index = cumulative end offsets *)
Fixpoint s_refs_ok (cs : list s_cellrec) (i n : N) : bool :=
  match cs with
  | [] => true
  | c :: r => forallb (fun x => (i <? x) && (x <? n)) (sc_refs c) && s_refs_ok r (i + 1) n
  end.
Fixpoint s_index_ok (cs : list s_cellrec) (idx : list N) (acc : N) (cache : bool) : bool :=
  match cs, idx with
  | [], [] => true
  | c :: r, x :: xs =>
      let acc' := acc + N.of_nat (sc_len c) in
      ((if cache then N.shiftr x 1 else x) =? acc') && s_index_ok r xs acc' cache
  | _, _ => false
  end.
Definition s_valid (b : s_boc) : bool :=
  let n := N.of_nat (length (sb_cells b)) in
  s_refs_ok (sb_cells b) 0 n && forallb (fun r => r <? n) (sb_roots b) &&
  (if sb_has_idx b then s_index_ok (sb_cells b) (sb_index b) 0 (sb_has_cache b) else true).

(* the trees denoted: built from the last cell to the first *)
Fixpoint s_trees (cs : list s_cellrec) (i : nat) : list cell :=
  match cs with
  | [] => []
  | c :: r =>
      let built := s_trees r (S i) in
      Cell (sc_ty c) (sc_bits c)
           (map (fun x => nth (N.to_nat x - S i) built (Cell (-1) [] [])) (sc_refs c)) :: built
  end.

Definition s_decode (d : list N) : option (list cell) :=
  match s_parse d with
  | Some b => if s_valid b then
                let ts := s_trees (sb_cells b) 0 in
                Some (map (fun r => nth (N.to_nat r) ts (Cell (-1) [] [])) (sb_roots b))
              else None
  | None => None
  end.

(* all cells of the bag as trees (for "each distinct cell appears exactly once") *)
Definition s_all_cells (d : list N) : option (list cell) :=
  match s_parse d with Some b => if s_valid b then Some (s_trees (sb_cells b) 0) else None | None => None end.

Fixpoint tree_eqb (a b : cell) : bool :=
  let 'Cell ta ba ra := a in
  let 'Cell tb bb rb := b in
  (ta =? tb)%Z && (length ba =? length bb)%nat && forallb (fun p => Bool.eqb (fst p) (snd p)) (combine ba bb)
  && (length ra =? length rb)%nat
  && (fix go (x y : list cell) : bool :=
        match x, y with
        | [], [] => true
        | p :: x', q :: y' => tree_eqb p q && go x' y'
        | _, _ => false
        end) ra rb.
Fixpoint nodup_trees (l : list cell) : bool :=
  match l with [] => true | x :: r => negb (existsb (tree_eqb x) r) && nodup_trees r end.

(* forget what a constructed Cell caches *)
Fixpoint k_tree (k : kcell) : cell :=
  let 'KCell ty bits refs _ _ _ := k in Cell ty bits (map k_tree refs).
