(* Textbook bit-at-a-time definitions of CRC-16/XMODEM and CRC-32C (Castagnoli). *)
From Coq Require Import NArith List.
From PTQ Require Import Base.Bytes.
Import ListNotations.
Local Open Scope N_scope.

(* CRC-16/XMODEM: polynomial 0x1021, init 0, no reflection, no final xor, big-endian result. *)
Definition s16_bit (c : N) : N :=
  N.land (if N.testbit c 15 then N.lxor (N.shiftl c 1) 0x1021 else N.shiftl c 1) 0xFFFF.
Definition s16_byte (c b : N) : N := N.iter 8 s16_bit (N.lxor c (N.shiftl b 8)).
Definition s_crc16 (bs : list N) : list N := be_bytes 2%nat (fold_left s16_byte bs 0).

(* CRC-32C: reflected polynomial 0x82F63B78, init all ones, final inversion. *)
Definition s32_bit (c : N) : N :=
  if N.odd c then N.lxor (N.shiftr c 1) 0x82F63B78 else N.shiftr c 1.
Definition s32_byte (c b : N) : N := N.iter 8 s32_bit (N.lxor c b).
Definition s_crc32c (bs : list N) (big : bool) : list N :=
  (if big then be_bytes else le_bytes) 4%nat (N.lxor (fold_left s32_byte bs 0xFFFFFFFF) 0xFFFFFFFF).
