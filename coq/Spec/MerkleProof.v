(* What a Merkle proof proves: the proof's child is a virtualisation of the original tree - equal node by
   node, except that some subtrees are replaced by pruned branches carrying that subtree's hash. *)
From Coq Require Import NArith ZArith List Bool.
From PTQ Require Import Base.Bytes Base.Bits Model.Cell Spec.CellRepr.
Import ListNotations.
Local Open Scope N_scope.

(* the Merkle-proof cell over child v claiming hash h and depth d *)
Definition s_mproof (v : cell) (h : list N) (d : N) : cell :=
  Cell ty_mproof (to_bits 8 3 ++ bytes_to_bits h ++ to_bits 16 d) [v].

Section WithHash.
  Variable H : list N -> list N.

  (* built by pruning: subtrees replaced by the level-1 pruned branch with their hash and depth *)
  Inductive virt_of : cell -> cell -> Prop :=
  | V_same : forall t, virt_of t t
  | V_prune : forall t, virt_of (s_prune H 0 t) t
  | V_node : forall bits vs ts, Forall2 virt_of vs ts ->
                                virt_of (Cell ty_ordinary bits vs) (Cell ty_ordinary bits ts).

  (* what acceptance can guarantee: every pruned leaf names the hash of the subtree it stands for *)
  Definition is_pruned1 (c : cell) (h : list N) : Prop :=
    exists d, c = Cell ty_pruned (to_bits 8 1 ++ to_bits 8 1 ++ bytes_to_bits h ++ to_bits 16 d) [].
  Inductive covers : cell -> cell -> Prop :=
  | C_pruned : forall c t, is_pruned1 c (s_hash H t) -> covers c t
  | C_node : forall bits vs ts, Forall2 covers vs ts ->
                                covers (Cell ty_ordinary bits vs) (Cell ty_ordinary bits ts).

  (* shape of a virtualised tree: ordinary nodes within limits, pruned leaves of mask 1 *)
  Fixpoint wf_virtual (v : cell) : bool :=
    let 'Cell ty bits rs := v in
    if (ty =? ty_pruned)%Z then
      (length rs =? 0)%nat && (length bits =? 288)%nat && (of_bits (firstn 8 bits) =? 1) && (of_bits (slice bits 8 16) =? 1)
    else (ty =? ty_ordinary)%Z && (length bits <=? 1023)%nat && (length rs <=? 4)%nat && forallb wf_virtual rs.

  Definition collision : Prop := exists m1 m2 : list N, m1 <> m2 /\ H m1 = H m2.

  (* built by pruning, for original trees of ANY cell types (nested Merkle proofs / updates included).
     [virt_gen j v t]: v is t with some level-0 subtrees replaced by pruned branches, where j is the
     number of Merkle cells above the current node INSIDE the original tree.  A level-0 subtree below j
     Merkle cells of the original ends up below j+1 Merkle cells once the proof cell is on top, so it is
     replaced by the pruned branch of mask 2^j (j <= 2: a level mask has three bits).  Children of
     Merkle proof / update nodes are one Merkle cell deeper. *)
  Inductive virt_gen : nat -> cell -> cell -> Prop :=
  | VG_same : forall j t, virt_gen j t t
  | VG_prune : forall j t, (j <= 2)%nat -> s_mask t = 0 -> virt_gen j (s_prune H j t) t
  | VG_node : forall j ty bits vs ts,
      Forall2 (virt_gen (if is_merkle ty then S j else j)) vs ts ->
      virt_gen j (Cell ty bits vs) (Cell ty bits ts).

  (* what acceptance of such a proof can guarantee: node by node v is t (same type, same data, children
     related one Merkle cell deeper below Merkle nodes), down to the places where either side is a pruned
     branch; there, j Merkle cells deep, both sides have the same hash at level j - a pruned branch of the
     proof names the level-j hash of the subtree it stands for (and where the original is itself a partial
     tree, the proof may show more than the original's pruned branch, with that hash). *)
  Definition is_prunedc (c : cell) : bool := let 'Cell ty _ _ := c in (ty =? ty_pruned)%Z.
  Inductive covers_gen : nat -> cell -> cell -> Prop :=
  | CG_hash : forall j v t, is_prunedc v || is_prunedc t = true ->
                            s_hash_at H v j = s_hash_at H t j -> covers_gen j v t
  | CG_node : forall j ty bits vs ts, (ty =? ty_pruned)%Z = false ->
      Forall2 (covers_gen (if is_merkle ty then S j else j)) vs ts ->
      covers_gen j (Cell ty bits vs) (Cell ty bits ts).
End WithHash.
