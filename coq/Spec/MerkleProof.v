(* What a Merkle proof proves: the proof's child is a virtualisation of the original tree - equal node by
   node, except that some subtrees are replaced by pruned branches carrying that subtree's hash. *)
From Coq Require Import NArith ZArith List Bool.
From PTQ Require Import Base.Bytes Base.Bits Model.Cell Spec.CellRepr.
Import ListNotations.
Local Open Scope N_scope.

(* the Merkle-proof cell over child v claiming hash h and depth d *)
Definition s_mproof (v : cell) (h : list N) (d : N) : cell :=
  Cell ty_mproof (to_bits 8 3 ++ bytes_to_bits h ++ to_bits 16 d) [v].

Section WithHash.
  Variable H : list N -> list N.

  (* built by pruning: subtrees replaced by the level-1 pruned branch with their hash and depth *)
  Inductive virt_of : cell -> cell -> Prop :=
  | V_same : forall t, virt_of t t
  | V_prune : forall t, virt_of (s_prune H 0 t) t
  | V_node : forall bits vs ts, Forall2 virt_of vs ts ->
                                virt_of (Cell ty_ordinary bits vs) (Cell ty_ordinary bits ts).

  (* what acceptance can guarantee: every pruned leaf names the hash of the subtree it stands for *)
  Definition is_pruned1 (c : cell) (h : list N) : Prop :=
    exists d, c = Cell ty_pruned (to_bits 8 1 ++ to_bits 8 1 ++ bytes_to_bits h ++ to_bits 16 d) [].
  Inductive covers : cell -> cell -> Prop :=
  | C_pruned : forall c t, is_pruned1 c (s_hash H t) -> covers c t
  | C_node : forall bits vs ts, Forall2 covers vs ts ->
                                covers (Cell ty_ordinary bits vs) (Cell ty_ordinary bits ts).

  (* shape of a virtualised tree: ordinary nodes within limits, pruned leaves of mask 1 *)
  Fixpoint wf_virtual (v : cell) : bool :=
    let 'Cell ty bits rs := v in
    if (ty =? ty_pruned)%Z then
      (length rs =? 0)%nat && (length bits =? 288)%nat && (of_bits (firstn 8 bits) =? 1) && (of_bits (slice bits 8 16) =? 1)
    else (ty =? ty_ordinary)%Z && (length bits <=? 1023)%nat && (length rs <=? 4)%nat && forallb wf_virtual rs.

  Definition collision : Prop := exists m1 m2 : list N, m1 <> m2 /\ H m1 = H m2.
End WithHash.
