(* Spec-valid shapes of exotic cell trees, and one-hole contexts for the pruning theorem. *)
From Coq Require Import NArith ZArith List Bool.
From PTQ Require Import Base.Bytes Base.Bits Model.Cell Spec.CellRepr.
Import ListNotations.
Local Open Scope N_scope.

(* shape conditions of the TON cell specification, as far as construction depends on them *)
Fixpoint wf_exotic (c : cell) : bool :=
  let 'Cell ty bits rs := c in
  (length bits <=? 1023)%nat && (length rs <=? 4)%nat && forallb wf_exotic rs && (s_mask c <=? 7) &&
  (if (ty =? ty_ordinary)%Z then true
   else if (ty =? ty_pruned)%Z then
     (length rs =? 0)%nat && (1 <=? s_mask c) &&
     (length bits =? 16 + 272 * N.to_nat (popcount (s_mask c)))%nat
   else if (ty =? ty_library)%Z then (length rs =? 0)%nat
   else if (ty =? ty_mproof)%Z then (length rs =? 1)%nat
   else if (ty =? ty_mupdate)%Z then (length rs =? 2)%nat
   else false).

Section WithHash.
  Variable H : list N -> list N.

  (* depth at every level of every sub-cell stays within the limit *)
  Fixpoint depth_okb (c : cell) : bool :=
    let 'Cell _ _ rs := c in
    forallb (fun l => s_depth_at H c l <=? 1023) [0; 1; 2; 3]%nat && forallb depth_okb rs.
End WithHash.

(* one-hole contexts made of non-pruned cells *)
Inductive cctx :=
| Hole
| CNode (ty : Z) (bits : list bool) (before : list cell) (inner : cctx) (after : list cell).

Fixpoint plug (K : cctx) (x : cell) : cell :=
  match K with
  | Hole => x
  | CNode ty bits bef K' aft => Cell ty bits (bef ++ plug K' x :: aft)
  end.

(* number of Merkle cells between the root and the hole *)
Fixpoint merkle_depth (K : cctx) : nat :=
  match K with
  | Hole => O
  | CNode ty _ _ K' _ => (if is_merkle ty then 1 else 0) + merkle_depth K'
  end.

Fixpoint ctx_nonpruned (K : cctx) : bool :=
  match K with
  | Hole => true
  | CNode ty _ _ K' _ => negb (ty =? ty_pruned)%Z && ctx_nonpruned K'
  end.
