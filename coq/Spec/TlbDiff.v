(* debugging aid (not part of the deliverable): first difference between two trees *)
From Coq Require Import NArith ZArith List Bool String.
From PTQ Require Import Model.Dtree.
Import ListNotations.

Inductive diff := Same | Diff (a b : dtree) | DiffE (a b : dexpr) | DiffO (a b : dop).

Fixpoint expr_eqb (a b : dexpr) : bool :=
  match a, b with
  | EVar k, EVar k' => Nat.eqb k k'
  | EConstInt z, EConstInt z' => Z.eqb z z'
  | EConstBool x, EConstBool y => Bool.eqb x y
  | EConstStr s, EConstStr s' => String.eqb s s'
  | ENone, ENone => true
  | EObj c fs, EObj c' fs' =>
      String.eqb c c' &&
      (fix go (l l' : list (string * dexpr)) : bool :=
         match l, l' with
         | [], [] => true
         | (n, e) :: r, (n', e') :: r' => String.eqb n n' && expr_eqb e e' && go r r'
         | _, _ => false
         end) fs fs'
  | EHex e, EHex e' => expr_eqb e e'
  | ESortedValues e, ESortedValues e' => expr_eqb e e'
  | ELeafSlice, ELeafSlice => true
  | EDerived, EDerived => true
  | _, _ => false
  end.

Definition seq (d1 d2 : diff) : diff := match d1 with Same => d2 | _ => d1 end.

Fixpoint dtree_diff (a b : dtree) : diff :=
  match a, b with
  | DOp s o k, DOp s' o' k' =>
      if negb (Nat.eqb s s') then Diff a b else seq (dop_diff o o') (dtree_diff k k')
  | DIf v i t0 t1, DIf v' i' t0' t1' =>
      if negb (Nat.eqb v v' && Nat.eqb i i') then Diff a b else seq (dtree_diff t0 t0') (dtree_diff t1 t1')
  | DRet e, DRet e' => if expr_eqb e e' then Same else DiffE e e'
  | DFail, DFail => Same
  | _, _ => Diff a b
  end
with dop_diff (a b : dop) : diff :=
  match a, b with
  | OUint n, OUint n' | OInt n, OInt n' | OBits n, OBits n' | OBytes n, OBytes n'
  | OVarUint n, OVarUint n' | OVarInt n, OVarInt n' | ORef n, ORef n' =>
      if Nat.eqb n n' then Same else DiffO a b
  | OBit, OBit | OBool, OBool | OCoins, OCoins | OAddr, OAddr | ORefCell, ORefCell
  | OMaybeRefCell, OMaybeRefCell | OToCell, OToCell => Same
  | OCall T ar, OCall T' ar' =>
      if String.eqb T T' && (List.length ar =? List.length ar')%nat
         && forallb (fun p => Z.eqb (fst p) (snd p)) (combine ar ar') then Same else DiffO a b
  | ODict n v, ODict n' v' => if Nat.eqb n n' then dtree_diff v v' else DiffO a b
  | _, _ => DiffO a b
  end.
