(* TL-B primitive encodings, stated bit by bit with Z.testbit (two's complement, most significant
   bit first) - independent of int2ba/to_bits used by the model. *)
From Coq Require Import NArith ZArith List Bool.
From PTQ Require Import Base.Bytes Base.Bits Model.Cell Model.Builder.
Import ListNotations.
Local Open Scope Z_scope.

(* the w low bits of v, most significant first; for negative v this is two's complement *)
Definition enc (w : nat) (v : Z) : list bool :=
  map (fun i => Z.testbit v (Z.of_nat (w - 1 - i))) (seq 0 w).

Definition in_uint (w : Z) (v : Z) : bool := (0 <=? v) && (v <? 2 ^ w).
Definition in_int (w : Z) (v : Z) : bool := (- 2 ^ (w - 1) <=? v) && (v <? 2 ^ (w - 1)).

(* minimal byte lengths: the least l >= 0 with v in the l-byte unsigned / signed range *)
Definition is_min_ulen (v l : Z) : Prop :=
  0 <= l /\ in_uint (8 * l) v = true /\ (0 < l -> in_uint (8 * (l - 1)) v = false).
Definition is_min_slen (v l : Z) : Prop :=
  0 <= l /\ (v = 0 -> l = 0) /\ (v <> 0 -> 0 < l /\ in_int (8 * l) v = true /\
                                  (1 < l -> in_int (8 * (l - 1)) v = false)).

Definition enc_bytes (bs : list N) : list bool := flat_map (fun b => enc 8 (Z.of_N b)) bs.

(* MsgAddress: addr_none$00 | addr_extern$01 len:(## 9) external_address:(bits len)
   | addr_std$10 anycast:(Maybe Anycast) workchain_id:int8 address:bits256
   anycast_info$_ depth:(#<= 30) { depth >= 1 } rewrite_pfx:(bits depth) *)
Definition enc_addr (a : addr) : list bool :=
  match a with
  | AddrNone => [false; false]
  | AddrExt v len => [false; true] ++ enc 9 len ++ enc (Z.to_nat len) v
  | AddrStd None wc h => [true; false; false] ++ enc 8 wc ++ enc_bytes h
  | AddrStd (Some (d, p)) wc h =>
      [true; false; true] ++ enc 5 d ++ enc (Z.to_nat d) p ++ enc 8 wc ++ enc_bytes h
  end.

Definition addr_ok (a : addr) : bool :=
  match a with
  | AddrNone => true
  (* len = 0 is a valid addr_extern: no address bits, the value is 0 (in_uint 0 v <-> v = 0) *)
  | AddrExt v len => (0 <=? len) && (len <? 512) && in_uint len v
  | AddrStd ac wc h =>
      in_int 8 wc && (length h =? 32)%nat && bytes_okb h &&
      match ac with None => true | Some (d, p) => (1 <=? d) && (d <=? 30) && in_uint d p end
  end.
