(* C05, rejection part: the BoC parser (Model/Boc.v) rejects every proper extension, every proper prefix
   and every single-bit corruption (CRC-protected bags) of an accepted bag.  All three rejections already
   happen in deserialize_boc_header, which enforces an exact total length computed from the header fields
   and, for CRC-protected bags, the CRC-32C of everything before the 4 trailer bytes. *)
From Coq Require Import NArith ZArith List Bool Lia ZifyBool ZifyNat ZifyN Btauto.
From PTQ Require Import Base.Result Base.Bytes Base.Bits Gen.CrcTables Spec.Crc Model.Crc
  Proofs.CrcProofs Model.Cell Proofs.CellOrd Model.Boc Spec.BocFormat Spec.BocProps.
Import ListNotations.
Local Open Scope N_scope.
Ltac Zify.zify_post_hook ::= Z.div_mod_to_equations.

(* ------------------------------------------------------------------ *)
(* list helpers                                                        *)
(* ------------------------------------------------------------------ *)

Lemma slice_app_l {A} (d x : list A) a b : (b <= length d)%nat -> slice (d ++ x) a b = slice d a b.
Proof.
  intro Hb. unfold slice. rewrite skipn_app, firstn_app, skipn_length.
  replace (b - a - (length d - a))%nat with 0%nat by lia.
  rewrite firstn_O, app_nil_r. reflexivity.
Qed.

Lemma firstn_app_l {A} (d x : list A) n : (n <= length d)%nat -> firstn n (d ++ x) = firstn n d.
Proof.
  intro Hn. rewrite firstn_app. replace (n - length d)%nat with 0%nat by lia.
  rewrite firstn_O, app_nil_r. reflexivity.
Qed.

(* two lists that differ in exactly one position *)
Section PointDiff.
  Context {A : Type} (a : list A) (b b' : A) (r : list A).
  Let d := a ++ b :: r.
  Let d' := a ++ b' :: r.

  Lemma pd_length : length d' = length d.
  Proof. unfold d, d'. rewrite !app_length. reflexivity. Qed.

  Lemma pd_firstn_le n : (n <= length a)%nat -> firstn n d' = firstn n d.
  Proof. intro Hn. unfold d, d'. rewrite !firstn_app_l by exact Hn. reflexivity. Qed.

  Lemma pd_skipn_gt n : (length a < n)%nat -> skipn n d' = skipn n d.
  Proof.
    intro Hn. unfold d, d'. rewrite !skipn_app.
    destruct (n - length a)%nat as [|q] eqn:Eq; [lia|]. reflexivity.
  Qed.

  Lemma pd_firstn_gt n : (length a < n)%nat ->
    firstn n d = a ++ b :: firstn (n - length a - 1) r /\
    firstn n d' = a ++ b' :: firstn (n - length a - 1) r.
  Proof.
    intro Hn. unfold d, d'. rewrite !firstn_app, (firstn_all2 (n := n) a) by lia.
    destruct (n - length a)%nat as [|q] eqn:Eq; [lia|].
    cbn [firstn]. replace (S q - 1)%nat with q by lia. split; reflexivity.
  Qed.

  Lemma pd_nth n (x : A) : n <> length a -> nth n d' x = nth n d x.
  Proof.
    intro Hn. unfold d, d'. destruct (Nat.lt_ge_cases n (length a)) as [Hlt|Hge].
    - rewrite !app_nth1 by exact Hlt. reflexivity.
    - rewrite !app_nth2 by exact Hge.
      destruct (n - length a)%nat as [|q] eqn:Eq; [lia|]. reflexivity.
  Qed.

  Lemma pd_nth_at (x : A) : nth (length a) d x = b /\ nth (length a) d' x = b'.
  Proof.
    unfold d, d'. rewrite !app_nth2 by lia. rewrite Nat.sub_diag. split; reflexivity.
  Qed.

  Lemma pd_slice_gt lo hi : (length a < lo)%nat -> slice d' lo hi = slice d lo hi.
  Proof. intro Hlo. unfold slice. rewrite (pd_skipn_gt lo Hlo). reflexivity. Qed.

  Lemma pd_neq : b' <> b -> d' <> d.
  Proof.
    intros Hb E. unfold d, d' in E. apply app_inv_head in E. injection E as E. exact (Hb E).
  Qed.
End PointDiff.

(* ------------------------------------------------------------------ *)
(* flip_bit                                                            *)
(* ------------------------------------------------------------------ *)

Definition mask (i : nat) : N := N.shiftl 1 (N.of_nat (7 - i mod 8)).
Definition masks : list N := [128; 64; 32; 16; 8; 4; 2; 1].

Lemma mask_in i : In (mask i) masks.
Proof.
  unfold mask. pose proof (Nat.mod_upper_bound i 8 ltac:(discriminate)) as Hj.
  destruct (i mod 8)%nat as [|[|[|[|[|[|[|[|j]]]]]]]]; [cbv; intuition reflexivity..|lia].
Qed.

Lemma flip_bit_app a b r i : length a = (i / 8)%nat ->
  flip_bit i (a ++ b :: r) = a ++ N.lxor b (mask i) :: r.
Proof.
  intro Hl. unfold flip_bit. rewrite <- Hl.
  rewrite firstn_app, Nat.sub_diag, firstn_all, firstn_O, app_nil_r.
  rewrite skipn_app, skipn_all, Nat.sub_diag. reflexivity.
Qed.

Lemma flip_bit_split i (d : list N) : (i < 8 * length d)%nat ->
  exists a b r, d = a ++ b :: r /\ length a = (i / 8)%nat.
Proof.
  intro Hi. assert (Hp : (i / 8 < length d)%nat) by lia.
  destruct (nth_split d 0 Hp) as (a & r & E & Hl). eauto.
Qed.

Lemma masks_nz e : In e masks -> e <> 0.
Proof.
  intro He. cbv [masks In] in He.
  repeat (destruct He as [<-|He]; [discriminate|]). contradiction.
Qed.

Lemma lxor_self_eq b e : N.lxor b e = b -> e = 0.
Proof.
  intro E.
  assert (Ee : e = N.lxor b (N.lxor b e))
    by (rewrite <- N.lxor_assoc, N.lxor_nilpotent, N.lxor_0_l; reflexivity).
  rewrite Ee, E. apply N.lxor_nilpotent.
Qed.

Lemma lxor_mask_neq b e : In e masks -> N.lxor b e <> b.
Proof. intros He E. exact (masks_nz e He (lxor_self_eq b e E)). Qed.

(* ------------------------------------------------------------------ *)
(* CRC-32C detects every single-bit error                              *)
(* ------------------------------------------------------------------ *)

Lemma land_lxor_distr_l a b c : N.land (N.lxor a b) c = N.lxor (N.land a c) (N.land b c).
Proof.
  apply N.bits_inj. intro n. rewrite !N.lxor_spec, !N.land_spec, N.lxor_spec. btauto.
Qed.

Definition low (b : N) : N := N.land b 255.

Lemma low_lt b : low b < 256.
Proof. apply land_255_lt. Qed.

(* the table-driven step only looks at the low 8 bits of the input byte *)
Lemma step_low c b : crc32c_step c b = s32_byte c (low b).
Proof.
  rewrite <- (crc32c_step_spec c (low b) (low_lt b)). unfold crc32c_step, low. cbv zeta.
  do 2 f_equal.
  rewrite !land_lxor_distr_l, <- N.land_assoc, N.land_diag. reflexivity.
Qed.

Lemma fold_low l : forall c, fold_left crc32c_step l c = fold_left s32_byte (map low l) c.
Proof.
  induction l as [|b l IH]; intro c; [reflexivity|].
  cbn [map fold_left]. rewrite step_low. apply IH.
Qed.

Lemma map_low_ok l : bytes_ok (map low l).
Proof. unfold bytes_ok. apply Forall_forall. intros x Hx. apply in_map_iff in Hx.
  destruct Hx as (y & <- & _). apply low_lt. Qed.

Lemma fold_s32_bound l : forall c, c < 2 ^ 32 -> bytes_ok l -> fold_left s32_byte l c < 2 ^ 32.
Proof.
  induction l as [|x l IH]; intros c Hc Hl; [exact Hc|].
  inversion Hl as [|? ? Hx Hl']; subst. cbn [fold_left]. apply IH; [|exact Hl'].
  apply s32_byte_bound; assumption.
Qed.

Lemma crc32c_reg_fits bs : crc32c_reg bs < 256 ^ 4.
Proof.
  unfold crc32c_reg, crc32c_final. rewrite fold_low.
  change (256 ^ 4) with (2 ^ 32). apply lxor_bound; [|reflexivity].
  apply fold_s32_bound; [reflexivity|apply map_low_ok].
Qed.

(* a non-zero 32-bit register stays non-zero *)
Definition nzreg (z : N) : Prop := z <> 0 /\ z < 2 ^ 32.

Lemma s32_bit_nz x : nzreg x -> nzreg (s32_bit x).
Proof.
  intros [Hnz Hb]. split; [|apply s32_bit_bound; exact Hb].
  unfold s32_bit. change (2 ^ 32) with 4294967296 in Hb.
  destruct (N.odd x) eqn:Ho.
  - intro E. apply N.lxor_eq in E. rewrite N.shiftr_div_pow2 in E. change (2 ^ 1) with 2 in E. lia.
  - intro E. rewrite N.shiftr_div_pow2 in E. change (2 ^ 1) with 2 in E.
    assert (Hx : x = 1) by lia. subst x. discriminate Ho.
Qed.

Definition g8 (z : N) : N := N.iter 8 s32_bit z.

Lemma g8_nz z : nzreg z -> nzreg (g8 z).
Proof. intro Hz. unfold g8. cbn [N.iter Pos.iter]. repeat apply s32_bit_nz. exact Hz. Qed.

Lemma s32_byte_xor c z b : s32_byte (N.lxor c z) b = N.lxor (s32_byte c b) (g8 z).
Proof.
  unfold s32_byte, g8. rewrite <- s32_iter8_lin. f_equal.
  rewrite !N.lxor_assoc, (N.lxor_comm z b). reflexivity.
Qed.

Lemma fold_xor r : forall c z, nzreg z ->
  exists z', nzreg z' /\ fold_left s32_byte r (N.lxor c z) = N.lxor (fold_left s32_byte r c) z'.
Proof.
  induction r as [|b r IH]; intros c z Hz.
  - exists z. split; [exact Hz|reflexivity].
  - cbn [fold_left]. rewrite s32_byte_xor. apply IH. apply g8_nz. exact Hz.
Qed.

Lemma masks_low e : In e masks -> low e = e /\ nzreg e.
Proof.
  intro He. cbv [masks In] in He.
  repeat (destruct He as [<-|He]; [split; [reflexivity|split; [discriminate|reflexivity]]|]).
  contradiction.
Qed.

Lemma lxor_cancel_r a b c : N.lxor a c = N.lxor b c -> a = b.
Proof.
  intro E. rewrite <- (N.lxor_0_r a), <- (N.lxor_0_r b), <- (N.lxor_nilpotent c), <- !N.lxor_assoc, E.
  reflexivity.
Qed.

(* KEY LEMMA: two byte strings that differ in exactly one bit have different CRC-32C *)
Lemma crc_flip_neq a b r e : In e masks ->
  crc32c (a ++ b :: r) false <> crc32c (a ++ N.lxor b e :: r) false.
Proof.
  intros He E. destruct (masks_low e He) as [Hlow Hnz].
  unfold crc32c in E. change crc32c_order_is_param with true in E. cbv beta iota zeta in E.
  apply (f_equal of_le) in E. unfold crc32c_outlen in E.
  rewrite !of_le_le_bytes in E by apply crc32c_reg_fits.
  unfold crc32c_reg, crc32c_final in E. apply lxor_cancel_r in E.
  rewrite !fold_low, !map_app in E. cbn [map] in E. rewrite !fold_left_app in E. cbn [fold_left] in E.
  set (c := fold_left s32_byte (map low a) crc32c_init) in E.
  assert (Hb : s32_byte c (low (N.lxor b e)) = N.lxor (s32_byte c (low b)) (g8 e)).
  { unfold low at 1. rewrite land_lxor_distr_l. fold (low b) (low e). rewrite Hlow.
    unfold s32_byte, g8. rewrite <- s32_iter8_lin, N.lxor_assoc. reflexivity. }
  rewrite Hb in E.
  destruct (fold_xor (map low r) (s32_byte c (low b)) (g8 e) (g8_nz e Hnz)) as (z' & [Hz' _] & Ez).
  rewrite Ez in E. apply Hz'. symmetry in E. exact (lxor_self_eq _ _ E).
Qed.

(* ------------------------------------------------------------------ *)
(* the layout the header parser enforces                               *)
(* ------------------------------------------------------------------ *)

Definition magicb (m : list N) : bool :=
  bytes_eqb m boc_magic || bytes_eqb m boc_magic_idx || bytes_eqb m boc_magic_idx_crc.

(* header fields as functions of the bytes *)
Definition f_reach (d : list N) : bool := bytes_eqb (firstn 4 d) boc_magic.
Definition f_size (d : list N) : nat :=
  if f_reach d then N.to_nat (nth 4 d 0 mod 8) else N.to_nat (nth 4 d 0).
Definition f_idx (d : list N) : bool := if f_reach d then N.testbit (nth 4 d 0) 7 else true.

(* positions as functions of the bytes and of (generic magic?, has_idx, has_crc, size) *)
Definition l_off (d : list N) : nat := N.to_nat (nth 5 d 0).
Definition l_cells (d : list N) (size : nat) : N := of_be (slice d 6 (6 + size)).
Definition l_roots (d : list N) (size : nat) : N := of_be (slice d (6 + size) (6 + 2 * size)).
Definition l_i1 (d : list N) (size : nat) : nat := (6 + 3 * size + l_off d)%nat.
Definition l_tot (d : list N) (size : nat) : N := of_be (slice d (6 + 3 * size) (l_i1 d size)).
Definition l_i2 (d : list N) (reach : bool) (size : nat) : nat :=
  if reach then (l_i1 d size + N.to_nat (l_roots d size) * size)%nat else l_i1 d size.
Definition l_i3 (d : list N) (reach idx : bool) (size : nat) : nat :=
  if idx then (l_i2 d reach size + N.to_nat (l_cells d size) * l_off d)%nat else l_i2 d reach size.
Definition l_i4 (d : list N) (reach idx : bool) (size : nat) : nat :=
  (l_i3 d reach idx size + N.to_nat (l_tot d size))%nat.
Definition l_i5 (d : list N) (reach idx crc : bool) (size : nat) : nat :=
  if crc then (l_i4 d reach idx size + 4)%nat else l_i4 d reach idx size.

Definition f_i4 (d : list N) : nat := l_i4 d (f_reach d) (f_idx d) (f_size d).

(* what acceptance by deserialize_boc_header means for the bytes *)
Record hdr_facts (d : list N) : Prop := mkHF {
  hf_magic : magicb (firstn 4 d) = true;
  hf_fixed : (6 + 3 * f_size d <= length d)%nat;
  hf_size : f_size d <> 0%nat;
  hf_i1 : (l_i1 d (f_size d) <= length d)%nat;
  hf_total : length d = if crc_protected d then (f_i4 d + 4)%nat else f_i4 d;
  hf_crc : crc_protected d = true ->
           crc32c (firstn (f_i4 d) d) false = slice d (f_i4 d) (f_i4 d + 4) }.

(* the parser after the magic / flags dispatch (copied from Model/Boc.v; tied to it by header_unfold) *)
Definition hdr_rest (d : list N) (reach : bool) (m : bool * bool * bool * nat) : result boc_header :=
  let dlen := length d in
  let '(has_idx, has_crc, has_cache, size) := m in
  if (dlen - 5 <? 1 + 3 * size)%nat then Err EBoc else
  bind (byte_at d 5) (fun offb =>
  let off := N.to_nat offb in
  if (size =? 0)%nat then Err EValue else
  let end1 := (6 + 3 * size)%nat in
  let cells := of_be (slice d 6 (6 + size)) in
  let roots := of_be (slice d (6 + size) (6 + 2 * size)) in
  let absent := of_be (slice d (6 + 2 * size) (6 + 3 * size)) in
  let i1 := (end1 + off)%nat in
  let tot := of_be (slice d end1 i1) in
  bind (if reach then
          if (Z.of_nat dlen - Z.of_nat i1 <? Z.of_N roots * Z.of_nat size)%Z then Err EOther
          else Ok (read_uints d i1 size (N.to_nat roots), (i1 + N.to_nat roots * size)%nat)
        else Ok ([0], i1)) (fun '(root_list, i2) =>
  bind (if has_idx then
          if (Z.of_nat dlen - Z.of_nat i2 <? Z.of_nat off * Z.of_N cells)%Z then Err EBoc
          else if (off =? 0)%nat then Err EValue
          else Ok (Some (read_uints d i2 off (N.to_nat cells)), (i2 + N.to_nat cells * off)%nat)
        else Ok (None, i2)) (fun '(index, i3) =>
  if (Z.of_nat dlen - Z.of_nat i3 <? Z.of_N tot)%Z then Err EBoc else
  let i4 := (i3 + N.to_nat tot)%nat in
  let cells_data := slice d i3 i4 in
  bind (if has_crc then
          if (dlen - i4 <? 4)%nat then Err EBoc
          else if negb (bytes_eqb (crc32c (firstn i4 d) false) (slice d i4 (i4 + 4))) then Err EBoc
          else Ok (i4 + 4)%nat
        else Ok i4) (fun i5 =>
  if negb (dlen - i5 =? 0)%nat then Err EBoc
  else Ok (mkHdr has_idx has_crc has_cache size off cells roots absent tot root_list index cells_data))))).

Lemma header_unfold d : deserialize_boc_header d =
  if (length d <? 4)%nat then Err EBoc else
  bind (if bytes_eqb (firstn 4 d) boc_magic then
          bind (byte_at d 4) (fun fb =>
          Ok (N.testbit fb 7, N.testbit fb 6, N.testbit fb 5, N.to_nat (fb mod 8)))
        else if bytes_eqb (firstn 4 d) boc_magic_idx then
          bind (byte_at d 4) (fun sb => Ok (true, false, false, N.to_nat sb))
        else if bytes_eqb (firstn 4 d) boc_magic_idx_crc then
          bind (byte_at d 4) (fun sb => Ok (true, true, false, N.to_nat sb))
        else Err EBoc) (hdr_rest d (bytes_eqb (firstn 4 d) boc_magic)).
Proof. reflexivity. Qed.

Ltac hstep Hd T :=
  match type of Hd with
  | (if negb ?c then _ else _) = Ok _ => destruct c eqn:T; cbn [negb] in Hd; try discriminate Hd
  | (if ?c then _ else _) = Ok _ => destruct c eqn:T; try discriminate Hd
  | bind (if negb ?c then _ else _) _ = Ok _ =>
      destruct c eqn:T; cbn [negb bind] in Hd; try discriminate Hd
  | bind (if ?c then _ else _) _ = Ok _ => destruct c eqn:T; cbn [bind] in Hd; try discriminate Hd
  end.

Lemma byte_at_nth d i x : byte_at d i = Ok x -> nth i d 0 = x /\ (i < length d)%nat.
Proof.
  unfold byte_at, nth_r. destruct (nth_error d i) as [y|] eqn:E; [|discriminate].
  intro Hx. injection Hx as <-. split; [apply nth_error_nth; exact E|].
  apply nth_error_Some. rewrite E. discriminate.
Qed.

Lemma hdr_rest_inv d reach idx crc cache size h :
  hdr_rest d reach (idx, crc, cache, size) = Ok h ->
  (reach = false -> idx = true) ->
  (6 + 3 * size <= length d)%nat /\ size <> 0%nat /\ (l_i1 d size <= length d)%nat /\
  length d = l_i5 d reach idx crc size /\
  (crc = true -> crc32c (firstn (l_i4 d reach idx size) d) false =
                 slice d (l_i4 d reach idx size) (l_i4 d reach idx size + 4)).
Proof.
  intros Hd Hri. unfold hdr_rest in Hd. cbv beta iota zeta in Hd.
  hstep Hd T1.
  destruct (byte_at d 5) as [offb|] eqn:B5; cbn [bind] in Hd; [|discriminate].
  apply byte_at_nth in B5. destruct B5 as [B5 _]. subst offb.
  hstep Hd T2.
  fold (l_off d) in Hd.
  change (6 + 3 * size + l_off d)%nat with (l_i1 d size) in Hd.
  fold (l_cells d size) (l_roots d size) in Hd. fold (l_tot d size) in Hd.
  pose proof (Z.mul_nonneg_nonneg (Z.of_N (l_roots d size)) (Z.of_nat size)
                (N2Z.is_nonneg _) (Nat2Z.is_nonneg _)) as P1.
  pose proof (Z.mul_nonneg_nonneg (Z.of_nat (l_off d)) (Z.of_N (l_cells d size))
                (Nat2Z.is_nonneg _) (N2Z.is_nonneg _)) as P2.
  assert (Hlay : (l_i1 d size <= length d)%nat /\ (l_i4 d reach idx size <= length d)%nat /\
                 exists i5, (length d - i5 =? 0)%nat = true /\
                   (if crc then (length d - l_i4 d reach idx size <? 4)%nat = false /\
                                bytes_eqb (crc32c (firstn (l_i4 d reach idx size) d) false)
                                  (slice d (l_i4 d reach idx size) (l_i4 d reach idx size + 4)) = true /\
                                i5 = (l_i4 d reach idx size + 4)%nat
                    else i5 = l_i4 d reach idx size)).
  { unfold l_i4, l_i3, l_i2.
    destruct reach.
    - hstep Hd T3.
      destruct idx.
      + hstep Hd T4. hstep Hd T5. hstep Hd T6.
        destruct crc.
        * hstep Hd T7. hstep Hd T8. hstep Hd T9.
          split; [lia|]. split; [lia|]. eexists. split; [exact T9|]. repeat split; assumption.
        * cbn [bind] in Hd. hstep Hd T9.
          split; [lia|]. split; [lia|]. eexists. split; [exact T9|]. reflexivity.
      + cbn [bind] in Hd. hstep Hd T6.
        destruct crc.
        * hstep Hd T7. hstep Hd T8. hstep Hd T9.
          split; [lia|]. split; [lia|]. eexists. split; [exact T9|]. repeat split; assumption.
        * cbn [bind] in Hd. hstep Hd T9.
          split; [lia|]. split; [lia|]. eexists. split; [exact T9|]. reflexivity.
    - rewrite (Hri eq_refl) in *. cbn [bind] in Hd.
      hstep Hd T4. hstep Hd T5. hstep Hd T6.
      destruct crc.
      + hstep Hd T7. hstep Hd T8. hstep Hd T9.
        split; [lia|]. split; [lia|]. eexists. split; [exact T9|]. repeat split; assumption.
      + cbn [bind] in Hd. hstep Hd T9.
        split; [lia|]. split; [lia|]. eexists. split; [exact T9|]. reflexivity. }
  destruct Hlay as (L1 & L4 & i5 & T9 & Hc).
  split; [lia|]. split; [lia|]. split; [exact L1|].
  unfold l_i5. destruct crc.
  - destruct Hc as (T7 & T8 & ->). split; [lia|]. intros _. apply bytes_eqb_eq. exact T8.
  - subst i5. split; [lia|]. discriminate.
Qed.

Lemma magic_distinct :
  bytes_eqb boc_magic boc_magic_idx_crc = false /\ bytes_eqb boc_magic_idx boc_magic_idx_crc = false.
Proof. split; vm_compute; reflexivity. Qed.

Lemma header_ok_inv d h : deserialize_boc_header d = Ok h -> hdr_facts d.
Proof.
  rewrite header_unfold. intro Hd.
  hstep Hd T0.
  assert (G : forall reach idx crc size,
             f_reach d = reach -> f_idx d = idx -> crc_protected d = crc -> f_size d = size ->
             magicb (firstn 4 d) = true -> (reach = false -> idx = true) ->
             forall cache, hdr_rest d reach (idx, crc, cache, size) = Ok h -> hdr_facts d).
  { intros reach idx crc size E1 E2 E3 E4 Hm Hri cache Hr.
    destruct (hdr_rest_inv _ _ _ _ _ _ _ Hr Hri) as (F1 & F2 & F3 & F4 & F5).
    unfold l_i5 in F4.
    constructor; unfold f_i4; rewrite ?E1, ?E2, ?E3, ?E4; auto. }
  unfold magicb, crc_protected, f_size, f_idx, f_reach in G.
  destruct magic_distinct as [M1 M2].
  destruct (bytes_eqb (firstn 4 d) boc_magic) eqn:R.
  - apply bytes_eqb_eq in R. rewrite R in *.
    destruct (byte_at d 4) as [fb|] eqn:B4; cbn [bind] in Hd; [|discriminate].
    apply byte_at_nth in B4. destruct B4 as [B4 _]. subst fb.
    eapply G; try exact Hd; try reflexivity.
    + rewrite M1. cbn [andb orb]. rewrite orb_false_r. reflexivity.
    + discriminate.
  - destruct (bytes_eqb (firstn 4 d) boc_magic_idx) eqn:R2.
    + apply bytes_eqb_eq in R2. rewrite R2 in *.
      destruct (byte_at d 4) as [fb|] eqn:B4; cbn [bind] in Hd; [|discriminate].
      apply byte_at_nth in B4. destruct B4 as [B4 _]. subst fb.
      eapply G; try exact Hd; try reflexivity.
    + destruct (bytes_eqb (firstn 4 d) boc_magic_idx_crc) eqn:R3; [|discriminate Hd].
      destruct (byte_at d 4) as [fb|] eqn:B4; cbn [bind] in Hd; [|discriminate].
      apply byte_at_nth in B4. destruct B4 as [B4 _]. subst fb.
      eapply G; try exact Hd; try reflexivity.
Qed.

(* the positions depend only on byte 5 and on the slices between 6 and i1 *)
Lemma layout_ext d d' reach idx size :
  nth 5 d 0 = nth 5 d' 0 ->
  (forall a b, (6 <= a)%nat -> (b <= l_i1 d size)%nat -> slice d a b = slice d' a b) ->
  l_i4 d reach idx size = l_i4 d' reach idx size.
Proof.
  intros H5 Hs.
  assert (Eo : l_off d = l_off d') by (unfold l_off; rewrite H5; reflexivity).
  assert (E1 : l_i1 d size = l_i1 d' size) by (unfold l_i1; rewrite Eo; reflexivity).
  assert (Ec : l_cells d size = l_cells d' size).
  { unfold l_cells. rewrite (Hs 6%nat (6 + size)%nat); [reflexivity|lia|unfold l_i1; lia]. }
  assert (Er : l_roots d size = l_roots d' size).
  { unfold l_roots. rewrite (Hs (6 + size)%nat (6 + 2 * size)%nat); [reflexivity|lia|unfold l_i1; lia]. }
  assert (Et : l_tot d size = l_tot d' size).
  { unfold l_tot. rewrite <- E1. rewrite (Hs (6 + 3 * size)%nat (l_i1 d size)); [reflexivity|lia|lia]. }
  unfold l_i4, l_i3, l_i2. rewrite Eo, E1, Ec, Er, Et. reflexivity.
Qed.

(* ------------------------------------------------------------------ *)
(* exact length: no accepted bag is a proper prefix of another          *)
(* ------------------------------------------------------------------ *)

Lemma header_prefix_unique d x h h' :
  deserialize_boc_header d = Ok h -> deserialize_boc_header (d ++ x) = Ok h' -> x = [].
Proof.
  intros Hd Hx. apply header_ok_inv in Hd. apply header_ok_inv in Hx.
  destruct Hd as [_ Ffix Fsz Fi1 Ftot _]. destruct Hx as [_ _ _ _ Ftot' _].
  assert (L4 : (4 < length d)%nat) by lia.
  assert (E4 : firstn 4 (d ++ x) = firstn 4 d) by (apply firstn_app_l; lia).
  assert (N4 : nth 4 (d ++ x) 0 = nth 4 d 0) by (apply app_nth1; lia).
  assert (N5 : nth 5 (d ++ x) 0 = nth 5 d 0) by (apply app_nth1; lia).
  assert (Er : f_reach (d ++ x) = f_reach d) by (unfold f_reach; rewrite E4; reflexivity).
  assert (Es : f_size (d ++ x) = f_size d) by (unfold f_size; rewrite Er, N4; reflexivity).
  assert (Ei : f_idx (d ++ x) = f_idx d) by (unfold f_idx; rewrite Er, N4; reflexivity).
  assert (Ec : crc_protected (d ++ x) = crc_protected d)
    by (unfold crc_protected; rewrite E4, N4; reflexivity).
  assert (E : f_i4 (d ++ x) = f_i4 d).
  { unfold f_i4. rewrite Er, Es, Ei. symmetry. apply layout_ext; [symmetry; exact N5|].
    intros a b Ha Hb. symmetry. apply slice_app_l. lia. }
  rewrite Ec, E, <- Ftot, app_length in Ftot'.
  destruct x as [|y x]; [reflexivity|]. cbn [length] in Ftot'. lia.
Qed.

(* ------------------------------------------------------------------ *)
(* single-bit corruption                                               *)
(* ------------------------------------------------------------------ *)

(* no single-bit flip of a CRC-protected magic is a magic *)
Lemma magic_flip_check :
  forallb (fun i => negb (magicb (flip_bit i boc_magic)) && negb (magicb (flip_bit i boc_magic_idx_crc)))
          (seq 0 32) = true.
Proof. vm_compute. reflexivity. Qed.

Lemma lxor64_mod8 b : N.lxor b 64 mod 8 = b mod 8.
Proof.
  change 8 with (2 ^ 3). rewrite <- !N.land_ones, land_lxor_distr_l.
  change (N.land 64 (N.ones 3)) with 0. apply N.lxor_0_r.
Qed.

Lemma header_bitflip d h h' i :
  deserialize_boc_header d = Ok h -> crc_protected d = true -> (i < 8 * length d)%nat ->
  deserialize_boc_header (flip_bit i d) = Ok h' -> False.
Proof.
  intros Hd Hc Hi Hd'.
  destruct (flip_bit_split i d Hi) as (a & b & r & -> & Hl).
  rewrite (flip_bit_app a b r i Hl) in Hd'.
  pose proof (mask_in i) as He. remember (mask i) as e eqn:Eme.
  pose proof (lxor_mask_neq b e He) as Hne. set (b' := N.lxor b e) in *.
  apply header_ok_inv in Hd. apply header_ok_inv in Hd'.
  destruct Hd as [Fm Ffix Fsz Fi1 Ftot Fcrc]. destruct Hd' as [Fm' Ffix' Fsz' Fi1' Ftot' Fcrc'].
  pose proof (pd_length a b b' r) as Elen.
  destruct (Nat.lt_ge_cases (length a) 4) as [Hp|Hp].
  - (* the flip hits the magic *)
    destruct (pd_firstn_gt a b b' r 4 Hp) as [E4 E4'].
    rewrite E4' in Fm'. unfold b' in Fm'. rewrite Eme in Fm'.
    rewrite <- (flip_bit_app a b _ i Hl), <- E4 in Fm'.
    assert (Hin : In i (seq 0 32)) by (apply in_seq; lia).
    pose proof (proj1 (forallb_forall _ _) magic_flip_check i Hin) as Hk. cbv beta in Hk.
    apply andb_prop in Hk. destruct Hk as [K1 K2].
    unfold crc_protected in Hc. apply orb_prop in Hc. destruct Hc as [Hc|Hc].
    + apply andb_prop in Hc. destruct Hc as [Hc _]. apply bytes_eqb_eq in Hc.
      rewrite Hc in Fm'. rewrite Fm' in K1. discriminate.
    + apply bytes_eqb_eq in Hc. rewrite Hc in Fm'. rewrite Fm' in K2. discriminate.
  - (* the magic is untouched *)
    pose proof (pd_firstn_le a b b' r 4 Hp) as E4.
    rewrite Hc in Ftot.
    destruct (crc_protected (a ++ b' :: r)) eqn:Hc'.
    + (* still CRC-protected: the CRC detects the flip *)
      specialize (Fcrc Hc). specialize (Fcrc' eq_refl).
      assert (EL : f_i4 (a ++ b' :: r) = f_i4 (a ++ b :: r)) by lia.
      rewrite EL in Fcrc'. set (L := f_i4 (a ++ b :: r)) in *.
      destruct (Nat.lt_ge_cases (length a) L) as [HL|HL].
      * destruct (pd_firstn_gt a b b' r L HL) as [EF EF'].
        rewrite (pd_slice_gt a b b' r L (L + 4) HL), <- Fcrc, EF, EF' in Fcrc'.
        symmetry in Fcrc'. exact (crc_flip_neq _ _ _ _ He Fcrc').
      * rewrite (pd_firstn_le a b b' r L HL), Fcrc in Fcrc'.
        unfold slice in Fcrc'. replace (L + 4 - L)%nat with 4%nat in Fcrc' by lia.
        rewrite !firstn_all2 in Fcrc' by (rewrite skipn_length; lia).
        apply (pd_neq a b b' r Hne).
        rewrite <- (firstn_skipn L (a ++ b' :: r)), <- (firstn_skipn L (a ++ b :: r)).
        rewrite (pd_firstn_le a b b' r L HL), Fcrc'. reflexivity.
    + (* no longer CRC-protected: only bit 6 of the flags byte can do that *)
      unfold crc_protected in Hc, Hc'. rewrite E4 in Hc'.
      destruct (bytes_eqb (firstn 4 (a ++ b :: r)) boc_magic_idx_crc) eqn:M3;
        [rewrite orb_true_r in Hc'; discriminate|].
      rewrite orb_false_r in Hc, Hc'. apply andb_prop in Hc. destruct Hc as [R T6].
      rewrite R in Hc'. cbn [andb] in Hc'.
      assert (Hp4 : length a = 4%nat).
      { destruct (Nat.eq_dec (length a) 4) as [E|E]; [exact E|].
        rewrite (pd_nth a b b' r 4 0 (fun E' => E (eq_sym E'))), T6 in Hc'. discriminate. }
      destruct (pd_nth_at a b b' r 0) as [Nb Nb']. rewrite Hp4 in Nb, Nb'.
      rewrite Nb in T6. rewrite Nb' in Hc'.
      assert (Ee : e = 64).
      { unfold b' in Hc'. rewrite N.lxor_spec, T6 in Hc'.
        cbv [masks In] in He.
        repeat (destruct He as [<-|He]; [first [reflexivity|discriminate Hc']|]). contradiction. }
      assert (Er : f_reach (a ++ b' :: r) = f_reach (a ++ b :: r))
        by (unfold f_reach; rewrite E4; reflexivity).
      assert (Er1 : f_reach (a ++ b :: r) = true) by exact R.
      assert (Es : f_size (a ++ b' :: r) = f_size (a ++ b :: r)).
      { unfold f_size. rewrite Er, Er1, Nb, Nb'. unfold b'. rewrite Ee, lxor64_mod8. reflexivity. }
      assert (Ei : f_idx (a ++ b' :: r) = f_idx (a ++ b :: r)).
      { unfold f_idx. rewrite Er, Er1, Nb, Nb'. unfold b'. rewrite Ee, N.lxor_spec.
        change (N.testbit 64 7) with false. apply xorb_false_r. }
      assert (E : f_i4 (a ++ b' :: r) = f_i4 (a ++ b :: r)).
      { unfold f_i4. rewrite Er, Es, Ei. apply layout_ext.
        - apply pd_nth. lia.
        - intros lo hi Hlo _. apply pd_slice_gt. lia. }
      lia.
Qed.

(* ------------------------------------------------------------------ *)
(* the three rejection theorems                                        *)
(* ------------------------------------------------------------------ *)
Section Reject.
  Variable H : list N -> list N.

  Lemma deserialize_header d r : deserialize H d = Ok r -> exists h, deserialize_boc_header d = Ok h.
  Proof.
    unfold deserialize. destruct (deserialize_boc_header d) as [h|e]; [eauto|discriminate].
  Qed.

  Theorem extended_rejected : forall d r x, deserialize H d = Ok r -> x <> [] ->
    exists e, deserialize H (d ++ x) = Err e.
  Proof.
    intros d r x Hd Hx. destruct (deserialize H (d ++ x)) as [r'|e] eqn:E; [exfalso|eauto].
    apply deserialize_header in Hd. apply deserialize_header in E.
    destruct Hd as [h Hd]. destruct E as [h' E]. exact (Hx (header_prefix_unique d x h h' Hd E)).
  Qed.

  Theorem truncated_rejected : forall d r n, deserialize H d = Ok r -> (n < length d)%nat ->
    exists e, deserialize H (firstn n d) = Err e.
  Proof.
    intros d r n Hd Hn. destruct (deserialize H (firstn n d)) as [r'|e] eqn:E; [exfalso|eauto].
    apply deserialize_header in Hd. apply deserialize_header in E.
    destruct Hd as [h Hd]. destruct E as [h' E].
    rewrite <- (firstn_skipn n d) in Hd.
    pose proof (header_prefix_unique _ _ _ _ E Hd) as Hs.
    apply (f_equal (@length N)) in Hs. rewrite skipn_length in Hs. cbn [length] in Hs. lia.
  Qed.

  Theorem bitflip_rejected : forall d r i, deserialize H d = Ok r -> crc_protected d = true ->
    (i < 8 * length d)%nat -> exists e, deserialize H (flip_bit i d) = Err e.
  Proof.
    intros d r i Hd Hc Hi. destruct (deserialize H (flip_bit i d)) as [r'|e] eqn:E; [exfalso|eauto].
    apply deserialize_header in Hd. apply deserialize_header in E.
    destruct Hd as [h Hd]. destruct E as [h' E]. exact (header_bitflip d h h' i Hd Hc Hi E).
  Qed.
End Reject.
