(* C14: the TL model (Model/Tl.v) against the TL binary format (Spec/TlSpec.v). *)
From Coq Require Import NArith ZArith List Bool String Ascii Lia ZifyBool ZifyNat ZifyN Arith.
From PTQ Require Import Base.Result Base.Bytes Base.Bits Model.Tl Spec.TlSpec Gen.TlSchemaTable.
Import ListNotations.
Ltac Zify.zify_post_hook ::= Z.div_mod_to_equations.

(* ================================================================== *)
(* 1. constructor ids of the generated table                            *)
(* ================================================================== *)

Fixpoint nlist_eqb (a b : list N) : bool :=
  match a, b with
  | [], [] => true
  | x :: a', y :: b' => (x =? y)%N && nlist_eqb a' b'
  | _, _ => false
  end.

Lemma nlist_eqb_eq a : forall b, nlist_eqb a b = true <-> a = b.
Proof.
  induction a as [|x a IH]; intros [|y b]; cbn [nlist_eqb]; split; intro H; try discriminate; try reflexivity.
  - apply andb_prop in H. destruct H as [H1 H2]. apply N.eqb_eq in H1. apply IH in H2. congruence.
  - inversion H; subst. rewrite N.eqb_refl. apply IH. reflexivity.
Qed.

Definition line_ok (p : string * list N) : bool := nlist_eqb (s_ctor_id (fst p)) (snd p).

Lemma ids_sweep : forallb line_ok tl_lines = true.
Proof. vm_compute. reflexivity. Qed.

Lemma ids_all : forall line id, In (line, id) tl_lines -> crc32_be (bytes_of_string (clear_schema line)) = id.
Proof.
  intros line id Hin. pose proof ids_sweep as H. rewrite forallb_forall in H.
  specialize (H _ Hin). unfold line_ok in H. cbn [fst snd] in H. apply nlist_eqb_eq in H. exact H.
Qed.

(* ================================================================== *)
(* 3. integers                                                          *)
(* ================================================================== *)

Lemma pow256_N_Z k : Z.of_N (256 ^ N.of_nat k) = (2 ^ (8 * Z.of_nat k))%Z.
Proof.
  rewrite N2Z.inj_pow. rewrite nat_N_Z. change (Z.of_N 256) with (2 ^ 8)%Z.
  rewrite <- Z.pow_mul_r by lia. reflexivity.
Qed.

Lemma le_bytes_s_int_le len : forall z,
  le_bytes len (Z.to_N (z mod 2 ^ (8 * Z.of_nat len))) = s_int_le len z.
Proof.
  induction len as [|k IH]; intro z; [reflexivity|].
  cbn [le_bytes s_int_le].
  assert (Hpow : (2 ^ (8 * Z.of_nat (S k)) = 256 * 2 ^ (8 * Z.of_nat k))%Z).
  { replace (8 * Z.of_nat (S k))%Z with (8 + 8 * Z.of_nat k)%Z by lia.
    rewrite Z.pow_add_r by lia. reflexivity. }
  rewrite Hpow.
  assert (Hp : (0 < 2 ^ (8 * Z.of_nat k))%Z) by (apply Z.pow_pos_nonneg; lia).
  set (M := (2 ^ (8 * Z.of_nat k))%Z) in *.
  assert (Hm : (0 <= z mod (256 * M))%Z) by (apply Z.mod_pos_bound; lia).
  f_equal.
  - rewrite <- (N2Z.id ((Z.to_N (z mod (256 * M))) mod 256)). f_equal.
    rewrite N2Z.inj_mod. rewrite Z2N.id by exact Hm. change (Z.of_N 256) with 256%Z.
    rewrite Z.rem_mul_r by lia. rewrite Z.mul_comm, Z.mod_add by lia. apply Z.mod_mod. lia.
  - rewrite <- IH. f_equal.
    rewrite <- (N2Z.id ((Z.to_N (z mod (256 * M))) / 256)). f_equal.
    rewrite N2Z.inj_div. rewrite Z2N.id by exact Hm. change (Z.of_N 256) with 256%Z.
    rewrite Z.rem_mul_r by lia. rewrite Z.mul_comm, Z.div_add by lia.
    rewrite (Z.div_small (z mod 256) 256) by (apply Z.mod_pos_bound; lia). reflexivity.
Qed.

Lemma int_le_signed_ok len z bs :
  int_le_signed len z = Ok bs ->
  (1 <= len)%nat /\ (- 2 ^ (8 * Z.of_nat len - 1) <= z < 2 ^ (8 * Z.of_nat len - 1))%Z /\
  bs = le_bytes len (Z.to_N (z mod 2 ^ (8 * Z.of_nat len))).
Proof.
  unfold int_le_signed. intro H.
  replace (Z.of_nat (8 * len)) with (8 * Z.of_nat len)%Z in H by lia.
  destruct ((- 2 ^ (8 * Z.of_nat len - 1) <=? z)%Z && (z <? 2 ^ (8 * Z.of_nat len - 1))%Z) eqn:E; [|discriminate].
  apply andb_prop in E. destruct E as [E1 E2]. apply Z.leb_le in E1. apply Z.ltb_lt in E2.
  inversion H; subst bs. split; [|split; [lia|reflexivity]].
  destruct len; [|lia]. cbn in E1, E2. lia.
Qed.

Theorem int_roundtrip : forall len z bs,
  int_le_signed len z = Ok bs ->
  int_of_le_signed bs = z /\ List.length bs = len /\ bs = s_int_le len z.
Proof.
  intros len z bs H. apply int_le_signed_ok in H. destruct H as (Hlen & Hr & ->).
  split; [|split; [apply le_bytes_length|apply le_bytes_s_int_le]].
  unfold int_of_le_signed. rewrite le_bytes_length.
  replace (Z.of_nat (8 * len)) with (8 * Z.of_nat len)%Z by lia.
  set (w := (8 * Z.of_nat len)%Z) in *.
  assert (Hw : (1 <= w)%Z) by lia.
  assert (H2 : (2 ^ w = 2 * 2 ^ (w - 1))%Z).
  { replace w with (1 + (w - 1))%Z at 1 by lia. rewrite Z.pow_add_r by lia. reflexivity. }
  assert (Hp : (0 < 2 ^ (w - 1))%Z) by (apply Z.pow_pos_nonneg; lia).
  assert (Hm : (0 <= z mod 2 ^ w < 2 ^ w)%Z) by (apply Z.mod_pos_bound; lia).
  rewrite of_le_le_bytes.
  2:{ apply N2Z.inj_lt. rewrite pow256_N_Z. rewrite Z2N.id by lia. fold w. lia. }
  rewrite Z2N.id by lia.
  destruct len as [|k]; [lia|]. cbn [le_bytes].
  destruct (Z_lt_le_dec z 0) as [Hneg|Hpos].
  - assert (Hz : (z mod 2 ^ w = z + 2 ^ w)%Z).
    { symmetry. apply (Z.mod_unique_pos z (2 ^ w) (-1)); lia. }
    rewrite Hz. destruct (Z.ltb_spec (z + 2 ^ w) (2 ^ (w - 1))); lia.
  - rewrite Z.mod_small by lia. destruct (Z.ltb_spec z (2 ^ (w - 1))); lia.
Qed.

Lemma int_le_signed_spec len z :
  s_int_range len z = true -> int_le_signed len z = Ok (s_int_le len z).
Proof.
  unfold s_int_range, int_le_signed. intro H.
  apply andb_prop in H. destruct H as [H H3]. apply andb_prop in H. destruct H as [H1 H2].
  replace (Z.of_nat (8 * len)) with (8 * Z.of_nat len)%Z by lia.
  rewrite H2, H3. cbn [andb]. f_equal. apply le_bytes_s_int_le.
Qed.

(* ================================================================== *)
(* 5. block identifiers                                                 *)
(* ================================================================== *)

Lemma slice_mid {A} (p m r : list A) a b :
  List.length p = a -> List.length m = (b - a)%nat -> firstn (b - a) (skipn a (p ++ m ++ r)) = m.
Proof.
  intros Hp Hm. subst a. rewrite skipn_app, skipn_all, Nat.sub_diag. cbn [skipn app].
  rewrite <- Hm. rewrite firstn_app, firstn_all, Nat.sub_diag. cbn [firstn]. apply app_nil_r.
Qed.

Lemma int_be_signed_ok len z bs :
  int_be_signed len z = Ok bs -> int_of_le_signed (rev bs) = z /\ List.length bs = len.
Proof.
  unfold int_be_signed. destruct (int_le_signed len z) as [l|e] eqn:E; cbn [rmap]; intro H; inversion H; subst bs.
  apply int_roundtrip in E. destruct E as (E1 & E2 & _). rewrite rev_involutive, rev_length. auto.
Qed.

Theorem blockid_roundtrip : forall wc shard seqno root file d,
  block_id_to_bytes wc shard seqno root file = Ok d ->
  List.length root = 32%nat -> List.length file = 32%nat ->
  block_id_from_bytes d = (wc, shard, seqno, root, file) /\ List.length d = 80%nat.
Proof.
  intros wc shard seqno root file d H Hr Hf. unfold block_id_to_bytes in H.
  destruct (int_be_signed 4 wc) as [a|] eqn:Ea; [|discriminate]. cbn [bind] in H.
  destruct (int_be_signed 8 shard) as [b|] eqn:Eb; [|discriminate]. cbn [bind] in H.
  destruct (int_be_signed 4 seqno) as [c|] eqn:Ec; [|discriminate]. cbn [bind] in H.
  inversion H; subst d. clear H.
  apply int_be_signed_ok in Ea, Eb, Ec. destruct Ea as [Ea La], Eb as [Eb Lb], Ec as [Ec Lc].
  split; [|rewrite !app_length; lia].
  unfold block_id_from_bytes.
  assert (S1 : firstn (4 - 0) (skipn 0 (a ++ b ++ c ++ root ++ file)) = a).
  { apply (slice_mid [] a); [reflexivity|exact La]. }
  assert (S2 : firstn (12 - 4) (skipn 4 (a ++ b ++ c ++ root ++ file)) = b).
  { apply (slice_mid a b); [exact La|exact Lb]. }
  assert (S3 : firstn (16 - 12) (skipn 12 (a ++ b ++ c ++ root ++ file)) = c).
  { replace (a ++ b ++ c ++ root ++ file) with ((a ++ b) ++ c ++ root ++ file) by (rewrite <- app_assoc; reflexivity).
    apply slice_mid; [rewrite app_length; lia|exact Lc]. }
  assert (S4 : firstn (48 - 16) (skipn 16 (a ++ b ++ c ++ root ++ file)) = root).
  { replace (a ++ b ++ c ++ root ++ file) with ((a ++ b ++ c) ++ root ++ file) by (rewrite <- !app_assoc; reflexivity).
    apply slice_mid; [rewrite !app_length; lia|exact Hr]. }
  assert (S5 : firstn (80 - 48) (skipn 48 (a ++ b ++ c ++ root ++ file)) = file).
  { replace (a ++ b ++ c ++ root ++ file) with ((a ++ b ++ c ++ root) ++ file ++ []) by (rewrite <- !app_assoc, app_nil_r; reflexivity).
    apply slice_mid; [rewrite !app_length; lia|exact Hf]. }
  rewrite S1, S2, S3, S4, S5, Ea, Eb, Ec. reflexivity.
Qed.

(* ================================================================== *)
(* 2. bytes / string framing                                            *)
(* ================================================================== *)

Definition fpre (n : nat) : list N :=
  if (n <=? 253)%nat then [N.of_nat n] else 254%N :: le_bytes 3 (N.of_nat n).
Definition fpadn (m : nat) : nat := ((4 - m mod 4) mod 4)%nat.

Lemma frame_bytes_split l :
  frame_bytes l = (fpre (List.length l) ++ l ++ repeat 0%N (fpadn (List.length (fpre (List.length l)) + List.length l)))%list.
Proof.
  unfold frame_bytes, fpre, fpadn. rewrite <- app_assoc. rewrite app_length. reflexivity.
Qed.

Lemma fpre_length n : List.length (fpre n) = if (n <=? 253)%nat then 1%nat else 4%nat.
Proof. unfold fpre. destruct (n <=? 253)%nat; reflexivity. Qed.

Lemma fpre_spec n : fpre n = s_len_prefix (N.of_nat n).
Proof.
  unfold fpre, s_len_prefix.
  destruct (Nat.leb_spec n 253) as [H|H]; destruct (N.leb_spec (N.of_nat n) 253) as [H'|H']; try lia; [reflexivity|].
  cbn [le_bytes]. rewrite N.div_div by lia. reflexivity.
Qed.

Lemma frame_length_mod4 l : (List.length (frame_bytes l) mod 4 = 0)%nat.
Proof.
  rewrite frame_bytes_split. rewrite !app_length, repeat_length. unfold fpadn.
  set (a := List.length (fpre (List.length l))). set (b := List.length l). lia.
Qed.

Lemma frame_bytes_spec l : frame_bytes l = s_frame l.
Proof.
  rewrite frame_bytes_split. unfold s_frame. rewrite <- fpre_spec. f_equal. f_equal.
  unfold s_padding, fpadn. f_equal.
  set (m := (List.length (fpre (List.length l)) + List.length l)%nat). lia.
Qed.

(* the prefix arithmetic of TlSchemas.deserialize for a bytes / string field starting at offset i of d *)
Definition dprefix (d : list N) (i : nat) : nat * nat * nat :=
  match bslice d i (i + 1) with
  | [254%N] => (N.to_nat (of_le (bslice d (i + 1) (i + 4))), 4%nat, (i + 4)%nat)
  | b => (N.to_nat (of_le b), 1%nat, (i + 1)%nat)
  end.
Definition dskip (blen attach i2 : nat) : nat :=
  if ((blen + attach) mod 4 =? 0)%nat then i2 else (i2 + (4 - (blen + attach) mod 4))%nat.

Lemma dprefix_eq d i :
  dprefix d i =
  match bslice d i (i + 1) with
  | [x] => if (x =? 254)%N then (N.to_nat (of_le (bslice d (i + 1) (i + 4))), 4%nat, (i + 4)%nat)
           else (N.to_nat (of_le [x]), 1%nat, (i + 1)%nat)
  | b => (N.to_nat (of_le b), 1%nat, (i + 1)%nat)
  end.
Proof.
  unfold dprefix. destruct (bslice d i (i + 1)) as [|x [|y r]]; try reflexivity.
  - destruct x as [|p]; [reflexivity|]. do 8 (destruct p as [p|p|]; try reflexivity).
  - destruct x as [|p]; [reflexivity|]. do 8 (destruct p as [p|p|]; try reflexivity).
Qed.

Lemma bslice_at (p m : list N) a k : List.length p = a -> bslice (p ++ m) a (a + k) = firstn k m.
Proof.
  intro Hp. unfold bslice. subst a. rewrite skipn_app, skipn_all, Nat.sub_diag. cbn [skipn app].
  f_equal. lia.
Qed.

Lemma firstn_exact {A} (m r : list A) k : List.length m = k -> firstn k (m ++ r) = m.
Proof. intro H. subst k. rewrite firstn_app, firstn_all, Nat.sub_diag. cbn [firstn]. apply app_nil_r. Qed.

Theorem frame_parse : forall l pre rest,
  (N.of_nat (List.length l) < 16777216)%N ->
  let d := (pre ++ frame_bytes l ++ rest)%list in
  exists attach,
    dprefix d (List.length pre) = (List.length l, attach, (List.length pre + attach)%nat) /\
    bslice d (List.length pre + attach) (List.length pre + attach + List.length l) = l /\
    dskip (List.length l) attach (List.length pre + attach + List.length l) =
      (List.length pre + List.length (frame_bytes l))%nat.
Proof.
  intros l pre rest Hl d. subst d. set (n := List.length l) in *. set (i := List.length pre).
  rewrite frame_bytes_split. fold n.
  set (pad := repeat 0%N (fpadn (List.length (fpre n) + n))).
  assert (Hpad : List.length pad = fpadn (List.length (fpre n) + n)) by apply repeat_length.
  exists (List.length (fpre n)).
  assert (Hd2 : (pre ++ (fpre n ++ l ++ pad) ++ rest = (pre ++ fpre n) ++ l ++ pad ++ rest)%list)
    by (rewrite <- !app_assoc; reflexivity).
  split; [|split].
  - rewrite dprefix_eq. rewrite (bslice_at pre _ i 1 eq_refl).
    pose proof (fpre_length n) as Hfl. unfold fpre in *. destruct (Nat.leb_spec n 253) as [H|H]; rewrite Hfl.
    + cbn [app firstn]. destruct (N.eqb_spec (N.of_nat n) 254) as [E|E]; [lia|].
      cbn [of_le]. repeat (f_equal; try lia).
    + cbn [app firstn]. rewrite N.eqb_refl.
      match goal with |- context [bslice ?dd (i + 1)%nat _] =>
        replace dd with ((pre ++ [254%N]) ++ le_bytes 3 (N.of_nat n) ++ l ++ pad ++ rest)%list
          by (rewrite <- !app_assoc; reflexivity) end.
      replace (i + 4)%nat with ((i + 1) + 3)%nat by lia.
      rewrite (bslice_at (pre ++ [254%N]) _ (i + 1) 3) by (rewrite app_length; cbn; lia).
      rewrite firstn_exact by apply le_bytes_length.
      rewrite of_le_le_bytes by (change (256 ^ N.of_nat 3)%N with 16777216%N; lia).
      repeat (f_equal; try lia).
  - rewrite Hd2. replace (i + List.length (fpre n) + n)%nat with ((i + List.length (fpre n)) + n)%nat by lia.
    rewrite bslice_at by (rewrite app_length; reflexivity).
    apply firstn_exact. reflexivity.
  - rewrite !app_length. rewrite Hpad. unfold dskip, fpadn. fold n.
    set (a := List.length (fpre n)).
    destruct (Nat.eqb_spec ((n + a) mod 4) 0) as [E|E]; lia.
Qed.

(* ================================================================== *)
(* 4. the model, one level unfolded, with its local functions named     *)
(* ================================================================== *)

Definition sstep (ser : tltype -> tv -> result (list N)) (fields : list (string * tv))
           (acc : result (list N)) (a : tl_arg) : result (list N) :=
  bind acc (fun bytes =>
    let present := match assoc fields (a_field a) with Some TVNone | None => false | Some _ => true end in
    if a_ser_cond a && negb present then Ok bytes
    else match assoc fields (a_field a) with
         | None => Err EIndex
         | Some x => rmap (fun b => (bytes ++ b)%list) (ser (a_ty a) x)
         end).
Definition sobj (ser : tltype -> tv -> result (list N)) (c : tl_ctor) (fields : list (string * tv)) (boxed : bool)
  : result (list N) :=
  fold_left (sstep ser fields) (c_args c) (Ok (if boxed then rev (c_id c) else [])).
Definition svec (ser : tltype -> tv -> result (list N)) (el : tltype) (l : list tv) : result (list N) :=
  fold_left (fun acc x => bind acc (fun bytes => rmap (fun b => (bytes ++ b)%list) (ser el x)))
            l (Ok (le_bytes 4 (N.of_nat (List.length l)))).

Lemma ser_field_S tbl f ty v :
  ser_field tbl (S f) ty v =
  match ty with
  | TFixed len k =>
      match v with
      | TVBool b => Ok (if b then bool_true_id else bool_false_id)
      | TVBytes l => Ok (rev (firstn len l) ++ repeat 0%N (len - List.length l))%list
      | TVInt z => int_le_signed len z
      | TVHex l => Ok l
      | TVStr _ => Err EValue
      | _ => Ok []
      end
  | TBytes | TString =>
      let payload :=
        match ty, v with
        | TString, TVStr l => Ok (Some l)
        | _, TVObj n fs => match by_name tbl n with
                           | Some c => rmap Some (sobj (ser_field tbl f) c fs true)
                           | None => Err EAttr
                           end
        | _, TVBytes l => Ok (Some l)
        | _, _ => Ok None
        end in
      bind payload (fun p => Ok (match p with Some l => frame_bytes l | None => [] end))
  | TBoxed cls =>
      match by_class tbl cls with
      | [] => Err EAttr
      | [c] => match v with TVObj _ fs => sobj (ser_field tbl f) c fs true | _ => Err EAttr end
      | _ => match v with
             | TVBytes l => Ok l
             | TVObj n fs => match by_name tbl n with Some c => sobj (ser_field tbl f) c fs true | None => Err EAttr end
             | _ => Err ETl
             end
      end
  | TBare n =>
      match by_name tbl n, v with
      | Some c, TVObj _ fs => sobj (ser_field tbl f) c fs false
      | _, _ => Err EAttr
      end
  | TNamedBoxed n =>
      match by_name tbl n, v with
      | Some c, TVObj _ fs => sobj (ser_field tbl f) c fs true
      | _, _ => Err EAttr
      end
  | TVector el _ _ =>
      match v with
      | TVVec l => svec (ser_field tbl f) el l
      | _ => Err EType
      end
  | TUnsupported => Err EAttr
  end.
Proof. reflexivity. Qed.

Definition present_m (fs : list (string * tv)) (a : tl_arg) : result bool :=
  match a_cond a with
  | None => Ok true
  | Some ix => flag_set fs ix
  end.

(* the loop over concatenated objects inside a bytes payload *)
Definition dmore (rec : list N -> bool -> option tl_ctor -> result (tv * nat)) (d : list N) (i1 blen : nat)
           (payload : list N) : nat -> nat -> list tv -> result tv :=
  fix more (n : nat) (j : nat) (acc : list tv) : result tv :=
    match n with
    | O => Err ERecursion
    | S n' =>
      if (j <? blen)%nat then
        bind (rec (bslice d (i1 + j) (i1 + blen)) true None) (fun '(t2, jj) =>
        if (jj =? 0)%nat then Ok (TVBytes payload) else more n' (j + jj)%nat (acc ++ [t2]))
      else Ok (TVVec acc)
    end.

Definition delem (r : result (tv * nat)) : result (tv * nat) :=
  bind r (fun '(x, j) =>
  match x with
  | TVObj _ xs => match assoc xs "" with Some y => Ok (y, j) | None => Err EIndex end
  | _ => Err EIndex
  end).

Definition dloop (rec : list N -> bool -> option tl_ctor -> result (tv * nat)) (tbl : tl_tbl) (d : list N)
           (el : tltype) (elname : string) (named : bool) : nat -> nat -> list tv -> result (nat * list tv) :=
  fix loop (k : nat) (i : nat) (acc : list tv) : result (nat * list tv) :=
    match k with
    | O => Ok (i, acc)
    | S k' =>
        bind (if is_base_ty el then delem (rec (skipn i d) false (Some (elem_ctor el)))
              else if named then rec (skipn i d) false (by_name tbl elname)
              else rec (skipn i d) true None) (fun '(x, j) => loop k' (i + j)%nat (acc ++ [x]))
    end.

Definition dstep (tbl : tl_tbl) (rec : list N -> bool -> option tl_ctor -> result (tv * nat))
           (d : list N) (boxed : bool) (c : tl_ctor)
           (acc : result (nat * list (string * tv))) (a : tl_arg) : result (nat * list (string * tv)) :=
  bind acc (fun '(i, fs) =>
  bind (present_m fs a) (fun present =>
  if negb present then Ok (i, fs) else
  match a_ty a with
  | TFixed len FBoolT =>
      let w := bslice d i (i + len) in
      let fs' := if forallb (fun p => N.eqb (fst p) (snd p)) (combine w bool_true_id) && (List.length w =? 4)%nat
                 then fs ++ [(a_field a, TVBool true)]
                 else if forallb (fun p => N.eqb (fst p) (snd p)) (combine w bool_false_id) && (List.length w =? 4)%nat
                 then fs ++ [(a_field a, TVBool false)] else fs in
      Ok ((i + len)%nat, fs')
  | TFixed len FRaw => Ok ((i + len)%nat, fs ++ [(a_field a, TVHex (bslice d i (i + len)))])
  | TFixed len FIntT => Ok ((i + len)%nat, fs ++ [(a_field a, TVInt (int_of_le_signed (bslice d i (i + len))))])
  | TBytes | TString =>
      let '(blen, attach, i1) := dprefix d i in
      let payload := bslice d i1 (i1 + blen) in
      bind (if (if boxed then untouchable (c_name c) (a_field a) else false)
            then Ok (TVBytes payload)
            else
              bind (rec payload true None) (fun '(temp, j) =>
              if (j <? blen)%nat then dmore rec d i1 blen payload (S blen) j [temp]
              else Ok temp)) (fun val =>
      let i2 := (i1 + blen)%nat in
      let i3 := dskip blen attach i2 in
      bind (match a_ty a, val with
            | TString, TVBytes l => if valid_utf8 (S (List.length l)) l then Ok (TVStr l) else Err EValue
            | TString, _ => Err EAttr
            | _, x => Ok x
            end) (fun val' => Ok (i3, fs ++ [(a_field a, val')])))
  | TVector el elname named =>
      let cnt := of_le (bslice d i (i + 4)) in
      let i1 := (i + 4)%nat in
      if (Z.of_nat (List.length d) - Z.of_nat i1 <? Z.of_N cnt)%Z then Err ETl else
      let n := N.to_nat cnt in
      bind (dloop rec tbl d el elname named n i1 []) (fun '(i2, items) => Ok (i2, fs ++ [(a_field a, TVVec items)]))
  | TBare nm =>
      bind (rec (skipn i d) false (by_name tbl nm)) (fun '(x, j) =>
      let x' := match x with TVObj _ xs => TVObj nm xs | y => y end in
      Ok ((i + j)%nat, fs ++ [(a_field a, x')]))
  | TBoxed _ =>
      bind (rec (skipn i d) true None) (fun '(x, j) => Ok ((i + j)%nat, fs ++ [(a_field a, x)]))
  | TNamedBoxed _ | TUnsupported => Err EAttr
  end)).

Lemma deser_S tbl f d boxed ctor :
  deser tbl (S f) d boxed ctor =
  let start : option (tl_ctor * nat * list (string * tv)) + unit :=
    if boxed then
      match by_id tbl (rev (bslice d 0 4)) with
      | None => inr tt
      | Some c => inl (Some (c, 4%nat, []))
      end
    else match ctor with Some c => inl (Some (c, 0%nat, [])) | None => inl None end in
  match start with
  | inr _ => Ok (TVBytes d, List.length d)
  | inl None => Err EAttr
  | inl (Some (c, i0, fs0)) =>
    bind (fold_left (dstep tbl (deser tbl f) d boxed c) (c_args c) (Ok (i0, fs0))) (fun '(i, fs) =>
    Ok (TVObj (if boxed then c_name c else "") fs, i))
  end.
Proof. reflexivity. Qed.

(* ================================================================== *)
(* 4a. small facts                                                      *)
(* ================================================================== *)

Lemma s_assoc_eq l k : s_assoc l k = assoc l k.
Proof. induction l as [|[n v] r IH]; [reflexivity|]. cbn [s_assoc assoc]. rewrite IH. reflexivity. Qed.

Lemma flag_set_spec seen bit b : s_flag seen bit = Some b -> flag_set seen bit = Ok b.
Proof.
  unfold s_flag, flag_set. rewrite (s_assoc_eq seen "mode"), (s_assoc_eq seen "flags"). intro E.
  destruct (match assoc seen "mode" with Some x => Some x | None => assoc seen "flags" end) as [[z| | | | | | |]|];
    try discriminate E.
  revert E. destruct (Z.leb_spec 0 z) as [H|H]; intro E; cbv iota in E; [|discriminate E]. inversion E; subst b.
  destruct (Z.ltb_spec z 0); [lia|reflexivity].
Qed.

Lemma by_name_some tbl n : forall c, by_name tbl n = Some c -> In c tbl /\ c_name c = n.
Proof.
  induction tbl as [|c0 r IH]; intros c H; [discriminate|]. cbn [by_name] in H.
  destruct (by_name r n) as [x|] eqn:E.
  - inversion H; subst x. destruct (IH c eq_refl) as [H1 H2]. split; [right; exact H1|exact H2].
  - destruct (String.eqb (c_name c0) n) eqn:E2; [|discriminate]. inversion H; subst c0.
    apply String.eqb_eq in E2. split; [left; reflexivity|exact E2].
Qed.

Lemma s_bool_ids b : s_bool b = if b then bool_true_id else bool_false_id.
Proof. destruct b; vm_compute; reflexivity. Qed.

Lemma s_u32_le_spec n : s_u32_le n = le_bytes 4 n.
Proof.
  unfold s_u32_le. cbn [le_bytes]. rewrite !N.div_div by lia. reflexivity.
Qed.

Lemma s_int_le_length len : forall z, List.length (s_int_le len z) = len.
Proof. induction len as [|k IH]; intro z; [reflexivity|]. cbn [s_int_le List.length]. rewrite IH. reflexivity. Qed.

Lemma int_of_s_int_le len z : s_int_range len z = true -> int_of_le_signed (s_int_le len z) = z.
Proof. intro H. apply int_le_signed_spec in H. apply int_roundtrip in H. tauto. Qed.

Lemma skipn_at {A} (p m : list A) : skipn (List.length p) (p ++ m) = m.
Proof. rewrite skipn_app, skipn_all, Nat.sub_diag. reflexivity. Qed.

(* the guard of the round trip: no bytes / string payload starts with a known constructor id (the library, by design,
   parses such a payload and returns the parsed object instead of the bytes) *)
Section NoCap.
  Variable tbl : tl_tbl.
  Fixpoint no_auto_capture (v : tv) : bool :=
    match v with
    | TVBytes l | TVStr l => match by_id tbl (rev (firstn 4 l)) with None => true | Some _ => false end
    | TVObj _ fs => (fix go (fs : list (string * tv)) : bool :=
                       match fs with [] => true | p :: r => no_auto_capture (snd p) && go r end) fs
    | TVVec l => (fix go (l : list tv) : bool := match l with [] => true | x :: r => no_auto_capture x && go r end) l
    | _ => true
    end.
  Lemma nocap_obj n fs : no_auto_capture (TVObj n fs) = forallb (fun p => no_auto_capture (snd p)) fs.
  Proof. cbn [no_auto_capture]. induction fs as [|p r IH]; [reflexivity|]. cbn [forallb]. rewrite <- IH. reflexivity. Qed.
  Lemma nocap_vec l : no_auto_capture (TVVec l) = forallb no_auto_capture l.
  Proof. cbn [no_auto_capture]. induction l as [|p r IH]; [reflexivity|]. cbn [forallb]. rewrite <- IH. reflexivity. Qed.
End NoCap.

Lemma s_enc_none tbl m ty : s_enc tbl m ty TVNone = None.
Proof. destruct m; [reflexivity|]. destruct ty as [len [| |]| | | | | | |]; reflexivity. Qed.

Definition flat_ty (ty : tltype) : bool := is_base_ty ty.

(* ================================================================== *)
(* 4b. serialisation of the fields of a constructor                     *)
(* ================================================================== *)

Lemma s_fields_names enc : forall args fs seen b,
  s_fields_with enc args fs seen = Some b -> forall n, In n (map fst fs) -> In n (map a_field args).
Proof.
  induction args as [|a args IH]; intros fs seen b H n Hn.
  - cbn [s_fields_with] in H. destruct fs; [destruct Hn|discriminate].
  - cbn [s_fields_with] in H.
    destruct (match a_cond a with None => Some true | Some bit => s_flag seen bit end) as [[|]|]; [| |discriminate].
    + destruct fs as [|[n0 x] fs']; [discriminate|].
      destruct (String.eqb n0 (a_field a) && bare_name_ok false (a_ty a) x) eqn:E; [|discriminate].
      apply andb_prop in E. destruct E as [E _]. apply String.eqb_eq in E.
      destruct (enc (a_ty a) x); [|discriminate].
      destruct (s_fields_with enc args fs' (seen ++ [(n0, x)])) eqn:E2; [|discriminate].
      cbn [map fst] in Hn. destruct Hn as [Hn|Hn].
      * left. congruence.
      * right. exact (IH _ _ _ E2 n Hn).
    + right. exact (IH _ _ _ H n Hn).
Qed.

Lemma assoc_app_notin seen fs k : ~ In k (map fst seen) -> assoc (seen ++ fs) k = assoc fs k.
Proof.
  induction seen as [|[n v] r IH]; intro H; [reflexivity|]. cbn [app assoc].
  destruct (String.eqb_spec n k) as [E|E].
  - exfalso. apply H. left. exact E.
  - apply IH. intro H'. apply H. right. exact H'.
Qed.

Lemma assoc_notin fs k : ~ In k (map fst fs) -> assoc fs k = None.
Proof.
  induction fs as [|[n v] r IH]; intro H; [reflexivity|]. cbn [assoc].
  destruct (String.eqb_spec n k) as [E|E].
  - exfalso. apply H. left. exact E.
  - apply IH. intro H'. apply H. right. exact H'.
Qed.

Lemma fields_ser enc ser fields : forall args fs seen b acc,
  (forall a x b1, In a args -> enc (a_ty a) x = Some b1 -> ser (a_ty a) x = Ok b1 /\ x <> TVNone) ->
  s_fields_with enc args fs seen = Some b ->
  fields = (seen ++ fs)%list ->
  NoDup (map a_field args) ->
  (forall n, In n (map fst seen) -> ~ In n (map a_field args)) ->
  (forall a, In a args -> a_cond a <> None -> a_ser_cond a = true) ->
  fold_left (sstep ser fields) args (Ok acc) = Ok (acc ++ b)%list.
Proof.
  induction args as [|a args IH]; intros fs seen b acc Hser H Hfields Hnd Hseen Hcond.
  - cbn [s_fields_with] in H. destruct fs; [|discriminate]. inversion H. cbn [fold_left]. rewrite app_nil_r. reflexivity.
  - cbn [s_fields_with] in H. cbn [fold_left]. cbn [map] in Hnd. inversion Hnd as [|? ? Hnotin Hnd']; subst.
    assert (Hseen_a : ~ In (a_field a) (map fst seen)).
    { intro Hin. apply (Hseen _ Hin). left. reflexivity. }
    destruct (match a_cond a with None => Some true | Some bit => s_flag seen bit end) as [[|]|] eqn:Epres; [| |discriminate].
    + destruct fs as [|[n0 x] fs']; [discriminate|].
      destruct (String.eqb n0 (a_field a) && bare_name_ok false (a_ty a) x) eqn:E; [|discriminate].
      apply andb_prop in E. destruct E as [E _]. apply String.eqb_eq in E. subst n0.
      destruct (enc (a_ty a) x) as [b1|] eqn:Eenc; [|discriminate].
      destruct (s_fields_with enc args fs' (seen ++ [(a_field a, x)])) as [b2|] eqn:E2; [|discriminate].
      inversion H; subst b. clear H.
      destruct (Hser a x b1 (or_introl eq_refl) Eenc) as [Hs Hnn].
      assert (Hassoc : assoc (seen ++ (a_field a, x) :: fs') (a_field a) = Some x).
      { rewrite assoc_app_notin by exact Hseen_a. cbn [assoc]. rewrite String.eqb_refl. reflexivity. }
      unfold sstep at 2. cbn [bind]. rewrite Hassoc.
      replace (a_ser_cond a && negb match x with TVNone => false | _ => true end) with false
        by (destruct x; try (destruct (a_ser_cond a); reflexivity); congruence).
      rewrite Hs. cbn [rmap].
      rewrite (IH fs' (seen ++ [(a_field a, x)])%list b2 (acc ++ b1)%list).
      * rewrite app_assoc. reflexivity.
      * intros a' x' b' Hin. apply Hser. right. exact Hin.
      * exact E2.
      * rewrite <- app_assoc. reflexivity.
      * exact Hnd'.
      * intros n Hn. rewrite map_app, in_app_iff in Hn. cbn [map fst In] in Hn.
        destruct Hn as [Hn|[Hn|[]]].
        -- intro Hc. apply (Hseen _ Hn). right. exact Hc.
        -- subst n. exact Hnotin.
      * intros a' Hin. apply Hcond. right. exact Hin.
    + assert (Hfs : ~ In (a_field a) (map fst fs)).
      { intro Hin. apply Hnotin. exact (s_fields_names _ _ _ _ _ H _ Hin). }
      assert (Hassoc : assoc (seen ++ fs) (a_field a) = None).
      { rewrite assoc_app_notin by exact Hseen_a. apply assoc_notin. exact Hfs. }
      assert (Hsc : a_ser_cond a = true).
      { apply Hcond; [left; reflexivity|]. destruct (a_cond a); [discriminate|]. inversion Epres. }
      unfold sstep at 2. cbn [bind]. rewrite Hassoc, Hsc. cbn [andb negb].
      apply (IH fs seen b acc).
      * intros a' x' b' Hin. apply Hser. right. exact Hin.
      * exact H.
      * reflexivity.
      * exact Hnd'.
      * intros n Hn Hc. apply (Hseen _ Hn). right. exact Hc.
      * intros a' Hin. apply Hcond. right. exact Hin.
Qed.

Lemma ser_flat tbl m ty x b1 F :
  flat_ty ty = true -> s_enc tbl m ty x = Some b1 -> (1 <= F)%nat -> ser_field tbl F ty x = Ok b1.
Proof.
  intros Hflat H HF. destruct F as [|f]; [lia|]. destruct m as [|m']; [discriminate|].
  rewrite ser_field_S.
  destruct ty as [len [| |]| | | | | | |]; try discriminate; destruct x; try discriminate; cbn [s_enc] in H.
  - destruct (len =? 4)%nat; [|discriminate]. inversion H. rewrite s_bool_ids. reflexivity.
  - destruct (s_int_range len z) eqn:E; [|discriminate]. inversion H. apply int_le_signed_spec. exact E.
  - destruct ((List.length l =? len)%nat && bytes_okb l); [|discriminate]. congruence.
  - destruct (bytes_okb l && (N.of_nat (List.length l) <? 16777216)%N); [|discriminate].
    inversion H. cbn [bind]. rewrite frame_bytes_spec. reflexivity.
  - destruct (valid_utf8 (S (List.length l)) l && (N.of_nat (List.length l) <? 16777216)%N); [|discriminate].
    inversion H. cbn [bind]. rewrite frame_bytes_spec. reflexivity.
Qed.

(* ================================================================== *)
(* 4c. parsing the fields of a constructor                              *)
(* ================================================================== *)

Definition rec_ty := list N -> bool -> option tl_ctor -> result (tv * nat).
(* the nested call on a payload that does not start with a known id returns the payload *)
Definition rec_passes (tbl : tl_tbl) (rec : rec_ty) : Prop :=
  forall p, by_id tbl (rev (firstn 4 p)) = None -> rec p true None = Ok (TVBytes p, List.length p).

Lemma deser_passes tbl G : (1 <= G)%nat -> rec_passes tbl (deser tbl G).
Proof.
  intros HG p Hp. destruct G as [|g]; [lia|]. rewrite deser_S. cbv zeta.
  change (bslice p 0 4) with (firstn 4 p). rewrite Hp. reflexivity.
Qed.

Lemma dstep_present tbl rec d boxed c i seen a :
  present_m seen a = Ok true ->
  dstep tbl rec d boxed c (Ok (i, seen)) a =
  match a_ty a with
  | TFixed len FBoolT =>
      let w := bslice d i (i + len) in
      let fs' := if forallb (fun p => N.eqb (fst p) (snd p)) (combine w bool_true_id) && (List.length w =? 4)%nat
                 then seen ++ [(a_field a, TVBool true)]
                 else if forallb (fun p => N.eqb (fst p) (snd p)) (combine w bool_false_id) && (List.length w =? 4)%nat
                 then seen ++ [(a_field a, TVBool false)] else seen in
      Ok ((i + len)%nat, fs')
  | TFixed len FRaw => Ok ((i + len)%nat, seen ++ [(a_field a, TVHex (bslice d i (i + len)))])
  | TFixed len FIntT => Ok ((i + len)%nat, seen ++ [(a_field a, TVInt (int_of_le_signed (bslice d i (i + len))))])
  | TBytes | TString =>
      let '(blen, attach, i1) := dprefix d i in
      let payload := bslice d i1 (i1 + blen) in
      bind (if (if boxed then untouchable (c_name c) (a_field a) else false)
            then Ok (TVBytes payload)
            else
              bind (rec payload true None) (fun '(temp, j) =>
              if (j <? blen)%nat then dmore rec d i1 blen payload (S blen) j [temp]
              else Ok temp)) (fun val =>
      let i2 := (i1 + blen)%nat in
      let i3 := dskip blen attach i2 in
      bind (match a_ty a, val with
            | TString, TVBytes l => if valid_utf8 (S (List.length l)) l then Ok (TVStr l) else Err EValue
            | TString, _ => Err EAttr
            | _, x => Ok x
            end) (fun val' => Ok (i3, seen ++ [(a_field a, val')])))
  | TVector el elname named =>
      let cnt := of_le (bslice d i (i + 4)) in
      let i1 := (i + 4)%nat in
      if (Z.of_nat (List.length d) - Z.of_nat i1 <? Z.of_N cnt)%Z then Err ETl else
      let n := N.to_nat cnt in
      bind (dloop rec tbl d el elname named n i1 []) (fun '(i2, items) => Ok (i2, seen ++ [(a_field a, TVVec items)]))
  | TBare nm =>
      bind (rec (skipn i d) false (by_name tbl nm)) (fun '(x, j) =>
      let x' := match x with TVObj _ xs => TVObj nm xs | y => y end in
      Ok ((i + j)%nat, seen ++ [(a_field a, x')]))
  | TBoxed _ =>
      bind (rec (skipn i d) true None) (fun '(x, j) => Ok ((i + j)%nat, seen ++ [(a_field a, x)]))
  | TNamedBoxed _ | TUnsupported => Err EAttr
  end.
Proof. intro H. unfold dstep. cbn [bind]. rewrite H. reflexivity. Qed.

Lemma dstep_absent tbl rec d boxed c i seen a :
  present_m seen a = Ok false -> dstep tbl rec d boxed c (Ok (i, seen)) a = Ok (i, seen).
Proof. intro H. unfold dstep. cbn [bind]. rewrite H. reflexivity. Qed.

Lemma step_bytes tbl rec d boxed c a l seen pre tail (isstr : bool) :
  rec_passes tbl rec ->
  a_ty a = (if isstr then TString else TBytes) ->
  (N.of_nat (List.length l) < 16777216)%N ->
  by_id tbl (rev (firstn 4 l)) = None ->
  (isstr = true -> valid_utf8 (S (List.length l)) l = true) ->
  present_m seen a = Ok true ->
  d = (pre ++ s_frame l ++ tail)%list ->
  dstep tbl rec d boxed c (Ok (List.length pre, seen)) a =
  Ok ((List.length pre + List.length (s_frame l))%nat, (seen ++ [(a_field a, if isstr then TVStr l else TVBytes l)])%list).
Proof.
  intros Hrec Hty Hl Hcap Hutf Hpres Hd.
  rewrite dstep_present by exact Hpres.
  rewrite <- frame_bytes_spec in *.
  destruct (frame_parse l pre tail Hl) as (attach & Hp & Hs & Hk). cbv zeta in Hp, Hs, Hk. rewrite <- Hd in Hp, Hs.
  assert (Hval :
    (if (if boxed then untouchable (c_name c) (a_field a) else false)
     then Ok (TVBytes l)
     else bind (rec l true None) (fun '(temp, j) =>
          if (j <? List.length l)%nat then dmore rec d (List.length pre + attach) (List.length l) l (S (List.length l)) j [temp]
          else Ok temp)) = Ok (TVBytes l)).
  { destruct (if boxed then untouchable (c_name c) (a_field a) else false); [reflexivity|].
    rewrite (Hrec l Hcap). cbn [bind]. rewrite Nat.ltb_irrefl. reflexivity. }
  destruct isstr; rewrite Hty; rewrite Hp; cbv zeta; rewrite Hs, Hval; cbn [bind]; rewrite Hk.
  - rewrite (Hutf eq_refl). reflexivity.
  - reflexivity.
Qed.

Lemma step_flat tbl rec d boxed c m a x b1 seen pre tail :
  rec_passes tbl rec ->
  flat_ty (a_ty a) = true ->
  s_enc tbl m (a_ty a) x = Some b1 ->
  no_auto_capture tbl x = true ->
  present_m seen a = Ok true ->
  d = (pre ++ b1 ++ tail)%list ->
  dstep tbl rec d boxed c (Ok (List.length pre, seen)) a =
  Ok ((List.length pre + List.length b1)%nat, (seen ++ [(a_field a, x)])%list).
Proof.
  intros Hrec Hflat H Hcap Hpres Hd. destruct m as [|m']; [discriminate|].
  destruct (a_ty a) as [len [| |]| | | | | | |] eqn:Hty; try discriminate; destruct x; try discriminate; cbn [s_enc] in H.
  - (* Bool *)
    destruct (Nat.eqb_spec len 4) as [->|]; [|discriminate]. inversion H; subst b1. clear H.
    rewrite dstep_present by exact Hpres. rewrite Hty. cbv zeta.
    rewrite Hd, bslice_at by reflexivity. rewrite s_bool_ids.
    rewrite firstn_exact by (destruct b; reflexivity).
    destruct b; reflexivity.
  - (* int *)
    destruct (s_int_range len z) eqn:E; [|discriminate]. inversion H; subst b1. clear H.
    rewrite dstep_present by exact Hpres. rewrite Hty.
    rewrite Hd, bslice_at by reflexivity. rewrite firstn_exact by apply s_int_le_length.
    rewrite int_of_s_int_le by exact E. rewrite s_int_le_length. reflexivity.
  - (* int128 / int256 *)
    destruct (Nat.eqb_spec (List.length l) len) as [E|]; [|discriminate]. cbn [andb] in H.
    destruct (bytes_okb l); [|discriminate]. inversion H; subst b1. clear H.
    rewrite dstep_present by exact Hpres. rewrite Hty.
    rewrite Hd, bslice_at by reflexivity. rewrite firstn_exact by exact E. rewrite E. reflexivity.
  - (* bytes *)
    destruct (bytes_okb l); [|discriminate]. cbn [andb] in H.
    destruct (N.ltb_spec (N.of_nat (List.length l)) 16777216) as [Hl|]; [|discriminate]. inversion H; subst b1. clear H.
    cbn [no_auto_capture] in Hcap. destruct (by_id tbl (rev (firstn 4 l))) eqn:Eid; [discriminate|].
    apply (step_bytes tbl rec d boxed c a l seen pre tail false); auto. discriminate.
  - (* string *)
    destruct (valid_utf8 (S (List.length l)) l) eqn:Eutf; [|discriminate]. cbn [andb] in H.
    destruct (N.ltb_spec (N.of_nat (List.length l)) 16777216) as [Hl|]; [|discriminate]. inversion H; subst b1. clear H.
    cbn [no_auto_capture] in Hcap. destruct (by_id tbl (rev (firstn 4 l))) eqn:Eid; [discriminate|].
    apply (step_bytes tbl rec d boxed c a l seen pre tail true); auto.
Qed.

Lemma fields_deser tbl rec d boxed c enc : forall args fs seen b pre tail,
  (forall a x b1 seen pre tail, In a args -> enc (a_ty a) x = Some b1 -> bare_name_ok false (a_ty a) x = true ->
     no_auto_capture tbl x = true -> present_m seen a = Ok true -> d = (pre ++ b1 ++ tail)%list ->
     dstep tbl rec d boxed c (Ok (List.length pre, seen)) a
     = Ok ((List.length pre + List.length b1)%nat, (seen ++ [(a_field a, x)])%list)) ->
  s_fields_with enc args fs seen = Some b ->
  forallb (fun p => no_auto_capture tbl (snd p)) fs = true ->
  d = (pre ++ b ++ tail)%list ->
  fold_left (dstep tbl rec d boxed c) args (Ok (List.length pre, seen))
  = Ok ((List.length pre + List.length b)%nat, (seen ++ fs)%list).
Proof.
  induction args as [|a args IH]; intros fs seen b pre tail Hstep H Hcap Hd.
  - cbn [s_fields_with] in H. destruct fs; [|discriminate]. inversion H. cbn [fold_left List.length].
    rewrite app_nil_r, Nat.add_0_r. reflexivity.
  - cbn [s_fields_with] in H. cbn [fold_left].
    destruct (match a_cond a with None => Some true | Some bit => s_flag seen bit end) as [[|]|] eqn:Epres; [| |discriminate].
    + assert (Hpres : present_m seen a = Ok true).
      { unfold present_m. destruct (a_cond a); [apply flag_set_spec; exact Epres|reflexivity]. }
      destruct fs as [|[n0 x] fs']; [discriminate|].
      destruct (String.eqb n0 (a_field a) && bare_name_ok false (a_ty a) x) eqn:E; [|discriminate].
      apply andb_prop in E. destruct E as [E Ebn]. apply String.eqb_eq in E. subst n0.
      destruct (enc (a_ty a) x) as [b1|] eqn:Eenc; [|discriminate].
      destruct (s_fields_with enc args fs' (seen ++ [(a_field a, x)])) as [b2|] eqn:E2; [|discriminate].
      inversion H; subst b. clear H.
      cbn [forallb snd] in Hcap. apply andb_prop in Hcap. destruct Hcap as [Hc1 Hc2].
      rewrite (Hstep a x b1 seen pre (b2 ++ tail)%list (or_introl eq_refl) Eenc Ebn Hc1 Hpres)
        by (rewrite Hd, <- app_assoc; reflexivity).
      rewrite <- app_length.
      rewrite (IH fs' (seen ++ [(a_field a, x)])%list b2 (pre ++ b1)%list tail).
      * rewrite !app_length, <- app_assoc. f_equal. f_equal. lia.
      * intros a' x' b' seen' pre' tail' Hin. apply Hstep. right. exact Hin.
      * exact E2.
      * exact Hc2.
      * rewrite Hd, <- !app_assoc. reflexivity.
    + assert (Hpres : present_m seen a = Ok false).
      { unfold present_m. destruct (a_cond a); [apply flag_set_spec; exact Epres|discriminate Epres]. }
      rewrite dstep_absent by exact Hpres.
      apply (IH fs seen b pre tail).
      * intros a' x' b' seen' pre' tail' Hin. apply Hstep. right. exact Hin.
      * exact H.
      * exact Hcap.
      * exact Hd.
Qed.

(* ================================================================== *)
(* 4d. objects                                                          *)
(* ================================================================== *)

Fixpoint nodupb (l : list string) : bool :=
  match l with [] => true | x :: r => negb (existsb (String.eqb x) r) && nodupb r end.
Lemma nodupb_NoDup l : nodupb l = true -> NoDup l.
Proof.
  induction l as [|x r IH]; intro H; [constructor|]. cbn [nodupb] in H. apply andb_prop in H. destruct H as [H1 H2].
  constructor; [|apply IH; exact H2]. intro Hin.
  assert (E : existsb (String.eqb x) r = true) by (apply existsb_exists; exists x; split; [exact Hin|apply String.eqb_refl]).
  rewrite E in H1. discriminate.
Qed.

(* per-constructor sanity (holds by construction of a Python dict of arguments; checked on the generated table):
   distinct field names, a conditional field is also skipped by serialize when absent, 4-byte id *)
Definition not_entry (ty : tltype) : bool := match ty with TNamedBoxed _ => false | _ => true end.
Definition ctor_okb (c : tl_ctor) : bool :=
  nodupb (map a_field (c_args c)) &&
  forallb (fun a => match a_cond a with Some _ => a_ser_cond a | None => true end) (c_args c) &&
  (List.length (c_id c) =? 4)%nat &&
  forallb (fun a => not_entry (a_ty a)) (c_args c).      (* TNamedBoxed is the entry point, never a field type *)

Lemma ctor_okb_spec c : ctor_okb c = true ->
  NoDup (map a_field (c_args c)) /\ (forall a, In a (c_args c) -> a_cond a <> None -> a_ser_cond a = true) /\
  List.length (c_id c) = 4%nat /\ (forall a, In a (c_args c) -> not_entry (a_ty a) = true).
Proof.
  unfold ctor_okb. intro H. apply andb_prop in H. destruct H as [H H4]. apply andb_prop in H. destruct H as [H H3].
  apply andb_prop in H. destruct H as [H1 H2].
  split; [apply nodupb_NoDup; exact H1|split; [|split; [apply Nat.eqb_eq; exact H3|]]].
  - intros a Hin Hc. rewrite forallb_forall in H2. specialize (H2 a Hin). destruct (a_cond a); [exact H2|congruence].
  - intros a Hin. rewrite forallb_forall in H4. exact (H4 a Hin).
Qed.

Lemma sobj_ok enc ser c fs boxed b :
  (forall a x b1, In a (c_args c) -> enc (a_ty a) x = Some b1 -> ser (a_ty a) x = Ok b1 /\ x <> TVNone) ->
  s_obj_with enc c fs boxed = Some b ->
  NoDup (map a_field (c_args c)) ->
  (forall a, In a (c_args c) -> a_cond a <> None -> a_ser_cond a = true) ->
  sobj ser c fs boxed = Ok b.
Proof.
  intros Hser H Hnd Hcond. unfold s_obj_with in H.
  destruct (s_fields_with enc (c_args c) fs []) as [b0|] eqn:E; [|discriminate]. inversion H; subst b.
  unfold sobj. apply (fields_ser enc ser fs (c_args c) fs [] b0); auto.
Qed.

Lemma deser_obj tbl g c fs (boxed : bool) b0 tail ctor :
  (boxed = true -> List.length (c_id c) = 4%nat) ->
  (if boxed then by_id tbl (c_id c) = Some c else ctor = Some c) ->
  fold_left (dstep tbl (deser tbl g) ((if boxed then rev (c_id c) else []) ++ b0 ++ tail)%list boxed c) (c_args c)
            (Ok (List.length (if boxed then rev (c_id c) else []), @nil (string * tv)))
    = Ok ((List.length (if boxed then rev (c_id c) else []) + List.length b0)%nat, fs) ->
  deser tbl (S g) ((if boxed then rev (c_id c) else []) ++ b0 ++ tail)%list boxed ctor
    = Ok (TVObj (if boxed then c_name c else "") fs, (List.length (if boxed then rev (c_id c) else []) + List.length b0)%nat).
Proof.
  intros Hlen Hres Hfold. rewrite deser_S. cbv zeta. destruct boxed.
  - specialize (Hlen eq_refl). change (bslice (rev (c_id c) ++ b0 ++ tail) 0 4) with (firstn 4 (rev (c_id c) ++ b0 ++ tail)).
    rewrite firstn_exact by (rewrite rev_length; exact Hlen). rewrite rev_involutive, Hres.
    rewrite rev_length, Hlen in Hfold. rewrite Hfold. cbn [bind]. rewrite rev_length, Hlen. reflexivity.
  - rewrite Hres. cbn [List.length] in Hfold. rewrite Hfold. reflexivity.
Qed.

(* ================================================================== *)
(* 4e. round trip, constructors with unconditional fixed / bytes / string fields *)
(* ================================================================== *)

Definition flat_arg (a : tl_arg) : bool :=
  flat_ty (a_ty a) && match a_cond a with None => true | Some _ => false end.
Definition flat_ctor (c : tl_ctor) : bool := forallb flat_arg (c_args c).

(* fs are well-typed fields for args, es their encodings *)
Inductive flat_fields (tbl : tl_tbl) : list tl_arg -> list (string * tv) -> list (list N) -> Prop :=
| ff_nil : flat_fields tbl [] [] []
| ff_cons a args x fs e es :
    s_enc tbl 1 (a_ty a) x = Some e -> no_auto_capture tbl x = true ->
    flat_fields tbl args fs es -> flat_fields tbl (a :: args) ((a_field a, x) :: fs) (e :: es).

Lemma bare_name_ok_flat b ty x : flat_ty ty = true -> bare_name_ok b ty x = true.
Proof. destruct ty; try discriminate; reflexivity. Qed.

Lemma flat_fields_spec tbl : forall args fs es, flat_fields tbl args fs es -> forallb flat_arg args = true ->
  forall seen, s_fields_with (s_enc tbl 1) args fs seen = Some (List.concat es) /\
               forallb (fun p => no_auto_capture tbl (snd p)) fs = true.
Proof.
  induction 1 as [|a args x fs e es He Hc Hff IH]; intros Hflat seen; [split; reflexivity|].
  cbn [forallb] in Hflat. apply andb_prop in Hflat. destruct Hflat as [Ha Hr].
  unfold flat_arg in Ha. apply andb_prop in Ha. destruct Ha as [Hty Hcond].
  destruct (a_cond a) eqn:Ec; [discriminate|].
  destruct (IH Hr (seen ++ [(a_field a, x)])%list) as [IH1 IH2].
  split.
  - cbn [s_fields_with]. rewrite Ec. rewrite String.eqb_refl, bare_name_ok_flat by exact Hty. cbn [andb].
    rewrite He, IH1. reflexivity.
  - cbn [forallb snd]. rewrite Hc, IH2. reflexivity.
Qed.

Theorem roundtrip_flat : forall tbl c fs es fuel,
  flat_ctor c = true ->
  NoDup (map a_field (c_args c)) ->
  List.length (c_id c) = 4%nat ->
  by_name tbl (c_name c) = Some c ->
  by_id tbl (c_id c) = Some c ->
  flat_fields tbl (c_args c) fs es ->
  (2 <= fuel)%nat ->
  let bytes := (rev (c_id c) ++ List.concat es)%list in
  serialize tbl fuel (c_name c) fs = Ok bytes /\
  deserialize tbl fuel bytes = Ok (TVObj (c_name c) fs, List.length bytes) /\
  s_encode tbl 2 (c_name c) fs = Some bytes.
Proof.
  intros tbl c fs es fuel Hflat Hnd Hlen Hname Hid Hff Hfuel bytes. subst bytes.
  destruct (flat_fields_spec tbl _ _ _ Hff Hflat []) as [Hsf Hcap].
  assert (Hobj : s_obj_with (s_enc tbl 1) c fs true = Some (rev (c_id c) ++ List.concat es)%list).
  { unfold s_obj_with. rewrite Hsf. reflexivity. }
  assert (Hargs : forall a, In a (c_args c) -> flat_ty (a_ty a) = true /\ a_cond a = None).
  { intros a Hin. unfold flat_ctor in Hflat. rewrite forallb_forall in Hflat. specialize (Hflat a Hin).
    unfold flat_arg in Hflat. apply andb_prop in Hflat. destruct Hflat as [H1 H2].
    split; [exact H1|]. destruct (a_cond a); [discriminate|reflexivity]. }
  destruct fuel as [|[|g]]; try lia.
  split; [|split].
  - unfold serialize. rewrite ser_field_S. rewrite Hname.
    apply (sobj_ok (s_enc tbl 1)); auto.
    + intros a x b1 Hin He. split.
      * apply (ser_flat tbl 1); [apply Hargs; exact Hin|exact He|lia].
      * intro Hx. subst x. rewrite s_enc_none in He. discriminate.
    + intros a Hin Hc. destruct (Hargs a Hin) as [_ Hn]. congruence.
  - unfold deserialize.
    pose proof (deser_obj tbl (S g) c fs true (List.concat es) [] None (fun _ => Hlen) Hid) as Hd.
    cbv iota in Hd. rewrite app_nil_r in Hd. rewrite app_length. apply Hd.
    pose proof (fields_deser tbl (deser tbl (S g)) (rev (c_id c) ++ List.concat es)%list true c (s_enc tbl 1)
                  (c_args c) fs [] (List.concat es) (rev (c_id c)) []) as Hf.
    cbn [app] in Hf. apply Hf; auto.
    + intros a x b1 seen pre tail Hin He _ Hc Hp Hdd.
      apply (step_flat tbl (deser tbl (S g)) _ true c 1 a x b1 seen pre tail); auto.
      * apply deser_passes. lia.
      * apply Hargs. exact Hin.
    + rewrite app_nil_r. reflexivity.
  - unfold s_encode. cbn [s_enc]. rewrite String.eqb_refl, Hname. exact Hobj.
Qed.

(* ================================================================== *)
(* 6. facts about the generated table                                   *)
(* ================================================================== *)

Definition fkind_eqb (a b : fkind) : bool :=
  match a, b with FBoolT, FBoolT | FIntT, FIntT | FRaw, FRaw => true | _, _ => false end.
Fixpoint tltype_eqb (a b : tltype) : bool :=
  match a, b with
  | TFixed l1 k1, TFixed l2 k2 => (l1 =? l2)%nat && fkind_eqb k1 k2
  | TBytes, TBytes | TString, TString | TUnsupported, TUnsupported => true
  | TBoxed x, TBoxed y | TBare x, TBare y | TNamedBoxed x, TNamedBoxed y => String.eqb x y
  | TVector e1 n1 b1, TVector e2 n2 b2 => tltype_eqb e1 e2 && String.eqb n1 n2 && Bool.eqb b1 b2
  | _, _ => false
  end.
Definition arg_eqb (a b : tl_arg) : bool :=
  String.eqb (a_field a) (a_field b) &&
  match a_cond a, a_cond b with Some x, Some y => (x =? y)%nat | None, None => true | _, _ => false end &&
  Bool.eqb (a_ser_cond a) (a_ser_cond b) && tltype_eqb (a_ty a) (a_ty b).
Fixpoint args_eqb (a b : list tl_arg) : bool :=
  match a, b with [], [] => true | x :: a', y :: b' => arg_eqb x y && args_eqb a' b' | _, _ => false end.
Definition ctor_eqb (a b : tl_ctor) : bool :=
  nlist_eqb (c_id a) (c_id b) && String.eqb (c_name a) (c_name b) && String.eqb (c_class a) (c_class b) &&
  args_eqb (c_args a) (c_args b).

Lemma tltype_eqb_eq a : forall b, tltype_eqb a b = true -> a = b.
Proof.
  induction a as [l1 k1| | |x|x|e1 IH n1 b1|x|]; intros [l2 k2| | |y|y|e2 n2 b2|y|] H; cbn [tltype_eqb] in H;
    try discriminate; try reflexivity; try (apply String.eqb_eq in H; congruence).
  - apply andb_prop in H. destruct H as [H1 H2]. apply Nat.eqb_eq in H1. subst l2.
    destruct k1, k2; try discriminate; reflexivity.
  - apply andb_prop in H. destruct H as [H H3]. apply andb_prop in H. destruct H as [H1 H2].
    apply IH in H1. apply String.eqb_eq in H2. apply Bool.eqb_prop in H3. congruence.
Qed.
Lemma arg_eqb_eq a b : arg_eqb a b = true -> a = b.
Proof.
  destruct a as [f1 c1 s1 t1], b as [f2 c2 s2 t2]. unfold arg_eqb. cbn [a_field a_cond a_ser_cond a_ty]. intro H.
  apply andb_prop in H. destruct H as [H H4]. apply andb_prop in H. destruct H as [H H3].
  apply andb_prop in H. destruct H as [H1 H2].
  apply String.eqb_eq in H1. apply Bool.eqb_prop in H3. apply tltype_eqb_eq in H4. subst.
  destruct c1, c2; try discriminate; [apply Nat.eqb_eq in H2; subst|]; reflexivity.
Qed.
Lemma args_eqb_eq a : forall b, args_eqb a b = true -> a = b.
Proof.
  induction a as [|x a IH]; intros [|y b] H; cbn [args_eqb] in H; try discriminate; [reflexivity|].
  apply andb_prop in H. destruct H as [H1 H2]. apply arg_eqb_eq in H1. apply IH in H2. congruence.
Qed.
Lemma ctor_eqb_eq a b : ctor_eqb a b = true -> a = b.
Proof.
  destruct a as [i1 n1 k1 a1], b as [i2 n2 k2 a2]. unfold ctor_eqb. cbn [c_id c_name c_class c_args]. intro H.
  apply andb_prop in H. destruct H as [H H4]. apply andb_prop in H. destruct H as [H H3].
  apply andb_prop in H. destruct H as [H1 H2].
  apply nlist_eqb_eq in H1. apply String.eqb_eq in H2. apply String.eqb_eq in H3. apply args_eqb_eq in H4. congruence.
Qed.

(* names occurring more than once, in the order of their first occurrence *)
Fixpoint dup_names (l : list string) : list string :=
  match l with
  | [] => []
  | x :: r => let d := dup_names r in
              if existsb (String.eqb x) r && negb (existsb (String.eqb x) d) then x :: d else d
  end.
Definition duplicate_names (t : tl_tbl) : list string := dup_names (map c_name t).

(* c is what its name and its id resolve to *)
Definition resolves_b (t : tl_tbl) (c : tl_ctor) : bool :=
  match by_name t (c_name c), by_id t (c_id c) with
  | Some c1, Some c2 => ctor_eqb c1 c && ctor_eqb c2 c
  | _, _ => false
  end.
Lemma resolves_b_spec t c : resolves_b t c = true -> by_name t (c_name c) = Some c /\ by_id t (c_id c) = Some c.
Proof.
  unfold resolves_b. destruct (by_name t (c_name c)) as [c1|]; [|discriminate].
  destruct (by_id t (c_id c)) as [c2|]; [|discriminate]. intro H. apply andb_prop in H. destruct H as [H1 H2].
  apply ctor_eqb_eq in H1. apply ctor_eqb_eq in H2. subst. split; reflexivity.
Qed.

(* whatever a name resolves to is a sane constructor whose id resolves back to it *)
Definition tbl_okb (t : tl_tbl) : bool :=
  forallb (fun c => match by_name t (c_name c) with
                    | Some c' => ctor_okb c' && match by_id t (c_id c') with Some c'' => ctor_eqb c'' c' | None => false end
                    | None => true
                    end) t.
Definition tbl_ok (t : tl_tbl) : Prop :=
  forall n c, by_name t n = Some c -> ctor_okb c = true /\ by_id t (c_id c) = Some c.
Lemma tbl_okb_spec t : tbl_okb t = true -> tbl_ok t.
Proof.
  intros H n c Hn. destruct (by_name_some t n c Hn) as [Hin Hcn]. unfold tbl_okb in H. rewrite forallb_forall in H.
  specialize (H c Hin). rewrite Hcn, Hn in H. apply andb_prop in H. destruct H as [H1 H2].
  split; [exact H1|]. destruct (by_id t (c_id c)) as [c''|]; [|discriminate]. apply ctor_eqb_eq in H2. congruence.
Qed.

Definition tl_duplicate_names : list string :=
  ["int"; "long"; "true"; "int128"; "tonNode.blockId"; "tonNode.blockIdExt"; "tonNode.zeroStateIdExt";
   "adnl.message.query"; "adnl.message.answer"; "double"; "string"; "object"; "function"; "bytes"; "boolTrue";
   "boolFalse"; "vector"; "int256"; "ton.blockId"]%string.
(* the entries that are shadowed by a later, different entry with the same name or id (all others resolve) *)
Definition tl_shadowed_names : list string := ["bytes"; "int256"; "bytes"; "int256"; "ton.blockId"]%string.

Definition list_string_eqb (a b : list string) : bool :=
  (List.length a =? List.length b)%nat && forallb (fun p => String.eqb (fst p) (snd p)) (combine a b).

Lemma table_facts :
  forallb (fun c => (List.length (c_id c) =? 4)%nat) tl_table &&
  forallb ctor_okb tl_table &&
  list_string_eqb (duplicate_names tl_table) tl_duplicate_names &&
  list_string_eqb (map c_name (filter (fun c => negb (resolves_b tl_table c)) tl_table)) tl_shadowed_names &&
  tbl_okb tl_table = true.
Proof. vm_compute. reflexivity. Qed.

Lemma table_dups : duplicate_names tl_table = tl_duplicate_names.
Proof. vm_compute. reflexivity. Qed.

Lemma table_ok : tbl_ok tl_table.
Proof. apply tbl_okb_spec. vm_compute. reflexivity. Qed.

(* every constructor of the generated table whose name is not duplicated is what its name and its id resolve to *)
Lemma table_resolves : forall c, In c tl_table -> existsb (String.eqb (c_name c)) tl_duplicate_names = false ->
  by_name tl_table (c_name c) = Some c /\ by_id tl_table (c_id c) = Some c /\ ctor_okb c = true.
Proof.
  assert (H : forallb (fun c => existsb (String.eqb (c_name c)) tl_duplicate_names || (resolves_b tl_table c && ctor_okb c)) tl_table = true)
    by (vm_compute; reflexivity).
  intros c Hin Hnd. rewrite forallb_forall in H. specialize (H c Hin). rewrite Hnd in H. cbn [orb] in H.
  apply andb_prop in H. destruct H as [H1 H2]. apply resolves_b_spec in H1. tauto.
Qed.

(* ================================================================== *)
(* 4f. round trip, all supported values: conditional fields, nested bare / boxed objects, vectors of objects *)
(* ================================================================== *)

Lemma some_inj {A} (a b : A) : Some a = Some b -> a = b.
Proof. congruence. Qed.

Lemma dloop_0 rec tbl d el elname named i acc : dloop rec tbl d el elname named 0 i acc = Ok (i, acc).
Proof. reflexivity. Qed.
Lemma dloop_S rec tbl d el elname named k i acc :
  dloop rec tbl d el elname named (S k) i acc =
  bind (if flat_ty el then delem (rec (skipn i d) false (Some (elem_ctor el)))
        else if named then rec (skipn i d) false (by_name tbl elname) else rec (skipn i d) true None)
       (fun '(x, j) => dloop rec tbl d el elname named k (i + j)%nat (acc ++ [x])%list).
Proof. reflexivity. Qed.

Lemma s_elems_len enc el : forall l bs, s_elems_with enc el l = Some bs -> (List.length l <= List.length bs)%nat.
Proof.
  induction l as [|x r IH]; intros bs H; [cbn; lia|]. cbn [s_elems_with] in H.
  destruct (bare_name_ok true el x); [|discriminate].
  destruct (enc el x) as [[|y b1]|]; try discriminate.
  destruct (s_elems_with enc el r) as [b2|] eqn:E; [|discriminate]. apply some_inj in H; subst bs.
  specialize (IH b2 eq_refl). rewrite app_length. cbn [List.length]. lia.
Qed.

Lemma elems_ser (ser : tltype -> tv -> result (list N)) enc el : forall l bs acc,
  (forall x b1, enc el x = Some b1 -> ser el x = Ok b1) ->
  s_elems_with enc el l = Some bs ->
  fold_left (fun acc x => bind acc (fun bytes => rmap (fun b => (bytes ++ b)%list) (ser el x))) l (Ok acc)
  = Ok (acc ++ bs)%list.
Proof.
  induction l as [|x r IH]; intros bs acc Hser H.
  - inversion H. cbn [fold_left]. rewrite app_nil_r. reflexivity.
  - cbn [s_elems_with] in H. destruct (bare_name_ok true el x); [|discriminate].
    destruct (enc el x) as [[|y b1]|] eqn:Ee; try discriminate.
    destruct (s_elems_with enc el r) as [b2|] eqn:E; [|discriminate]. apply some_inj in H; subst bs.
    cbn [fold_left bind]. rewrite (Hser _ _ Ee). cbn [rmap].
    rewrite (IH b2 (acc ++ y :: b1)%list Hser eq_refl). rewrite <- app_assoc. reflexivity.
Qed.

Section General.
  Variable tbl : tl_tbl.
  Hypothesis Htbl : tbl_ok tbl.

  Lemma ser_ok : forall m ty x b1, s_enc tbl m ty x = Some b1 ->
    forall F, (m <= F)%nat -> ser_field tbl F ty x = Ok b1.
  Proof.
    induction m as [|m' IH]; intros ty x b1 H F HF; [discriminate|].
    destruct (flat_ty ty) eqn:Hflat; [apply (ser_flat tbl (S m')); [exact Hflat|exact H|lia]|].
    destruct F as [|F']; [lia|]. assert (HF' : (m' <= F')%nat) by lia.
    assert (Hfield : forall c a x b1, In a (c_args c) -> s_enc tbl m' (a_ty a) x = Some b1 ->
                       ser_field tbl F' (a_ty a) x = Ok b1 /\ x <> TVNone).
    { intros c a x0 b0 _ He. split; [exact (IH _ _ _ He F' HF')|].
      intro Hx. subst x0. rewrite s_enc_none in He. discriminate. }
    assert (Hobj : forall c fs boxed b, ctor_okb c = true -> s_obj_with (s_enc tbl m') c fs boxed = Some b ->
                     sobj (ser_field tbl F') c fs boxed = Ok b).
    { intros c fs boxed b Hok Ho. destruct (ctor_okb_spec c Hok) as (Hnd & Hcond & _ & _).
      apply (sobj_ok (s_enc tbl m')); auto. intros a x0 b0. apply Hfield. }
    rewrite ser_field_S.
    destruct ty as [len k| | |cls|nm|el en named|nm|]; try discriminate; destruct x as [| | | | |n fs|l|];
      try discriminate; cbn [s_enc] in H.
    - (* boxed *)
      destruct (by_name tbl n) as [c|] eqn:En; [|discriminate].
      destruct (String.eqb (c_class c) cls) eqn:Ecls; [|discriminate].
      destruct (Htbl n c En) as [Hok _]. destruct (by_name_some tbl n c En) as [Hin _].
      assert (Hinc : In c (by_class tbl cls)) by (unfold by_class; apply filter_In; split; assumption).
      destruct (by_class tbl cls) as [|c1 [|c2 r]] eqn:Ecl.
      + destruct Hinc.
      + destruct Hinc as [<-|[]]. apply Hobj; assumption.
      + apply Hobj; assumption.
    - (* bare *)
      destruct (by_name tbl nm) as [c|] eqn:En; [|discriminate].
      destruct (Htbl nm c En) as [Hok _]. apply Hobj; assumption.
    - (* vector *)
      destruct (s_vector_supported el en named && (N.of_nat (List.length l) <? 4294967296)%N); [|discriminate].
      destruct (s_elems_with (s_enc tbl m') el l) as [bs|] eqn:Ee; [|discriminate]. apply some_inj in H; subst b1.
      unfold svec. rewrite s_u32_le_spec. apply (elems_ser _ (s_enc tbl m')); [|exact Ee].
      intros x0 b0 He. exact (IH _ _ _ He F' HF').
    - (* entry point *)
      destruct (String.eqb n nm); [|discriminate].
      destruct (by_name tbl nm) as [c|] eqn:En; [|discriminate].
      destruct (Htbl nm c En) as [Hok _]. apply Hobj; assumption.
  Qed.

  Definition Qobj (k : nat) : Prop := forall c fs (boxed : bool) b G tail ctor,
    s_obj_with (s_enc tbl k) c fs boxed = Some b ->
    forallb (fun p => no_auto_capture tbl (snd p)) fs = true ->
    ctor_okb c = true ->
    (if boxed then by_id tbl (c_id c) = Some c else ctor = Some c) ->
    (k + 1 <= G)%nat ->
    deser tbl G (b ++ tail)%list boxed ctor = Ok (TVObj (if boxed then c_name c else "") fs, List.length b).

  Lemma objval_deser m (Hsub : forall k, (k < m)%nat -> Qobj k) ty n fs e G tail :
    s_enc tbl m ty (TVObj n fs) = Some e -> no_auto_capture tbl (TVObj n fs) = true -> (m <= G)%nat ->
    match ty with
    | TBare nm => deser tbl G (e ++ tail)%list false (by_name tbl nm) = Ok (TVObj "" fs, List.length e)
    | TBoxed _ => deser tbl G (e ++ tail)%list true None = Ok (TVObj n fs, List.length e)
    | _ => True
    end.
  Proof.
    intros H Hcap HG. destruct m as [|m']; [discriminate|]. rewrite nocap_obj in Hcap.
    destruct ty as [len k| | |cls|nm|el en named|nm|]; try exact I; cbn [s_enc] in H.
    - destruct (by_name tbl n) as [c|] eqn:En; [|discriminate].
      destruct (String.eqb (c_class c) cls); [|discriminate].
      destruct (Htbl n c En) as [Hok Hid]. destruct (by_name_some tbl n c En) as [_ Hcn].
      pose proof (Hsub m' (Nat.lt_succ_diag_r m') c fs true e G tail None H Hcap Hok Hid) as Hq.
      cbv iota in Hq. rewrite Hcn in Hq. apply Hq. lia.
    - destruct (by_name tbl nm) as [c|] eqn:En; [|discriminate].
      destruct (Htbl nm c En) as [Hok Hid].
      apply (Hsub m' (Nat.lt_succ_diag_r m') c fs false e G tail (Some c) H Hcap Hok eq_refl). lia.
  Qed.

  Lemma loop_ok m' (Hsub : forall k, (k < S m')%nat -> Qobj k) G' d el elname named tail :
    (S m' <= G')%nat -> s_vector_supported el elname named = true ->
    forall l bs pre acc,
    s_elems_with (s_enc tbl m') el l = Some bs -> forallb (no_auto_capture tbl) l = true ->
    d = (pre ++ bs ++ tail)%list ->
    dloop (deser tbl G') tbl d el elname named (List.length l) (List.length pre) acc
    = Ok ((List.length pre + List.length bs)%nat, (acc ++ l)%list).
  Proof.
    intros HG Hsup. induction l as [|x r IH]; intros bs pre acc H Hcap Hd.
    - inversion H. cbn [List.length]. rewrite dloop_0, app_nil_r, Nat.add_0_r. reflexivity.
    - cbn [s_elems_with] in H. destruct (bare_name_ok true el x) eqn:Ebn; [|discriminate].
      destruct (s_enc tbl m' el x) as [[|y e']|] eqn:Ee; try discriminate.
      destruct (s_elems_with (s_enc tbl m') el r) as [b2|] eqn:E2; [|discriminate]. apply some_inj in H; subst bs.
      cbn [forallb] in Hcap. apply andb_prop in Hcap. destruct Hcap as [Hc1 Hc2].
      set (e := (y :: e')%list) in *.
      cbn [List.length]. rewrite dloop_S.
      assert (Hsk : skipn (List.length pre) d = (e ++ b2 ++ tail)%list).
      { rewrite Hd, skipn_at, <- app_assoc. reflexivity. }
      rewrite Hsk.
      assert (Hsub' : forall k, (k < m')%nat -> Qobj k) by (intros k Hk; apply Hsub; lia).
      assert (HG' : (m' <= G')%nat) by lia.
      assert (Hx : (if flat_ty el then delem (deser tbl G' (e ++ b2 ++ tail)%list false (Some (elem_ctor el)))
                    else if named then deser tbl G' (e ++ b2 ++ tail)%list false (by_name tbl elname)
                    else deser tbl G' (e ++ b2 ++ tail)%list true None) = Ok (x, List.length e)).
      { destruct (flat_ty el) eqn:Hfl.
        - (* elements of a base type: a one-field argument list *)
          destruct m' as [|m'']; [discriminate|]. destruct G' as [|g']; [lia|].
          pose proof (deser_obj tbl g' (elem_ctor el) [(""%string, x)] false e (b2 ++ tail)%list (Some (elem_ctor el))) as Ho.
          cbn [app List.length Nat.add] in Ho. rewrite Ho; [reflexivity|discriminate|reflexivity|].
          cbn [elem_ctor c_args fold_left].
          exact (step_flat tbl (deser tbl g') (e ++ b2 ++ tail)%list false (elem_ctor el) (S m'')
                   (mkArg ""%string None false el) x e [] [] (b2 ++ tail)%list
                   (deser_passes tbl g' ltac:(lia)) Hfl Ee Hc1 eq_refl eq_refl).
        - unfold s_vector_supported in Hsup.
          destruct el as [len k| | |cls|nm|el0 en0 named0|nm|]; try discriminate; destruct named; try discriminate.
          + (* boxed elements *)
            destruct m' as [|m'']; [discriminate|].
            destruct x as [| | | | |n fs|l0|]; try discriminate.
            exact (objval_deser (S m'') Hsub' (TBoxed cls) n fs e G' (b2 ++ tail)%list Ee Hc1 HG').
          + (* bare elements *)
            apply String.eqb_eq in Hsup. subst elname.
            destruct m' as [|m'']; [discriminate|].
            destruct x as [| | | | |n fs|l0|]; try discriminate.
            cbn [bare_name_ok] in Ebn. apply String.eqb_eq in Ebn. subst n.
            exact (objval_deser (S m'') Hsub' (TBare nm) "" fs e G' (b2 ++ tail)%list Ee Hc1 HG'). }
      rewrite Hx. cbn [bind]. rewrite <- app_length.
      rewrite (IH b2 (pre ++ e)%list (acc ++ [x])%list eq_refl Hc2) by (rewrite Hd, <- !app_assoc; reflexivity).
      rewrite !app_length, <- !app_assoc. f_equal. f_equal. lia.
  Qed.

  Lemma step_gen m (Hsub : forall k, (k < m)%nat -> Qobj k) G' d boxed c a x b1 seen pre tail :
    (m <= G')%nat ->
    not_entry (a_ty a) = true ->
    s_enc tbl m (a_ty a) x = Some b1 ->
    bare_name_ok false (a_ty a) x = true ->
    no_auto_capture tbl x = true ->
    present_m seen a = Ok true ->
    d = (pre ++ b1 ++ tail)%list ->
    dstep tbl (deser tbl G') d boxed c (Ok (List.length pre, seen)) a
    = Ok ((List.length pre + List.length b1)%nat, (seen ++ [(a_field a, x)])%list).
  Proof.
    intros HG Hne H Hbn Hcap Hpres Hd.
    destruct m as [|m']; [discriminate|].
    destruct (flat_ty (a_ty a)) eqn:Hflat.
    { apply (step_flat tbl (deser tbl G') d boxed c (S m') a x b1 seen pre tail); auto. apply deser_passes. lia. }
    rewrite dstep_present by exact Hpres.
    assert (Hsk : skipn (List.length pre) d = (b1 ++ tail)%list) by (rewrite Hd; apply skipn_at).
    destruct (a_ty a) as [len k| | |cls|nm|el en named|nm|] eqn:Hty; try discriminate;
      destruct x as [| | | | |n fs|l|]; try discriminate.
    - (* boxed *)
      rewrite Hsk.
      rewrite (objval_deser (S m') Hsub (TBoxed cls) n fs b1 G' tail H Hcap HG). reflexivity.
    - (* bare *)
      cbn [bare_name_ok] in Hbn. apply String.eqb_eq in Hbn. subst n.
      rewrite Hsk.
      rewrite (objval_deser (S m') Hsub (TBare nm) nm fs b1 G' tail H Hcap HG). reflexivity.
    - (* vector *)
      cbn [s_enc] in H.
      destruct (s_vector_supported el en named) eqn:Hsup; [|discriminate]. cbn [andb] in H.
      destruct (N.ltb_spec (N.of_nat (List.length l)) 4294967296) as [Hl|]; [|discriminate].
      destruct (s_elems_with (s_enc tbl m') el l) as [bs|] eqn:Ee; [|discriminate]. apply some_inj in H; subst b1.
      rewrite nocap_vec in Hcap.
      pose proof (s_elems_len _ _ _ _ Ee) as Hlen.
      assert (Hd' : d = ((pre ++ s_u32_le (N.of_nat (List.length l))) ++ bs ++ tail)%list)
        by (rewrite Hd, <- !app_assoc; reflexivity).
      assert (H4 : List.length (s_u32_le (N.of_nat (List.length l))) = 4%nat) by reflexivity.
      cbv zeta.
      assert (Hcnt : of_le (bslice d (List.length pre) (List.length pre + 4)) = N.of_nat (List.length l)).
      { rewrite Hd, bslice_at by reflexivity. rewrite <- app_assoc. rewrite firstn_exact by exact H4.
        rewrite s_u32_le_spec. apply of_le_le_bytes. change (256 ^ N.of_nat 4)%N with 4294967296%N. exact Hl. }
      rewrite Hcnt.
      assert (Hdl : List.length d = (List.length pre + 4 + List.length bs + List.length tail)%nat).
      { rewrite Hd. rewrite !app_length. rewrite H4. lia. }
      destruct (Z.ltb_spec (Z.of_nat (List.length d) - Z.of_nat (List.length pre + 4)) (Z.of_N (N.of_nat (List.length l)))) as [Hbad|_]; [lia|].
      rewrite Nat2N.id.
      replace (List.length pre + 4)%nat with (List.length (pre ++ s_u32_le (N.of_nat (List.length l)))%list)
        by (rewrite app_length, H4; reflexivity).
      rewrite (loop_ok m' Hsub G' d el en named tail HG Hsup l bs _ [] Ee Hcap Hd').
      cbn [bind app]. rewrite !app_length, H4. f_equal. f_equal. lia.
  Qed.

  Lemma Qobj_all : forall m, Qobj m.
  Proof.
    induction m as [m Hsub] using lt_wf_ind.
    intros c fs boxed b G tail ctor Hobj Hcap Hok Hres HG.
    unfold s_obj_with in Hobj.
    destruct (s_fields_with (s_enc tbl m) (c_args c) fs []) as [b0|] eqn:Ef; [|discriminate]. apply some_inj in Hobj; subst b.
    destruct (ctor_okb_spec c Hok) as (_ & _ & Hlen & Hne).
    destruct G as [|g]; [lia|].
    rewrite <- app_assoc, app_length.
    apply (deser_obj tbl g c fs boxed b0 tail ctor (fun _ => Hlen) Hres).
    pose proof (fields_deser tbl (deser tbl g) ((if boxed then rev (c_id c) else []) ++ b0 ++ tail)%list boxed c
                  (s_enc tbl m) (c_args c) fs [] b0 (if boxed then rev (c_id c) else []) tail) as Hf.
    cbn [app] in Hf. apply Hf; auto.
    intros a x b1 seen pre tail' Hin He Hbn Hc Hp Hdd.
    apply (step_gen m Hsub g _ boxed c a x b1 seen pre tail'); auto. lia.
  Qed.

  Theorem roundtrip : forall m name fs bytes fuel,
    s_encode tbl m name fs = Some bytes ->
    no_auto_capture tbl (TVObj name fs) = true ->
    (m <= fuel)%nat ->
    serialize tbl fuel name fs = Ok bytes /\
    deserialize tbl fuel bytes = Ok (TVObj name fs, List.length bytes).
  Proof.
    intros m name fs bytes fuel H Hcap Hfuel. split.
    - unfold serialize. apply (ser_ok m); assumption.
    - unfold s_encode in H. destruct m as [|m']; [discriminate|]. cbn [s_enc] in H.
      rewrite String.eqb_refl in H.
      destruct (by_name tbl name) as [c|] eqn:En; [|discriminate].
      destruct (Htbl name c En) as [Hok Hid]. destruct (by_name_some tbl name c En) as [_ Hcn].
      rewrite nocap_obj in Hcap.
      pose proof (Qobj_all m' c fs true bytes fuel [] None H Hcap Hok Hid) as Hq.
      cbv iota in Hq. rewrite app_nil_r, Hcn in Hq. apply Hq. lia.
  Qed.
End General.

(* the generated table satisfies the table hypothesis *)
Theorem roundtrip_table : forall m name fs bytes fuel,
  s_encode tl_table m name fs = Some bytes ->
  no_auto_capture tl_table (TVObj name fs) = true ->
  (m <= fuel)%nat ->
  serialize tl_table fuel name fs = Ok bytes /\
  deserialize tl_table fuel bytes = Ok (TVObj name fs, List.length bytes).
Proof. exact (roundtrip tl_table table_ok). Qed.

(* What the generated table contains that s_enc does not support: no vector field (all 114 are of a base type, of a
   bare constructor or of a boxed class), only the 25 constructors with a field whose type the library cannot
   classify either (TUnsupported: tonlib_api's  vector<T>  syntax,  {t:Type},  # [ t ]). *)
Fixpoint ty_unsupported (t : tltype) : bool :=
  match t with
  | TUnsupported => true
  | TVector e en nm => negb (s_vector_supported e en nm) || ty_unsupported e
  | _ => false
  end.
Definition tl_unsupported_ctors : list string :=
  ["vector"; "vector"; "vector"; "exportedKey"; "bip39Hints"; "raw.transaction"; "raw.transactions"; "rwallet.config";
   "accountRevisionList"; "accountList"; "msg.dataEncryptedArray"; "msg.dataDecryptedArray"; "dns.resolved"; "actionMsg";
   "actionDns"; "query.fees"; "tvm.tuple"; "tvm.list"; "smc.runResult"; "logTags"; "blocks.shards"; "blocks.transactions";
   "blocks.transactionsExt"; "blocks.header"; "smc.runGetMethod"]%string.

Lemma table_unsupported :
  List.length (flat_map (fun c => filter (fun a => match a_ty a with TVector _ _ _ => true | _ => false end) (c_args c)) tl_table) = 114%nat /\
  List.length (flat_map (fun c => filter (fun a => match a_ty a with TVector el en nm => negb (s_vector_supported el en nm) | _ => false end) (c_args c)) tl_table) = 0%nat /\
  list_string_eqb (map c_name (filter (fun c => existsb (fun a => ty_unsupported (a_ty a)) (c_args c)) tl_table))
                  tl_unsupported_ctors = true.
Proof. vm_compute. repeat split; reflexivity. Qed.

(* 2'. the framing on the model itself: any constructor with a single bytes field, any table *)
Theorem frame_model : forall tbl c fld sc l fuel,
  c_args c = [mkArg fld None sc TBytes] ->
  List.length (c_id c) = 4%nat ->
  by_name tbl (c_name c) = Some c ->
  by_id tbl (c_id c) = Some c ->
  bytes_okb l = true ->
  (N.of_nat (List.length l) < 16777216)%N ->
  by_id tbl (rev (firstn 4 l)) = None ->
  (2 <= fuel)%nat ->
  serialize tbl fuel (c_name c) [(fld, TVBytes l)] = Ok (rev (c_id c) ++ frame_bytes l)%list /\
  deserialize tbl fuel (rev (c_id c) ++ frame_bytes l)%list
    = Ok (TVObj (c_name c) [(fld, TVBytes l)], (4 + List.length (frame_bytes l))%nat).
Proof.
  intros tbl c fld sc l fuel Hargs Hlen Hname Hid Hok Hl Hcap Hfuel.
  assert (Hff : flat_fields tbl (c_args c) [(fld, TVBytes l)] [s_frame l]).
  { rewrite Hargs. apply (ff_cons tbl (mkArg fld None sc TBytes) [] (TVBytes l) [] (s_frame l) []).
    - cbn [s_enc a_ty]. rewrite Hok. apply N.ltb_lt in Hl. rewrite Hl. reflexivity.
    - cbn [no_auto_capture]. rewrite Hcap. reflexivity.
    - constructor. }
  assert (Hflat : flat_ctor c = true) by (unfold flat_ctor; rewrite Hargs; reflexivity).
  assert (Hnd : NoDup (map a_field (c_args c))) by (rewrite Hargs; cbn; constructor; [intros []|constructor]).
  destruct (roundtrip_flat tbl c _ _ fuel Hflat Hnd Hlen Hname Hid Hff Hfuel) as (H1 & H2 & _).
  cbn [List.concat] in H1, H2. rewrite app_nil_r, <- frame_bytes_spec in H1, H2.
  split; [exact H1|]. rewrite H2. rewrite app_length, rev_length, Hlen. reflexivity.
Qed.
