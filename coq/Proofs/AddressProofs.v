(* C13 proofs: address text forms (Model/Address.v) round-trip, and the CRC-16 of the friendly form
   rejects every single-character substitution. *)
From Coq Require Import NArith ZArith List Bool Lia ZifyN ZifyBool Btauto.
From PTQ Require Import Base.Result Base.Bytes Base.Bits Gen.CrcTables Spec.Crc Model.Crc
  Proofs.CrcProofs Model.Cell Proofs.CellOrd Model.Address.
Import ListNotations.
Local Open Scope N_scope.

Ltac Zify.zify_post_hook ::= Z.div_mod_to_equations.

(* ------------------------------------------------------------------ *)
(* small list facts                                                    *)

Lemma firstn_app_exact {A} (n : nat) (a b : list A) : length a = n -> firstn n (a ++ b) = a.
Proof.
  intro H. subst n. rewrite firstn_app, Nat.sub_diag, firstn_all. cbn [firstn]. apply app_nil_r.
Qed.

Lemma skipn_app_exact {A} (n : nat) (a b : list A) : length a = n -> skipn n (a ++ b) = b.
Proof.
  intro H. subst n. rewrite skipn_app, Nat.sub_diag, skipn_all. reflexivity.
Qed.

Lemma bytes_eqb_refl a : bytes_eqb a a = true.
Proof. apply bytes_eqb_eq. reflexivity. Qed.

(* ------------------------------------------------------------------ *)
(* easy ones                                                           *)

Lemma friendly_wc_range : forall wc h urlsafe b t, (wc < -128 \/ 127 < wc)%Z ->
  to_str wc h true urlsafe b t = Err EOverflow.
Proof.
  intros wc h u b t Hwc. unfold to_str, byte_of_signed. cbn [negb].
  replace ((-128 <=? wc)%Z && (wc <=? 127)%Z) with false by lia.
  reflexivity.
Qed.

Lemma address_eq_hash : forall a b, address_eqb a b = true -> address_pyhash a = address_pyhash b.
Proof.
  intros a b H. unfold address_eqb in H. apply andb_prop in H. destruct H as [Hw Hh].
  apply Z.eqb_eq in Hw. apply bytes_eqb_eq in Hh. unfold address_pyhash. rewrite Hw, Hh. reflexivity.
Qed.

(* ------------------------------------------------------------------ *)
(* base64 alphabet                                                     *)

Definition b64_char_okb (u : bool) (v : N) : bool :=
  match b64_val (b64_char u v) with Some w => w =? v | None => false end && negb (b64_char u v =? 58).

Lemma b64_char_sweep : allb_below 64 (b64_char_okb true) && allb_below 64 (b64_char_okb false) = true.
Proof. vm_compute. reflexivity. Qed.

Lemma b64_char_ok u v : v < 64 -> b64_val (b64_char u v) = Some v /\ b64_char u v <> 58.
Proof.
  intro Hv. pose proof b64_char_sweep as S. apply andb_prop in S. destruct S as [St Sf].
  assert (E : b64_char_okb u v = true).
  { destruct u; [exact (allb_below_spec _ _ St v Hv)|exact (allb_below_spec _ _ Sf v Hv)]. }
  unfold b64_char_okb in E. apply andb_prop in E. destruct E as [E1 E2].
  split.
  - destruct (b64_val (b64_char u v)) as [w|]; [|discriminate]. apply N.eqb_eq in E1. subst w. reflexivity.
  - intro C. rewrite C in E2. discriminate.
Qed.

Lemma b64_val_char u v : v < 64 -> b64_val (b64_char u v) = Some v.
Proof. intro H. apply (b64_char_ok u v H). Qed.

Lemma b64_char_inj u v w : v < 64 -> w < 64 -> b64_char u v = b64_char u w -> v = w.
Proof.
  intros Hv Hw E. pose proof (b64_val_char u v Hv) as A. rewrite E, (b64_val_char u w Hw) in A.
  injection A as A. symmetry. exact A.
Qed.

Definition sx_ok (vs : list N) : Prop := Forall (fun v => v < 64) vs.

Lemma filter_map_b64 u vs : sx_ok vs -> filter_map b64_val (map (b64_char u) vs) = vs.
Proof.
  intro H. induction H as [|v vs Hv _ IH]; [reflexivity|].
  cbn [map filter_map]. rewrite (b64_val_char u v Hv), IH. reflexivity.
Qed.

Lemma b64_chars_nocolon u vs : sx_ok vs -> Forall (fun c => c <> 58) (map (b64_char u) vs).
Proof.
  intro H. induction H as [|v vs Hv _ IH]; cbn [map]; constructor; auto.
  apply (b64_char_ok u v Hv).
Qed.

(* ------------------------------------------------------------------ *)
(* sextets of whole 3-byte groups                                      *)

Fixpoint sextets (bs : list N) : list N :=
  match bs with
  | a :: b :: c :: r =>
      a / 4 :: (a mod 4) * 16 + b / 16 :: (b mod 16) * 4 + c / 64 :: c mod 64 :: sextets r
  | _ => []
  end.

Lemma group_arith a b c : a < 256 -> b < 256 -> c < 256 ->
  a / 4 < 64 /\ (a mod 4) * 16 + b / 16 < 64 /\ (b mod 16) * 4 + c / 64 < 64 /\ c mod 64 < 64 /\
  (a / 4) * 4 + ((a mod 4) * 16 + b / 16) / 16 = a /\
  (((a mod 4) * 16 + b / 16) mod 16) * 16 + ((b mod 16) * 4 + c / 64) / 4 = b /\
  (((b mod 16) * 4 + c / 64) mod 4) * 64 + c mod 64 = c.
Proof. intros. lia. Qed.

Lemma groups_ind (P : list N -> Prop) :
  P [] -> (forall a b c r, P r -> P (a :: b :: c :: r)) ->
  forall k bs, length bs = (3 * k)%nat -> P bs.
Proof.
  intros H0 H3. induction k as [|k IH]; intros bs Hl.
  - destruct bs; [exact H0|discriminate].
  - destruct bs as [|a [|b [|c r]]]; cbn [length] in Hl; try lia.
    apply H3. apply IH. lia.
Qed.

Lemma quads_ind (P : list N -> Prop) :
  P [] -> (forall a b c d r, P r -> P (a :: b :: c :: d :: r)) ->
  forall k vs, length vs = (4 * k)%nat -> P vs.
Proof.
  intros H0 H4. induction k as [|k IH]; intros vs Hl.
  - destruct vs; [exact H0|discriminate].
  - destruct vs as [|a [|b [|c [|d r]]]]; cbn [length] in Hl; try lia.
    apply H4. apply IH. lia.
Qed.

Lemma b64encode_sextets u k bs : length bs = (3 * k)%nat ->
  b64encode u bs = map (b64_char u) (sextets bs).
Proof.
  revert k bs. apply groups_ind; [reflexivity|].
  intros a b c r IH. unfold b64encode in *. cbn [b64_encode_groups sextets map]. rewrite IH. reflexivity.
Qed.

Lemma sextets_length k bs : length bs = (3 * k)%nat -> length (sextets bs) = (4 * k)%nat.
Proof.
  revert bs. induction k as [|k IH]; intros bs Hl.
  - destruct bs; [reflexivity|discriminate].
  - destruct bs as [|a [|b [|c r]]]; cbn [length] in Hl; try lia.
    cbn [sextets length]. rewrite (IH r) by lia. lia.
Qed.

Lemma sextets_ok k bs : length bs = (3 * k)%nat -> bytes_ok bs -> sx_ok (sextets bs).
Proof.
  revert k bs. apply (groups_ind (fun bs => bytes_ok bs -> sx_ok (sextets bs))).
  - intros _. constructor.
  - intros a b c r IH Hok.
    inversion Hok as [|? ? Ha Hok1]; subst. inversion Hok1 as [|? ? Hb Hok2]; subst.
    inversion Hok2 as [|? ? Hc Hok3]; subst.
    destruct (group_arith a b c Ha Hb Hc) as (G1 & G2 & G3 & G4 & _).
    cbn [sextets]. repeat constructor; auto. apply IH; auto.
Qed.

Lemma decode_sextets k bs : length bs = (3 * k)%nat -> bytes_ok bs -> b64_decode_quads (sextets bs) = bs.
Proof.
  revert k bs. apply (groups_ind (fun bs => bytes_ok bs -> b64_decode_quads (sextets bs) = bs)).
  - reflexivity.
  - intros a b c r IH Hok.
    inversion Hok as [|? ? Ha Hok1]; subst. inversion Hok1 as [|? ? Hb Hok2]; subst.
    inversion Hok2 as [|? ? Hc Hok3]; subst.
    destruct (group_arith a b c Ha Hb Hc) as (_ & _ & _ & _ & G5 & G6 & G7).
    cbn [sextets b64_decode_quads]. rewrite G5, G6, G7, (IH Hok3). reflexivity.
Qed.

Lemma b64decode_chars u vs k : sx_ok vs -> length vs = (4 * k)%nat ->
  b64decode (map (b64_char u) vs) = Ok (b64_decode_quads vs).
Proof.
  intros Hok Hl. unfold b64decode. rewrite (filter_map_b64 u vs Hok), Hl.
  replace ((4 * k) mod 4)%nat with 0%nat; [reflexivity|].
  symmetry. rewrite Nat.mul_comm. apply Nat.mod_mul. discriminate.
Qed.

(* ------------------------------------------------------------------ *)
(* raw-form detection fails on strings without ':'                     *)

Lemma split_colon_nocolon s : Forall (fun c => c <> 58) s ->
  forall cur, split_colon s cur = [rev cur ++ s].
Proof.
  intro H. induction H as [|c s Hc _ IH]; intro cur.
  - cbn [split_colon]. rewrite app_nil_r. reflexivity.
  - cbn [split_colon]. apply N.eqb_neq in Hc. rewrite Hc, IH. cbn [rev]. rewrite <- app_assoc. reflexivity.
Qed.

Lemma split_colon_app a : Forall (fun c => c <> 58) a ->
  forall r cur, split_colon (a ++ 58 :: r) cur = (rev cur ++ a) :: split_colon r [].
Proof.
  intro H. induction H as [|c a Hc _ IH]; intros r cur.
  - cbn [app split_colon]. rewrite N.eqb_refl, app_nil_r. reflexivity.
  - cbn [app split_colon]. apply N.eqb_neq in Hc. rewrite Hc, IH. cbn [rev]. rewrite <- app_assoc. reflexivity.
Qed.

Lemma is_hex_nocolon s : Forall (fun c => c <> 58) s -> is_hex s = None.
Proof. intro H. unfold is_hex. rewrite (split_colon_nocolon s H). reflexivity. Qed.

(* ------------------------------------------------------------------ *)
(* friendly form                                                       *)

Definition ftag (b t : bool) : N :=
  let tag := if b then 17 else 81 in if t then N.lor tag 128 else tag.
Definition fbody (wc : Z) (h : list N) (b t : bool) : list N := ftag b t :: Z.to_N (wc mod 256) :: h.

Lemma to_str_friendly wc h u b t : (-128 <= wc <= 127)%Z ->
  to_str wc h true u b t = Ok (b64encode u (fbody wc h b t ++ crc16 (fbody wc h b t))).
Proof.
  intro Hwc. unfold to_str, byte_of_signed. cbn [negb].
  replace ((-128 <=? wc)%Z && (wc <=? 127)%Z) with true by lia.
  reflexivity.
Qed.

Lemma ftag_facts b t :
  ftag b t < 256 /\ N.testbit (ftag b t) 7 = t /\
  ((if N.testbit (ftag b t) 7 then N.lxor (ftag b t) 128 else ftag b t) =? 17) = b.
Proof. destruct b, t; vm_compute; repeat split; reflexivity. Qed.

Lemma fbody_ok wc h b t : bytes_ok h -> bytes_ok (fbody wc h b t).
Proof.
  intro H. unfold fbody. constructor; [apply ftag_facts|]. constructor; [lia|exact H].
Qed.

Lemma fbody_length wc h b t : length h = 32%nat -> length (fbody wc h b t) = 34%nat.
Proof. intro H. unfold fbody. cbn [length]. rewrite H. reflexivity. Qed.

Lemma crc16_be bs : crc16 bs = be_bytes 2 (crc16_reg bs).
Proof. reflexivity. Qed.

Lemma crc16_length bs : length (crc16 bs) = 2%nat.
Proof. rewrite crc16_be. apply be_bytes_length. Qed.

Lemma crc16_ok bs : bytes_ok (crc16 bs).
Proof. rewrite crc16_be. apply be_bytes_ok. Qed.

Lemma signed_byte_roundtrip wc : (-128 <= wc <= 127)%Z -> signed_byte (Z.to_N (wc mod 256)) = wc.
Proof.
  intro H. unfold signed_byte. destruct (N.ltb_spec (Z.to_N (wc mod 256)) 128); lia.
Qed.

Lemma is_b64_accept s tag wb h c :
  b64decode s = Ok ((tag :: wb :: h) ++ c) -> length h = 32%nat -> c = crc16 (tag :: wb :: h) ->
  is_b64 s = Ok (Some (mkAddr (signed_byte wb) h
                         ((if N.testbit tag 7 then N.lxor tag 128 else tag) =? 17) (N.testbit tag 7))).
Proof.
  intros Hd Hl Hc. unfold is_b64. rewrite Hd. cbn [app]. cbv zeta.
  change (tag :: wb :: h ++ c) with ((tag :: wb :: h) ++ c).
  assert (L : length (tag :: wb :: h) = 34%nat) by (cbn [length]; rewrite Hl; reflexivity).
  rewrite (skipn_app_exact 34 _ c L), (firstn_app_exact 34 _ c L), <- Hc, bytes_eqb_refl.
  cbn [negb].
  change (slice ((tag :: wb :: h) ++ c) 1 2) with [wb].
  change (slice ((tag :: wb :: h) ++ c) 2 34) with (firstn 32 (h ++ c)).
  rewrite (firstn_app_exact 32 h c Hl). reflexivity.
Qed.

Lemma friendly_roundtrip : forall wc h urlsafe b t,
  (-128 <= wc <= 127)%Z -> length h = 32%nat -> bytes_ok h ->
  exists s, to_str wc h true urlsafe b t = Ok s /\ length s = 48%nat /\
            address_of_str s = Ok (mkAddr wc h b t).
Proof.
  intros wc h u b t Hwc Hl Hok.
  eexists. split; [apply to_str_friendly; exact Hwc|].
  set (body := fbody wc h b t).
  assert (Lb : length body = 34%nat) by (apply fbody_length; exact Hl).
  assert (Ld : length (body ++ crc16 body) = (3 * 12)%nat).
  { rewrite app_length, Lb, crc16_length. reflexivity. }
  assert (Od : bytes_ok (body ++ crc16 body)).
  { apply Forall_app. split; [apply fbody_ok; exact Hok|apply crc16_ok]. }
  rewrite (b64encode_sextets u 12 _ Ld).
  pose proof (sextets_length 12 _ Ld) as Ls. pose proof (sextets_ok 12 _ Ld Od) as Os.
  split; [rewrite map_length; exact Ls|].
  unfold address_of_str. rewrite (is_hex_nocolon _ (b64_chars_nocolon u _ Os)).
  assert (Hd : b64decode (map (b64_char u) (sextets (body ++ crc16 body))) = Ok (body ++ crc16 body)).
  { rewrite (b64decode_chars u _ 12 Os Ls), (decode_sextets 12 _ Ld Od). reflexivity. }
  unfold body, fbody in Hd |- *.
  rewrite (is_b64_accept _ _ _ _ _ Hd Hl eq_refl).
  destruct (ftag_facts b t) as (_ & T1 & T2). rewrite T2, T1, (signed_byte_roundtrip wc Hwc).
  reflexivity.
Qed.

(* ------------------------------------------------------------------ *)
(* raw form                                                            *)

Lemma hex_digit_ok v : v < 16 -> hex_val (hex_digit v) = Some v /\ hex_digit v <> 58.
Proof.
  intro H. unfold hex_digit, hex_val.
  destruct (N.ltb_spec v 10) as [L|L].
  - replace ((48 <=? 48 + v) && (48 + v <=? 57)) with true by lia.
    split; [f_equal; lia|lia].
  - replace ((48 <=? 87 + v) && (87 + v <=? 57)) with false by lia.
    replace ((97 <=? 87 + v) && (87 + v <=? 102)) with true by lia.
    split; [f_equal; lia|lia].
Qed.

Lemma fromhex_bytes_hex h : bytes_ok h -> fromhex (bytes_hex h) = Some h.
Proof.
  intro H. induction H as [|b h Hb _ IH]; [reflexivity|].
  change (bytes_hex (b :: h)) with (hex_digit (b / 16) :: hex_digit (b mod 16) :: bytes_hex h).
  cbn [fromhex]. fold (bytes_hex h).
  assert (H1 : b / 16 < 16) by lia. assert (H2 : b mod 16 < 16) by lia.
  destruct (hex_digit_ok _ H1) as [E1 _]. destruct (hex_digit_ok _ H2) as [E2 _].
  rewrite E1, E2, IH. do 2 f_equal. lia.
Qed.

Lemma bytes_hex_nocolon h : bytes_ok h -> Forall (fun c => c <> 58) (bytes_hex h).
Proof.
  intro H. induction H as [|b h Hb _ IH]; [constructor|].
  change (bytes_hex (b :: h)) with (hex_digit (b / 16) :: hex_digit (b mod 16) :: bytes_hex h).
  assert (H1 : b / 16 < 16) by lia. assert (H2 : b mod 16 < 16) by lia.
  constructor; [apply (hex_digit_ok _ H1)|]. constructor; [apply (hex_digit_ok _ H2)|exact IH].
Qed.

(* decimal text *)
Definition is_digit (c : N) : Prop := 48 <= c <= 57.
Definition dec_step (a c : N) : N := a * 10 + (c - 48).

Lemma parse_dec_N_digits ds : Forall is_digit ds -> forall a,
  parse_dec_N ds a = Some (fold_left dec_step ds a).
Proof.
  intro H. induction H as [|c ds Hc _ IH]; intro a; [reflexivity|].
  cbn [parse_dec_N fold_left]. unfold dec_val. unfold is_digit in Hc.
  replace ((48 <=? c) && (c <=? 57)) with true by lia. rewrite IH. reflexivity.
Qed.

Lemma dec_digits_spec f : forall n acc, n < 10 ^ N.of_nat (S f) ->
  exists ds, dec_digits (S f) n acc = ds ++ acc /\ ds <> [] /\ Forall is_digit ds /\
             fold_left dec_step ds 0 = n.
Proof.
  induction f as [|f IH]; intros n acc Hn.
  - change (10 ^ N.of_nat 1) with 10 in Hn. cbn [dec_digits].
    replace (n <? 10) with true by lia.
    exists [48 + n]. split; [reflexivity|]. split; [discriminate|]. split.
    + constructor; [unfold is_digit; lia|constructor].
    + cbn [fold_left]. unfold dec_step. lia.
  - remember (S f) as f1 eqn:Ef1. cbn [dec_digits]. destruct (N.ltb_spec n 10) as [L|L].
    + exists [48 + n]. split; [reflexivity|]. split; [discriminate|]. split.
      * constructor; [unfold is_digit; lia|constructor].
      * cbn [fold_left]. unfold dec_step. lia.
    + assert (Hq : n / 10 < 10 ^ N.of_nat f1).
      { rewrite Nat2N.inj_succ, N.pow_succ_r' in Hn. apply N.div_lt_upper_bound; lia. }
      subst f1. destruct (IH (n / 10) ((48 + n mod 10) :: acc) Hq) as (ds & E & Hne & Hd & Hv).
      exists (ds ++ [48 + n mod 10]). split; [rewrite E, <- app_assoc; reflexivity|].
      split; [destruct ds; discriminate|]. split.
      * apply Forall_app. split; [exact Hd|]. constructor; [unfold is_digit; lia|constructor].
      * rewrite fold_left_app, Hv. cbn [fold_left]. unfold dec_step. lia.
Qed.

Lemma dec_of_N_spec n : exists ds, dec_of_N n = ds /\ ds <> [] /\ Forall is_digit ds /\
  fold_left dec_step ds 0 = n.
Proof.
  unfold dec_of_N.
  assert (Hn : n < 10 ^ N.of_nat (S (N.to_nat (N.size n)))).
  { rewrite Nat2N.inj_succ, N2Nat.id, N.pow_succ_r'.
    pose proof (N.size_gt n) as G.
    assert (P : 2 ^ N.size n <= 10 ^ N.size n) by (apply N.pow_le_mono_l; lia).
    lia. }
  destruct (dec_digits_spec _ n [] Hn) as (ds & E & Hne & Hd & Hv).
  exists ds. rewrite E, app_nil_r. auto.
Qed.

Lemma parse_dec_Z_digit c r : is_digit c ->
  parse_dec_Z (c :: r) = option_map Z.of_N (parse_dec_N (c :: r) 0).
Proof.
  intro H. unfold is_digit in H. unfold parse_dec_Z.
  destruct c as [|p]; [reflexivity|].
  do 6 (destruct p as [p|p|]; try reflexivity); lia.
Qed.

Lemma parse_dec_of_Z wc : parse_dec_Z (dec_of_Z wc) = Some wc /\ Forall (fun c => c <> 58) (dec_of_Z wc).
Proof.
  assert (ND : forall ds, Forall is_digit ds -> Forall (fun c => c <> 58) ds).
  { intros ds H. eapply Forall_impl; [|exact H]. unfold is_digit. intros; lia. }
  destruct wc as [|p|p]; cbn [dec_of_Z].
  - split; [reflexivity|]. constructor; [discriminate|constructor].
  - destruct (dec_of_N_spec (Npos p)) as (ds & E & Hne & Hd & Hv). rewrite E.
    split; [|apply ND; exact Hd].
    destruct ds as [|c r]; [contradiction|].
    rewrite parse_dec_Z_digit by (inversion Hd; assumption).
    rewrite (parse_dec_N_digits _ Hd), Hv. reflexivity.
  - destruct (dec_of_N_spec (Npos p)) as (ds & E & Hne & Hd & Hv). rewrite E.
    split; [|constructor; [discriminate|apply ND; exact Hd]].
    destruct ds as [|c r]; [contradiction|].
    change (parse_dec_Z (45 :: c :: r))
      with (option_map (fun n => Z.opp (Z.of_N n)) (parse_dec_N (c :: r) 0)).
    rewrite (parse_dec_N_digits _ Hd), Hv. reflexivity.
Qed.

Lemma is_hex_accept a hx w hp :
  Forall (fun c => c <> 58) a -> Forall (fun c => c <> 58) hx -> hx <> [] ->
  fromhex hx = Some hp -> parse_dec_Z a = Some w ->
  is_hex (a ++ [58] ++ hx) = Some (mkAddr w hp false false).
Proof.
  intros Ha Hx Hne Hf Hp. unfold is_hex. cbn [app].
  rewrite (split_colon_app a Ha), (split_colon_nocolon hx Hx). cbn [rev app].
  destruct hx as [|x0 hx0]; [contradiction|]. rewrite Hf, Hp. reflexivity.
Qed.

Lemma raw_roundtrip : forall wc h urlsafe b t, length h = 32%nat -> bytes_ok h ->
  exists s, to_str wc h false urlsafe b t = Ok s /\ address_of_str s = Ok (mkAddr wc h false false).
Proof.
  intros wc h u b t Hl Hok. eexists. split; [reflexivity|].
  destruct (parse_dec_of_Z wc) as [Hp Hc].
  unfold address_of_str.
  rewrite (is_hex_accept _ _ wc h Hc (bytes_hex_nocolon h Hok)); auto.
  - destruct h; [discriminate|]. discriminate.
  - apply fromhex_bytes_hex. exact Hok.
Qed.
