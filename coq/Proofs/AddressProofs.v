(* C13 proofs: address text forms (Model/Address.v) round-trip, and the CRC-16 of the friendly form
   rejects every single-character substitution. *)
From Coq Require Import NArith ZArith List Bool Lia ZifyN ZifyBool Btauto.
From PTQ Require Import Base.Result Base.Bytes Base.Bits Gen.CrcTables Spec.Crc Model.Crc
  Proofs.CrcProofs Model.Cell Proofs.CellOrd Model.Address.
Import ListNotations.
Local Open Scope N_scope.

Ltac Zify.zify_post_hook ::= Z.div_mod_to_equations.

(* ------------------------------------------------------------------ *)
(* small list facts                                                    *)

Lemma firstn_app_exact {A} (n : nat) (a b : list A) : length a = n -> firstn n (a ++ b) = a.
Proof.
  intro H. subst n. rewrite firstn_app, Nat.sub_diag, firstn_all. cbn [firstn]. apply app_nil_r.
Qed.

Lemma skipn_app_exact {A} (n : nat) (a b : list A) : length a = n -> skipn n (a ++ b) = b.
Proof.
  intro H. subst n. rewrite skipn_app, Nat.sub_diag, skipn_all. reflexivity.
Qed.

Lemma bytes_eqb_refl a : bytes_eqb a a = true.
Proof. apply bytes_eqb_eq. reflexivity. Qed.

(* ------------------------------------------------------------------ *)
(* easy ones                                                           *)

Lemma friendly_wc_range : forall wc h urlsafe b t, (wc < -128 \/ 127 < wc)%Z ->
  to_str wc h true urlsafe b t = Err EOverflow.
Proof.
  intros wc h u b t Hwc. unfold to_str, byte_of_signed. cbn [negb].
  replace ((-128 <=? wc)%Z && (wc <=? 127)%Z) with false by lia.
  reflexivity.
Qed.

Lemma address_eq_hash : forall a b, address_eqb a b = true -> address_pyhash a = address_pyhash b.
Proof.
  intros a b H. unfold address_eqb in H. apply andb_prop in H. destruct H as [Hw Hh].
  apply Z.eqb_eq in Hw. apply bytes_eqb_eq in Hh. unfold address_pyhash. rewrite Hw, Hh. reflexivity.
Qed.

(* ------------------------------------------------------------------ *)
(* base64 alphabet                                                     *)

Definition b64_char_okb (u : bool) (v : N) : bool :=
  match b64_val (b64_char u v) with Some w => w =? v | None => false end && negb (b64_char u v =? 58).

Lemma b64_char_sweep : allb_below 64 (b64_char_okb true) && allb_below 64 (b64_char_okb false) = true.
Proof. vm_compute. reflexivity. Qed.

Lemma b64_char_ok u v : v < 64 -> b64_val (b64_char u v) = Some v /\ b64_char u v <> 58.
Proof.
  intro Hv. pose proof b64_char_sweep as S. apply andb_prop in S. destruct S as [St Sf].
  assert (E : b64_char_okb u v = true).
  { destruct u; [exact (allb_below_spec _ _ St v Hv)|exact (allb_below_spec _ _ Sf v Hv)]. }
  unfold b64_char_okb in E. apply andb_prop in E. destruct E as [E1 E2].
  split.
  - destruct (b64_val (b64_char u v)) as [w|]; [|discriminate]. apply N.eqb_eq in E1. subst w. reflexivity.
  - intro C. rewrite C in E2. discriminate.
Qed.

Lemma b64_val_char u v : v < 64 -> b64_val (b64_char u v) = Some v.
Proof. intro H. apply (b64_char_ok u v H). Qed.

Lemma b64_char_inj u v w : v < 64 -> w < 64 -> b64_char u v = b64_char u w -> v = w.
Proof.
  intros Hv Hw E. pose proof (b64_val_char u v Hv) as A. rewrite E, (b64_val_char u w Hw) in A.
  injection A as A. symmetry. exact A.
Qed.

Definition sx_ok (vs : list N) : Prop := Forall (fun v => v < 64) vs.

Lemma filter_map_b64 u vs : sx_ok vs -> filter_map b64_val (map (b64_char u) vs) = vs.
Proof.
  intro H. induction H as [|v vs Hv _ IH]; [reflexivity|].
  cbn [map filter_map]. rewrite (b64_val_char u v Hv), IH. reflexivity.
Qed.

Lemma b64_chars_nocolon u vs : sx_ok vs -> Forall (fun c => c <> 58) (map (b64_char u) vs).
Proof.
  intro H. induction H as [|v vs Hv _ IH]; cbn [map]; constructor; auto.
  apply (b64_char_ok u v Hv).
Qed.

(* ------------------------------------------------------------------ *)
(* sextets of whole 3-byte groups                                      *)

Fixpoint sextets (bs : list N) : list N :=
  match bs with
  | a :: b :: c :: r =>
      a / 4 :: (a mod 4) * 16 + b / 16 :: (b mod 16) * 4 + c / 64 :: c mod 64 :: sextets r
  | _ => []
  end.

Lemma group_arith a b c : a < 256 -> b < 256 -> c < 256 ->
  a / 4 < 64 /\ (a mod 4) * 16 + b / 16 < 64 /\ (b mod 16) * 4 + c / 64 < 64 /\ c mod 64 < 64 /\
  (a / 4) * 4 + ((a mod 4) * 16 + b / 16) / 16 = a /\
  (((a mod 4) * 16 + b / 16) mod 16) * 16 + ((b mod 16) * 4 + c / 64) / 4 = b /\
  (((b mod 16) * 4 + c / 64) mod 4) * 64 + c mod 64 = c.
Proof. intros. lia. Qed.

Lemma groups_ind (P : list N -> Prop) :
  P [] -> (forall a b c r, P r -> P (a :: b :: c :: r)) ->
  forall k bs, length bs = (3 * k)%nat -> P bs.
Proof.
  intros H0 H3. induction k as [|k IH]; intros bs Hl.
  - destruct bs; [exact H0|discriminate].
  - destruct bs as [|a [|b [|c r]]]; cbn [length] in Hl; try lia.
    apply H3. apply IH. lia.
Qed.

Lemma quads_ind (P : list N -> Prop) :
  P [] -> (forall a b c d r, P r -> P (a :: b :: c :: d :: r)) ->
  forall k vs, length vs = (4 * k)%nat -> P vs.
Proof.
  intros H0 H4. induction k as [|k IH]; intros vs Hl.
  - destruct vs; [exact H0|discriminate].
  - destruct vs as [|a [|b [|c [|d r]]]]; cbn [length] in Hl; try lia.
    apply H4. apply IH. lia.
Qed.

Lemma b64encode_sextets u k bs : length bs = (3 * k)%nat ->
  b64encode u bs = map (b64_char u) (sextets bs).
Proof.
  revert k bs. apply groups_ind; [reflexivity|].
  intros a b c r IH. unfold b64encode in *. cbn [b64_encode_groups sextets map]. rewrite IH. reflexivity.
Qed.

Lemma sextets_length k bs : length bs = (3 * k)%nat -> length (sextets bs) = (4 * k)%nat.
Proof.
  revert bs. induction k as [|k IH]; intros bs Hl.
  - destruct bs; [reflexivity|discriminate].
  - destruct bs as [|a [|b [|c r]]]; cbn [length] in Hl; try lia.
    cbn [sextets length]. rewrite (IH r) by lia. lia.
Qed.

Lemma sextets_ok k bs : length bs = (3 * k)%nat -> bytes_ok bs -> sx_ok (sextets bs).
Proof.
  revert k bs. apply (groups_ind (fun bs => bytes_ok bs -> sx_ok (sextets bs))).
  - intros _. constructor.
  - intros a b c r IH Hok.
    inversion Hok as [|? ? Ha Hok1]; subst. inversion Hok1 as [|? ? Hb Hok2]; subst.
    inversion Hok2 as [|? ? Hc Hok3]; subst.
    destruct (group_arith a b c Ha Hb Hc) as (G1 & G2 & G3 & G4 & _).
    cbn [sextets]. repeat constructor; auto. apply IH; auto.
Qed.

Lemma decode_sextets k bs : length bs = (3 * k)%nat -> bytes_ok bs -> b64_decode_quads (sextets bs) = bs.
Proof.
  revert k bs. apply (groups_ind (fun bs => bytes_ok bs -> b64_decode_quads (sextets bs) = bs)).
  - reflexivity.
  - intros a b c r IH Hok.
    inversion Hok as [|? ? Ha Hok1]; subst. inversion Hok1 as [|? ? Hb Hok2]; subst.
    inversion Hok2 as [|? ? Hc Hok3]; subst.
    destruct (group_arith a b c Ha Hb Hc) as (_ & _ & _ & _ & G5 & G6 & G7).
    cbn [sextets b64_decode_quads]. rewrite G5, G6, G7, (IH Hok3). reflexivity.
Qed.

Lemma b64decode_chars u vs k : sx_ok vs -> length vs = (4 * k)%nat ->
  b64decode (map (b64_char u) vs) = Ok (b64_decode_quads vs).
Proof.
  intros Hok Hl. unfold b64decode. rewrite (filter_map_b64 u vs Hok), Hl.
  replace ((4 * k) mod 4)%nat with 0%nat; [reflexivity|].
  symmetry. rewrite Nat.mul_comm. apply Nat.mod_mul. discriminate.
Qed.

(* ------------------------------------------------------------------ *)
(* raw-form detection fails on strings without ':'                     *)

Lemma split_colon_nocolon s : Forall (fun c => c <> 58) s ->
  forall cur, split_colon s cur = [rev cur ++ s].
Proof.
  intro H. induction H as [|c s Hc _ IH]; intro cur.
  - cbn [split_colon]. rewrite app_nil_r. reflexivity.
  - cbn [split_colon]. apply N.eqb_neq in Hc. rewrite Hc, IH. cbn [rev]. rewrite <- app_assoc. reflexivity.
Qed.

Lemma split_colon_app a : Forall (fun c => c <> 58) a ->
  forall r cur, split_colon (a ++ 58 :: r) cur = (rev cur ++ a) :: split_colon r [].
Proof.
  intro H. induction H as [|c a Hc _ IH]; intros r cur.
  - cbn [app split_colon]. rewrite N.eqb_refl, app_nil_r. reflexivity.
  - cbn [app split_colon]. apply N.eqb_neq in Hc. rewrite Hc, IH. cbn [rev]. rewrite <- app_assoc. reflexivity.
Qed.

Lemma is_hex_nocolon s : Forall (fun c => c <> 58) s -> is_hex s = None.
Proof. intro H. unfold is_hex. rewrite (split_colon_nocolon s H). reflexivity. Qed.

(* ------------------------------------------------------------------ *)
(* friendly form                                                       *)

Definition ftag (b t : bool) : N :=
  let tag := if b then 17 else 81 in if t then N.lor tag 128 else tag.
Definition fbody (wc : Z) (h : list N) (b t : bool) : list N := ftag b t :: Z.to_N (wc mod 256) :: h.

Lemma to_str_friendly wc h u b t : (-128 <= wc <= 127)%Z ->
  to_str wc h true u b t = Ok (b64encode u (fbody wc h b t ++ crc16 (fbody wc h b t))).
Proof.
  intro Hwc. unfold to_str, byte_of_signed. cbn [negb].
  replace ((-128 <=? wc)%Z && (wc <=? 127)%Z) with true by lia.
  reflexivity.
Qed.

Lemma ftag_facts b t :
  ftag b t < 256 /\ N.testbit (ftag b t) 7 = t /\
  ((if N.testbit (ftag b t) 7 then N.lxor (ftag b t) 128 else ftag b t) =? 17) = b.
Proof. destruct b, t; vm_compute; repeat split; reflexivity. Qed.

Lemma fbody_ok wc h b t : bytes_ok h -> bytes_ok (fbody wc h b t).
Proof.
  intro H. unfold fbody. constructor; [apply ftag_facts|]. constructor; [lia|exact H].
Qed.

Lemma fbody_length wc h b t : length h = 32%nat -> length (fbody wc h b t) = 34%nat.
Proof. intro H. unfold fbody. cbn [length]. rewrite H. reflexivity. Qed.

Lemma crc16_be bs : crc16 bs = be_bytes 2 (crc16_reg bs).
Proof. reflexivity. Qed.

Lemma crc16_length bs : length (crc16 bs) = 2%nat.
Proof. rewrite crc16_be. apply be_bytes_length. Qed.

Lemma crc16_ok bs : bytes_ok (crc16 bs).
Proof. rewrite crc16_be. apply be_bytes_ok. Qed.

Lemma signed_byte_roundtrip wc : (-128 <= wc <= 127)%Z -> signed_byte (Z.to_N (wc mod 256)) = wc.
Proof.
  intro H. unfold signed_byte. destruct (N.ltb_spec (Z.to_N (wc mod 256)) 128); lia.
Qed.

Lemma is_b64_accept s tag wb h c :
  b64decode s = Ok ((tag :: wb :: h) ++ c) -> length h = 32%nat -> c = crc16 (tag :: wb :: h) ->
  is_b64 s = Ok (Some (mkAddr (signed_byte wb) h
                         ((if N.testbit tag 7 then N.lxor tag 128 else tag) =? 17) (N.testbit tag 7))).
Proof.
  intros Hd Hl Hc. unfold is_b64. rewrite Hd. cbn [app]. cbv zeta.
  change (tag :: wb :: h ++ c) with ((tag :: wb :: h) ++ c).
  assert (L : length (tag :: wb :: h) = 34%nat) by (cbn [length]; rewrite Hl; reflexivity).
  rewrite (skipn_app_exact 34 _ c L), (firstn_app_exact 34 _ c L), <- Hc, bytes_eqb_refl.
  cbn [negb].
  change (slice ((tag :: wb :: h) ++ c) 1 2) with [wb].
  change (slice ((tag :: wb :: h) ++ c) 2 34) with (firstn 32 (h ++ c)).
  rewrite (firstn_app_exact 32 h c Hl). reflexivity.
Qed.

Lemma friendly_roundtrip : forall wc h urlsafe b t,
  (-128 <= wc <= 127)%Z -> length h = 32%nat -> bytes_ok h ->
  exists s, to_str wc h true urlsafe b t = Ok s /\ length s = 48%nat /\
            address_of_str s = Ok (mkAddr wc h b t).
Proof.
  intros wc h u b t Hwc Hl Hok.
  eexists. split; [apply to_str_friendly; exact Hwc|].
  set (body := fbody wc h b t).
  assert (Lb : length body = 34%nat) by (apply fbody_length; exact Hl).
  assert (Ld : length (body ++ crc16 body) = (3 * 12)%nat).
  { rewrite app_length, Lb, crc16_length. reflexivity. }
  assert (Od : bytes_ok (body ++ crc16 body)).
  { apply Forall_app. split; [apply fbody_ok; exact Hok|apply crc16_ok]. }
  rewrite (b64encode_sextets u 12 _ Ld).
  pose proof (sextets_length 12 _ Ld) as Ls. pose proof (sextets_ok 12 _ Ld Od) as Os.
  split; [rewrite map_length; exact Ls|].
  unfold address_of_str. rewrite (is_hex_nocolon _ (b64_chars_nocolon u _ Os)).
  assert (Hd : b64decode (map (b64_char u) (sextets (body ++ crc16 body))) = Ok (body ++ crc16 body)).
  { rewrite (b64decode_chars u _ 12 Os Ls), (decode_sextets 12 _ Ld Od). reflexivity. }
  unfold body, fbody in Hd |- *.
  rewrite (is_b64_accept _ _ _ _ _ Hd Hl eq_refl).
  destruct (ftag_facts b t) as (_ & T1 & T2). rewrite T2, T1, (signed_byte_roundtrip wc Hwc).
  reflexivity.
Qed.

(* ------------------------------------------------------------------ *)
(* raw form                                                            *)

Lemma hex_digit_ok v : v < 16 -> hex_val (hex_digit v) = Some v /\ hex_digit v <> 58.
Proof.
  intro H. unfold hex_digit, hex_val.
  destruct (N.ltb_spec v 10) as [L|L].
  - replace ((48 <=? 48 + v) && (48 + v <=? 57)) with true by lia.
    split; [f_equal; lia|lia].
  - replace ((48 <=? 87 + v) && (87 + v <=? 57)) with false by lia.
    replace ((97 <=? 87 + v) && (87 + v <=? 102)) with true by lia.
    split; [f_equal; lia|lia].
Qed.

Lemma fromhex_bytes_hex h : bytes_ok h -> fromhex (bytes_hex h) = Some h.
Proof.
  intro H. induction H as [|b h Hb _ IH]; [reflexivity|].
  change (bytes_hex (b :: h)) with (hex_digit (b / 16) :: hex_digit (b mod 16) :: bytes_hex h).
  cbn [fromhex]. fold (bytes_hex h).
  assert (H1 : b / 16 < 16) by lia. assert (H2 : b mod 16 < 16) by lia.
  destruct (hex_digit_ok _ H1) as [E1 _]. destruct (hex_digit_ok _ H2) as [E2 _].
  rewrite E1, E2, IH. do 2 f_equal. lia.
Qed.

Lemma bytes_hex_nocolon h : bytes_ok h -> Forall (fun c => c <> 58) (bytes_hex h).
Proof.
  intro H. induction H as [|b h Hb _ IH]; [constructor|].
  change (bytes_hex (b :: h)) with (hex_digit (b / 16) :: hex_digit (b mod 16) :: bytes_hex h).
  assert (H1 : b / 16 < 16) by lia. assert (H2 : b mod 16 < 16) by lia.
  constructor; [apply (hex_digit_ok _ H1)|]. constructor; [apply (hex_digit_ok _ H2)|exact IH].
Qed.

(* decimal text *)
Definition is_digit (c : N) : Prop := 48 <= c <= 57.
Definition dec_step (a c : N) : N := a * 10 + (c - 48).

Lemma parse_dec_N_digits ds : Forall is_digit ds -> forall a,
  parse_dec_N ds a = Some (fold_left dec_step ds a).
Proof.
  intro H. induction H as [|c ds Hc _ IH]; intro a; [reflexivity|].
  cbn [parse_dec_N fold_left]. unfold dec_val. unfold is_digit in Hc.
  replace ((48 <=? c) && (c <=? 57)) with true by lia. rewrite IH. reflexivity.
Qed.

Lemma dec_digits_spec f : forall n acc, n < 10 ^ N.of_nat (S f) ->
  exists ds, dec_digits (S f) n acc = ds ++ acc /\ ds <> [] /\ Forall is_digit ds /\
             fold_left dec_step ds 0 = n.
Proof.
  induction f as [|f IH]; intros n acc Hn.
  - change (10 ^ N.of_nat 1) with 10 in Hn. cbn [dec_digits].
    replace (n <? 10) with true by lia.
    exists [48 + n]. split; [reflexivity|]. split; [discriminate|]. split.
    + constructor; [unfold is_digit; lia|constructor].
    + cbn [fold_left]. unfold dec_step. lia.
  - remember (S f) as f1 eqn:Ef1. cbn [dec_digits]. destruct (N.ltb_spec n 10) as [L|L].
    + exists [48 + n]. split; [reflexivity|]. split; [discriminate|]. split.
      * constructor; [unfold is_digit; lia|constructor].
      * cbn [fold_left]. unfold dec_step. lia.
    + assert (Hq : n / 10 < 10 ^ N.of_nat f1).
      { rewrite Nat2N.inj_succ, N.pow_succ_r' in Hn. apply N.div_lt_upper_bound; lia. }
      subst f1. destruct (IH (n / 10) ((48 + n mod 10) :: acc) Hq) as (ds & E & Hne & Hd & Hv).
      exists (ds ++ [48 + n mod 10]). split; [rewrite E, <- app_assoc; reflexivity|].
      split; [destruct ds; discriminate|]. split.
      * apply Forall_app. split; [exact Hd|]. constructor; [unfold is_digit; lia|constructor].
      * rewrite fold_left_app, Hv. cbn [fold_left]. unfold dec_step. lia.
Qed.

Lemma dec_of_N_spec n : exists ds, dec_of_N n = ds /\ ds <> [] /\ Forall is_digit ds /\
  fold_left dec_step ds 0 = n.
Proof.
  unfold dec_of_N.
  assert (Hn : n < 10 ^ N.of_nat (S (N.to_nat (N.size n)))).
  { rewrite Nat2N.inj_succ, N2Nat.id, N.pow_succ_r'.
    pose proof (N.size_gt n) as G.
    assert (P : 2 ^ N.size n <= 10 ^ N.size n) by (apply N.pow_le_mono_l; lia).
    lia. }
  destruct (dec_digits_spec _ n [] Hn) as (ds & E & Hne & Hd & Hv).
  exists ds. rewrite E, app_nil_r. auto.
Qed.

Lemma parse_dec_Z_digit c r : is_digit c ->
  parse_dec_Z (c :: r) = option_map Z.of_N (parse_dec_N (c :: r) 0).
Proof.
  intro H. unfold is_digit in H. unfold parse_dec_Z.
  destruct c as [|p]; [reflexivity|].
  do 6 (destruct p as [p|p|]; try reflexivity); lia.
Qed.

Lemma parse_dec_of_Z wc : parse_dec_Z (dec_of_Z wc) = Some wc /\ Forall (fun c => c <> 58) (dec_of_Z wc).
Proof.
  assert (ND : forall ds, Forall is_digit ds -> Forall (fun c => c <> 58) ds).
  { intros ds H. eapply Forall_impl; [|exact H]. unfold is_digit. intros; lia. }
  destruct wc as [|p|p]; cbn [dec_of_Z].
  - split; [reflexivity|]. constructor; [discriminate|constructor].
  - destruct (dec_of_N_spec (Npos p)) as (ds & E & Hne & Hd & Hv). rewrite E.
    split; [|apply ND; exact Hd].
    destruct ds as [|c r]; [contradiction|].
    rewrite parse_dec_Z_digit by (inversion Hd; assumption).
    rewrite (parse_dec_N_digits _ Hd), Hv. reflexivity.
  - destruct (dec_of_N_spec (Npos p)) as (ds & E & Hne & Hd & Hv). rewrite E.
    split; [|constructor; [discriminate|apply ND; exact Hd]].
    destruct ds as [|c r]; [contradiction|].
    change (parse_dec_Z (45 :: c :: r))
      with (option_map (fun n => Z.opp (Z.of_N n)) (parse_dec_N (c :: r) 0)).
    rewrite (parse_dec_N_digits _ Hd), Hv. reflexivity.
Qed.

Lemma is_hex_accept a hx w hp :
  Forall (fun c => c <> 58) a -> Forall (fun c => c <> 58) hx -> hx <> [] ->
  fromhex hx = Some hp -> parse_dec_Z a = Some w ->
  is_hex (a ++ [58] ++ hx) = Some (mkAddr w hp false false).
Proof.
  intros Ha Hx Hne Hf Hp. unfold is_hex. cbn [app].
  rewrite (split_colon_app a Ha), (split_colon_nocolon hx Hx). cbn [rev app].
  destruct hx as [|x0 hx0]; [contradiction|]. rewrite Hf, Hp. reflexivity.
Qed.

Lemma raw_roundtrip : forall wc h urlsafe b t, length h = 32%nat -> bytes_ok h ->
  exists s, to_str wc h false urlsafe b t = Ok s /\ address_of_str s = Ok (mkAddr wc h false false).
Proof.
  intros wc h u b t Hl Hok. eexists. split; [reflexivity|].
  destruct (parse_dec_of_Z wc) as [Hp Hc].
  unfold address_of_str.
  rewrite (is_hex_accept _ _ wc h Hc (bytes_hex_nocolon h Hok)); auto.
  - destruct h; [discriminate|]. discriminate.
  - apply fromhex_bytes_hex. exact Hok.
Qed.

(* ------------------------------------------------------------------ *)
(* GF(2)-linearity: pointwise xor of byte / sextet lists               *)

Fixpoint xorl (xs ys : list N) : list N :=
  match xs, ys with
  | x :: xs', y :: ys' => N.lxor x y :: xorl xs' ys'
  | _, _ => []
  end.

Lemma xorl_nil_r xs : xorl xs [] = [].
Proof. destruct xs; reflexivity. Qed.

Lemma xorl_length xs : forall ys, length xs = length ys -> length (xorl xs ys) = length xs.
Proof.
  induction xs as [|x xs IH]; intros [|y ys] H; cbn [length] in H; try discriminate; [reflexivity|].
  cbn [xorl length]. rewrite IH by lia. reflexivity.
Qed.

Lemma xorl_firstn n : forall xs ys, firstn n (xorl xs ys) = xorl (firstn n xs) (firstn n ys).
Proof.
  induction n as [|n IH]; intros xs ys; [reflexivity|].
  destruct xs as [|x xs]; [reflexivity|]. destruct ys as [|y ys]; [reflexivity|].
  cbn [xorl firstn]. rewrite IH. reflexivity.
Qed.

Lemma xorl_skipn n : forall xs ys, skipn n (xorl xs ys) = xorl (skipn n xs) (skipn n ys).
Proof.
  induction n as [|n IH]; intros xs ys; [reflexivity|].
  destruct xs as [|x xs]; [reflexivity|].
  destruct ys as [|y ys]; [cbn [xorl skipn]; rewrite xorl_nil_r; reflexivity|].
  cbn [xorl skipn]. apply IH.
Qed.

Lemma xorl_bound k xs : forall ys, Forall (fun v => v < 2 ^ k) xs -> Forall (fun v => v < 2 ^ k) ys ->
  Forall (fun v => v < 2 ^ k) (xorl xs ys).
Proof.
  induction xs as [|x xs IH]; intros [|y ys] Hx Hy; cbn [xorl]; try constructor.
  - inversion Hx; inversion Hy; subst. apply lxor_bound; assumption.
  - inversion Hx; inversion Hy; subst. apply IH; assumption.
Qed.

Lemma xorl_cancel_l a : forall x y, length x = length a -> length y = length a ->
  xorl a x = xorl a y -> x = y.
Proof.
  induction a as [|a0 a IH]; intros [|x0 x] [|y0 y] Hx Hy E; cbn [length] in *; try discriminate.
  - reflexivity.
  - cbn [xorl] in E. injection E as E0 E1. f_equal.
    + rewrite <- (N.lxor_0_l x0), <- (N.lxor_nilpotent a0), N.lxor_assoc, E0,
        <- N.lxor_assoc, N.lxor_nilpotent, N.lxor_0_l. reflexivity.
    + apply IH; auto.
Qed.

(* replacing one element = xor with a one-hot list *)
Definition unit_vec (i : nat) (dl : N) (n : nat) : list N := repeat 0 i ++ dl :: repeat 0 (n - S i).

Lemma xorl_zero_r xs : xorl xs (repeat 0 (length xs)) = xs.
Proof.
  induction xs as [|x xs IH]; [reflexivity|]. cbn [length repeat xorl]. rewrite IH, N.lxor_0_r. reflexivity.
Qed.

Lemma subst_as_xorl vs : forall i v', (i < length vs)%nat ->
  firstn i vs ++ v' :: skipn (S i) vs = xorl vs (unit_vec i (N.lxor (nth i vs 0) v') (length vs)).
Proof.
  unfold unit_vec. induction vs as [|v vs IH]; intros i v' Hi; cbn [length] in Hi; [lia|].
  destruct i as [|i].
  - cbn [firstn skipn app nth repeat length xorl Nat.sub]. rewrite Nat.sub_0_r, xorl_zero_r.
    f_equal. rewrite <- N.lxor_assoc, N.lxor_nilpotent, N.lxor_0_l. reflexivity.
  - cbn [firstn skipn app nth repeat length xorl Nat.sub]. rewrite N.lxor_0_r. f_equal.
    apply IH. lia.
Qed.

Lemma unit_vec_length i dl n : (i < n)%nat -> length (unit_vec i dl n) = n.
Proof.
  intro H. unfold unit_vec. rewrite app_length. cbn [length]. rewrite !repeat_length. lia.
Qed.

Lemma unit_vec_ok i dl n : dl < 64 -> sx_ok (unit_vec i dl n).
Proof.
  intro H. unfold unit_vec, sx_ok. apply Forall_app. split.
  - apply Forall_forall. intros x Hx. apply repeat_spec in Hx. subst x. reflexivity.
  - constructor; [exact H|]. apply Forall_forall. intros x Hx. apply repeat_spec in Hx. subst x. reflexivity.
Qed.

(* bit-level reading of the regrouping done by the decoder *)
Lemma testbit_small x k n : x < 2 ^ k -> k <= n -> N.testbit x n = false.
Proof.
  intros Hx Hn. rewrite <- (N.mod_small x (2 ^ k)) by exact Hx. apply N.mod_pow2_bits_high. exact Hn.
Qed.

Lemma shift_add_lxor y x k : x < 2 ^ k -> y * 2 ^ k + x = N.lxor (N.shiftl y k) x.
Proof.
  intro Hx. rewrite <- N.shiftl_mul_pow2. apply N.add_nocarry_lxor.
  apply N.bits_inj. intro n. rewrite N.land_spec, N.bits_0.
  destruct (N.ltb_spec n k).
  - rewrite N.shiftl_spec_low by assumption. reflexivity.
  - rewrite (testbit_small x k n Hx) by assumption. apply andb_false_r.
Qed.

Lemma dq1_bits a b : b < 64 -> a * 4 + b / 16 = N.lxor (N.shiftl a 2) (N.shiftr b 4).
Proof.
  intro H. change 4 with (2 ^ 2) at 1. rewrite shift_add_lxor by lia.
  rewrite (N.shiftr_div_pow2 b 4). reflexivity.
Qed.
Lemma dq2_bits b c : c < 64 -> (b mod 16) * 16 + c / 4 = N.lxor (N.shiftl (N.land b 15) 4) (N.shiftr c 2).
Proof.
  intro H. change 16 with (2 ^ 4) at 2. rewrite shift_add_lxor by lia.
  rewrite (N.shiftr_div_pow2 c 2). change 15 with (N.ones 4). rewrite N.land_ones. reflexivity.
Qed.
Lemma dq3_bits c d : d < 64 -> (c mod 4) * 64 + d = N.lxor (N.shiftl (N.land c 3) 6) d.
Proof.
  intro H. change 64 with (2 ^ 6) at 1. rewrite shift_add_lxor by (change (2 ^ 6) with 64; exact H).
  change 3 with (N.ones 2). rewrite N.land_ones. reflexivity.
Qed.

Lemma lxor64 a b : a < 64 -> b < 64 -> N.lxor a b < 64.
Proof. change 64 with (2 ^ 6). apply lxor_bound. Qed.

Lemma dq1_lin a b a' b' : b < 64 -> b' < 64 ->
  N.lxor a a' * 4 + N.lxor b b' / 16 = N.lxor (a * 4 + b / 16) (a' * 4 + b' / 16).
Proof.
  intros H H'. rewrite !dq1_bits by auto using lxor64. rewrite N.shiftl_lxor, N.shiftr_lxor.
  apply N.bits_inj. intro n. rewrite !N.lxor_spec. btauto.
Qed.
Lemma dq2_lin b c b' c' : c < 64 -> c' < 64 ->
  (N.lxor b b' mod 16) * 16 + N.lxor c c' / 4 = N.lxor ((b mod 16) * 16 + c / 4) ((b' mod 16) * 16 + c' / 4).
Proof.
  intros H H'. rewrite !dq2_bits by auto using lxor64. rewrite N.shiftr_lxor.
  apply N.bits_inj. intro n. rewrite !N.lxor_spec.
  destruct (N.ltb_spec n 4).
  - rewrite !N.shiftl_spec_low by assumption. btauto.
  - rewrite !N.shiftl_spec_high' by assumption. rewrite !N.land_spec, N.lxor_spec. btauto.
Qed.
Lemma dq3_lin c d c' d' : d < 64 -> d' < 64 ->
  (N.lxor c c' mod 4) * 64 + N.lxor d d' = N.lxor ((c mod 4) * 64 + d) ((c' mod 4) * 64 + d').
Proof.
  intros H H'. rewrite !dq3_bits by auto using lxor64.
  apply N.bits_inj. intro n. rewrite !N.lxor_spec.
  destruct (N.ltb_spec n 6).
  - rewrite !N.shiftl_spec_low by assumption. btauto.
  - rewrite !N.shiftl_spec_high' by assumption. rewrite !N.land_spec, N.lxor_spec. btauto.
Qed.

Lemma decode_quads_lin k : forall vs ws, length vs = (4 * k)%nat -> length ws = (4 * k)%nat ->
  sx_ok vs -> sx_ok ws ->
  b64_decode_quads (xorl vs ws) = xorl (b64_decode_quads vs) (b64_decode_quads ws).
Proof.
  induction k as [|k IH]; intros vs ws Lv Lw Ov Ow.
  - destruct vs; [reflexivity|discriminate].
  - destruct vs as [|a [|b [|c [|d vs]]]]; cbn [length] in Lv; try lia.
    destruct ws as [|a' [|b' [|c' [|d' ws]]]]; cbn [length] in Lw; try lia.
    inversion Ov as [|? ? Ha Ov1]; subst. inversion Ov1 as [|? ? Hb Ov2]; subst.
    inversion Ov2 as [|? ? Hc Ov3]; subst. inversion Ov3 as [|? ? Hd Ov4]; subst.
    inversion Ow as [|? ? Ha' Ow1]; subst. inversion Ow1 as [|? ? Hb' Ow2]; subst.
    inversion Ow2 as [|? ? Hc' Ow3]; subst. inversion Ow3 as [|? ? Hd' Ow4]; subst.
    cbn [xorl b64_decode_quads].
    rewrite dq1_lin, dq2_lin, dq3_lin by assumption. rewrite (IH vs ws) by (auto; lia). reflexivity.
Qed.

Lemma decode_quads_length k : forall vs, length vs = (4 * k)%nat ->
  length (b64_decode_quads vs) = (3 * k)%nat.
Proof.
  induction k as [|k IH]; intros vs Lv.
  - destruct vs; [reflexivity|discriminate].
  - destruct vs as [|a [|b [|c [|d vs]]]]; cbn [length] in Lv; try lia.
    cbn [b64_decode_quads length]. rewrite (IH vs) by lia. lia.
Qed.

Lemma decode_quads_ok k : forall vs, length vs = (4 * k)%nat -> sx_ok vs -> bytes_ok (b64_decode_quads vs).
Proof.
  induction k as [|k IH]; intros vs Lv Ov.
  - destruct vs; [constructor|discriminate].
  - destruct vs as [|a [|b [|c [|d vs]]]]; cbn [length] in Lv; try lia.
    inversion Ov as [|? ? Ha Ov1]; subst. inversion Ov1 as [|? ? Hb Ov2]; subst.
    inversion Ov2 as [|? ? Hc Ov3]; subst. inversion Ov3 as [|? ? Hd Ov4]; subst.
    cbn [b64_decode_quads]. constructor; [lia|]. constructor; [lia|]. constructor; [lia|].
    apply IH; [lia|exact Ov4].
Qed.

(* CRC-16 (zero initial value) is linear over messages of equal length *)
Lemma s16_fold_lin xs : forall ys c1 c2, length xs = length ys ->
  fold_left s16_byte (xorl xs ys) (N.lxor c1 c2) =
  N.lxor (fold_left s16_byte xs c1) (fold_left s16_byte ys c2).
Proof.
  induction xs as [|x xs IH]; intros [|y ys] c1 c2 H; cbn [length] in H; try discriminate; [reflexivity|].
  cbn [xorl fold_left]. rewrite s16_byte_lin. apply IH. lia.
Qed.

Lemma be_bytes2 n : be_bytes 2 n = [(n / 256) mod 256; n mod 256].
Proof. reflexivity. Qed.

Lemma be_bytes2_lin a b : be_bytes 2 (N.lxor a b) = xorl (be_bytes 2 a) (be_bytes 2 b).
Proof.
  rewrite !be_bytes2. cbn [xorl]. change 256 with (2 ^ 8).
  rewrite <- !N.shiftr_div_pow2, <- !N.land_ones, N.shiftr_lxor.
  f_equal; [|f_equal].
  - apply N.bits_inj. intro n. rewrite !N.land_spec, !N.lxor_spec, !N.land_spec. btauto.
  - apply N.bits_inj. intro n. rewrite !N.land_spec, !N.lxor_spec, !N.land_spec. btauto.
Qed.

Lemma crc16_lin xs ys : bytes_ok xs -> bytes_ok ys -> length xs = length ys ->
  crc16 (xorl xs ys) = xorl (crc16 xs) (crc16 ys).
Proof.
  intros Hx Hy Hl.
  assert (Hxy : bytes_ok (xorl xs ys)).
  { unfold bytes_ok in *. change 256 with (2 ^ 8) in *. apply xorl_bound; assumption. }
  rewrite !crc16_correct by assumption. unfold s_crc16.
  pose proof (s16_fold_lin xs ys 0 0 Hl) as E. change (N.lxor 0 0) with 0 in E.
  rewrite E. apply be_bytes2_lin.
Qed.

(* ------------------------------------------------------------------ *)
(* finite sweep: no one-sextet error pattern is a CRC-16 codeword      *)

Definition err_rejected (i : nat) (dl : N) : bool :=
  let e := b64_decode_quads (unit_vec i dl 48) in
  negb (bytes_eqb (skipn 34 e) (crc16 (firstn 34 e))).

Lemma err_sweep :
  allb_below 48 (fun i => allb_below 63 (fun k => err_rejected (N.to_nat i) (k + 1))) = true.
Proof. vm_compute. reflexivity. Qed.

Lemma err_rejected_all i dl : (i < 48)%nat -> dl <> 0 -> dl < 64 -> err_rejected i dl = true.
Proof.
  intros Hi H0 H64.
  assert (Hi' : N.of_nat i < 48) by lia.
  pose proof (allb_below_spec _ _ err_sweep (N.of_nat i) Hi') as S1. cbv beta in S1.
  assert (Hd : dl - 1 < 63) by lia.
  pose proof (allb_below_spec _ _ S1 (dl - 1) Hd) as S2. cbv beta in S2.
  rewrite Nat2N.id in S2. replace (dl - 1 + 1) with dl in S2 by lia. exact S2.
Qed.

(* ------------------------------------------------------------------ *)
(* the checksum is enforced                                            *)

Lemma is_b64_reject s D : b64decode s = Ok D -> skipn 34 D <> crc16 (firstn 34 D) ->
  exists e, is_b64 s = Err e.
Proof.
  intros Hd Hne. unfold is_b64. rewrite Hd. destruct D as [|tag D0]; [eexists; reflexivity|].
  cbv zeta. destruct (bytes_eqb (skipn 34 (tag :: D0)) (crc16 (firstn 34 (tag :: D0)))) eqn:E.
  - apply bytes_eqb_eq in E. contradiction.
  - cbn [negb]. eexists. reflexivity.
Qed.

Lemma Forall_firstn' {A} (P : A -> Prop) n : forall l, Forall P l -> Forall P (firstn n l).
Proof.
  induction n as [|n IH]; intros l H; [constructor|].
  destruct H as [|x l Hx Hl]; cbn [firstn]; constructor; auto.
Qed.

Lemma Ok_inj {A} (x y : A) : Ok x = Ok y -> x = y.
Proof. intro H. injection H as H. exact H. Qed.

Lemma nth_map_in {A B} (f : A -> B) l i da db : (i < length l)%nat ->
  nth i (map f l) db = f (nth i l da).
Proof.
  intro H. rewrite (nth_indep (map f l) db (f da)) by (rewrite map_length; exact H). apply map_nth.
Qed.

Lemma checksum_enforced : forall wc h urlsafe b t s i c',
  (-128 <= wc <= 127)%Z -> length h = 32%nat -> bytes_ok h ->
  to_str wc h true urlsafe b t = Ok s -> (i < 48)%nat ->
  (exists v, v < 64 /\ c' = b64_char urlsafe v) -> nth i s 0 <> c' ->
  exists e, address_of_str (firstn i s ++ c' :: skipn (S i) s) = Err e.
Proof.
  intros wc h u b t s i c' Hwc Hl Hok Hs Hi (v' & Hv' & Hc') Hne.
  rewrite (to_str_friendly wc h u b t Hwc) in Hs. apply Ok_inj in Hs.
  set (body := fbody wc h b t) in *.
  assert (Lb : length body = 34%nat) by (apply fbody_length; exact Hl).
  assert (Ob : bytes_ok body) by (apply fbody_ok; exact Hok).
  set (d := body ++ crc16 body) in *.
  assert (Ld : length d = (3 * 12)%nat).
  { unfold d. rewrite app_length, Lb, crc16_length. reflexivity. }
  assert (Od : bytes_ok d).
  { apply Forall_app. split; [exact Ob|apply crc16_ok]. }
  rewrite (b64encode_sextets u 12 d Ld) in Hs.
  set (vs := sextets d) in *.
  assert (Ls : length vs = 48%nat) by (apply (sextets_length 12 d Ld)).
  assert (Os : sx_ok vs) by (apply (sextets_ok 12 d Ld Od)).
  assert (Dv : b64_decode_quads vs = d) by (apply (decode_sextets 12 d Ld Od)).
  subst s c'.
  rewrite (nth_map_in (b64_char u) vs i 0 0) in Hne by (rewrite Ls; exact Hi).
  assert (Hvne : nth i vs 0 <> v') by (intro C; apply Hne; rewrite C; reflexivity).
  assert (Hvi : nth i vs 0 < 64).
  { unfold sx_ok in Os. rewrite Forall_forall in Os. apply Os. apply nth_In. rewrite Ls. exact Hi. }
  set (dl := N.lxor (nth i vs 0) v') in *.
  assert (Hdl0 : dl <> 0) by (intro C; apply Hvne; apply N.lxor_eq; exact C).
  assert (Hdl64 : dl < 64) by (apply lxor64; assumption).
  (* the modified string, as characters of a modified sextet list *)
  rewrite firstn_map, skipn_map, <- map_cons, <- map_app.
  rewrite (subst_as_xorl vs i v') by (rewrite Ls; exact Hi). fold dl. rewrite Ls.
  set (E := unit_vec i dl 48).
  assert (LE : length E = 48%nat) by (apply unit_vec_length; exact Hi).
  assert (OE : sx_ok E) by (apply unit_vec_ok; exact Hdl64).
  assert (Lx : length (xorl vs E) = (4 * 12)%nat) by (rewrite xorl_length; lia).
  assert (Ox : sx_ok (xorl vs E)).
  { unfold sx_ok in *. change 64 with (2 ^ 6) in *. apply xorl_bound; assumption. }
  unfold address_of_str. rewrite (is_hex_nocolon _ (b64_chars_nocolon u _ Ox)).
  pose proof (b64decode_chars u _ 12 Ox Lx) as Hdec.
  rewrite (decode_quads_lin 12 vs E) in Hdec by (auto; lia). rewrite Dv in Hdec.
  set (e := b64_decode_quads E) in *.
  assert (Le : length e = 36%nat) by (apply (decode_quads_length 12); exact LE).
  assert (Oe : bytes_ok e) by (apply (decode_quads_ok 12); [exact LE|exact OE]).
  destruct (is_b64_reject _ _ Hdec) as [er Her]; [|rewrite Her; eexists; reflexivity].
  rewrite xorl_skipn, xorl_firstn. unfold d.
  rewrite (skipn_app_exact 34 body _ Lb), (firstn_app_exact 34 body _ Lb).
  assert (Lf : length (firstn 34 e) = 34%nat) by (rewrite firstn_length, Le; reflexivity).
  assert (Of : bytes_ok (firstn 34 e)).
  { apply Forall_firstn'. exact Oe. }
  rewrite (crc16_lin body (firstn 34 e) Ob Of) by (rewrite Lb, Lf; reflexivity).
  intro C. apply xorl_cancel_l in C.
  - pose proof (err_rejected_all i dl Hi Hdl0 Hdl64) as R. unfold err_rejected in R. cbv zeta in R.
    fold E in R. fold e in R. rewrite C, bytes_eqb_refl in R. discriminate.
  - rewrite skipn_length, Le, crc16_length. reflexivity.
  - rewrite !crc16_length. reflexivity.
Qed.
