(* C11 proofs: Merkle proof checks (Model/Proof.v) against the specification of virtualised trees
   (Spec/MerkleProof.v).  Completeness of check_proof / check_block_header_proof for proofs built by
   pruning, collision-relative soundness, and the meaning of the account-state hash comparison.
   Helper lemmas carry the prefix mp_. *)
From Coq Require Import NArith ZArith List Bool Lia.
From PTQ Require Import Base.Result Base.Bytes Base.Bits Model.Cell Model.Proof
  Spec.CellRepr Spec.CellWf Spec.MerkleProof Proofs.CellOrd Proofs.CellExotic.
Import ListNotations.
Local Open Scope N_scope.

(* ------------------------------------------------------------------ *)
(* 1. what acceptance means                                            *)
(* ------------------------------------------------------------------ *)
Lemma mp_bytes_eqb_refl a : bytes_eqb a a = true.
Proof. apply bytes_eqb_eq. reflexivity. Qed.

Lemma mp_bytes_eqb_neq a b : a <> b -> bytes_eqb a b = false.
Proof.
  intro Hne. destruct (bytes_eqb a b) eqn:E; [|reflexivity].
  apply bytes_eqb_eq in E. contradiction.
Qed.

Lemma check_proof_inv : forall k h, check_proof k h = Ok tt ->
  k_ty k = ty_mproof /\ slice (k_data k) 1 33 = h /\
  exists r, k_ref k 0 = Ok r /\ get_hash r 0 = Ok h.
Proof.
  intros k h Hc. unfold check_proof in Hc.
  destruct (k_ty k =? ty_mproof)%Z eqn:Hty; cbn [negb] in Hc; [|discriminate].
  destruct (bytes_eqb (slice (k_data k) 1 33) h) eqn:Hsl; cbn [negb] in Hc; [|discriminate].
  destruct (k_ref k 0) as [r|e] eqn:Hr; cbn [bind] in Hc; [|discriminate].
  destruct (get_hash r 0) as [h'|e] eqn:Hh; cbn [bind] in Hc; [|discriminate].
  destruct (bytes_eqb h' h) eqn:Hhh; [|discriminate].
  apply Z.eqb_eq in Hty. apply bytes_eqb_eq in Hsl. apply bytes_eqb_eq in Hhh. subst h'.
  split; [exact Hty|]. split; [exact Hsl|]. exists r. split; [reflexivity|exact Hh].
Qed.

Lemma wrong_hash_rejected : forall k h h', check_proof k h = Ok tt -> h' <> h ->
  exists e, check_proof k h' = Err e.
Proof.
  intros k h h' Hc Hne. apply check_proof_inv in Hc. destruct Hc as (Hty & Hsl & _).
  exists EProof. unfold check_proof.
  apply Z.eqb_eq in Hty. rewrite Hty. cbn [negb].
  rewrite Hsl, mp_bytes_eqb_neq by (intro E; apply Hne; symmetry; exact E).
  reflexivity.
Qed.

Lemma account_hashes_inv : forall bp sp sa claimed root_hash,
  check_account_hashes bp sp sa claimed root_hash = Ok tt ->
  exists acc, k_ref sa 0 = Ok acc /\ get_hash acc 0 = Ok (k_hash claimed).
Proof.
  intros bp sp sa claimed root_hash Hc. unfold check_account_hashes in Hc.
  destruct (k_ref bp 0) as [blk|e]; cbn [bind] in Hc; [|discriminate].
  destruct (check_block_header_proof blk root_hash true) as [[sh|]|e]; cbn [bind] in Hc; try discriminate.
  destruct (k_ref sp 0) as [st|e]; cbn [bind] in Hc; [|discriminate].
  destruct (get_hash st 0) as [h|e]; cbn [bind] in Hc; [|discriminate].
  destruct (bytes_eqb h sh); cbn [negb] in Hc; [|discriminate].
  destruct (k_ref sa 0) as [acc|e]; cbn [bind] in Hc; [|discriminate].
  destruct (get_hash acc 0) as [committed|e] eqn:Hh; cbn [bind] in Hc; [|discriminate].
  destruct (bytes_eqb committed (k_hash claimed)) eqn:He; cbn [negb] in Hc; [|discriminate].
  apply bytes_eqb_eq in He. subst committed.
  exists acc. split; [reflexivity|exact Hh].
Qed.

(* ------------------------------------------------------------------ *)
(* shape of a constructed cell                                         *)
(* ------------------------------------------------------------------ *)
Lemma mp_foldM_inv {A B} (f : A -> B -> result A) (P : A -> Prop) :
  (forall a x a', P a -> f a x = Ok a' -> P a') ->
  forall l a a', P a -> foldM f l a = Ok a' -> P a'.
Proof.
  intro Hstep. induction l as [|x l IH]; intros a a' Ha Hf; cbn [foldM] in Hf.
  - injection Hf as <-. exact Ha.
  - destruct (f a x) as [a1|e] eqn:E; cbn [bind] in Hf; [|discriminate].
    apply (IH a1 a'); [apply (Hstep a x a1 Ha E)|exact Hf].
Qed.

Section Shape.
  Variable H : list N -> list N.

  (* every hash the loop stores for an exotic cell is H of a message whose first byte is >= 8 *)
  Definition mp_exh (h : list N) : Prop := exists d1 rest, h = H (d1 :: rest) /\ 8 <= d1.

  Lemma mp_step_exotic ty bits krefs mask off st li st' :
    is_exotic ty = true ->
    Forall mp_exh (snd (fst st)) ->
    hash_step H ty bits krefs mask off st li = Ok st' ->
    Forall mp_exh (snd (fst st')).
  Proof.
    intros Hex Hst Hs. destruct st as [[hi hs] ds]. cbn [fst snd] in Hst.
    unfold hash_step in Hs.
    destruct (negb (lm_significant mask li)); [injection Hs as <-; exact Hst|].
    destruct (hi <? off); [injection Hs as <-; exact Hst|].
    rewrite Hex in Hs.
    destruct (refs_descriptor (length krefs) true (lm_apply mask li)) as [d1|e] eqn:Hd1;
      cbn [bind] in Hs; [|discriminate].
    destruct (bits_descriptor (length bits)) as [d2|e]; cbn [bind] in Hs; [|discriminate].
    match type of Hs with bind ?x _ = _ => destruct x as [payload|e] end; cbn [bind] in Hs; [|discriminate].
    match type of Hs with bind ?x _ = _ => destruct x as [rds|e] end; cbn [bind] in Hs; [|discriminate].
    match type of Hs with bind ?x _ = _ => destruct x as [dbytes|e] end; cbn [bind] in Hs; [|discriminate].
    match type of Hs with bind ?x _ = _ => destruct x as [depth|e] end; cbn [bind] in Hs; [|discriminate].
    match type of Hs with bind ?x _ = _ => destruct x as [rhs|e] end; cbn [bind] in Hs; [|discriminate].
    injection Hs as <-. cbn [fst snd].
    apply Forall_app. split; [exact Hst|]. constructor; [|constructor].
    unfold refs_descriptor, to_byte1 in Hd1.
    destruct (_ <? 256); [|discriminate]. injection Hd1 as <-.
    eexists _, _. split; [cbn [app]; reflexivity|]. cbn [b2n]. lia.
  Qed.

  Lemma mp_mk_cell_inv ty bits krefs k : mk_cell H ty bits krefs = Ok k ->
    k_ty k = ty /\ k_bits k = bits /\ k_refs k = krefs /\ k_hashes k <> [] /\
    (is_exotic ty = true -> Forall mp_exh (k_hashes k)).
  Proof.
    intro Hm. unfold mk_cell in Hm.
    destruct (resolve_mask ty bits krefs) as [mask|e]; cbn [bind] in Hm; [|discriminate].
    cbv zeta in Hm.
    match type of Hm with bind (foldM ?f ?l ?a) _ = _ =>
      destruct (foldM f l a) as [[[hi hs] ds]|e] eqn:Hloop end; cbn [bind] in Hm; [|discriminate].
    destruct (refs_descriptor _ _ _); cbn [bind] in Hm; [|discriminate].
    destruct (bits_descriptor _); cbn [bind] in Hm; [|discriminate].
    destruct hs as [|h0 hs]; [discriminate|]. injection Hm as <-.
    cbn [k_ty k_bits k_refs k_hashes].
    repeat (split; [reflexivity|]). split; [discriminate|].
    intro Hex.
    change (Forall mp_exh (snd (fst (hi, h0 :: hs, ds)))).
    refine (mp_foldM_inv _ (fun st : hstate => Forall mp_exh (snd (fst st)))
             (fun a x a' Ha Hs => mp_step_exotic _ _ _ _ _ a x a' Hex Ha Hs) _ (0, [], []) _ _ Hloop).
    constructor.
  Qed.
End Shape.

(* ------------------------------------------------------------------ *)
(* 4. a pruned branch is not an ordinary cell                          *)
(* ------------------------------------------------------------------ *)
Lemma mp_last_Forall {A} (P : A -> Prop) l d : l <> [] -> Forall P l -> P (last l d).
Proof.
  intros Hne Hf. induction Hf as [|x l Hx Hl IH]; [congruence|].
  destruct l as [|y l]; [exact Hx|]. apply IH. discriminate.
Qed.

Lemma pruned_impostor_collides (H : list N -> list N) : forall c kc t,
  build H c = Ok kc -> k_ty kc = ty_pruned -> wf_ord t = true ->
  k_hash kc = s_hash H t -> collision H.
Proof.
  intros [ty bits rs] kc [ty' bits' ts] Hb Hty Hwf Hh.
  rewrite ex_build_eq in Hb.
  destruct (mapM' (build H) rs) as [krefs|e]; cbn [bind] in Hb; [|discriminate].
  apply mp_mk_cell_inv in Hb. destruct Hb as (Ety & _ & _ & Hne & Hex).
  rewrite Ety in Hty. rewrite Hty in Hex.
  pose proof (mp_last_Forall _ _ [] Hne (Hex eq_refl)) as Hl. fold (k_hash kc) in Hl.
  destruct Hl as (d1 & rest & Hk & Hd1).
  apply wf_ord_inv in Hwf. destruct Hwf as (_ & _ & Hlr & _).
  rewrite s_hash_cell, Hk in Hh. cbn [app] in Hh.
  eexists _, _. split; [|exact Hh].
  intro E. injection E as E _. unfold s_d1 in E. cbn [b2n] in E. lia.
Qed.

(* ------------------------------------------------------------------ *)
(* 2. completeness                                                     *)
(* ------------------------------------------------------------------ *)
Lemma mp_lor_le1 a b : a <= 1 -> b <= 1 -> N.lor a b <= 1.
Proof.
  intros Ha Hb.
  assert (Ea : a = 0 \/ a = 1) by lia. assert (Eb : b = 0 \/ b = 1) by lia.
  destruct Ea as [-> | ->], Eb as [-> | ->]; cbn; lia.
Qed.

Lemma mp_shiftr_le1 m : m <= 1 -> N.shiftr m 1 = 0.
Proof. intro Hm. assert (E : m = 0 \/ m = 1) by lia. destruct E as [-> | ->]; reflexivity. Qed.

Lemma mp_maxl_mono {A B} (f : A -> N) (g : B -> N) vs ts :
  Forall2 (fun v t => f v <= g t) vs ts -> maxl (map f vs) <= maxl (map g ts).
Proof.
  induction 1 as [|v t vs ts Hvt _ IH]; cbn [map maxl fold_right]; [lia|].
  fold (maxl (map f vs)). fold (maxl (map g ts)). lia.
Qed.

Lemma mp_Forall2_impl {A B} (P Q : A -> B -> Prop) l1 l2 :
  (forall a b, P a b -> Q a b) -> Forall2 P l1 l2 -> Forall2 Q l1 l2.
Proof. intros HPQ HF. induction HF; constructor; auto. Qed.

Lemma mp_low_mask_1 l : low_mask 1 (S l) = 1.
Proof.
  rewrite ex_low_mask_mod. apply N.mod_small.
  rewrite Nat2N.inj_succ, N.pow_succ_r'. pose proof (N.pow_nonzero 2 (N.of_nat l) ltac:(lia)). lia.
Qed.

Lemma mp_wf_pruned1 bits : length bits = 288%nat -> s_mask (Cell ty_pruned bits []) = 1 ->
  wf_exotic (Cell ty_pruned bits []) = true.
Proof.
  intros Hl Hm. cbn [wf_exotic length forallb]. rewrite Hm, Hl. vm_compute. reflexivity.
Qed.

Lemma mp_wf_mproof bits v : (length bits <= 1023)%nat -> wf_exotic v = true -> s_mask v <= 1 ->
  wf_exotic (Cell ty_mproof bits [v]) = true.
Proof.
  intros Hlb Hwf Hm.
  assert (Hm0 : s_mask (Cell ty_mproof bits [v]) = 0) by (rewrite ex_s_mask_mproof; apply mp_shiftr_le1; exact Hm).
  cbn [wf_exotic length forallb]. rewrite Hm0, Hwf, (proj2 (Nat.leb_le _ _) Hlb). reflexivity.
Qed.

Section Complete.
  Variable H : list N -> list N.
  Hypothesis H_len : forall m, length (H m) = 32%nat.
  Hypothesis H_ok : forall m, bytes_ok (H m).

  (* ---- (a) ordinary trees in the level-wise specification ---- *)
  Lemma mp_ord_mask t : wf_ord t = true -> s_mask t = 0.
  Proof.
    induction t as [ty bits rs IH] using cell_ind'. intro Hwf.
    apply wf_ord_inv in Hwf. destruct Hwf as (-> & _ & _ & Hrs).
    change (-1)%Z with ty_ordinary. rewrite ex_s_mask_ord.
    induction IH as [|r rs Hr _ IH']; [reflexivity|].
    cbn [forallb] in Hrs. apply andb_prop in Hrs. destruct Hrs as [Hr1 Hrs].
    cbn [fold_right]. rewrite (Hr Hr1), IH' by exact Hrs. reflexivity.
  Qed.

  Lemma mp_ord_hd0 t : wf_ord t = true -> s_hd H t 0 = (s_hash H t, s_depth t).
  Proof.
    induction t as [ty bits rs IH] using cell_ind'. intro Hwf.
    apply wf_ord_inv in Hwf. destruct Hwf as (-> & _ & _ & Hrs).
    rewrite (ex_s_hd_np_0 H (-1) bits rs eq_refl).
    assert (Hk : ex_kids H (-1) rs 0 = map (fun r => (s_hash H r, s_depth r)) rs).
    { unfold ex_kids. change (is_merkle (-1)) with false. cbv iota.
      induction IH as [|r rs Hr _ IH']; [reflexivity|].
      cbn [forallb] in Hrs. apply andb_prop in Hrs. destruct Hrs as [Hr1 Hrs].
      cbn [map]. rewrite (Hr Hr1), IH' by exact Hrs. reflexivity. }
    rewrite Hk. unfold ex_tail, ex_depth_of. rewrite !map_map. cbn [fst snd].
    rewrite s_hash_cell, s_depth_cell. change (is_exotic (-1)) with false.
    f_equal. destruct rs; reflexivity.
  Qed.

  Lemma mp_ord_hd t l : wf_ord t = true -> s_hd H t l = (s_hash H t, s_depth t).
  Proof. intro Hwf. rewrite (ex_s_hd_mask0 H t l (mp_ord_mask t Hwf)). apply mp_ord_hd0. exact Hwf. Qed.

  Lemma mp_s_hash_len t : length (s_hash H t) = 32%nat.
  Proof. destruct t. apply H_len. Qed.
  Lemma mp_s_hash_ok t : bytes_ok (s_hash H t).
  Proof. destruct t. apply H_ok. Qed.

  (* ---- (b) virtualised trees ---- *)
  Definition mp_good (v t : cell) : Prop :=
    s_hd H v 0 = s_hd H t 0 /\ wf_exotic v = true /\ s_mask v <= 1 /\
    (forall l, s_depth_at H v l <= s_depth t) /\ depth_okb H v = true.

  Lemma mp_depth_okb_intro ty bits rs :
    (forall l, s_depth_at H (Cell ty bits rs) l <= 1023) -> forallb (depth_okb H) rs = true ->
    depth_okb H (Cell ty bits rs) = true.
  Proof.
    intros Hd Hrs. cbn [depth_okb forallb]. rewrite Hrs.
    rewrite !(proj2 (N.leb_le _ _) (Hd _)). reflexivity.
  Qed.

  Lemma mp_pruned1_depth bits l : s_mask (Cell ty_pruned bits []) = 1 ->
    s_depth_at H (Cell ty_pruned bits []) (S l) = 0.
  Proof.
    intro Hm. unfold s_depth_at. rewrite ex_s_hd_pruned. cbv zeta. rewrite Hm, mp_low_mask_1.
    change (popcount 1 =? popcount 1) with true. reflexivity.
  Qed.

  Lemma mp_prune_good t : wf_ord t = true -> s_depth t <= 1023 -> mp_good (s_prune H 0 t) t.
  Proof.
    intros Hwf Hd.
    pose proof (mp_ord_hd0 t Hwf) as Ht0.
    pose proof (ex_prune_mask H 0 t ltac:(lia)) as Hpm. change (2 ^ N.of_nat 0) with 1 in Hpm.
    assert (Hhd : s_hd H (s_prune H 0 t) 0 = s_hd H t 0).
    { apply (ex_prune_hd H H_len H_ok 0 t 0); [lia|lia|apply mp_ord_mask; exact Hwf|].
      unfold s_depth_at. rewrite Ht0. cbn [snd]. lia. }
    assert (Hdep : forall l, s_depth_at H (s_prune H 0 t) l <= s_depth t).
    { intros [|l].
      - unfold s_depth_at. rewrite Hhd, Ht0. cbn [snd]. lia.
      - unfold s_prune in Hpm |- *. rewrite (mp_pruned1_depth _ l Hpm). lia. }
    split; [exact Hhd|]. split; [|split; [lia|split; [exact Hdep|]]].
    - unfold s_prune in Hpm |- *. apply mp_wf_pruned1; [|exact Hpm].
      rewrite !app_length, !to_bits_length, ex_bytes_to_bits_length.
      unfold s_hash_at. rewrite Ht0. cbn [fst]. rewrite mp_s_hash_len. reflexivity.
    - unfold s_prune in Hdep |- *. apply mp_depth_okb_intro; [|reflexivity].
      intro l. specialize (Hdep l). lia.
  Qed.

  Lemma mp_node_good bits vs ts :
    Forall2 mp_good vs ts -> (length bits <= 1023)%nat -> (length ts <= 4)%nat ->
    s_depth (Cell ty_ordinary bits ts) <= 1023 ->
    mp_good (Cell ty_ordinary bits vs) (Cell ty_ordinary bits ts).
  Proof.
    intros HF Hlb Hlr Hd.
    pose proof (ex_Forall2_length _ _ _ HF) as Hlen.
    assert (Hno : (ty_ordinary =? ty_pruned)%Z = false) by reflexivity.
    assert (Haux : forall l, ex_depth_of (ex_kids H ty_ordinary vs l) <= s_depth (Cell ty_ordinary bits ts)).
    { intro l. rewrite ex_depth_of_kids, s_depth_cell. change (is_merkle ty_ordinary) with false. cbv iota.
      assert (Hm : maxl (map (fun r => s_depth_at H r l) vs) <= maxl (map s_depth ts)).
      { apply mp_maxl_mono. apply (mp_Forall2_impl mp_good); [|exact HF].
        intros a b (_ & _ & _ & Hab & _). apply Hab. }
      destruct HF; [lia|lia]. }
    assert (Hdep : forall l, s_depth_at H (Cell ty_ordinary bits vs) l <= s_depth (Cell ty_ordinary bits ts)).
    { induction l as [|l IHl]; unfold s_depth_at.
      - rewrite (ex_s_hd_np_0 H _ _ _ Hno). cbn [snd]. apply Haux.
      - rewrite (ex_s_hd_np_S H _ _ _ _ Hno).
        destruct (N.testbit _ _); [cbn [snd]; apply Haux|exact IHl]. }
    assert (Hmask : s_mask (Cell ty_ordinary bits vs) <= 1).
    { rewrite ex_s_mask_ord. clear -HF.
      induction HF as [|v t vs ts Hvt _ IH]; cbn [fold_right]; [lia|].
      apply mp_lor_le1; [apply Hvt|exact IH]. }
    split; [|split; [|split; [exact Hmask|split; [exact Hdep|]]]].
    - rewrite !(ex_s_hd_np_0 H _ _ _ Hno), Hlen.
      assert (Hk : ex_kids H ty_ordinary vs 0 = ex_kids H ty_ordinary ts 0).
      { unfold ex_kids. change (is_merkle ty_ordinary) with false. cbv iota. clear -HF.
        induction HF as [|v t vs ts Hvt _ IH]; [reflexivity|].
        cbn [map]. rewrite IH. destruct Hvt as [-> _]. reflexivity. }
      rewrite Hk. reflexivity.
    - assert (Hwfv : forallb wf_exotic vs = true).
      { clear -HF. induction HF as [|v t vs ts Hvt _ IH]; [reflexivity|].
        cbn [forallb]. rewrite IH. destruct Hvt as (_ & -> & _). reflexivity. }
      cbn [wf_exotic]. change (ty_ordinary =? ty_ordinary)%Z with true. cbv iota. rewrite andb_true_r.
      rewrite Hwfv, (proj2 (Nat.leb_le _ _) Hlb), (proj2 (Nat.leb_le (length vs) 4) ltac:(lia)).
      cbn [andb]. apply N.leb_le. fold (s_mask (Cell ty_ordinary bits vs)). lia.
    - apply mp_depth_okb_intro; [intro l; specialize (Hdep l); lia|].
      clear -HF. induction HF as [|v t vs ts Hvt _ IH]; [reflexivity|].
      cbn [forallb]. rewrite IH. destruct Hvt as (_ & _ & _ & _ & ->). reflexivity.
  Qed.

  Lemma mp_virt_good : forall t v, virt_of H v t -> wf_ord t = true -> s_depth t <= 1023 -> mp_good v t.
  Proof.
    induction t as [ty bits ts IH] using cell_ind'. intros v Hv Hwf Hd.
    pose proof Hwf as Hwf'. apply wf_ord_inv in Hwf'. destruct Hwf' as (-> & Hlb & Hlr & Hrs).
    assert (Hcase : v = s_prune H 0 (Cell (-1) bits ts) \/
                    exists vs, v = Cell ty_ordinary bits vs /\ Forall2 (virt_of H) vs ts).
    { inversion Hv; subst.
      - right. exists ts. split; [reflexivity|]. clear. induction ts; constructor; [apply V_same|assumption].
      - left. reflexivity.
      - right. eexists. split; [reflexivity|assumption]. }
    destruct Hcase as [-> | (vs & -> & HF)]; [apply mp_prune_good; assumption|].
    change (-1)%Z with ty_ordinary in *.
    apply mp_node_good; try assumption.
    assert (Hds : Forall (fun r => s_depth r <= 1022) ts).
    { apply maxl_le_Forall. rewrite s_depth_cell in Hd. destruct ts; [cbn; lia|lia]. }
    clear Hv Hwf Hd Hlr. induction HF as [|v t vs ts Hvt _ IH']; constructor.
    - cbn [forallb] in Hrs. apply andb_prop in Hrs. destruct Hrs as [Hr _].
      inversion IH as [|? ? Ht _]; subst. inversion Hds as [|? ? Hdt _]; subst.
      apply Ht; [exact Hvt|exact Hr|lia].
    - cbn [forallb] in Hrs. apply andb_prop in Hrs. destruct Hrs as [_ Hrs].
      inversion IH; subst. inversion Hds; subst. apply IH'; assumption.
  Qed.

  (* ---- (c) the Merkle-proof cell ---- *)
  Lemma mp_mproof_data h d : length h = 32%nat -> bytes_ok h ->
    length (to_bits 8 3 ++ bytes_to_bits h ++ to_bits 16 d) = 280%nat /\
    slice (data_bytes (to_bits 8 3 ++ bytes_to_bits h ++ to_bits 16 d)) 1 33 = h.
  Proof.
    intros Hl Hok.
    assert (Hlen : length (to_bits 8 3 ++ bytes_to_bits h ++ to_bits 16 d) = 280%nat).
    { rewrite !app_length, !to_bits_length, ex_bytes_to_bits_length, Hl. reflexivity. }
    split; [exact Hlen|].
    unfold data_bytes. rewrite Hlen. change (280 mod 8 =? 0)%nat with true. cbv iota.
    rewrite (ex_bits_to_bytes_8 _ _ (to_bits_length 8 3)), (ex_bits_to_bytes_bytes _ _ Hok).
    unfold slice. cbn [skipn]. change (33 - 1)%nat with 32%nat.
    rewrite firstn_app, <- Hl, Nat.sub_diag, firstn_all. cbn [firstn]. apply app_nil_r.
  Qed.

  Lemma mp_build_mproof v t h d : mp_good v t -> s_depth t <= 1022 -> length h = 32%nat -> bytes_ok h ->
    exists kv k, build H v = Ok kv /\ get_hash kv 0 = Ok (s_hash_at H v 0) /\
      build H (s_mproof v h d) = Ok k /\ k_ty k = ty_mproof /\
      k_bits k = to_bits 8 3 ++ bytes_to_bits h ++ to_bits 16 d /\ k_refs k = [kv].
  Proof.
    intros (Hhd & Hwf & Hm & Hdep & Hdok) Hd Hl Hok.
    destruct (exotic_levels H H_len v Hwf Hdok) as (kv & Hkv & _ & Hlv).
    destruct (Hlv 0%nat ltac:(lia)) as [Hgh _].
    destruct (mp_mproof_data h d Hl Hok) as [Hlen _].
    unfold s_mproof. set (bits := to_bits 8 3 ++ bytes_to_bits h ++ to_bits 16 d) in *.
    assert (HwfM : wf_exotic (Cell ty_mproof bits [v]) = true) by (apply mp_wf_mproof; [lia|assumption..]).
    assert (Hm0 : s_mask (Cell ty_mproof bits [v]) = 0) by (rewrite ex_s_mask_mproof; apply mp_shiftr_le1; exact Hm).
    assert (HdM : depth_okb H (Cell ty_mproof bits [v]) = true).
    { apply mp_depth_okb_intro; [|cbn [forallb]; rewrite Hdok; reflexivity].
      intro l. unfold s_depth_at. rewrite (ex_s_hd_mask0 H _ l Hm0).
      rewrite (ex_s_hd_np_0 H ty_mproof bits [v] eq_refl). cbn [snd].
      rewrite ex_depth_of_kids. change (is_merkle ty_mproof) with true. cbv iota.
      cbn [map maxl fold_right]. specialize (Hdep 1%nat). lia. }
    destruct (exotic_levels H H_len _ HwfM HdM) as (k & Hk & _).
    exists kv, k. split; [exact Hkv|]. split; [exact Hgh|]. split; [exact Hk|].
    rewrite ex_build_eq in Hk. cbn [mapM'] in Hk. rewrite Hkv in Hk. cbn [bind] in Hk.
    apply mp_mk_cell_inv in Hk. destruct Hk as (E1 & E2 & E3 & _). auto.
  Qed.

  Theorem proof_complete : forall v t, virt_of H v t -> wf_ord t = true -> s_depth t <= 1022 ->
    exists k, build H (s_mproof v (s_hash H t) (s_depth t)) = Ok k /\
              check_proof k (s_hash H t) = Ok tt.
  Proof using H H_len H_ok.
    intros v t Hv Hwf Hd.
    pose proof (mp_virt_good t v Hv Hwf ltac:(lia)) as Hg.
    destruct (mp_build_mproof v t (s_hash H t) (s_depth t) Hg Hd (mp_s_hash_len t) (mp_s_hash_ok t))
      as (kv & k & Hkv & Hgh & Hk & Hty & Hbits & Hrefs).
    exists k. split; [exact Hk|].
    unfold check_proof, k_data, k_ref. rewrite Hty, Hbits, Hrefs.
    change (ty_mproof =? ty_mproof)%Z with true. cbn [negb nth_error bind].
    destruct (mp_mproof_data (s_hash H t) (s_depth t) (mp_s_hash_len t) (mp_s_hash_ok t)) as [_ Hsl].
    rewrite Hsl, mp_bytes_eqb_refl. cbn [negb]. rewrite Hgh. cbn [bind].
    destruct Hg as (Hhd & _). unfold s_hash_at. rewrite Hhd, (mp_ord_hd0 t Hwf). cbn [fst].
    rewrite mp_bytes_eqb_refl. reflexivity.
  Qed.

  Theorem header_complete : forall v t, virt_of H v t -> wf_ord t = true -> s_depth t <= 1023 ->
    exists k, build H v = Ok k /\ check_block_header_proof k (s_hash H t) false = Ok None.
  Proof using H H_len H_ok.
    intros v t Hv Hwf Hd.
    destruct (mp_virt_good t v Hv Hwf Hd) as (Hhd & Hwfv & _ & _ & Hdok).
    destruct (exotic_levels H H_len v Hwfv Hdok) as (k & Hk & _ & Hlv).
    destruct (Hlv 0%nat ltac:(lia)) as [Hgh _].
    exists k. split; [exact Hk|].
    unfold check_block_header_proof. change (N.of_nat 0) with 0 in Hgh. rewrite Hgh. cbn [bind].
    unfold s_hash_at. rewrite Hhd, (mp_ord_hd0 t Hwf). cbn [fst].
    rewrite mp_bytes_eqb_refl. reflexivity.
  Qed.
End Complete.

(* ------------------------------------------------------------------ *)
(* 3. soundness: unique readability of the representation              *)
(* ------------------------------------------------------------------ *)
Lemma mp_app_inv_len {A} : forall (a c b d : list A),
  length a = length c -> a ++ b = c ++ d -> a = c /\ b = d.
Proof.
  induction a as [|x a IH]; intros [|y c] b d Hl E; cbn [length] in Hl; try discriminate.
  - split; [reflexivity|exact E].
  - cbn [app] in E. injection E as -> E. injection Hl as Hl.
    destruct (IH c b d Hl E) as [-> ->]. split; reflexivity.
Qed.

Lemma mp_split8 (a : list bool) n : length a = (8 * S n)%nat ->
  exists l a', a = l ++ a' /\ length l = 8%nat /\ length a' = (8 * n)%nat.
Proof.
  intro Hl. exists (firstn 8 a), (skipn 8 a). split; [symmetry; apply firstn_skipn|].
  rewrite firstn_length, skipn_length. lia.
Qed.

Lemma mp_b2b_app : forall n a r, length a = (8 * n)%nat ->
  bits_to_bytes (a ++ r) = bits_to_bytes a ++ bits_to_bytes r.
Proof.
  induction n as [|n IH]; intros a r Hl.
  - destruct a; [reflexivity|cbn [length] in Hl; lia].
  - destruct (mp_split8 a n Hl) as (l & a' & -> & H8 & Hl').
    rewrite <- app_assoc, !(ex_bits_to_bytes_8 _ _ H8), (IH _ _ Hl'). reflexivity.
Qed.

Lemma mp_b2b_len : forall n a, length a = (8 * n)%nat -> length (bits_to_bytes a) = n.
Proof.
  induction n as [|n IH]; intros a Hl.
  - destruct a; [reflexivity|cbn [length] in Hl; lia].
  - destruct (mp_split8 a n Hl) as (l & a' & -> & H8 & Hl').
    rewrite (ex_bits_to_bytes_8 _ _ H8). cbn [length]. f_equal. apply IH. exact Hl'.
Qed.

Lemma mp_b2b_rt : forall n a, length a = (8 * n)%nat -> bytes_to_bits (bits_to_bytes a) = a.
Proof.
  induction n as [|n IH]; intros a Hl.
  - destruct a; [reflexivity|cbn [length] in Hl; lia].
  - destruct (mp_split8 a n Hl) as (l & a' & -> & H8 & Hl').
    rewrite (ex_bits_to_bytes_8 _ _ H8).
    change (bytes_to_bits (of_bits l :: bits_to_bytes a'))
      with (to_bits 8 (of_bits l) ++ bytes_to_bits (bits_to_bytes a')).
    rewrite (IH _ Hl'). f_equal.
    pose proof (to_bits_of_bits l) as E. rewrite H8 in E. exact E.
Qed.

Lemma mp_pad_len b : length (s_pad b) = (8 * ((length b + 7) / 8))%nat.
Proof.
  unfold s_pad. destruct (Nat.eqb_spec (length b mod 8) 0) as [E|E].
  - pose proof (Nat.div_mod (length b) 8 ltac:(lia)) as Hdm. rewrite E in Hdm.
    replace (length b + 7)%nat with (7 + (length b / 8) * 8)%nat by lia.
    rewrite Nat.div_add by lia. change (7 / 8)%nat with 0%nat. lia.
  - rewrite !app_length, repeat_length. cbn [length].
    pose proof (Nat.div_mod (length b) 8 ltac:(lia)) as Hdm.
    pose proof (Nat.mod_upper_bound (length b) 8 ltac:(lia)) as Hub.
    replace (length b + 7)%nat with ((length b mod 8 - 1) + (length b / 8 + 1) * 8)%nat by lia.
    rewrite Nat.div_add by lia. rewrite (Nat.div_small (length b mod 8 - 1) 8) by lia. lia.
Qed.

Lemma mp_d2_split b : s_d2 b = 2 * N.of_nat (b / 8) + (if (b mod 8 =? 0)%nat then 0 else 1) /\
  ((b + 7) / 8 = b / 8 + (if (b mod 8 =? 0)%nat then 0 else 1))%nat.
Proof.
  pose proof (Nat.div_mod b 8 ltac:(lia)) as Hdm.
  pose proof (Nat.mod_upper_bound b 8 ltac:(lia)) as Hub.
  assert (Hq : ((b + 7) / 8 = b / 8 + (if (b mod 8 =? 0)%nat then 0 else 1))%nat).
  { destruct (Nat.eqb_spec (b mod 8) 0) as [Hr|Hr].
    - replace (b + 7)%nat with (7 + (b / 8) * 8)%nat by lia. rewrite Nat.div_add by lia.
      change (7 / 8)%nat with 0%nat. lia.
    - replace (b + 7)%nat with ((b mod 8 - 1) + (b / 8 + 1) * 8)%nat by lia. rewrite Nat.div_add by lia.
      rewrite (Nat.div_small (b mod 8 - 1) 8) by lia. lia. }
  split; [|exact Hq]. unfold s_d2. rewrite Hq. destruct (b mod 8 =? 0)%nat; lia.
Qed.

Lemma mp_repeat_no_true k b r : repeat false k = b ++ true :: r -> False.
Proof.
  intro E. assert (Hin : In true (repeat false k)) by (rewrite E; apply in_elt).
  apply repeat_spec in Hin. discriminate.
Qed.

Lemma mp_marker : forall a b k k',
  a ++ true :: repeat false k = b ++ true :: repeat false k' -> a = b.
Proof.
  induction a as [|x a IH]; intros [|y b] k k' E; cbn [app] in E.
  - reflexivity.
  - injection E as _ E. exfalso. apply (mp_repeat_no_true _ _ _ E).
  - injection E as _ E. exfalso. symmetry in E. apply (mp_repeat_no_true _ _ _ E).
  - injection E as -> E. f_equal. apply (IH _ _ _ E).
Qed.

(* the descriptor byte and the padded data determine the data bits *)
Lemma mp_pad_inj b b' x x' : s_d2 (length b) = s_d2 (length b') ->
  bits_to_bytes (s_pad b) ++ x = bits_to_bytes (s_pad b') ++ x' -> b = b' /\ x = x'.
Proof.
  intros Hd E.
  destruct (mp_d2_split (length b)) as [D1 Q1]. destruct (mp_d2_split (length b')) as [D2 Q2].
  assert (Hn : ((length b + 7) / 8 = (length b' + 7) / 8)%nat /\
               (length b mod 8 =? 0)%nat = (length b' mod 8 =? 0)%nat).
  { rewrite D1, D2 in Hd. rewrite Q1, Q2.
    destruct (length b mod 8 =? 0)%nat, (length b' mod 8 =? 0)%nat; split; try reflexivity; lia. }
  destruct Hn as [Hn Hz].
  apply mp_app_inv_len in E.
  2:{ rewrite (mp_b2b_len _ _ (mp_pad_len b)), (mp_b2b_len _ _ (mp_pad_len b')). exact Hn. }
  destruct E as [E Ex]. split; [|exact Ex].
  apply (f_equal bytes_to_bits) in E.
  rewrite (mp_b2b_rt _ _ (mp_pad_len b)), (mp_b2b_rt _ _ (mp_pad_len b')) in E.
  unfold s_pad in E. rewrite <- Hz in E.
  destruct (length b mod 8 =? 0)%nat; [exact E|].
  cbn [app] in E. apply mp_marker in E. exact E.
Qed.

Lemma mp_concat_inj n : forall (l1 l2 : list (list N)),
  Forall (fun x => length x = n) l1 -> Forall (fun x => length x = n) l2 ->
  length l1 = length l2 -> concat l1 = concat l2 -> l1 = l2.
Proof.
  induction l1 as [|x l1 IH]; intros [|y l2] H1 H2 Hl E; cbn [length] in Hl; try discriminate;
    [reflexivity|].
  inversion H1 as [|? ? Hx H1']. inversion H2 as [|? ? Hy H2']. subst.
  cbn [concat] in E. apply mp_app_inv_len in E; [|congruence].
  destruct E as [-> E]. f_equal. apply IH; auto.
Qed.

Lemma mp_concat_len {A} (f : A -> list N) n l : (forall x, length (f x) = n) ->
  length (concat (map f l)) = (n * length l)%nat.
Proof.
  intro Hf. induction l as [|a l IH]; cbn [map concat length]; [lia|].
  rewrite app_length, IH, Hf. lia.
Qed.

Section Sound.
  Variable H : list N -> list N.
  Hypothesis H_len : forall m, length (H m) = 32%nat.
  Hypothesis H_ok : forall m, bytes_ok (H m).

  (* a pruned leaf of a virtualised tree, read back *)
  Lemma mp_pruned_virtual bits rs : wf_virtual (Cell ty_pruned bits rs) = true ->
    rs = [] /\ exists h d, length h = 32%nat /\
      bits = to_bits 8 1 ++ to_bits 8 1 ++ bytes_to_bits h ++ to_bits 16 d /\
      s_hash_at H (Cell ty_pruned bits []) 0 = h.
  Proof.
    cbn [wf_virtual]. change (ty_pruned =? ty_pruned)%Z with true. cbv iota. intro Hw.
    apply andb_prop in Hw. destruct Hw as [Hw Hm2].
    apply andb_prop in Hw. destruct Hw as [Hw Hm1].
    apply andb_prop in Hw. destruct Hw as [Hrs Hlen].
    apply Nat.eqb_eq in Hrs, Hlen. apply N.eqb_eq in Hm1, Hm2.
    split; [destruct rs; [reflexivity|discriminate]|].
    pose proof Hm2 as Hmask.
    unfold slice in Hm2. change (16 - 8)%nat with 8%nat in Hm2.
    set (b1 := firstn 8 bits) in *. set (r1 := skipn 8 bits) in *.
    set (b2 := firstn 8 r1) in *. set (r2 := skipn 8 r1).
    set (b3 := firstn 256 r2). set (b4 := skipn 256 r2).
    assert (L1 : length b1 = 8%nat) by (unfold b1; rewrite firstn_length; lia).
    assert (Lr1 : length r1 = 280%nat) by (unfold r1; rewrite skipn_length; lia).
    assert (L2 : length b2 = 8%nat) by (unfold b2; rewrite firstn_length; lia).
    assert (Lr2 : length r2 = 272%nat) by (unfold r2; rewrite skipn_length; lia).
    assert (L3 : length b3 = (8 * 32)%nat) by (unfold b3; rewrite firstn_length; lia).
    assert (L4 : length b4 = 16%nat) by (unfold b4; rewrite skipn_length; lia).
    assert (Eb : bits = b1 ++ b2 ++ b3 ++ b4).
    { unfold b1, b2, b3, b4, r2, r1. rewrite !firstn_skipn. reflexivity. }
    assert (E1 : to_bits 8 1 = b1).
    { pose proof (to_bits_of_bits b1) as E. rewrite L1, Hm1 in E. exact E. }
    assert (E2 : to_bits 8 1 = b2).
    { pose proof (to_bits_of_bits b2) as E. rewrite L2, Hm2 in E. exact E. }
    assert (E4 : to_bits 16 (of_bits b4) = b4).
    { pose proof (to_bits_of_bits b4) as E. rewrite L4 in E. exact E. }
    pose proof (mp_b2b_len 32 b3 L3) as Hhl. pose proof (mp_b2b_rt 32 b3 L3) as Hrt.
    exists (bits_to_bytes b3), (of_bits b4).
    split; [exact Hhl|]. split; [rewrite Hrt, E4; rewrite E1 at 1; rewrite E2; exact Eb|].
    assert (Hpad : s_pad bits = bits).
    { unfold s_pad. rewrite Hlen. reflexivity. }
    assert (Hdata : bits_to_bytes bits = of_bits b1 :: of_bits b2 :: bits_to_bytes b3 ++ bits_to_bytes b4).
    { rewrite Eb. rewrite (ex_bits_to_bytes_8 _ _ L1), (ex_bits_to_bytes_8 _ _ L2), (mp_b2b_app 32 b3 b4 L3).
      reflexivity. }
    unfold s_hash_at. rewrite ex_s_hd_pruned. cbv zeta. rewrite ex_s_mask_pruned, Hmask, ex_low_mask_0.
    change (popcount 0 =? popcount 1) with false. cbv iota. cbn [fst].
    change (N.to_nat (2 + 32 * popcount 0)) with 2%nat.
    change (N.to_nat (2 + 32 * popcount 0 + 32)) with 34%nat.
    rewrite Hpad, Hdata. unfold slice. cbn [skipn]. change (34 - 2)%nat with 32%nat.
    set (h := bits_to_bytes b3) in *.
    rewrite firstn_app, <- Hhl, Nat.sub_diag, firstn_all. cbn [firstn]. apply app_nil_r.
  Qed.

  Lemma mp_virtual_hash_len v : wf_virtual v = true -> length (s_hash_at H v 0) = 32%nat.
  Proof.
    destruct v as [ty bits rs]. intro Hw.
    destruct (Z.eqb_spec ty ty_pruned) as [->|Hnp].
    - destruct (mp_pruned_virtual bits rs Hw) as (-> & h & d & Hl & _ & ->). exact Hl.
    - apply Z.eqb_neq in Hnp. unfold s_hash_at. rewrite (ex_s_hd_np_0 H _ _ _ Hnp). cbn [fst]. apply H_len.
  Qed.

  Definition mp_snd (v : cell) : Prop :=
    forall t, wf_virtual v = true -> wf_ord t = true ->
      s_hash_at H v 0 = s_hash H t -> covers H v t \/ collision H.

  Lemma mp_children : forall vs ts, Forall mp_snd vs ->
    forallb wf_virtual vs = true -> forallb wf_ord ts = true ->
    map (fun r => s_hash_at H r 0) vs = map (s_hash H) ts ->
    Forall2 (covers H) vs ts \/ collision H.
  Proof.
    induction vs as [|v vs IH]; intros [|t ts] HF Hwv Hwt E; cbn [map] in E; try discriminate.
    - left. constructor.
    - injection E as E0 E.
      cbn [forallb] in Hwv, Hwt.
      apply andb_prop in Hwv. destruct Hwv as [Hv Hwv].
      apply andb_prop in Hwt. destruct Hwt as [Ht Hwt].
      inversion HF as [|? ? Hsv HF']; subst.
      destruct (Hsv t Hv Ht E0) as [Hc|Hc]; [|right; exact Hc].
      destruct (IH ts HF' Hwv Hwt E) as [Hcs|Hcs]; [|right; exact Hcs].
      left. constructor; assumption.
  Qed.

  Theorem virtual_sound : forall v t, wf_virtual v = true -> wf_ord t = true ->
    s_hash_at H v 0 = s_hash H t -> covers H v t \/ collision H.
  Proof using H H_len H_ok.
    induction v as [ty bits vs IH] using cell_ind'. intros t Hwv Hwt Hh.
    destruct (Z.eqb_spec ty ty_pruned) as [->|Hnp].
    - (* a pruned leaf names the hash it was compared with *)
      destruct (mp_pruned_virtual bits vs Hwv) as (-> & h & d & Hl & Eb & Ehash).
      left. apply C_pruned. exists d. rewrite <- Hh, Ehash. f_equal. exact Eb.
    - (* an ordinary node: equal hashes mean equal representations, or a collision *)
      apply Z.eqb_neq in Hnp.
      pose proof Hwv as Hwv'. cbn [wf_virtual] in Hwv'. rewrite Hnp in Hwv'.
      apply andb_prop in Hwv'. destruct Hwv' as [Hwv' Hwvs].
      apply andb_prop in Hwv'. destruct Hwv' as [Hwv' Hlv].
      apply andb_prop in Hwv'. destruct Hwv' as [Hty Hlb].
      apply Z.eqb_eq in Hty. subst ty.
      destruct t as [ty' bits' ts].
      apply wf_ord_inv in Hwt. destruct Hwt as (-> & Hlb' & Hlt & Hwts).
      unfold s_hash_at in Hh. rewrite (ex_s_hd_np_0 H _ _ _ Hnp) in Hh. cbn [fst] in Hh.
      rewrite s_hash_cell in Hh.
      change (is_exotic ty_ordinary) with false in Hh.
      rewrite ex_tail_kids in Hh. change (is_merkle ty_ordinary) with false in Hh. cbv iota in Hh.
      match type of Hh with H ?m1 = H ?m2 =>
        destruct (list_eq_dec N.eq_dec m1 m2) as [E|NE];
          [|right; exists m1, m2; split; [exact NE|exact Hh]] end.
      cbn [app] in E. injection E as E1 E2 E3.
      assert (Hlen : length vs = length ts) by (unfold s_d1 in E1; lia).
      apply mp_pad_inj in E3; [|exact E2]. destruct E3 as [<- E3].
      apply mp_app_inv_len in E3.
      2:{ rewrite map_map.
          rewrite (mp_concat_len (fun r => be_bytes 2 (s_depth_at H r 0)) 2 vs (fun x => be_bytes_length 2 _)).
          rewrite (mp_concat_len (fun r => be_bytes 2 (s_depth r)) 2 ts (fun x => be_bytes_length 2 _)).
          rewrite Hlen. reflexivity. }
      destruct E3 as [_ E3].
      apply (mp_concat_inj 32) in E3.
      + destruct (mp_children vs ts IH Hwvs Hwts E3) as [Hc|Hc]; [|right; exact Hc].
        left. apply (C_node H bits vs ts Hc).
      + apply Forall_map. apply Forall_forall. intros x Hx. apply mp_virtual_hash_len.
        apply (proj1 (forallb_forall _ _) Hwvs x Hx).
      + apply Forall_map. apply Forall_forall. intros x _. apply (mp_s_hash_len H H_len).
      + rewrite !map_length. exact Hlen.
  Qed.
End Sound.
