(* C11 proofs: Merkle proof checks (Model/Proof.v) against the specification of virtualised trees
   (Spec/MerkleProof.v).  Completeness of check_proof / check_block_header_proof for proofs built by
   pruning, collision-relative soundness, and the meaning of the account-state hash comparison.
   Helper lemmas carry the prefix mp_.  Sections 5 and 6 (prefix mg_) redo completeness and soundness for
   original trees of ANY cell types - nested Merkle proofs / updates, pruned branches of mask 2^j. *)
From Coq Require Import NArith ZArith List Bool Lia.
From PTQ Require Import Base.Result Base.Bytes Base.Bits Model.Cell Model.Proof
  Spec.CellRepr Spec.CellWf Spec.MerkleProof Proofs.CellOrd Proofs.CellExotic.
Import ListNotations.
Local Open Scope N_scope.

(* ------------------------------------------------------------------ *)
(* 1. what acceptance means                                            *)
(* ------------------------------------------------------------------ *)
Lemma mp_bytes_eqb_refl a : bytes_eqb a a = true.
Proof. apply bytes_eqb_eq. reflexivity. Qed.

Lemma mp_bytes_eqb_neq a b : a <> b -> bytes_eqb a b = false.
Proof.
  intro Hne. destruct (bytes_eqb a b) eqn:E; [|reflexivity].
  apply bytes_eqb_eq in E. contradiction.
Qed.

Lemma check_proof_inv : forall k h, check_proof k h = Ok tt ->
  k_ty k = ty_mproof /\ slice (k_data k) 1 33 = h /\
  exists r, k_ref k 0 = Ok r /\ get_hash r 0 = Ok h.
Proof.
  intros k h Hc. unfold check_proof in Hc.
  destruct (k_ty k =? ty_mproof)%Z eqn:Hty; cbn [negb] in Hc; [|discriminate].
  destruct (bytes_eqb (slice (k_data k) 1 33) h) eqn:Hsl; cbn [negb] in Hc; [|discriminate].
  destruct (k_ref k 0) as [r|e] eqn:Hr; cbn [bind] in Hc; [|discriminate].
  destruct (get_hash r 0) as [h'|e] eqn:Hh; cbn [bind] in Hc; [|discriminate].
  destruct (bytes_eqb h' h) eqn:Hhh; [|discriminate].
  apply Z.eqb_eq in Hty. apply bytes_eqb_eq in Hsl. apply bytes_eqb_eq in Hhh. subst h'.
  split; [exact Hty|]. split; [exact Hsl|]. exists r. split; [reflexivity|exact Hh].
Qed.

Lemma wrong_hash_rejected : forall k h h', check_proof k h = Ok tt -> h' <> h ->
  exists e, check_proof k h' = Err e.
Proof.
  intros k h h' Hc Hne. apply check_proof_inv in Hc. destruct Hc as (Hty & Hsl & _).
  exists EProof. unfold check_proof.
  apply Z.eqb_eq in Hty. rewrite Hty. cbn [negb].
  rewrite Hsl, mp_bytes_eqb_neq by (intro E; apply Hne; symmetry; exact E).
  reflexivity.
Qed.

Lemma account_hashes_inv : forall bp sp sa claimed root_hash,
  check_account_hashes bp sp sa claimed root_hash = Ok tt ->
  exists acc, k_ref sa 0 = Ok acc /\ get_hash acc 0 = Ok (k_hash claimed).
Proof.
  intros bp sp sa claimed root_hash Hc. unfold check_account_hashes in Hc.
  destruct (k_ref bp 0) as [blk|e]; cbn [bind] in Hc; [|discriminate].
  destruct (check_block_header_proof blk root_hash true) as [[sh|]|e]; cbn [bind] in Hc; try discriminate.
  destruct (k_ref sp 0) as [st|e]; cbn [bind] in Hc; [|discriminate].
  destruct (get_hash st 0) as [h|e]; cbn [bind] in Hc; [|discriminate].
  destruct (bytes_eqb h sh); cbn [negb] in Hc; [|discriminate].
  destruct (k_ref sa 0) as [acc|e]; cbn [bind] in Hc; [|discriminate].
  destruct (get_hash acc 0) as [committed|e] eqn:Hh; cbn [bind] in Hc; [|discriminate].
  destruct (bytes_eqb committed (k_hash claimed)) eqn:He; cbn [negb] in Hc; [|discriminate].
  apply bytes_eqb_eq in He. subst committed.
  exists acc. split; [reflexivity|exact Hh].
Qed.

(* ------------------------------------------------------------------ *)
(* shape of a constructed cell                                         *)
(* ------------------------------------------------------------------ *)
Lemma mp_foldM_inv {A B} (f : A -> B -> result A) (P : A -> Prop) :
  (forall a x a', P a -> f a x = Ok a' -> P a') ->
  forall l a a', P a -> foldM f l a = Ok a' -> P a'.
Proof.
  intro Hstep. induction l as [|x l IH]; intros a a' Ha Hf; cbn [foldM] in Hf.
  - injection Hf as <-. exact Ha.
  - destruct (f a x) as [a1|e] eqn:E; cbn [bind] in Hf; [|discriminate].
    apply (IH a1 a'); [apply (Hstep a x a1 Ha E)|exact Hf].
Qed.

Section Shape.
  Variable H : list N -> list N.

  (* every hash the loop stores for an exotic cell is H of a message whose first byte is >= 8 *)
  Definition mp_exh (h : list N) : Prop := exists d1 rest, h = H (d1 :: rest) /\ 8 <= d1.

  Lemma mp_step_exotic ty bits krefs mask off st li st' :
    is_exotic ty = true ->
    Forall mp_exh (snd (fst st)) ->
    hash_step H ty bits krefs mask off st li = Ok st' ->
    Forall mp_exh (snd (fst st')).
  Proof.
    intros Hex Hst Hs. destruct st as [[hi hs] ds]. cbn [fst snd] in Hst.
    unfold hash_step in Hs.
    destruct (negb (lm_significant mask li)); [injection Hs as <-; exact Hst|].
    destruct (hi <? off); [injection Hs as <-; exact Hst|].
    rewrite Hex in Hs.
    destruct (refs_descriptor (length krefs) true (lm_apply mask li)) as [d1|e] eqn:Hd1;
      cbn [bind] in Hs; [|discriminate].
    destruct (bits_descriptor (length bits)) as [d2|e]; cbn [bind] in Hs; [|discriminate].
    match type of Hs with bind ?x _ = _ => destruct x as [payload|e] end; cbn [bind] in Hs; [|discriminate].
    match type of Hs with bind ?x _ = _ => destruct x as [rds|e] end; cbn [bind] in Hs; [|discriminate].
    match type of Hs with bind ?x _ = _ => destruct x as [dbytes|e] end; cbn [bind] in Hs; [|discriminate].
    match type of Hs with bind ?x _ = _ => destruct x as [depth|e] end; cbn [bind] in Hs; [|discriminate].
    match type of Hs with bind ?x _ = _ => destruct x as [rhs|e] end; cbn [bind] in Hs; [|discriminate].
    injection Hs as <-. cbn [fst snd].
    apply Forall_app. split; [exact Hst|]. constructor; [|constructor].
    unfold refs_descriptor, to_byte1 in Hd1.
    destruct (_ <? 256); [|discriminate]. injection Hd1 as <-.
    eexists _, _. split; [cbn [app]; reflexivity|]. cbn [b2n]. lia.
  Qed.

  Lemma mp_mk_cell_inv ty bits krefs k : mk_cell H ty bits krefs = Ok k ->
    k_ty k = ty /\ k_bits k = bits /\ k_refs k = krefs /\ k_hashes k <> [] /\
    (is_exotic ty = true -> Forall mp_exh (k_hashes k)).
  Proof.
    intro Hm. unfold mk_cell in Hm.
    destruct (resolve_mask ty bits krefs) as [mask|e]; cbn [bind] in Hm; [|discriminate].
    cbv zeta in Hm.
    match type of Hm with bind (foldM ?f ?l ?a) _ = _ =>
      destruct (foldM f l a) as [[[hi hs] ds]|e] eqn:Hloop end; cbn [bind] in Hm; [|discriminate].
    destruct (refs_descriptor _ _ _); cbn [bind] in Hm; [|discriminate].
    destruct (bits_descriptor _); cbn [bind] in Hm; [|discriminate].
    destruct hs as [|h0 hs]; [discriminate|]. injection Hm as <-.
    cbn [k_ty k_bits k_refs k_hashes].
    repeat (split; [reflexivity|]). split; [discriminate|].
    intro Hex.
    change (Forall mp_exh (snd (fst (hi, h0 :: hs, ds)))).
    refine (mp_foldM_inv _ (fun st : hstate => Forall mp_exh (snd (fst st)))
             (fun a x a' Ha Hs => mp_step_exotic _ _ _ _ _ a x a' Hex Ha Hs) _ (0, [], []) _ _ Hloop).
    constructor.
  Qed.
End Shape.

(* ------------------------------------------------------------------ *)
(* 4. a pruned branch is not an ordinary cell                          *)
(* ------------------------------------------------------------------ *)
Lemma mp_last_Forall {A} (P : A -> Prop) l d : l <> [] -> Forall P l -> P (last l d).
Proof.
  intros Hne Hf. induction Hf as [|x l Hx Hl IH]; [congruence|].
  destruct l as [|y l]; [exact Hx|]. apply IH. discriminate.
Qed.

Lemma pruned_impostor_collides (H : list N -> list N) : forall c kc t,
  build H c = Ok kc -> k_ty kc = ty_pruned -> wf_ord t = true ->
  k_hash kc = s_hash H t -> collision H.
Proof.
  intros [ty bits rs] kc [ty' bits' ts] Hb Hty Hwf Hh.
  rewrite ex_build_eq in Hb.
  destruct (mapM' (build H) rs) as [krefs|e]; cbn [bind] in Hb; [|discriminate].
  apply mp_mk_cell_inv in Hb. destruct Hb as (Ety & _ & _ & Hne & Hex).
  rewrite Ety in Hty. rewrite Hty in Hex.
  pose proof (mp_last_Forall _ _ [] Hne (Hex eq_refl)) as Hl. fold (k_hash kc) in Hl.
  destruct Hl as (d1 & rest & Hk & Hd1).
  apply wf_ord_inv in Hwf. destruct Hwf as (_ & _ & Hlr & _).
  rewrite s_hash_cell, Hk in Hh. cbn [app] in Hh.
  eexists _, _. split; [|exact Hh].
  intro E. injection E as E _. unfold s_d1 in E. cbn [b2n] in E. lia.
Qed.

(* ------------------------------------------------------------------ *)
(* 2. completeness                                                     *)
(* ------------------------------------------------------------------ *)
Lemma mp_lor_le1 a b : a <= 1 -> b <= 1 -> N.lor a b <= 1.
Proof.
  intros Ha Hb.
  assert (Ea : a = 0 \/ a = 1) by lia. assert (Eb : b = 0 \/ b = 1) by lia.
  destruct Ea as [-> | ->], Eb as [-> | ->]; cbn; lia.
Qed.

Lemma mp_shiftr_le1 m : m <= 1 -> N.shiftr m 1 = 0.
Proof. intro Hm. assert (E : m = 0 \/ m = 1) by lia. destruct E as [-> | ->]; reflexivity. Qed.

Lemma mp_maxl_mono {A B} (f : A -> N) (g : B -> N) vs ts :
  Forall2 (fun v t => f v <= g t) vs ts -> maxl (map f vs) <= maxl (map g ts).
Proof.
  induction 1 as [|v t vs ts Hvt _ IH]; cbn [map maxl fold_right]; [lia|].
  fold (maxl (map f vs)). fold (maxl (map g ts)). lia.
Qed.

Lemma mp_Forall2_impl {A B} (P Q : A -> B -> Prop) l1 l2 :
  (forall a b, P a b -> Q a b) -> Forall2 P l1 l2 -> Forall2 Q l1 l2.
Proof. intros HPQ HF. induction HF; constructor; auto. Qed.

Lemma mp_low_mask_1 l : low_mask 1 (S l) = 1.
Proof.
  rewrite ex_low_mask_mod. apply N.mod_small.
  rewrite Nat2N.inj_succ, N.pow_succ_r'. pose proof (N.pow_nonzero 2 (N.of_nat l) ltac:(lia)). lia.
Qed.

Lemma mp_wf_pruned1 bits : length bits = 288%nat -> s_mask (Cell ty_pruned bits []) = 1 ->
  wf_exotic (Cell ty_pruned bits []) = true.
Proof.
  intros Hl Hm. cbn [wf_exotic length forallb]. rewrite Hm, Hl. vm_compute. reflexivity.
Qed.

Lemma mp_wf_mproof bits v : (length bits <= 1023)%nat -> wf_exotic v = true -> s_mask v <= 1 ->
  wf_exotic (Cell ty_mproof bits [v]) = true.
Proof.
  intros Hlb Hwf Hm.
  assert (Hm0 : s_mask (Cell ty_mproof bits [v]) = 0) by (rewrite ex_s_mask_mproof; apply mp_shiftr_le1; exact Hm).
  cbn [wf_exotic length forallb]. rewrite Hm0, Hwf, (proj2 (Nat.leb_le _ _) Hlb). reflexivity.
Qed.

Section Complete.
  Variable H : list N -> list N.
  Hypothesis H_len : forall m, length (H m) = 32%nat.
  Hypothesis H_ok : forall m, bytes_ok (H m).

  (* ---- (a) ordinary trees in the level-wise specification ---- *)
  Lemma mp_ord_mask t : wf_ord t = true -> s_mask t = 0.
  Proof.
    induction t as [ty bits rs IH] using cell_ind'. intro Hwf.
    apply wf_ord_inv in Hwf. destruct Hwf as (-> & _ & _ & Hrs).
    change (-1)%Z with ty_ordinary. rewrite ex_s_mask_ord.
    induction IH as [|r rs Hr _ IH']; [reflexivity|].
    cbn [forallb] in Hrs. apply andb_prop in Hrs. destruct Hrs as [Hr1 Hrs].
    cbn [fold_right]. rewrite (Hr Hr1), IH' by exact Hrs. reflexivity.
  Qed.

  Lemma mp_ord_hd0 t : wf_ord t = true -> s_hd H t 0 = (s_hash H t, s_depth t).
  Proof.
    induction t as [ty bits rs IH] using cell_ind'. intro Hwf.
    apply wf_ord_inv in Hwf. destruct Hwf as (-> & _ & _ & Hrs).
    rewrite (ex_s_hd_np_0 H (-1) bits rs eq_refl).
    assert (Hk : ex_kids H (-1) rs 0 = map (fun r => (s_hash H r, s_depth r)) rs).
    { unfold ex_kids. change (is_merkle (-1)) with false. cbv iota.
      induction IH as [|r rs Hr _ IH']; [reflexivity|].
      cbn [forallb] in Hrs. apply andb_prop in Hrs. destruct Hrs as [Hr1 Hrs].
      cbn [map]. rewrite (Hr Hr1), IH' by exact Hrs. reflexivity. }
    rewrite Hk. unfold ex_tail, ex_depth_of. rewrite !map_map. cbn [fst snd].
    rewrite s_hash_cell, s_depth_cell. change (is_exotic (-1)) with false.
    f_equal. destruct rs; reflexivity.
  Qed.

  Lemma mp_ord_hd t l : wf_ord t = true -> s_hd H t l = (s_hash H t, s_depth t).
  Proof. intro Hwf. rewrite (ex_s_hd_mask0 H t l (mp_ord_mask t Hwf)). apply mp_ord_hd0. exact Hwf. Qed.

  Lemma mp_s_hash_len t : length (s_hash H t) = 32%nat.
  Proof. destruct t. apply H_len. Qed.
  Lemma mp_s_hash_ok t : bytes_ok (s_hash H t).
  Proof. destruct t. apply H_ok. Qed.

  (* ---- (b) virtualised trees ---- *)
  Definition mp_good (v t : cell) : Prop :=
    s_hd H v 0 = s_hd H t 0 /\ wf_exotic v = true /\ s_mask v <= 1 /\
    (forall l, s_depth_at H v l <= s_depth t) /\ depth_okb H v = true.

  Lemma mp_depth_okb_intro ty bits rs :
    (forall l, s_depth_at H (Cell ty bits rs) l <= 1023) -> forallb (depth_okb H) rs = true ->
    depth_okb H (Cell ty bits rs) = true.
  Proof.
    intros Hd Hrs. cbn [depth_okb forallb]. rewrite Hrs.
    rewrite !(proj2 (N.leb_le _ _) (Hd _)). reflexivity.
  Qed.

  Lemma mp_pruned1_depth bits l : s_mask (Cell ty_pruned bits []) = 1 ->
    s_depth_at H (Cell ty_pruned bits []) (S l) = 0.
  Proof.
    intro Hm. unfold s_depth_at. rewrite ex_s_hd_pruned. cbv zeta. rewrite Hm, mp_low_mask_1.
    change (popcount 1 =? popcount 1) with true. reflexivity.
  Qed.

  Lemma mp_prune_good t : wf_ord t = true -> s_depth t <= 1023 -> mp_good (s_prune H 0 t) t.
  Proof.
    intros Hwf Hd.
    pose proof (mp_ord_hd0 t Hwf) as Ht0.
    pose proof (ex_prune_mask H 0 t ltac:(lia)) as Hpm. change (2 ^ N.of_nat 0) with 1 in Hpm.
    assert (Hhd : s_hd H (s_prune H 0 t) 0 = s_hd H t 0).
    { apply (ex_prune_hd H H_len H_ok 0 t 0); [lia|lia|apply mp_ord_mask; exact Hwf|].
      unfold s_depth_at. rewrite Ht0. cbn [snd]. lia. }
    assert (Hdep : forall l, s_depth_at H (s_prune H 0 t) l <= s_depth t).
    { intros [|l].
      - unfold s_depth_at. rewrite Hhd, Ht0. cbn [snd]. lia.
      - unfold s_prune in Hpm |- *. rewrite (mp_pruned1_depth _ l Hpm). lia. }
    split; [exact Hhd|]. split; [|split; [lia|split; [exact Hdep|]]].
    - unfold s_prune in Hpm |- *. apply mp_wf_pruned1; [|exact Hpm].
      rewrite !app_length, !to_bits_length, ex_bytes_to_bits_length.
      unfold s_hash_at. rewrite Ht0. cbn [fst]. rewrite mp_s_hash_len. reflexivity.
    - unfold s_prune in Hdep |- *. apply mp_depth_okb_intro; [|reflexivity].
      intro l. specialize (Hdep l). lia.
  Qed.

  Lemma mp_node_good bits vs ts :
    Forall2 mp_good vs ts -> (length bits <= 1023)%nat -> (length ts <= 4)%nat ->
    s_depth (Cell ty_ordinary bits ts) <= 1023 ->
    mp_good (Cell ty_ordinary bits vs) (Cell ty_ordinary bits ts).
  Proof.
    intros HF Hlb Hlr Hd.
    pose proof (ex_Forall2_length _ _ _ HF) as Hlen.
    assert (Hno : (ty_ordinary =? ty_pruned)%Z = false) by reflexivity.
    assert (Haux : forall l, ex_depth_of (ex_kids H ty_ordinary vs l) <= s_depth (Cell ty_ordinary bits ts)).
    { intro l. rewrite ex_depth_of_kids, s_depth_cell. change (is_merkle ty_ordinary) with false. cbv iota.
      assert (Hm : maxl (map (fun r => s_depth_at H r l) vs) <= maxl (map s_depth ts)).
      { apply mp_maxl_mono. apply (mp_Forall2_impl mp_good); [|exact HF].
        intros a b (_ & _ & _ & Hab & _). apply Hab. }
      destruct HF; [lia|lia]. }
    assert (Hdep : forall l, s_depth_at H (Cell ty_ordinary bits vs) l <= s_depth (Cell ty_ordinary bits ts)).
    { induction l as [|l IHl]; unfold s_depth_at.
      - rewrite (ex_s_hd_np_0 H _ _ _ Hno). cbn [snd]. apply Haux.
      - rewrite (ex_s_hd_np_S H _ _ _ _ Hno).
        destruct (N.testbit _ _); [cbn [snd]; apply Haux|exact IHl]. }
    assert (Hmask : s_mask (Cell ty_ordinary bits vs) <= 1).
    { rewrite ex_s_mask_ord. clear -HF.
      induction HF as [|v t vs ts Hvt _ IH]; cbn [fold_right]; [lia|].
      apply mp_lor_le1; [apply Hvt|exact IH]. }
    split; [|split; [|split; [exact Hmask|split; [exact Hdep|]]]].
    - rewrite !(ex_s_hd_np_0 H _ _ _ Hno), Hlen.
      assert (Hk : ex_kids H ty_ordinary vs 0 = ex_kids H ty_ordinary ts 0).
      { unfold ex_kids. change (is_merkle ty_ordinary) with false. cbv iota. clear -HF.
        induction HF as [|v t vs ts Hvt _ IH]; [reflexivity|].
        cbn [map]. rewrite IH. destruct Hvt as [-> _]. reflexivity. }
      rewrite Hk. reflexivity.
    - assert (Hwfv : forallb wf_exotic vs = true).
      { clear -HF. induction HF as [|v t vs ts Hvt _ IH]; [reflexivity|].
        cbn [forallb]. rewrite IH. destruct Hvt as (_ & -> & _). reflexivity. }
      cbn [wf_exotic]. change (ty_ordinary =? ty_ordinary)%Z with true. cbv iota. rewrite andb_true_r.
      rewrite Hwfv, (proj2 (Nat.leb_le _ _) Hlb), (proj2 (Nat.leb_le (length vs) 4) ltac:(lia)).
      cbn [andb]. apply N.leb_le. fold (s_mask (Cell ty_ordinary bits vs)). lia.
    - apply mp_depth_okb_intro; [intro l; specialize (Hdep l); lia|].
      clear -HF. induction HF as [|v t vs ts Hvt _ IH]; [reflexivity|].
      cbn [forallb]. rewrite IH. destruct Hvt as (_ & _ & _ & _ & ->). reflexivity.
  Qed.

  Lemma mp_virt_good : forall t v, virt_of H v t -> wf_ord t = true -> s_depth t <= 1023 -> mp_good v t.
  Proof.
    induction t as [ty bits ts IH] using cell_ind'. intros v Hv Hwf Hd.
    pose proof Hwf as Hwf'. apply wf_ord_inv in Hwf'. destruct Hwf' as (-> & Hlb & Hlr & Hrs).
    assert (Hcase : v = s_prune H 0 (Cell (-1) bits ts) \/
                    exists vs, v = Cell ty_ordinary bits vs /\ Forall2 (virt_of H) vs ts).
    { inversion Hv; subst.
      - right. exists ts. split; [reflexivity|]. clear. induction ts; constructor; [apply V_same|assumption].
      - left. reflexivity.
      - right. eexists. split; [reflexivity|assumption]. }
    destruct Hcase as [-> | (vs & -> & HF)]; [apply mp_prune_good; assumption|].
    change (-1)%Z with ty_ordinary in *.
    apply mp_node_good; try assumption.
    assert (Hds : Forall (fun r => s_depth r <= 1022) ts).
    { apply maxl_le_Forall. rewrite s_depth_cell in Hd. destruct ts; [cbn; lia|lia]. }
    clear Hv Hwf Hd Hlr. induction HF as [|v t vs ts Hvt _ IH']; constructor.
    - cbn [forallb] in Hrs. apply andb_prop in Hrs. destruct Hrs as [Hr _].
      inversion IH as [|? ? Ht _]; subst. inversion Hds as [|? ? Hdt _]; subst.
      apply Ht; [exact Hvt|exact Hr|lia].
    - cbn [forallb] in Hrs. apply andb_prop in Hrs. destruct Hrs as [_ Hrs].
      inversion IH; subst. inversion Hds; subst. apply IH'; assumption.
  Qed.

  (* ---- (c) the Merkle-proof cell ---- *)
  Lemma mp_mproof_data h d : length h = 32%nat -> bytes_ok h ->
    length (to_bits 8 3 ++ bytes_to_bits h ++ to_bits 16 d) = 280%nat /\
    slice (data_bytes (to_bits 8 3 ++ bytes_to_bits h ++ to_bits 16 d)) 1 33 = h.
  Proof.
    intros Hl Hok.
    assert (Hlen : length (to_bits 8 3 ++ bytes_to_bits h ++ to_bits 16 d) = 280%nat).
    { rewrite !app_length, !to_bits_length, ex_bytes_to_bits_length, Hl. reflexivity. }
    split; [exact Hlen|].
    unfold data_bytes. rewrite Hlen. change (280 mod 8 =? 0)%nat with true. cbv iota.
    rewrite (ex_bits_to_bytes_8 _ _ (to_bits_length 8 3)), (ex_bits_to_bytes_bytes _ _ Hok).
    unfold slice. cbn [skipn]. change (33 - 1)%nat with 32%nat.
    rewrite firstn_app, <- Hl, Nat.sub_diag, firstn_all. cbn [firstn]. apply app_nil_r.
  Qed.

  Lemma mp_build_mproof v t h d : mp_good v t -> s_depth t <= 1022 -> length h = 32%nat -> bytes_ok h ->
    exists kv k, build H v = Ok kv /\ get_hash kv 0 = Ok (s_hash_at H v 0) /\
      build H (s_mproof v h d) = Ok k /\ k_ty k = ty_mproof /\
      k_bits k = to_bits 8 3 ++ bytes_to_bits h ++ to_bits 16 d /\ k_refs k = [kv].
  Proof.
    intros (Hhd & Hwf & Hm & Hdep & Hdok) Hd Hl Hok.
    destruct (exotic_levels H H_len v Hwf Hdok) as (kv & Hkv & _ & Hlv).
    destruct (Hlv 0%nat ltac:(lia)) as [Hgh _].
    destruct (mp_mproof_data h d Hl Hok) as [Hlen _].
    unfold s_mproof. set (bits := to_bits 8 3 ++ bytes_to_bits h ++ to_bits 16 d) in *.
    assert (HwfM : wf_exotic (Cell ty_mproof bits [v]) = true) by (apply mp_wf_mproof; [lia|assumption..]).
    assert (Hm0 : s_mask (Cell ty_mproof bits [v]) = 0) by (rewrite ex_s_mask_mproof; apply mp_shiftr_le1; exact Hm).
    assert (HdM : depth_okb H (Cell ty_mproof bits [v]) = true).
    { apply mp_depth_okb_intro; [|cbn [forallb]; rewrite Hdok; reflexivity].
      intro l. unfold s_depth_at. rewrite (ex_s_hd_mask0 H _ l Hm0).
      rewrite (ex_s_hd_np_0 H ty_mproof bits [v] eq_refl). cbn [snd].
      rewrite ex_depth_of_kids. change (is_merkle ty_mproof) with true. cbv iota.
      cbn [map maxl fold_right]. specialize (Hdep 1%nat). lia. }
    destruct (exotic_levels H H_len _ HwfM HdM) as (k & Hk & _).
    exists kv, k. split; [exact Hkv|]. split; [exact Hgh|]. split; [exact Hk|].
    rewrite ex_build_eq in Hk. cbn [mapM'] in Hk. rewrite Hkv in Hk. cbn [bind] in Hk.
    apply mp_mk_cell_inv in Hk. destruct Hk as (E1 & E2 & E3 & _). auto.
  Qed.

  Theorem proof_complete : forall v t, virt_of H v t -> wf_ord t = true -> s_depth t <= 1022 ->
    exists k, build H (s_mproof v (s_hash H t) (s_depth t)) = Ok k /\
              check_proof k (s_hash H t) = Ok tt.
  Proof using H H_len H_ok.
    intros v t Hv Hwf Hd.
    pose proof (mp_virt_good t v Hv Hwf ltac:(lia)) as Hg.
    destruct (mp_build_mproof v t (s_hash H t) (s_depth t) Hg Hd (mp_s_hash_len t) (mp_s_hash_ok t))
      as (kv & k & Hkv & Hgh & Hk & Hty & Hbits & Hrefs).
    exists k. split; [exact Hk|].
    unfold check_proof, k_data, k_ref. rewrite Hty, Hbits, Hrefs.
    change (ty_mproof =? ty_mproof)%Z with true. cbn [negb nth_error bind].
    destruct (mp_mproof_data (s_hash H t) (s_depth t) (mp_s_hash_len t) (mp_s_hash_ok t)) as [_ Hsl].
    rewrite Hsl, mp_bytes_eqb_refl. cbn [negb]. rewrite Hgh. cbn [bind].
    destruct Hg as (Hhd & _). unfold s_hash_at. rewrite Hhd, (mp_ord_hd0 t Hwf). cbn [fst].
    rewrite mp_bytes_eqb_refl. reflexivity.
  Qed.

  Theorem header_complete : forall v t, virt_of H v t -> wf_ord t = true -> s_depth t <= 1023 ->
    exists k, build H v = Ok k /\ check_block_header_proof k (s_hash H t) false = Ok None.
  Proof using H H_len H_ok.
    intros v t Hv Hwf Hd.
    destruct (mp_virt_good t v Hv Hwf Hd) as (Hhd & Hwfv & _ & _ & Hdok).
    destruct (exotic_levels H H_len v Hwfv Hdok) as (k & Hk & _ & Hlv).
    destruct (Hlv 0%nat ltac:(lia)) as [Hgh _].
    exists k. split; [exact Hk|].
    unfold check_block_header_proof. change (N.of_nat 0) with 0 in Hgh. rewrite Hgh. cbn [bind].
    unfold s_hash_at. rewrite Hhd, (mp_ord_hd0 t Hwf). cbn [fst].
    rewrite mp_bytes_eqb_refl. reflexivity.
  Qed.
End Complete.

(* ------------------------------------------------------------------ *)
(* 3. soundness: unique readability of the representation              *)
(* ------------------------------------------------------------------ *)
Lemma mp_app_inv_len {A} : forall (a c b d : list A),
  length a = length c -> a ++ b = c ++ d -> a = c /\ b = d.
Proof.
  induction a as [|x a IH]; intros [|y c] b d Hl E; cbn [length] in Hl; try discriminate.
  - split; [reflexivity|exact E].
  - cbn [app] in E. injection E as -> E. injection Hl as Hl.
    destruct (IH c b d Hl E) as [-> ->]. split; reflexivity.
Qed.

Lemma mp_split8 (a : list bool) n : length a = (8 * S n)%nat ->
  exists l a', a = l ++ a' /\ length l = 8%nat /\ length a' = (8 * n)%nat.
Proof.
  intro Hl. exists (firstn 8 a), (skipn 8 a). split; [symmetry; apply firstn_skipn|].
  rewrite firstn_length, skipn_length. lia.
Qed.

Lemma mp_b2b_app : forall n a r, length a = (8 * n)%nat ->
  bits_to_bytes (a ++ r) = bits_to_bytes a ++ bits_to_bytes r.
Proof.
  induction n as [|n IH]; intros a r Hl.
  - destruct a; [reflexivity|cbn [length] in Hl; lia].
  - destruct (mp_split8 a n Hl) as (l & a' & -> & H8 & Hl').
    rewrite <- app_assoc, !(ex_bits_to_bytes_8 _ _ H8), (IH _ _ Hl'). reflexivity.
Qed.

Lemma mp_b2b_len : forall n a, length a = (8 * n)%nat -> length (bits_to_bytes a) = n.
Proof.
  induction n as [|n IH]; intros a Hl.
  - destruct a; [reflexivity|cbn [length] in Hl; lia].
  - destruct (mp_split8 a n Hl) as (l & a' & -> & H8 & Hl').
    rewrite (ex_bits_to_bytes_8 _ _ H8). cbn [length]. f_equal. apply IH. exact Hl'.
Qed.

Lemma mp_b2b_rt : forall n a, length a = (8 * n)%nat -> bytes_to_bits (bits_to_bytes a) = a.
Proof.
  induction n as [|n IH]; intros a Hl.
  - destruct a; [reflexivity|cbn [length] in Hl; lia].
  - destruct (mp_split8 a n Hl) as (l & a' & -> & H8 & Hl').
    rewrite (ex_bits_to_bytes_8 _ _ H8).
    change (bytes_to_bits (of_bits l :: bits_to_bytes a'))
      with (to_bits 8 (of_bits l) ++ bytes_to_bits (bits_to_bytes a')).
    rewrite (IH _ Hl'). f_equal.
    pose proof (to_bits_of_bits l) as E. rewrite H8 in E. exact E.
Qed.

Lemma mp_pad_len b : length (s_pad b) = (8 * ((length b + 7) / 8))%nat.
Proof.
  unfold s_pad. destruct (Nat.eqb_spec (length b mod 8) 0) as [E|E].
  - pose proof (Nat.div_mod (length b) 8 ltac:(lia)) as Hdm. rewrite E in Hdm.
    replace (length b + 7)%nat with (7 + (length b / 8) * 8)%nat by lia.
    rewrite Nat.div_add by lia. change (7 / 8)%nat with 0%nat. lia.
  - rewrite !app_length, repeat_length. cbn [length].
    pose proof (Nat.div_mod (length b) 8 ltac:(lia)) as Hdm.
    pose proof (Nat.mod_upper_bound (length b) 8 ltac:(lia)) as Hub.
    replace (length b + 7)%nat with ((length b mod 8 - 1) + (length b / 8 + 1) * 8)%nat by lia.
    rewrite Nat.div_add by lia. rewrite (Nat.div_small (length b mod 8 - 1) 8) by lia. lia.
Qed.

Lemma mp_d2_split b : s_d2 b = 2 * N.of_nat (b / 8) + (if (b mod 8 =? 0)%nat then 0 else 1) /\
  ((b + 7) / 8 = b / 8 + (if (b mod 8 =? 0)%nat then 0 else 1))%nat.
Proof.
  pose proof (Nat.div_mod b 8 ltac:(lia)) as Hdm.
  pose proof (Nat.mod_upper_bound b 8 ltac:(lia)) as Hub.
  assert (Hq : ((b + 7) / 8 = b / 8 + (if (b mod 8 =? 0)%nat then 0 else 1))%nat).
  { destruct (Nat.eqb_spec (b mod 8) 0) as [Hr|Hr].
    - replace (b + 7)%nat with (7 + (b / 8) * 8)%nat by lia. rewrite Nat.div_add by lia.
      change (7 / 8)%nat with 0%nat. lia.
    - replace (b + 7)%nat with ((b mod 8 - 1) + (b / 8 + 1) * 8)%nat by lia. rewrite Nat.div_add by lia.
      rewrite (Nat.div_small (b mod 8 - 1) 8) by lia. lia. }
  split; [|exact Hq]. unfold s_d2. rewrite Hq. destruct (b mod 8 =? 0)%nat; lia.
Qed.

Lemma mp_repeat_no_true k b r : repeat false k = b ++ true :: r -> False.
Proof.
  intro E. assert (Hin : In true (repeat false k)) by (rewrite E; apply in_elt).
  apply repeat_spec in Hin. discriminate.
Qed.

Lemma mp_marker : forall a b k k',
  a ++ true :: repeat false k = b ++ true :: repeat false k' -> a = b.
Proof.
  induction a as [|x a IH]; intros [|y b] k k' E; cbn [app] in E.
  - reflexivity.
  - injection E as _ E. exfalso. apply (mp_repeat_no_true _ _ _ E).
  - injection E as _ E. exfalso. symmetry in E. apply (mp_repeat_no_true _ _ _ E).
  - injection E as -> E. f_equal. apply (IH _ _ _ E).
Qed.

(* the descriptor byte and the padded data determine the data bits *)
Lemma mp_pad_inj b b' x x' : s_d2 (length b) = s_d2 (length b') ->
  bits_to_bytes (s_pad b) ++ x = bits_to_bytes (s_pad b') ++ x' -> b = b' /\ x = x'.
Proof.
  intros Hd E.
  destruct (mp_d2_split (length b)) as [D1 Q1]. destruct (mp_d2_split (length b')) as [D2 Q2].
  assert (Hn : ((length b + 7) / 8 = (length b' + 7) / 8)%nat /\
               (length b mod 8 =? 0)%nat = (length b' mod 8 =? 0)%nat).
  { rewrite D1, D2 in Hd. rewrite Q1, Q2.
    destruct (length b mod 8 =? 0)%nat, (length b' mod 8 =? 0)%nat; split; try reflexivity; lia. }
  destruct Hn as [Hn Hz].
  apply mp_app_inv_len in E.
  2:{ rewrite (mp_b2b_len _ _ (mp_pad_len b)), (mp_b2b_len _ _ (mp_pad_len b')). exact Hn. }
  destruct E as [E Ex]. split; [|exact Ex].
  apply (f_equal bytes_to_bits) in E.
  rewrite (mp_b2b_rt _ _ (mp_pad_len b)), (mp_b2b_rt _ _ (mp_pad_len b')) in E.
  unfold s_pad in E. rewrite <- Hz in E.
  destruct (length b mod 8 =? 0)%nat; [exact E|].
  cbn [app] in E. apply mp_marker in E. exact E.
Qed.

Lemma mp_concat_inj n : forall (l1 l2 : list (list N)),
  Forall (fun x => length x = n) l1 -> Forall (fun x => length x = n) l2 ->
  length l1 = length l2 -> concat l1 = concat l2 -> l1 = l2.
Proof.
  induction l1 as [|x l1 IH]; intros [|y l2] H1 H2 Hl E; cbn [length] in Hl; try discriminate;
    [reflexivity|].
  inversion H1 as [|? ? Hx H1']. inversion H2 as [|? ? Hy H2']. subst.
  cbn [concat] in E. apply mp_app_inv_len in E; [|congruence].
  destruct E as [-> E]. f_equal. apply IH; auto.
Qed.

Lemma mp_concat_len {A} (f : A -> list N) n l : (forall x, length (f x) = n) ->
  length (concat (map f l)) = (n * length l)%nat.
Proof.
  intro Hf. induction l as [|a l IH]; cbn [map concat length]; [lia|].
  rewrite app_length, IH, Hf. lia.
Qed.

Section Sound.
  Variable H : list N -> list N.
  Hypothesis H_len : forall m, length (H m) = 32%nat.
  Hypothesis H_ok : forall m, bytes_ok (H m).

  (* a pruned leaf of a virtualised tree, read back *)
  Lemma mp_pruned_virtual bits rs : wf_virtual (Cell ty_pruned bits rs) = true ->
    rs = [] /\ exists h d, length h = 32%nat /\
      bits = to_bits 8 1 ++ to_bits 8 1 ++ bytes_to_bits h ++ to_bits 16 d /\
      s_hash_at H (Cell ty_pruned bits []) 0 = h.
  Proof.
    cbn [wf_virtual]. change (ty_pruned =? ty_pruned)%Z with true. cbv iota. intro Hw.
    apply andb_prop in Hw. destruct Hw as [Hw Hm2].
    apply andb_prop in Hw. destruct Hw as [Hw Hm1].
    apply andb_prop in Hw. destruct Hw as [Hrs Hlen].
    apply Nat.eqb_eq in Hrs, Hlen. apply N.eqb_eq in Hm1, Hm2.
    split; [destruct rs; [reflexivity|discriminate]|].
    pose proof Hm2 as Hmask.
    unfold slice in Hm2. change (16 - 8)%nat with 8%nat in Hm2.
    set (b1 := firstn 8 bits) in *. set (r1 := skipn 8 bits) in *.
    set (b2 := firstn 8 r1) in *. set (r2 := skipn 8 r1).
    set (b3 := firstn 256 r2). set (b4 := skipn 256 r2).
    assert (L1 : length b1 = 8%nat) by (unfold b1; rewrite firstn_length; lia).
    assert (Lr1 : length r1 = 280%nat) by (unfold r1; rewrite skipn_length; lia).
    assert (L2 : length b2 = 8%nat) by (unfold b2; rewrite firstn_length; lia).
    assert (Lr2 : length r2 = 272%nat) by (unfold r2; rewrite skipn_length; lia).
    assert (L3 : length b3 = (8 * 32)%nat) by (unfold b3; rewrite firstn_length; lia).
    assert (L4 : length b4 = 16%nat) by (unfold b4; rewrite skipn_length; lia).
    assert (Eb : bits = b1 ++ b2 ++ b3 ++ b4).
    { unfold b1, b2, b3, b4, r2, r1. rewrite !firstn_skipn. reflexivity. }
    assert (E1 : to_bits 8 1 = b1).
    { pose proof (to_bits_of_bits b1) as E. rewrite L1, Hm1 in E. exact E. }
    assert (E2 : to_bits 8 1 = b2).
    { pose proof (to_bits_of_bits b2) as E. rewrite L2, Hm2 in E. exact E. }
    assert (E4 : to_bits 16 (of_bits b4) = b4).
    { pose proof (to_bits_of_bits b4) as E. rewrite L4 in E. exact E. }
    pose proof (mp_b2b_len 32 b3 L3) as Hhl. pose proof (mp_b2b_rt 32 b3 L3) as Hrt.
    exists (bits_to_bytes b3), (of_bits b4).
    split; [exact Hhl|]. split; [rewrite Hrt, E4; rewrite E1 at 1; rewrite E2; exact Eb|].
    assert (Hpad : s_pad bits = bits).
    { unfold s_pad. rewrite Hlen. reflexivity. }
    assert (Hdata : bits_to_bytes bits = of_bits b1 :: of_bits b2 :: bits_to_bytes b3 ++ bits_to_bytes b4).
    { rewrite Eb. rewrite (ex_bits_to_bytes_8 _ _ L1), (ex_bits_to_bytes_8 _ _ L2), (mp_b2b_app 32 b3 b4 L3).
      reflexivity. }
    unfold s_hash_at. rewrite ex_s_hd_pruned. cbv zeta. rewrite ex_s_mask_pruned, Hmask, ex_low_mask_0.
    change (popcount 0 =? popcount 1) with false. cbv iota. cbn [fst].
    change (N.to_nat (2 + 32 * popcount 0)) with 2%nat.
    change (N.to_nat (2 + 32 * popcount 0 + 32)) with 34%nat.
    rewrite Hpad, Hdata. unfold slice. cbn [skipn]. change (34 - 2)%nat with 32%nat.
    set (h := bits_to_bytes b3) in *.
    rewrite firstn_app, <- Hhl, Nat.sub_diag, firstn_all. cbn [firstn]. apply app_nil_r.
  Qed.

  Lemma mp_virtual_hash_len v : wf_virtual v = true -> length (s_hash_at H v 0) = 32%nat.
  Proof.
    destruct v as [ty bits rs]. intro Hw.
    destruct (Z.eqb_spec ty ty_pruned) as [->|Hnp].
    - destruct (mp_pruned_virtual bits rs Hw) as (-> & h & d & Hl & _ & ->). exact Hl.
    - apply Z.eqb_neq in Hnp. unfold s_hash_at. rewrite (ex_s_hd_np_0 H _ _ _ Hnp). cbn [fst]. apply H_len.
  Qed.

  Definition mp_snd (v : cell) : Prop :=
    forall t, wf_virtual v = true -> wf_ord t = true ->
      s_hash_at H v 0 = s_hash H t -> covers H v t \/ collision H.

  Lemma mp_children : forall vs ts, Forall mp_snd vs ->
    forallb wf_virtual vs = true -> forallb wf_ord ts = true ->
    map (fun r => s_hash_at H r 0) vs = map (s_hash H) ts ->
    Forall2 (covers H) vs ts \/ collision H.
  Proof.
    induction vs as [|v vs IH]; intros [|t ts] HF Hwv Hwt E; cbn [map] in E; try discriminate.
    - left. constructor.
    - injection E as E0 E.
      cbn [forallb] in Hwv, Hwt.
      apply andb_prop in Hwv. destruct Hwv as [Hv Hwv].
      apply andb_prop in Hwt. destruct Hwt as [Ht Hwt].
      inversion HF as [|? ? Hsv HF']; subst.
      destruct (Hsv t Hv Ht E0) as [Hc|Hc]; [|right; exact Hc].
      destruct (IH ts HF' Hwv Hwt E) as [Hcs|Hcs]; [|right; exact Hcs].
      left. constructor; assumption.
  Qed.

  Theorem virtual_sound : forall v t, wf_virtual v = true -> wf_ord t = true ->
    s_hash_at H v 0 = s_hash H t -> covers H v t \/ collision H.
  Proof using H H_len H_ok.
    induction v as [ty bits vs IH] using cell_ind'. intros t Hwv Hwt Hh.
    destruct (Z.eqb_spec ty ty_pruned) as [->|Hnp].
    - (* a pruned leaf names the hash it was compared with *)
      destruct (mp_pruned_virtual bits vs Hwv) as (-> & h & d & Hl & Eb & Ehash).
      left. apply C_pruned. exists d. rewrite <- Hh, Ehash. f_equal. exact Eb.
    - (* an ordinary node: equal hashes mean equal representations, or a collision *)
      apply Z.eqb_neq in Hnp.
      pose proof Hwv as Hwv'. cbn [wf_virtual] in Hwv'. rewrite Hnp in Hwv'.
      apply andb_prop in Hwv'. destruct Hwv' as [Hwv' Hwvs].
      apply andb_prop in Hwv'. destruct Hwv' as [Hwv' Hlv].
      apply andb_prop in Hwv'. destruct Hwv' as [Hty Hlb].
      apply Z.eqb_eq in Hty. subst ty.
      destruct t as [ty' bits' ts].
      apply wf_ord_inv in Hwt. destruct Hwt as (-> & Hlb' & Hlt & Hwts).
      unfold s_hash_at in Hh. rewrite (ex_s_hd_np_0 H _ _ _ Hnp) in Hh. cbn [fst] in Hh.
      rewrite s_hash_cell in Hh.
      change (is_exotic ty_ordinary) with false in Hh.
      rewrite ex_tail_kids in Hh. change (is_merkle ty_ordinary) with false in Hh. cbv iota in Hh.
      match type of Hh with H ?m1 = H ?m2 =>
        destruct (list_eq_dec N.eq_dec m1 m2) as [E|NE];
          [|right; exists m1, m2; split; [exact NE|exact Hh]] end.
      cbn [app] in E. injection E as E1 E2 E3.
      assert (Hlen : length vs = length ts) by (unfold s_d1 in E1; lia).
      apply mp_pad_inj in E3; [|exact E2]. destruct E3 as [<- E3].
      apply mp_app_inv_len in E3.
      2:{ rewrite map_map.
          rewrite (mp_concat_len (fun r => be_bytes 2 (s_depth_at H r 0)) 2 vs (fun x => be_bytes_length 2 _)).
          rewrite (mp_concat_len (fun r => be_bytes 2 (s_depth r)) 2 ts (fun x => be_bytes_length 2 _)).
          rewrite Hlen. reflexivity. }
      destruct E3 as [_ E3].
      apply (mp_concat_inj 32) in E3.
      + destruct (mp_children vs ts IH Hwvs Hwts E3) as [Hc|Hc]; [|right; exact Hc].
        left. apply (C_node H bits vs ts Hc).
      + apply Forall_map. apply Forall_forall. intros x Hx. apply mp_virtual_hash_len.
        apply (proj1 (forallb_forall _ _) Hwvs x Hx).
      + apply Forall_map. apply Forall_forall. intros x _. apply (mp_s_hash_len H H_len).
      + rewrite !map_length. exact Hlen.
  Qed.
End Sound.

From Coq Require Import ZifyBool ZifyNat ZifyN.

(* ------------------------------------------------------------------ *)
(* 5. completeness for original trees of any cell types (nested)       *)
(*    helper lemmas carry the prefix mg_                               *)
(* ------------------------------------------------------------------ *)
Lemma mg_lt_pow2 m k : (forall b, k <= b -> N.testbit m b = false) -> m < 2 ^ k.
Proof.
  intro Hb. destruct (N.lt_ge_cases m (2 ^ k)) as [Hlt|Hge]; [exact Hlt|exfalso].
  assert (Hpos : 0 < m). { pose proof (N.pow_nonzero 2 k ltac:(lia)). lia. }
  apply N.log2_le_pow2 in Hge; [|exact Hpos].
  pose proof (N.bit_log2 m ltac:(lia)) as Hbit. rewrite (Hb _ Hge) in Hbit. discriminate.
Qed.

Lemma mg_testbit_small m k b : m < 2 ^ k -> k <= b -> N.testbit m b = false.
Proof.
  intros Hm Hb. destruct (N.eq_dec m 0) as [->|Hne]; [apply N.bits_0|].
  apply N.bits_above_log2. apply N.log2_lt_pow2 in Hm; lia.
Qed.

Lemma mg_b_refl x c : x = x || (x && c).
Proof. destruct x, c; reflexivity. Qed.

Lemma mg_b_or x xt y yt c : x = xt || (x && c) -> y = yt || (y && c) ->
  x || y = (xt || yt) || ((x || y) && c).
Proof. destruct x, xt, y, yt, c; cbn; intros; congruence. Qed.

Lemma mg_b_weaken x xt c c' : (c' = true -> c = true) -> x = xt || (x && c') -> x = xt || (x && c).
Proof.
  intros Hc Hx. destruct c'.
  - rewrite (Hc eq_refl). exact Hx.
  - rewrite andb_false_r, orb_false_r in Hx. subst xt. apply mg_b_refl.
Qed.

(* the level mask of a virtualised node, j Merkle cells deep, against the original's: equal, except
   that bit j may have been added (by pruned branches of mask 2^j, j <= 2) *)
Definition mg_mrel (j : nat) (mv mt : N) : Prop :=
  forall b, N.testbit mv b = N.testbit mt b || (N.testbit mv b && ((b =? N.of_nat j) && (j <=? 2)%nat)).

Lemma mg_mrel_refl j m : mg_mrel j m m.
Proof. intro b. apply mg_b_refl. Qed.

Lemma mg_mrel_below j mv mt b : mg_mrel j mv mt -> (b < j)%nat ->
  N.testbit mv (N.of_nat b) = N.testbit mt (N.of_nat b).
Proof.
  intros Hr Hb. specialize (Hr (N.of_nat b)).
  assert (E : (N.of_nat b =? N.of_nat j) = false) by (apply N.eqb_neq; lia).
  rewrite E in Hr. cbn [andb] in Hr. rewrite andb_false_r, orb_false_r in Hr. exact Hr.
Qed.

Lemma mg_mrel_le7 j mv mt : mg_mrel j mv mt -> mt <= 7 -> mv <= 7.
Proof.
  intros Hr Hm. assert (Hlt : mv < 2 ^ 3); [|change (2 ^ 3) with 8 in Hlt; lia].
  apply mg_lt_pow2. intros b Hb. specialize (Hr b).
  rewrite (mg_testbit_small mt 3 b) in Hr by (change (2 ^ 3) with 8; lia). cbn [orb] in Hr.
  destruct (N.eqb_spec b (N.of_nat j)) as [E|_]; [|rewrite andb_false_r in Hr; exact Hr].
  destruct (Nat.leb_spec j 2) as [Hj|_]; [lia|rewrite andb_false_r in Hr; exact Hr].
Qed.

Lemma mg_mrel_root mv : mg_mrel 0 mv 0 -> mv <= 1.
Proof.
  intro Hr. assert (Hlt : mv < 2 ^ 1); [|change (2 ^ 1) with 2 in Hlt; lia].
  apply mg_lt_pow2. intros b Hb. specialize (Hr b). rewrite N.bits_0 in Hr. cbn [orb] in Hr.
  assert (E : (b =? N.of_nat 0) = false) by (apply N.eqb_neq; lia).
  rewrite E in Hr. cbn [andb] in Hr. rewrite andb_false_r in Hr. exact Hr.
Qed.

Lemma mg_low_mask_S m l : N.testbit m (N.of_nat l) = false -> low_mask m (S l) = low_mask m l.
Proof.
  intro Hb. unfold low_mask. rewrite !N.sub_1_r, <- !N.ones_equiv.
  apply N.bits_inj. intro k. rewrite !N.land_spec.
  destruct (N.lt_ge_cases k (N.of_nat l)) as [Hlt|Hge].
  - rewrite !N.ones_spec_low by lia. reflexivity.
  - destruct (N.eq_dec k (N.of_nat l)) as [->|Hne].
    + rewrite Hb. reflexivity.
    + rewrite !N.ones_spec_high by lia. rewrite !andb_false_r. reflexivity.
Qed.

(* which mask bits of the children a cell's mask accounts for *)
Definition mg_cover (ty : Z) (m : N) (rs : list cell) : Prop :=
  forall b r, In r rs -> N.testbit m (N.of_nat b) = false ->
    N.testbit (s_mask r) (N.of_nat (if is_merkle ty then S b else b)) = false.

Lemma mg_cover_wf ty bits rs : wf_exotic (Cell ty bits rs) = true ->
  mg_cover ty (s_mask (Cell ty bits rs)) rs.
Proof.
  intro Hwf. destruct (ex_wf_inv _ _ _ Hwf) as (_ & _ & _ & _ & Hty).
  destruct Hty as [E|[(E & Ers & _)|[(E & Ers)|[(E & Ers)|(E & Ers)]]]]; subst ty; intros b r Hin Hb.
  - change (is_merkle ty_ordinary) with false. cbv iota.
    rewrite ex_s_mask_ord, ex_fold_lor_testbit in Hb.
    destruct (N.testbit (s_mask r) (N.of_nat b)) eqn:E; [|reflexivity].
    assert (Hex : existsb (fun r => N.testbit (s_mask r) (N.of_nat b)) rs = true).
    { apply existsb_exists. exists r. split; assumption. }
    congruence.
  - subst rs. destruct Hin.
  - subst rs. destruct Hin.
  - destruct rs as [|r0 [|r1 rs]]; try discriminate.
    destruct Hin as [<-|[]]. change (is_merkle ty_mproof) with true. cbv iota.
    rewrite ex_s_mask_mproof, N.shiftr_spec' in Hb.
    replace (N.of_nat (S b)) with (N.of_nat b + 1) by lia. exact Hb.
  - destruct rs as [|r0 [|r1 [|r2 rs]]]; try discriminate.
    change (is_merkle ty_mupdate) with true. cbv iota.
    rewrite ex_s_mask_mupdate, N.shiftr_spec', N.lor_spec in Hb.
    apply orb_false_elim in Hb. destruct Hb as [Hb0 Hb1].
    replace (N.of_nat (S b)) with (N.of_nat b + 1) by lia.
    destruct Hin as [<-|[<-|[]]]; assumption.
Qed.

Lemma mg_mask_node ty bits vs ts j :
  wf_exotic (Cell ty bits ts) = true ->
  Forall2 (fun v t => mg_mrel (if is_merkle ty then S j else j) (s_mask v) (s_mask t)) vs ts ->
  mg_mrel j (s_mask (Cell ty bits vs)) (s_mask (Cell ty bits ts)).
Proof.
  intros Hwf HF. destruct (ex_wf_inv _ _ _ Hwf) as (_ & _ & _ & _ & Hty).
  destruct Hty as [E|[(E & Ers & _)|[(E & Ers)|[(E & Ers)|(E & Ers)]]]]; subst ty.
  - change (is_merkle ty_ordinary) with false in HF. cbv iota in HF.
    rewrite !ex_s_mask_ord. clear Hwf.
    induction HF as [|v t vs ts Hvt _ IH]; cbn [fold_right]; [apply mg_mrel_refl|].
    intro b. rewrite !N.lor_spec. apply mg_b_or; [apply Hvt|apply IH].
  - rewrite !ex_s_mask_pruned. apply mg_mrel_refl.
  - subst ts. inversion HF; subst. apply mg_mrel_refl.
  - destruct ts as [|t0 [|t1 ts]]; try discriminate.
    inversion HF as [|v0 ? vs0 ? Hr0 HF0]; subst. inversion HF0; subst.
    change (is_merkle ty_mproof) with true in Hr0. cbv iota in Hr0.
    rewrite !ex_s_mask_mproof. intro b. rewrite !N.shiftr_spec'.
    apply (mg_b_weaken _ _ _ ((b + 1 =? N.of_nat (S j)) && (S j <=? 2)%nat)); [|apply Hr0].
    intro Hc. apply andb_prop in Hc. destruct Hc as [H1 H2].
    apply N.eqb_eq in H1. apply Nat.leb_le in H2.
    apply andb_true_intro. split; [apply N.eqb_eq; lia|apply Nat.leb_le; lia].
  - destruct ts as [|t0 [|t1 [|t2 ts]]]; try discriminate.
    inversion HF as [|v0 ? vs0 ? Hr0 HF0]; subst.
    inversion HF0 as [|v1 ? vs1 ? Hr1 HF1]; subst. inversion HF1; subst.
    change (is_merkle ty_mupdate) with true in Hr0, Hr1. cbv iota in Hr0, Hr1.
    rewrite !ex_s_mask_mupdate. intro b. rewrite !N.shiftr_spec', !N.lor_spec.
    apply (mg_b_weaken _ _ _ ((b + 1 =? N.of_nat (S j)) && (S j <=? 2)%nat));
      [|apply mg_b_or; [apply Hr0|apply Hr1]].
    intro Hc. apply andb_prop in Hc. destruct Hc as [H1 H2].
    apply N.eqb_eq in H1. apply Nat.leb_le in H2.
    apply andb_true_intro. split; [apply N.eqb_eq; lia|apply Nat.leb_le; lia].
Qed.

Lemma mg_wf_node ty bits vs ts :
  wf_exotic (Cell ty bits ts) = true -> length vs = length ts -> forallb wf_exotic vs = true ->
  s_mask (Cell ty bits vs) <= 7 -> (ty =? ty_pruned)%Z = false ->
  wf_exotic (Cell ty bits vs) = true.
Proof.
  intros Hwf Hlen Hvs Hm Hp. cbn [wf_exotic] in Hwf |- *. rewrite Hp in Hwf |- *.
  apply andb_prop in Hwf. destruct Hwf as [Hwf HE].
  apply andb_prop in Hwf. destruct Hwf as [Hwf HD].
  apply andb_prop in Hwf. destruct Hwf as [Hwf HC].
  apply andb_prop in Hwf. destruct Hwf as [HA HB].
  rewrite Hlen, HA, HB, Hvs, HE, (proj2 (N.leb_le _ _) Hm). reflexivity.
Qed.

Lemma mg_wf_pruned bits j : (j <= 2)%nat -> length bits = 288%nat ->
  s_mask (Cell ty_pruned bits []) = 2 ^ N.of_nat j -> wf_exotic (Cell ty_pruned bits []) = true.
Proof.
  intros Hj Hl Hm. cbn [wf_exotic length forallb]. rewrite Hm, Hl.
  destruct j as [|[|[|j]]]; [vm_compute; reflexivity..|lia].
Qed.

Section CompleteNested.
  Variable H : list N -> list N.
  Hypothesis H_len : forall m, length (H m) = 32%nat.
  Hypothesis H_ok : forall m, bytes_ok (H m).

  Lemma mg_hd_nonsig r l : N.testbit (s_mask r) (N.of_nat l) = false -> s_hd H r (S l) = s_hd H r l.
  Proof.
    destruct r as [ty bits rs]. intro Hb. destruct (Z.eqb_spec ty ty_pruned) as [->|Hne].
    - rewrite !ex_s_hd_pruned. cbv zeta. rewrite (mg_low_mask_S _ _ Hb). reflexivity.
    - apply Z.eqb_neq in Hne. apply ex_s_hd_nonsig; assumption.
  Qed.

  (* the depth of a well-shaped cell at ANY level is one more than its children's at that level *)
  Lemma mg_depth_kids ty bits rs : (ty =? ty_pruned)%Z = false ->
    mg_cover ty (s_mask (Cell ty bits rs)) rs ->
    forall l, s_depth_at H (Cell ty bits rs) l = ex_depth_of (ex_kids H ty rs l).
  Proof.
    intros Hp Hc. unfold s_depth_at. induction l as [|l IHl].
    - rewrite (ex_s_hd_np_0 H _ _ _ Hp). reflexivity.
    - rewrite (ex_s_hd_np_S H _ _ _ _ Hp).
      destruct (N.testbit (s_mask (Cell ty bits rs)) (N.of_nat l)) eqn:Hb; [reflexivity|].
      rewrite IHl. f_equal. unfold ex_kids. apply map_ext_in. intros r Hin.
      pose proof (Hc l r Hin Hb) as Hr. destruct (is_merkle ty); symmetry; apply mg_hd_nonsig; exact Hr.
  Qed.

  Lemma mg_depth_okb_intro ty bits rs :
    (forall l, (l <= 3)%nat -> s_depth_at H (Cell ty bits rs) l <= 1023) ->
    forallb (depth_okb H) rs = true -> depth_okb H (Cell ty bits rs) = true.
  Proof.
    intros Hd Hrs. cbn [depth_okb forallb]. rewrite Hrs.
    rewrite (proj2 (N.leb_le _ _) (Hd 0%nat ltac:(lia))), (proj2 (N.leb_le _ _) (Hd 1%nat ltac:(lia))),
      (proj2 (N.leb_le _ _) (Hd 2%nat ltac:(lia))), (proj2 (N.leb_le _ _) (Hd 3%nat ltac:(lia))).
    reflexivity.
  Qed.

  (* what the construction of the proof needs to know about a virtualised node j Merkle cells deep *)
  Definition mg_good (j : nat) (v t : cell) : Prop :=
    (forall l, (l <= j)%nat -> s_hd H v l = s_hd H t l) /\
    mg_mrel j (s_mask v) (s_mask t) /\
    (forall l, s_depth_at H v l <= s_depth_at H t l) /\
    wf_exotic v = true /\ depth_okb H v = true.

  Lemma mg_good_refl j t : wf_exotic t = true -> depth_okb H t = true -> mg_good j t t.
  Proof.
    intros Hwf Hd. split; [reflexivity|]. split; [apply mg_mrel_refl|].
    split; [intro l; lia|]. split; assumption.
  Qed.

  Lemma mg_prune_depth_hi j t l : (j <= 2)%nat -> (j < l)%nat -> s_depth_at H (s_prune H j t) l = 0.
  Proof.
    intros Hj Hl. pose proof (ex_prune_mask H j t Hj) as Hpm.
    unfold s_depth_at. unfold s_prune in Hpm |- *. rewrite ex_s_hd_pruned. cbv zeta. rewrite Hpm.
    assert (E : low_mask (2 ^ N.of_nat j) l = 2 ^ N.of_nat j).
    { rewrite ex_low_mask_mod. apply N.mod_small. apply N.pow_lt_mono_r; lia. }
    rewrite E, N.eqb_refl. reflexivity.
  Qed.

  Lemma mg_prune_good j t : (j <= 2)%nat -> s_mask t = 0 -> wf_exotic t = true ->
    depth_okb H t = true -> mg_good j (s_prune H j t) t.
  Proof.
    intros Hj Hm Hwf Hd.
    assert (Hd0 : forall l, (l <= 3)%nat -> s_depth_at H t l <= 1023).
    { destruct t as [ty bits rs]. apply (ex_depth_okb_inv H _ _ _ Hd). }
    destruct (ex_hash_mask0 H t Hm) as [x Hx].
    assert (Hhl : length (s_hash_at H t 0) = 32%nat) by (rewrite Hx; apply H_len).
    pose proof (ex_prune_mask H j t Hj) as Hpm.
    assert (Hhd : forall l, (l <= j)%nat -> s_hd H (s_prune H j t) l = s_hd H t l).
    { intros l Hl. apply (ex_prune_hd H H_len H_ok j t l Hl Hj Hm).
      specialize (Hd0 0%nat ltac:(lia)). lia. }
    assert (Hdep : forall l, s_depth_at H (s_prune H j t) l <= s_depth_at H t l).
    { intro l. destruct (le_gt_dec l j) as [Hl|Hl].
      - unfold s_depth_at. rewrite (Hhd l Hl). lia.
      - rewrite (mg_prune_depth_hi j t l Hj Hl). lia. }
    split; [exact Hhd|]. split; [|split; [exact Hdep|split]].
    - rewrite Hpm, Hm. intro b. rewrite N.bits_0, N.pow2_bits_eqb. cbn [orb].
      destruct (N.eqb_spec (N.of_nat j) b) as [<-|_]; [|reflexivity].
      rewrite N.eqb_refl, (proj2 (Nat.leb_le j 2) Hj). reflexivity.
    - unfold s_prune in Hpm |- *. apply (mg_wf_pruned _ j Hj); [|exact Hpm].
      rewrite !app_length, !to_bits_length, ex_bytes_to_bits_length, Hhl. reflexivity.
    - unfold s_prune in Hdep |- *. apply mg_depth_okb_intro; [|reflexivity].
      intros l Hl. specialize (Hdep l). specialize (Hd0 l Hl). lia.
  Qed.

  Lemma mg_hd_node ty bits vs ts j :
    (ty =? ty_pruned)%Z = false ->
    Forall2 (fun v t => forall l, (l <= (if is_merkle ty then S j else j))%nat -> s_hd H v l = s_hd H t l)
            vs ts ->
    (forall b, (b < j)%nat -> N.testbit (s_mask (Cell ty bits vs)) (N.of_nat b)
                              = N.testbit (s_mask (Cell ty bits ts)) (N.of_nat b)) ->
    forall l, (l <= j)%nat -> s_hd H (Cell ty bits vs) l = s_hd H (Cell ty bits ts) l.
  Proof.
    intros Hp HF Hmask.
    pose proof (ex_Forall2_length _ _ _ HF) as Hlen.
    assert (Hkids : forall l, (l <= j)%nat -> ex_kids H ty vs l = ex_kids H ty ts l).
    { intros l Hl. unfold ex_kids. clear Hmask Hlen.
      induction HF as [|v t vs ts Hvt _ IH]; [reflexivity|].
      cbn [map]. rewrite IH. rewrite Hvt; [reflexivity|]. destruct (is_merkle ty); lia. }
    induction l as [|l IHl]; intro Hl.
    - rewrite !(ex_s_hd_np_0 H _ _ _ Hp). rewrite Hkids by lia. rewrite Hlen. reflexivity.
    - rewrite !(ex_s_hd_np_S H _ _ _ _ Hp).
      rewrite (Hmask l ltac:(lia)).
      rewrite (ex_low_mask_agree (s_mask (Cell ty bits vs)) (s_mask (Cell ty bits ts)) (S l))
        by (intros b Hb; apply Hmask; lia).
      rewrite Hkids by lia. rewrite Hlen. rewrite (IHl ltac:(lia)). reflexivity.
  Qed.

  Lemma mg_depth_node ty bits vs ts :
    (ty =? ty_pruned)%Z = false ->
    wf_exotic (Cell ty bits vs) = true -> wf_exotic (Cell ty bits ts) = true ->
    Forall2 (fun v t => forall l, s_depth_at H v l <= s_depth_at H t l) vs ts ->
    forall l, s_depth_at H (Cell ty bits vs) l <= s_depth_at H (Cell ty bits ts) l.
  Proof.
    intros Hp Hwv Hwt HF l.
    rewrite (mg_depth_kids ty bits vs Hp (mg_cover_wf _ _ _ Hwv)).
    rewrite (mg_depth_kids ty bits ts Hp (mg_cover_wf _ _ _ Hwt)).
    rewrite !ex_depth_of_kids.
    set (L := if is_merkle ty then S l else l).
    assert (Hm : maxl (map (fun r => s_depth_at H r L) vs) <= maxl (map (fun r => s_depth_at H r L) ts)).
    { apply mp_maxl_mono.
      apply (mp_Forall2_impl (fun v t => forall l, s_depth_at H v l <= s_depth_at H t l)); [|exact HF].
      intros a b Hab. apply Hab. }
    destruct HF; lia.
  Qed.

  Lemma mg_Forall2_forallb {A B} (R : A -> B -> Prop) (p : A -> bool) l1 l2 :
    (forall a b, R a b -> p a = true) -> Forall2 R l1 l2 -> forallb p l1 = true.
  Proof.
    intros HR HF. induction HF as [|a b l1 l2 Hab _ IH]; [reflexivity|].
    cbn [forallb]. rewrite (HR a b Hab), IH. reflexivity.
  Qed.

  Lemma mg_node_good j ty bits vs ts :
    wf_exotic (Cell ty bits ts) = true -> depth_okb H (Cell ty bits ts) = true ->
    Forall2 (mg_good (if is_merkle ty then S j else j)) vs ts ->
    mg_good j (Cell ty bits vs) (Cell ty bits ts).
  Proof.
    intros Hwf Hd HF.
    destruct (ex_depth_okb_inv H _ _ _ Hd) as (Hd0 & _).
    pose proof (ex_Forall2_length _ _ _ HF) as Hlen.
    destruct (Z.eqb_spec ty ty_pruned) as [->|Hne].
    { (* a pruned branch of the original has no children *)
      destruct (ex_wf_inv _ _ _ Hwf) as (_ & Hlr & _ & _ & Hty).
      assert (Ets : ts = []).
      { destruct Hty as [E|[(_ & Ers & _)|[(E & _)|[(E & _)|(E & _)]]]]; try discriminate E. exact Ers. }
      subst ts. inversion HF; subst. apply mg_good_refl; assumption. }
    apply Z.eqb_neq in Hne.
    set (j' := if is_merkle ty then S j else j) in *.
    assert (Hmrel : mg_mrel j (s_mask (Cell ty bits vs)) (s_mask (Cell ty bits ts))).
    { apply mg_mask_node; [exact Hwf|]. fold j'.
      apply (mp_Forall2_impl (mg_good j')); [|exact HF]. intros a b (_ & Hr & _). exact Hr. }
    destruct (ex_wf_inv _ _ _ Hwf) as (_ & _ & _ & Hm7 & _).
    assert (Hwv : wf_exotic (Cell ty bits vs) = true).
    { apply (mg_wf_node ty bits vs ts Hwf Hlen); [|apply (mg_mrel_le7 _ _ _ Hmrel Hm7)|exact Hne].
      apply (mg_Forall2_forallb (mg_good j') _ vs ts); [|exact HF]. intros a b (_ & _ & _ & Hw & _). exact Hw. }
    assert (Hdep : forall l, s_depth_at H (Cell ty bits vs) l <= s_depth_at H (Cell ty bits ts) l).
    { apply (mg_depth_node ty bits vs ts Hne Hwv Hwf).
      apply (mp_Forall2_impl (mg_good j')); [|exact HF]. intros a b (_ & _ & Hab & _). exact Hab. }
    split; [|split; [exact Hmrel|split; [exact Hdep|split; [exact Hwv|]]]].
    - apply (mg_hd_node ty bits vs ts j Hne).
      + fold j'. apply (mp_Forall2_impl (mg_good j')); [|exact HF]. intros a b (Hab & _). exact Hab.
      + intros b Hb. apply (mg_mrel_below j _ _ b Hmrel Hb).
    - apply mg_depth_okb_intro.
      + intros l Hl. specialize (Hdep l). specialize (Hd0 l Hl). lia.
      + apply (mg_Forall2_forallb (mg_good j') _ vs ts); [|exact HF]. intros a b (_ & _ & _ & _ & Hok). exact Hok.
  Qed.

  Lemma mg_virt_good : forall t, wf_exotic t = true -> depth_okb H t = true ->
    forall j v, virt_gen H j v t -> mg_good j v t.
  Proof.
    induction t as [ty bits ts IH] using ex_cell_ind. intros Hwf Hd j v Hv.
    inversion Hv as [j0 t0|j0 t0 Hj Hm|j0 ty0 bits0 vs ts0 HF]; subst.
    - apply mg_good_refl; assumption.
    - apply mg_prune_good; assumption.
    - apply mg_node_good; [exact Hwf|exact Hd|].
      destruct (ex_wf_inv _ _ _ Hwf) as (_ & _ & Hwts & _).
      destruct (ex_depth_okb_inv H _ _ _ Hd) as (_ & Hdts).
      set (j' := if is_merkle ty then S j else j) in *. clearbody j'.
      clear Hv Hwf Hd.
      induction HF as [|v t vs ts Hvt _ IH']; constructor.
      + cbn [forallb] in Hwts, Hdts.
        apply andb_prop in Hwts. destruct Hwts as [Hwt _].
        apply andb_prop in Hdts. destruct Hdts as [Hdt _].
        inversion IH as [|? ? Ht _]; subst. apply Ht; assumption.
      + cbn [forallb] in Hwts, Hdts.
        apply andb_prop in Hwts. destruct Hwts as [_ Hwts].
        apply andb_prop in Hdts. destruct Hdts as [_ Hdts].
        inversion IH; subst. apply IH'; assumption.
  Qed.

  (* the relation for ordinary trees is the special case j = 0, no Merkle cells *)
  Lemma virt_of_gen : forall t v, virt_of H v t -> wf_ord t = true -> virt_gen H 0 v t.
  Proof.
    induction t as [ty bits ts IH] using ex_cell_ind. intros v Hv Hwf.
    pose proof (mp_ord_mask _ Hwf) as Hm0.
    pose proof Hwf as Hwf'. apply wf_ord_inv in Hwf'. destruct Hwf' as (-> & _ & _ & Hrs).
    inversion Hv as [t0|t0|bits0 vs ts0 HF]; subst.
    - apply VG_same.
    - apply VG_prune; [lia|exact Hm0].
    - apply (VG_node H 0 ty_ordinary bits vs ts).
      change (is_merkle ty_ordinary) with false. cbv iota.
      clear Hv Hwf Hm0.
      induction HF as [|v t vs ts Hvt _ IH']; constructor.
      + cbn [forallb] in Hrs. apply andb_prop in Hrs. destruct Hrs as [Hr _].
        inversion IH as [|? ? Ht _]; subst. apply Ht; assumption.
      + cbn [forallb] in Hrs. apply andb_prop in Hrs. destruct Hrs as [_ Hrs].
        inversion IH; subst. apply IH'; assumption.
  Qed.

  (* ---- the Merkle-proof cell over a virtualised tree ---- *)
  Lemma mg_build_mproof v h d : wf_exotic v = true -> depth_okb H v = true -> s_mask v <= 1 ->
    s_depth_at H v 1 <= 1022 -> length h = 32%nat -> bytes_ok h ->
    exists kv k, build H v = Ok kv /\ get_hash kv 0 = Ok (s_hash_at H v 0) /\
      build H (s_mproof v h d) = Ok k /\ k_ty k = ty_mproof /\
      k_bits k = to_bits 8 3 ++ bytes_to_bits h ++ to_bits 16 d /\ k_refs k = [kv].
  Proof.
    intros Hwf Hdok Hm Hdep Hl Hok.
    destruct (exotic_levels H H_len v Hwf Hdok) as (kv & Hkv & _ & Hlv).
    destruct (Hlv 0%nat ltac:(lia)) as [Hgh _].
    destruct (mp_mproof_data h d Hl Hok) as [Hlen _].
    unfold s_mproof. set (bits := to_bits 8 3 ++ bytes_to_bits h ++ to_bits 16 d) in *.
    assert (HwfM : wf_exotic (Cell ty_mproof bits [v]) = true) by (apply mp_wf_mproof; [lia|assumption..]).
    assert (Hm0 : s_mask (Cell ty_mproof bits [v]) = 0)
      by (rewrite ex_s_mask_mproof; apply mp_shiftr_le1; exact Hm).
    assert (HdM : depth_okb H (Cell ty_mproof bits [v]) = true).
    { apply mg_depth_okb_intro; [|cbn [forallb]; rewrite Hdok; reflexivity].
      intros l _. unfold s_depth_at. rewrite (ex_s_hd_mask0 H _ l Hm0).
      rewrite (ex_s_hd_np_0 H ty_mproof bits [v] eq_refl). cbn [snd].
      rewrite ex_depth_of_kids. change (is_merkle ty_mproof) with true. cbv iota.
      cbn [map maxl fold_right]. lia. }
    destruct (exotic_levels H H_len _ HwfM HdM) as (k & Hk & _).
    exists kv, k. split; [exact Hkv|]. split; [exact Hgh|]. split; [exact Hk|].
    rewrite ex_build_eq in Hk. cbn [mapM'] in Hk. rewrite Hkv in Hk. cbn [bind] in Hk.
    apply mp_mk_cell_inv in Hk. destruct Hk as (E1 & E2 & E3 & _). auto.
  Qed.

  Theorem proof_complete_nested : forall v t,
    wf_exotic t = true -> depth_okb H t = true -> s_mask t = 0 -> s_depth_at H t 0 <= 1022 ->
    virt_gen H 0 v t ->
    exists k, build H (s_mproof v (s_hash_at H t 0) (s_depth_at H t 0)) = Ok k /\
              check_proof k (s_hash_at H t 0) = Ok tt.
  Proof using H H_len H_ok.
    intros v t Hwf Hdok Hm0 Hd Hv.
    destruct (mg_virt_good t Hwf Hdok 0%nat v Hv) as (Hhd & Hmrel & Hdep & Hwfv & Hdokv).
    rewrite Hm0 in Hmrel. apply mg_mrel_root in Hmrel.
    destruct (ex_hash_mask0 H t Hm0) as [x Hx].
    assert (Hhl : length (s_hash_at H t 0) = 32%nat) by (rewrite Hx; apply H_len).
    assert (Hhok : bytes_ok (s_hash_at H t 0)) by (rewrite Hx; apply H_ok).
    assert (Hd1 : s_depth_at H v 1 <= 1022).
    { specialize (Hdep 1%nat). unfold s_depth_at in Hdep |- *.
      rewrite (ex_s_hd_mask0 H t 1 Hm0) in Hdep. unfold s_depth_at in Hd. lia. }
    destruct (mg_build_mproof v (s_hash_at H t 0) (s_depth_at H t 0) Hwfv Hdokv Hmrel Hd1 Hhl Hhok)
      as (kv & k & Hkv & Hgh & Hk & Hty & Hbits & Hrefs).
    exists k. split; [exact Hk|].
    unfold check_proof, k_data, k_ref. rewrite Hty, Hbits, Hrefs.
    change (ty_mproof =? ty_mproof)%Z with true. cbn [negb nth_error bind].
    destruct (mp_mproof_data (s_hash_at H t 0) (s_depth_at H t 0) Hhl Hhok) as [_ Hsl].
    rewrite Hsl, mp_bytes_eqb_refl. cbn [negb]. rewrite Hgh. cbn [bind].
    unfold s_hash_at. rewrite (Hhd 0%nat ltac:(lia)).
    rewrite mp_bytes_eqb_refl. reflexivity.
  Qed.

  Theorem header_complete_nested : forall v t,
    wf_exotic t = true -> depth_okb H t = true -> virt_gen H 0 v t ->
    exists k, build H v = Ok k /\ check_block_header_proof k (s_hash_at H t 0) false = Ok None.
  Proof using H H_len H_ok.
    intros v t Hwf Hdok Hv.
    destruct (mg_virt_good t Hwf Hdok 0%nat v Hv) as (Hhd & _ & _ & Hwfv & Hdokv).
    destruct (exotic_levels H H_len v Hwfv Hdokv) as (k & Hk & _ & Hlv).
    destruct (Hlv 0%nat ltac:(lia)) as [Hgh _].
    exists k. split; [exact Hk|].
    unfold check_block_header_proof. change (N.of_nat 0) with 0 in Hgh. rewrite Hgh. cbn [bind].
    unfold s_hash_at. rewrite (Hhd 0%nat ltac:(lia)).
    rewrite mp_bytes_eqb_refl. reflexivity.
  Qed.
End CompleteNested.

(* ------------------------------------------------------------------ *)
(* 6. soundness for original trees of any cell types (nested)          *)
(* ------------------------------------------------------------------ *)
Lemma mg_low_mask_big m l : m <= 7 -> (3 <= l)%nat -> low_mask m l = m.
Proof.
  intros Hm Hl. rewrite ex_low_mask_mod. apply N.mod_small.
  assert (Hp : 2 ^ 3 <= 2 ^ N.of_nat l) by (apply N.pow_le_mono_r; lia).
  change (2 ^ 3) with 8 in Hp. lia.
Qed.

Lemma mg_popcount_low m l : m <= 7 -> (popcount (low_mask m l) =? popcount m) = false ->
  popcount (low_mask m l) < popcount m.
Proof.
  intros Hm.
  assert (Hc : allb_below 8 (fun m => allb_below 3 (fun l =>
            (popcount (low_mask m (N.to_nat l)) =? popcount m)
            || (popcount (low_mask m (N.to_nat l)) <? popcount m))) = true) by (vm_compute; reflexivity).
  destruct (le_gt_dec 3 l) as [Hl|Hl].
  - rewrite mg_low_mask_big by assumption. rewrite N.eqb_refl. discriminate.
  - pose proof (allb_below_spec _ _ Hc m ltac:(lia)) as Hc1. cbv beta in Hc1.
    pose proof (allb_below_spec _ _ Hc1 (N.of_nat l) ltac:(lia)) as Hc2. cbv beta in Hc2.
    rewrite Nat2N.id in Hc2. intro E. rewrite E in Hc2. cbn [orb] in Hc2. apply N.ltb_lt. exact Hc2.
Qed.

Lemma mg_eff_sig m l : lm_significant m (N.of_nat (ex_eff m l)) = true.
Proof.
  induction l as [|l IH]; [reflexivity|]. cbn [ex_eff].
  destruct (N.testbit m (N.of_nat l)) eqn:E; [|exact IH]. rewrite ex_sig_S. exact E.
Qed.

Lemma mg_eff_le m l : (ex_eff m l <= l)%nat.
Proof. induction l as [|l IH]; [cbn; lia|]. cbn [ex_eff]. destruct (N.testbit m (N.of_nat l)); lia. Qed.

Lemma mg_eff_cases m l :
  ex_eff m l = 0%nat \/ exists e', ex_eff m l = S e' /\ N.testbit m (N.of_nat e') = true.
Proof.
  induction l as [|l IH]; [left; reflexivity|]. cbn [ex_eff].
  destruct (N.testbit m (N.of_nat l)) eqn:E; [right; exists l; auto|exact IH].
Qed.

Lemma mg_low_mask_bounds m e : N.testbit m (N.of_nat e) = true ->
  2 ^ N.of_nat e <= low_mask m (S e) < 2 ^ N.of_nat (S e).
Proof.
  intro Hb. split.
  - destruct (N.le_gt_cases (2 ^ N.of_nat e) (low_mask m (S e))) as [Hle|Hgt]; [exact Hle|exfalso].
    pose proof (mg_testbit_small _ (N.of_nat e) (N.of_nat e) Hgt ltac:(lia)) as Hf.
    unfold low_mask in Hf. rewrite N.sub_1_r, <- N.ones_equiv, N.land_spec, Hb, N.ones_spec_low in Hf by lia.
    discriminate.
  - rewrite ex_low_mask_mod. apply N.mod_lt. apply N.pow_nonzero. lia.
Qed.

Lemma mg_eff_inj mv mt l l2 :
  low_mask mv (ex_eff mv l) = low_mask mt (ex_eff mt l2) -> ex_eff mv l = ex_eff mt l2.
Proof.
  intro E.
  destruct (mg_eff_cases mv l) as [E1|(a & E1 & Ha)], (mg_eff_cases mt l2) as [E2|(b & E2 & Hb)];
    rewrite E1, E2 in E |- *.
  - reflexivity.
  - rewrite ex_low_mask_0 in E. pose proof (mg_low_mask_bounds mt b Hb) as [Hlo _].
    pose proof (N.pow_nonzero 2 (N.of_nat b) ltac:(lia)). lia.
  - rewrite ex_low_mask_0 in E. pose proof (mg_low_mask_bounds mv a Ha) as [Hlo _].
    pose proof (N.pow_nonzero 2 (N.of_nat a) ltac:(lia)). lia.
  - pose proof (mg_low_mask_bounds mv a Ha) as [Hlo1 Hhi1].
    pose proof (mg_low_mask_bounds mt b Hb) as [Hlo2 Hhi2]. rewrite E in Hlo1, Hhi1.
    assert (H1 : 2 ^ N.of_nat a < 2 ^ N.of_nat (S b)) by lia.
    assert (H2 : 2 ^ N.of_nat b < 2 ^ N.of_nat (S a)) by lia.
    apply N.pow_lt_mono_r_iff in H1; [|lia]. apply N.pow_lt_mono_r_iff in H2; [|lia]. lia.
Qed.

Lemma mg_d1_inj a ex m a' ex' m' : (a <= 4)%nat -> (a' <= 4)%nat ->
  s_d1 a ex m = s_d1 a' ex' m' -> a = a' /\ ex = ex' /\ m = m'.
Proof. unfold s_d1. intros Ha Ha' E. destruct ex, ex'; cbn [b2n] in E; repeat split; lia. Qed.

(* among the non-pruned cell types the exotic flag and the reference count determine the type *)
Lemma mg_ty_det ty bits rs ty' bits' rs' :
  wf_exotic (Cell ty bits rs) = true -> wf_exotic (Cell ty' bits' rs') = true ->
  (ty =? ty_pruned)%Z = false -> (ty' =? ty_pruned)%Z = false ->
  is_exotic ty = is_exotic ty' -> length rs = length rs' -> ty = ty'.
Proof.
  intros Hw Hw' Hp Hp' Hex Hlen.
  destruct (ex_wf_inv _ _ _ Hw) as (_ & _ & _ & _ & Hty).
  destruct (ex_wf_inv _ _ _ Hw') as (_ & _ & _ & _ & Hty').
  destruct Hty as [E|[(E & _)|[(E & Ers)|[(E & Ers)|(E & Ers)]]]]; subst ty; try discriminate Hp;
  destruct Hty' as [E'|[(E' & _)|[(E' & Ers')|[(E' & Ers')|(E' & Ers')]]]]; subst ty'; try discriminate Hp';
  try reflexivity; try discriminate Hex; subst; cbn [length] in *; congruence.
Qed.

Lemma mg_map_eq_Forall2 {A B} (f f' : A -> B) (g g' : A -> B) : forall l1 l2,
  (forall a, In a l1 -> f' a = f a) -> (forall b, In b l2 -> g' b = g b) ->
  map f l1 = map g l2 -> Forall2 (fun a b => f' a = g' b) l1 l2.
Proof.
  induction l1 as [|a l1 IH]; intros [|b l2] Hf Hg E; cbn [map] in E; try discriminate; [constructor|].
  injection E as E0 E. constructor.
  - rewrite (Hf a (or_introl eq_refl)), (Hg b (or_introl eq_refl)). exact E0.
  - apply IH; [intros x Hx; apply Hf; right; exact Hx|intros x Hx; apply Hg; right; exact Hx|exact E].
Qed.

Section SoundNested.
  Variable H : list N -> list N.
  Hypothesis H_len : forall m, length (H m) = 32%nat.

  (* every level hash of a well-formed cell has 32 bytes *)
  Lemma mg_hash_len c l : wf_exotic c = true -> length (s_hash_at H c l) = 32%nat.
  Proof.
    destruct c as [ty bits rs]. intro Hwf.
    destruct (ex_wf_inv _ _ _ Hwf) as (_ & _ & _ & Hm & Hty).
    destruct (Z.eqb_spec ty ty_pruned) as [->|Hne].
    - destruct Hty as [E|[(_ & _ & _ & Hbl)|[(E & _)|[(E & _)|(E & _)]]]]; try discriminate E.
      unfold s_hash_at. rewrite ex_s_hd_pruned. cbv zeta.
      set (m := s_mask (Cell ty_pruned bits rs)) in *.
      destruct (popcount (low_mask m l) =? popcount m) eqn:E; cbn [fst]; [apply H_len|].
      pose proof (mg_popcount_low m l Hm E) as Hlt.
      assert (Hdl : length (bits_to_bytes (s_pad bits)) = (2 + 34 * N.to_nat (popcount m))%nat).
      { rewrite (mp_b2b_len _ _ (mp_pad_len bits)), Hbl.
        replace (16 + 272 * N.to_nat (popcount m) + 7)%nat
          with (7 + (2 + 34 * N.to_nat (popcount m)) * 8)%nat by lia.
        rewrite Nat.div_add by lia. reflexivity. }
      unfold slice. rewrite firstn_length, skipn_length, Hdl. lia.
    - apply Z.eqb_neq in Hne. unfold s_hash_at. induction l as [|l IH].
      + rewrite (ex_s_hd_np_0 H _ _ _ Hne). apply H_len.
      + rewrite (ex_s_hd_np_S H _ _ _ _ Hne). destruct (N.testbit _ _); [apply H_len|exact IH].
  Qed.

  (* the hash of a non-pruned cell at any level, as one application of H *)
  Lemma mg_hash_form ty bits rs l : (ty =? ty_pruned)%Z = false ->
    s_hash_at H (Cell ty bits rs) l =
    H ([s_d1 (length rs) (is_exotic ty)
             (low_mask (s_mask (Cell ty bits rs)) (ex_eff (s_mask (Cell ty bits rs)) l));
        s_d2 (length bits)]
       ++ match ex_eff (s_mask (Cell ty bits rs)) l with
          | O => bits_to_bytes (s_pad bits)
          | S e' => s_hash_at H (Cell ty bits rs) e'
          end ++ ex_tail (ex_kids H ty rs (ex_eff (s_mask (Cell ty bits rs)) l))).
  Proof.
    intro Hp. unfold s_hash_at at 1. rewrite (ex_s_hd_eff H ty bits rs l Hp).
    rewrite (ex_s_hd_sig H ty bits rs _ Hp (mg_eff_sig _ _)). reflexivity.
  Qed.

  (* a child answers the parent's level and the parent's greatest significant level below it alike *)
  Lemma mg_kid_eff ty m rs r l : mg_cover ty m rs -> In r rs ->
    s_hd H r (if is_merkle ty then S l else l)
    = s_hd H r (if is_merkle ty then S (ex_eff m l) else ex_eff m l).
  Proof.
    intros Hc Hin. induction l as [|l IH]; [reflexivity|]. cbn [ex_eff].
    destruct (N.testbit m (N.of_nat l)) eqn:Hb; [reflexivity|].
    rewrite <- IH. pose proof (Hc l r Hin Hb) as Hr.
    destruct (is_merkle ty); apply (mg_hd_nonsig H); exact Hr.
  Qed.

  Lemma mg_node_inj ty bits vs ty' bits' ts :
    wf_exotic (Cell ty bits vs) = true -> wf_exotic (Cell ty' bits' ts) = true ->
    (ty =? ty_pruned)%Z = false -> (ty' =? ty_pruned)%Z = false ->
    forall n l, (l < n)%nat ->
      s_hash_at H (Cell ty bits vs) l = s_hash_at H (Cell ty' bits' ts) l ->
      collision H \/
      (ty = ty' /\ bits = bits' /\
       Forall2 (fun a b => s_hash_at H a (if is_merkle ty then S l else l)
                           = s_hash_at H b (if is_merkle ty then S l else l)) vs ts).
  Proof.
    intros Hwv Hwt Hpv Hpt.
    destruct (ex_wf_inv _ _ _ Hwv) as (_ & Hlv & Hwvs & _).
    destruct (ex_wf_inv _ _ _ Hwt) as (_ & Hlt & Hwts & _).
    induction n as [|n IHn]; intros l Hl Hh; [lia|].
    rewrite (mg_hash_form ty bits vs l Hpv), (mg_hash_form ty' bits' ts l Hpt) in Hh.
    set (mv := s_mask (Cell ty bits vs)) in *. set (mt := s_mask (Cell ty' bits' ts)) in *.
    match type of Hh with H ?m1 = H ?m2 =>
      destruct (list_eq_dec N.eq_dec m1 m2) as [E|NE];
        [|left; exists m1, m2; split; [exact NE|exact Hh]] end.
    clear Hh. cbn [app] in E. injection E as E1 E2 E3.
    apply mg_d1_inj in E1; [|assumption..]. destruct E1 as (Hlen & Hex & Hlm).
    pose proof (mg_eff_inj mv mt l l Hlm) as Het.
    assert (Ety : ty = ty') by (apply (mg_ty_det ty bits vs ty' bits' ts); assumption).
    subst ty'. rewrite <- Het in E3.
    pose proof (mg_eff_le mv l) as Hel.
    assert (Hsplit : collision H \/
              (bits = bits' /\ ex_tail (ex_kids H ty vs (ex_eff mv l)) = ex_tail (ex_kids H ty ts (ex_eff mv l)))).
    { destruct (ex_eff mv l) as [|e'] eqn:Ee.
      - apply mp_pad_inj in E3; [|exact E2]. right. exact E3.
      - apply mp_app_inv_len in E3; [|rewrite !mg_hash_len by assumption; reflexivity].
        destruct E3 as [Hh' Etail].
        destruct (IHn e' ltac:(lia) Hh') as [Hc|(_ & Eb & _)]; [left; exact Hc|right; auto]. }
    destruct Hsplit as [Hc|[Eb Etail]]; [left; exact Hc|right].
    split; [reflexivity|]. split; [exact Eb|].
    rewrite !ex_tail_kids in Etail.
    apply mp_app_inv_len in Etail.
    2:{ rewrite !map_map.
        rewrite (mp_concat_len (fun r => be_bytes 2 (s_depth_at H r _)) 2 vs (fun x => be_bytes_length 2 _)).
        rewrite (mp_concat_len (fun r => be_bytes 2 (s_depth_at H r _)) 2 ts (fun x => be_bytes_length 2 _)).
        rewrite Hlen. reflexivity. }
    destruct Etail as [_ Ehs].
    apply (mp_concat_inj 32) in Ehs.
    - revert Ehs. apply mg_map_eq_Forall2.
      + intros a Ha. unfold s_hash_at. f_equal.
        apply (mg_kid_eff ty mv vs a l (mg_cover_wf _ _ _ Hwv) Ha).
      + intros b Hb. unfold s_hash_at. f_equal. rewrite Het.
        apply (mg_kid_eff ty mt ts b l (mg_cover_wf _ _ _ Hwt) Hb).
    - apply Forall_map. apply Forall_forall. intros x Hx. apply mg_hash_len.
      apply (proj1 (forallb_forall _ _) Hwvs x Hx).
    - apply Forall_map. apply Forall_forall. intros x Hx. apply mg_hash_len.
      apply (proj1 (forallb_forall _ _) Hwts x Hx).
    - rewrite !map_length. exact Hlen.
  Qed.

  Definition mg_snd (v : cell) : Prop :=
    wf_exotic v = true -> forall j t, wf_exotic t = true ->
      s_hash_at H v j = s_hash_at H t j -> covers_gen H j v t \/ collision H.

  Lemma mg_children j : forall vs ts, Forall mg_snd vs ->
    forallb wf_exotic vs = true -> forallb wf_exotic ts = true ->
    Forall2 (fun a b => s_hash_at H a j = s_hash_at H b j) vs ts ->
    Forall2 (covers_gen H j) vs ts \/ collision H.
  Proof.
    intros vs ts HF Hwv Hwt HE. revert HF Hwv Hwt.
    induction HE as [|v t vs ts Hvt _ IH]; intros HF Hwv Hwt; [left; constructor|].
    cbn [forallb] in Hwv, Hwt.
    apply andb_prop in Hwv. destruct Hwv as [Hv Hwv].
    apply andb_prop in Hwt. destruct Hwt as [Ht Hwt].
    inversion HF as [|? ? Hsv HF']; subst.
    destruct (Hsv Hv j t Ht Hvt) as [Hc|Hc]; [|right; exact Hc].
    destruct (IH HF' Hwv Hwt) as [Hcs|Hcs]; [|right; exact Hcs].
    left. constructor; assumption.
  Qed.

  Theorem virtual_sound_nested : forall v j t, wf_exotic v = true -> wf_exotic t = true ->
    s_hash_at H v j = s_hash_at H t j -> covers_gen H j v t \/ collision H.
  Proof using H H_len.
    intros v j t Hwv. revert j t. revert Hwv. change (mg_snd v).
    induction v as [ty bits vs IH] using ex_cell_ind. intros Hwv j [ty' bits' ts] Hwt Hh.
    destruct (ty =? ty_pruned)%Z eqn:Hpv.
    { left. apply CG_hash; [cbn [is_prunedc]; rewrite Hpv; reflexivity|exact Hh]. }
    destruct (ty' =? ty_pruned)%Z eqn:Hpt.
    { left. apply CG_hash; [cbn [is_prunedc]; rewrite Hpt; apply orb_true_r|exact Hh]. }
    destruct (mg_node_inj ty bits vs ty' bits' ts Hwv Hwt Hpv Hpt (S j) j ltac:(lia) Hh)
      as [Hc|(Ety & Eb & HF)]; [right; exact Hc|].
    subst ty' bits'.
    destruct (ex_wf_inv _ _ _ Hwv) as (_ & _ & Hwvs & _).
    destruct (ex_wf_inv _ _ _ Hwt) as (_ & _ & Hwts & _).
    destruct (mg_children _ vs ts IH Hwvs Hwts HF) as [Hcs|Hc]; [|right; exact Hc].
    left. apply CG_node; assumption.
  Qed.

  (* end to end: a Merkle-proof cell over v that was built and accepted against the hash of t *)
  Theorem accepted_sound_nested : forall bits v t k,
    wf_exotic v = true -> depth_okb H v = true -> wf_exotic t = true ->
    build H (Cell ty_mproof bits [v]) = Ok k -> check_proof k (s_hash_at H t 0) = Ok tt ->
    covers_gen H 0 v t \/ collision H.
  Proof using H H_len.
    intros bits v t k Hwv Hdv Hwt Hb Hc.
    destruct (exotic_levels H H_len v Hwv Hdv) as (kv & Hkv & _ & Hlv).
    destruct (Hlv 0%nat ltac:(lia)) as [Hgh _]. change (N.of_nat 0) with 0 in Hgh.
    rewrite ex_build_eq in Hb. cbn [mapM'] in Hb. rewrite Hkv in Hb. cbn [bind] in Hb.
    apply mp_mk_cell_inv in Hb. destruct Hb as (_ & _ & Hrefs & _).
    apply check_proof_inv in Hc. destruct Hc as (_ & _ & r & Hr & Hh).
    unfold k_ref in Hr. rewrite Hrefs in Hr. cbn [nth_error] in Hr. injection Hr as <-.
    rewrite Hgh in Hh. injection Hh as Hh.
    apply virtual_sound_nested; assumption.
  Qed.
End SoundNested.
