(* C01 proofs: for well-formed ordinary cell trees the executable model (Model/Cell.v) computes the
   representation hash and depth of the specification (Spec/CellRepr.v). *)
From Coq Require Import NArith ZArith List Bool Lia.
From PTQ Require Import Base.Result Base.Bytes Base.Bits Model.Cell Spec.CellRepr.
Import ListNotations.
Local Open Scope N_scope.

(* ------------------------------------------------------------------ *)
(* induction principle for the nested inductive [cell]                 *)
(* ------------------------------------------------------------------ *)
Section CellInd.
  Variable P : cell -> Prop.
  Hypothesis P_cell : forall ty bits rs, Forall P rs -> P (Cell ty bits rs).

  Fixpoint cell_ind' (c : cell) : P c :=
    let 'Cell ty bits rs := c in
    P_cell ty bits rs
      ((fix go (l : list cell) : Forall P l :=
          match l with
          | [] => Forall_nil P
          | x :: xs => Forall_cons x (cell_ind' x) (go xs)
          end) rs).
End CellInd.

(* well-formed ordinary tree *)
Fixpoint wf_ord (c : cell) : bool :=
  let 'Cell ty bits rs := c in
  (ty =? ty_ordinary)%Z && (length bits <=? 1023)%nat && (length rs <=? 4)%nat && forallb wf_ord rs.

Lemma wf_ord_inv ty bits rs : wf_ord (Cell ty bits rs) = true ->
  ty = (-1)%Z /\ (length bits <= 1023)%nat /\ (length rs <= 4)%nat /\ forallb wf_ord rs = true.
Proof.
  cbn [wf_ord]. intro Hw.
  apply andb_prop in Hw. destruct Hw as [Hw Hrs].
  apply andb_prop in Hw. destruct Hw as [Hw Hlr].
  apply andb_prop in Hw. destruct Hw as [Hty Hlb].
  apply Z.eqb_eq in Hty. apply Nat.leb_le in Hlb. apply Nat.leb_le in Hlr.
  unfold ty_ordinary in Hty. auto.
Qed.

(* ------------------------------------------------------------------ *)
(* data padding                                                        *)
(* ------------------------------------------------------------------ *)
Lemma bits_to_bytes_cons8 b7 b6 b5 b4 b3 b2 b1 b0 r :
  bits_to_bytes (b7 :: b6 :: b5 :: b4 :: b3 :: b2 :: b1 :: b0 :: r)
  = of_bits [b7; b6; b5; b4; b3; b2; b1; b0] :: bits_to_bytes r.
Proof. reflexivity. Qed.

(* appending zeros that do not cross the byte boundary changes nothing *)
Lemma bits_to_bytes_zeros_short : forall l k,
  (0 < length l)%nat -> (length l + k <= 8)%nat ->
  bits_to_bytes (l ++ repeat false k) = bits_to_bytes l.
Proof.
  intros l k Hpos Hle.
  destruct l as [|a0 [|a1 [|a2 [|a3 [|a4 [|a5 [|a6 [|a7 [|a8 l]]]]]]]]];
  cbn [length] in Hpos, Hle; try lia;
  destruct k as [|[|[|[|[|[|[|[|k]]]]]]]]; try lia; reflexivity.
Qed.

Lemma bits_to_bytes_zeros : forall n l k,
  (length l < 8 * n)%nat -> (length l mod 8 <> 0)%nat -> (length l mod 8 + k <= 8)%nat ->
  bits_to_bytes (l ++ repeat false k) = bits_to_bytes l.
Proof.
  induction n as [|n IH]; intros l k Hn Hr Hk; [lia|].
  destruct (Nat.lt_ge_cases (length l) 8) as [Hlt|Hge].
  - rewrite Nat.mod_small in Hr, Hk by exact Hlt.
    apply bits_to_bytes_zeros_short; lia.
  - destruct l as [|a0 [|a1 [|a2 [|a3 [|a4 [|a5 [|a6 [|a7 l]]]]]]]]; cbn [length] in Hge; try lia.
    assert (Hm : (length (a0 :: a1 :: a2 :: a3 :: a4 :: a5 :: a6 :: a7 :: l) mod 8 = length l mod 8)%nat).
    { cbn [length]. replace (S (S (S (S (S (S (S (S (length l))))))))) with (length l + 1 * 8)%nat by lia.
      apply Nat.mod_add. lia. }
    rewrite Hm in Hr, Hk.
    cbn [app]. rewrite !bits_to_bytes_cons8. f_equal.
    apply IH; [cbn [length] in Hn; lia| exact Hr | exact Hk].
Qed.

Lemma data_bytes_pad : forall bits, data_bytes bits = bits_to_bytes (s_pad bits).
Proof.
  intro bits. unfold data_bytes, s_pad.
  destruct (Nat.eqb_spec (length bits mod 8) 0) as [He|Hne]; [reflexivity|].
  pose proof (Nat.mod_upper_bound (length bits) 8 ltac:(lia)) as Hub.
  change (bits ++ [true] ++ repeat false (7 - length bits mod 8))
    with (bits ++ ([true] ++ repeat false (7 - length bits mod 8))).
  rewrite app_assoc.
  destruct (Nat.eq_dec (length bits mod 8) 7) as [E7|N7].
  - rewrite E7. cbn [Nat.sub repeat]. rewrite app_nil_r. reflexivity.
  - symmetry.
    assert (Hm : (length (bits ++ [true]) mod 8 = length bits mod 8 + 1)%nat).
    { rewrite app_length. cbn [length].
      rewrite (Nat.div_mod (length bits) 8) at 1 by lia.
      replace (8 * (length bits / 8) + length bits mod 8 + 1)%nat
        with ((length bits mod 8 + 1) + (length bits / 8) * 8)%nat by lia.
      rewrite Nat.mod_add by lia. apply Nat.mod_small. lia. }
    apply (bits_to_bytes_zeros (S (length (bits ++ [true])))); rewrite ?Hm; lia.
Qed.

(* ------------------------------------------------------------------ *)
(* descriptors                                                         *)
(* ------------------------------------------------------------------ *)
Lemma bits_descriptor_spec : forall b, (b <= 1023)%nat -> bits_descriptor b = Ok (s_d2 b).
Proof.
  intros b Hb. unfold bits_descriptor, s_d2, to_byte1.
  pose proof (Nat.div_mod b 8 ltac:(lia)) as Hdm.
  pose proof (Nat.mod_upper_bound b 8 ltac:(lia)) as Hub.
  assert (Hq : N.of_nat ((b + 7) / 8) = N.of_nat (b / 8) + (if (b mod 8 =? 0)%nat then 0 else 1)).
  { set (q := (b / 8)%nat) in *. set (r := (b mod 8)%nat) in *.
    destruct (Nat.eqb_spec r 0) as [Hr|Hr].
    - replace (b + 7)%nat with (7 + q * 8)%nat by lia. rewrite Nat.div_add by lia.
      change (7 / 8)%nat with 0%nat. lia.
    - replace (b + 7)%nat with ((r - 1) + (q + 1) * 8)%nat by lia. rewrite Nat.div_add by lia.
      rewrite (Nat.div_small (r - 1) 8) by lia. lia. }
  rewrite Hq.
  set (q := (b / 8)%nat) in *. set (r := (b mod 8)%nat) in *.
  assert (Hlt : 2 * N.of_nat q + (if (r =? 0)%nat then 0 else 1) < 256).
  { destruct (Nat.eqb_spec r 0); lia. }
  apply N.ltb_lt in Hlt. rewrite Hlt. f_equal. lia.
Qed.

Lemma refs_descriptor_ord n : (n <= 4)%nat ->
  refs_descriptor n (is_exotic (-1)) 0 = Ok (s_d1 n false 0).
Proof.
  intro Hn. unfold refs_descriptor, s_d1, to_byte1.
  change (is_exotic (-1)) with false.
  assert (Hlt : N.of_nat n + 8 * b2n false + 32 * 0 < 256) by (cbn [b2n]; lia).
  apply N.ltb_lt in Hlt. rewrite Hlt. reflexivity.
Qed.

(* ------------------------------------------------------------------ *)
(* maxima                                                              *)
(* ------------------------------------------------------------------ *)
Lemma fold_left_max_acc : forall l a, fold_left N.max l a = N.max a (maxl l).
Proof.
  induction l as [|x l IH]; intro a; cbn [fold_left maxl fold_right].
  - lia.
  - rewrite IH. fold (maxl l). lia.
Qed.

Lemma fold_left_max_maxl l : fold_left N.max l 0 = maxl l.
Proof. rewrite fold_left_max_acc. lia. Qed.

Lemma maxl_le_Forall {A} (f : A -> N) l n :
  maxl (map f l) <= n <-> Forall (fun x => f x <= n) l.
Proof.
  induction l as [|x l IH]; cbn [map maxl fold_right].
  - split; [constructor|lia].
  - fold (maxl (map f l)). split.
    + intro Hm. constructor; [lia|apply IH; lia].
    + intro Hf. inversion Hf as [|? ? Hx Hl]; subst. apply IH in Hl. lia.
Qed.

(* ------------------------------------------------------------------ *)
(* byte-string equality and __hash__                                   *)
(* ------------------------------------------------------------------ *)
Lemma bytes_eqb_eq : forall a b, bytes_eqb a b = true <-> a = b.
Proof.
  unfold bytes_eqb.
  induction a as [|x a IH]; intros [|y b]; cbn [length combine forallb fst snd Nat.eqb andb].
  - split; reflexivity.
  - split; discriminate.
  - split; discriminate.
  - specialize (IH b). split.
    + intro Hb. apply andb_prop in Hb. destruct Hb as [Hl Hb].
      apply andb_prop in Hb. destruct Hb as [Hxy Hb].
      apply N.eqb_eq in Hxy. subst y. f_equal. apply IH. rewrite Hl, Hb. reflexivity.
    + intro E. injection E as -> E. apply IH in E. apply andb_prop in E. destruct E as [Hl Hb].
      rewrite Hl, Hb, N.eqb_refl. reflexivity.
Qed.

Lemma cell_eqb_iff : forall a b, cell_eqb a b = true <-> k_hash a = k_hash b.
Proof. intros a b. unfold cell_eqb. apply bytes_eqb_eq. Qed.

Lemma of_le_inj : forall a b, bytes_ok a -> bytes_ok b -> length a = length b ->
  of_le a = of_le b -> a = b.
Proof.
  induction a as [|x a IH]; intros [|y b] Ha Hb Hl He; cbn [length] in Hl; try discriminate.
  - reflexivity.
  - inversion Ha as [|? ? Hx Ha']; subst. inversion Hb as [|? ? Hy Hb']; subst.
    cbn [of_le] in He.
    assert (x = y /\ of_le a = of_le b) as [-> He'] by lia.
    f_equal. apply IH; auto.
Qed.

Lemma of_be_inj : forall a b, bytes_ok a -> bytes_ok b -> length a = length b ->
  of_be a = of_be b -> a = b.
Proof.
  intros a b Ha Hb Hl He.
  rewrite <- (rev_involutive a), <- (rev_involutive b) in He. rewrite !of_be_rev in He.
  apply of_le_inj in He.
  - rewrite <- (rev_involutive a), <- (rev_involutive b), He. reflexivity.
  - apply Forall_rev. exact Ha.
  - apply Forall_rev. exact Hb.
  - rewrite !rev_length. exact Hl.
Qed.

Lemma cell_pyhash_iff : forall a b,
  bytes_ok (k_hash a) -> bytes_ok (k_hash b) -> length (k_hash a) = length (k_hash b) ->
  (cell_pyhash a = cell_pyhash b <-> k_hash a = k_hash b).
Proof.
  intros a b Ha Hb Hl. unfold cell_pyhash. split.
  - apply of_be_inj; assumption.
  - intros ->. reflexivity.
Qed.

(* ------------------------------------------------------------------ *)
(* the main correspondence                                             *)
(* ------------------------------------------------------------------ *)
Section WithHash.
  Variable H : list N -> list N.
  Hypothesis H_len : forall m, length (H m) = 32%nat.

  (* the constructed object the specification predicts for an ordinary tree *)
  Fixpoint kof (c : cell) : kcell :=
    let 'Cell _ bits rs := c in
    KCell (-1) bits (map kof rs) 0 [s_hash H c] [s_depth c].

  Lemma kof_ty c : k_ty (kof c) = (-1)%Z.
  Proof. destruct c; reflexivity. Qed.
  Lemma kof_mask c : k_mask (kof c) = 0.
  Proof. destruct c; reflexivity. Qed.
  Lemma kof_hashes c : k_hashes (kof c) = [s_hash H c].
  Proof. destruct c; reflexivity. Qed.
  Lemma kof_depths c : k_depths (kof c) = [s_depth c].
  Proof. destruct c; reflexivity. Qed.
  Lemma kof_hash c : k_hash (kof c) = s_hash H c.
  Proof. unfold k_hash. rewrite kof_hashes. reflexivity. Qed.

  Lemma lm_apply_0 l : lm_apply 0 l = 0.
  Proof. unfold lm_apply. apply N.land_0_l. Qed.

  Lemma kof_get_hash c l : get_hash (kof c) l = Ok (s_hash H c).
  Proof.
    unfold get_hash. rewrite kof_ty, kof_mask, kof_hashes, lm_apply_0. reflexivity.
  Qed.

  Lemma kof_get_depth c l : get_depth (kof c) l = Ok (s_depth c).
  Proof.
    unfold get_depth. rewrite kof_ty, kof_mask, kof_depths, lm_apply_0. reflexivity.
  Qed.

  Lemma mapM_get_depth rs l :
    mapM (fun r => get_depth r l) (map kof rs) = Ok (map s_depth rs).
  Proof.
    induction rs as [|r rs IH]; [reflexivity|].
    cbn [map mapM]. rewrite kof_get_depth, IH. reflexivity.
  Qed.

  Lemma mapM_get_hash rs l :
    mapM (fun r => get_hash r l) (map kof rs) = Ok (map (s_hash H) rs).
  Proof.
    induction rs as [|r rs IH]; [reflexivity|].
    cbn [map mapM]. rewrite kof_get_hash, IH. reflexivity.
  Qed.

  Lemma mapM_to_bytes2 (rs : list cell) :
    Forall (fun r => s_depth r <= 1023) rs ->
    mapM to_bytes2 (map s_depth rs) = Ok (map (fun r => be_bytes 2 (s_depth r)) rs).
  Proof.
    induction 1 as [|r rs Hr Hrs IH]; [reflexivity|].
    cbn [map mapM]. rewrite IH. unfold to_bytes2 at 1.
    assert (Hlt : s_depth r < 65536) by lia. apply N.ltb_lt in Hlt. rewrite Hlt. reflexivity.
  Qed.

  Lemma fold_mask_kof rs : fold_left (fun m r => N.lor m (k_mask r)) (map kof rs) 0 = 0.
  Proof.
    induction rs as [|r rs IH]; [reflexivity|].
    cbn [map fold_left]. rewrite kof_mask. exact IH.
  Qed.

  Lemma s_depth_cell ty bits rs :
    s_depth (Cell ty bits rs) = match rs with [] => 0 | _ => 1 + maxl (map s_depth rs) end.
  Proof. reflexivity. Qed.

  Lemma s_hash_cell ty bits rs :
    s_hash H (Cell ty bits rs) =
    H ([s_d1 (length rs) false 0; s_d2 (length bits)] ++ bits_to_bytes (s_pad bits)
       ++ concat (map (fun r => be_bytes 2 (s_depth r)) rs) ++ concat (map (s_hash H) rs)).
  Proof. reflexivity. Qed.

  (* Cell.__init__ on already-built ordinary children *)
  Lemma mk_cell_kof ty bits rs :
    (length bits <= 1023)%nat -> (length rs <= 4)%nat ->
    Forall (fun r => s_depth r <= 1023) rs ->
    mk_cell H (-1) bits (map kof rs) =
    if 1024 <=? s_depth (Cell ty bits rs) then Err ECell else Ok (kof (Cell ty bits rs)).
  Proof.
    intros Hlb Hlr Hds.
    unfold mk_cell, resolve_mask.
    change ((-1 =? ty_ordinary)%Z) with true. cbv iota.
    rewrite fold_mask_kof. cbn [bind].
    change ((-1 =? ty_pruned)%Z) with false. cbv iota.
    change (lm_hash_index 0) with 0. change (lm_level 0) with 0.
    change (0 + 1 - (0 + 1)) with 0.
    change (seqN 0 (N.to_nat 0 + 1)) with [0].
    cbn [foldM].
    unfold hash_step.
    change (lm_significant 0 0) with true. cbn [negb].
    change (0 <? 0) with false. cbv iota.
    rewrite lm_apply_0, map_length.
    rewrite (refs_descriptor_ord _ Hlr). cbn [bind].
    rewrite (bits_descriptor_spec _ Hlb). cbn [bind].
    change (0 =? 0) with true. cbn [negb andb]. cbv iota. cbn [bind].
    change (is_merkle (-1)) with false. cbv iota.
    rewrite mapM_get_depth. cbn [bind].
    rewrite (mapM_to_bytes2 _ Hds). cbn [bind].
    rewrite fold_left_max_maxl.
    rewrite mapM_get_hash.
    rewrite s_depth_cell.
    destruct rs as [|r rs].
    - cbn [map bind]. change (1024 <=? 0) with false. cbv iota.
      cbn [kof map app]. rewrite s_depth_cell, s_hash_cell, data_bytes_pad. reflexivity.
    - remember (r :: rs) as rs' eqn:Ers.
      assert (Hm : match map kof rs' with
                   | [] => Ok 0
                   | _ :: _ => if 1024 <=? maxl (map s_depth rs') + 1 then Err ECell
                               else Ok (maxl (map s_depth rs') + 1)
                   end = if 1024 <=? 1 + maxl (map s_depth rs') then @Err N ECell
                         else Ok (1 + maxl (map s_depth rs'))).
      { rewrite Ers. cbn [map]. rewrite (N.add_comm 1). reflexivity. }
      rewrite Hm. clear Hm.
      destruct (1024 <=? 1 + maxl (map s_depth rs')) eqn:Hlim; cbn [bind]; [reflexivity|].
      cbn [kof app]. rewrite s_depth_cell, s_hash_cell, data_bytes_pad.
      rewrite Ers. reflexivity.
  Qed.

  Lemma build_eq ty bits rs :
    build H (Cell ty bits rs) = bind (mapM' (build H) rs) (fun krefs => mk_cell H ty bits krefs).
  Proof.
    change (build H (Cell ty bits rs)) with
      (bind ((fix go (l : list cell) : result (list kcell) :=
                match l with
                | [] => Ok []
                | x :: xs => bind (build H x) (fun y => bind (go xs) (fun ys => Ok (y :: ys)))
                end) rs)
            (fun krefs => mk_cell H ty bits krefs)).
    f_equal.
    induction rs as [|r rs IH]; [reflexivity|].
    cbn [mapM']. rewrite <- IH. reflexivity.
  Qed.

  Definition build_ok (c : cell) : Prop :=
    wf_ord c = true ->
    (s_depth c <= 1023 -> build H c = Ok (kof c)) /\ (1024 <= s_depth c -> build H c = Err ECell).

  Lemma mapM'_build rs :
    Forall build_ok rs -> forallb wf_ord rs = true ->
    (maxl (map s_depth rs) <= 1023 -> mapM' (build H) rs = Ok (map kof rs)) /\
    (1024 <= maxl (map s_depth rs) -> mapM' (build H) rs = Err ECell).
  Proof.
    induction 1 as [|r rs Hr Hrs IH]; intro Hwf.
    - cbn [map maxl fold_right mapM']. split; [reflexivity|lia].
    - cbn [forallb] in Hwf. apply andb_prop in Hwf. destruct Hwf as [Hwr Hwrs].
      destruct (Hr Hwr) as [Hr1 Hr2]. destruct (IH Hwrs) as [IH1 IH2].
      cbn [map maxl fold_right mapM']. fold (maxl (map s_depth rs)).
      split; intro Hm.
      + rewrite Hr1 by lia. cbn [bind]. rewrite IH1 by lia. reflexivity.
      + destruct (N.le_gt_cases 1024 (s_depth r)) as [Hbig|Hsmall].
        * rewrite Hr2 by exact Hbig. reflexivity.
        * rewrite Hr1 by lia. cbn [bind]. rewrite IH2 by lia. reflexivity.
  Qed.

  Lemma build_ord : forall c, build_ok c.
  Proof.
    induction c as [ty bits rs IH] using cell_ind'.
    intro Hwf. apply wf_ord_inv in Hwf. destruct Hwf as (Hty & Hlb & Hlr & Hwrs).
    destruct (mapM'_build rs IH Hwrs) as [Hok Herr].
    rewrite build_eq. subst ty.
    split; intro Hd.
    - assert (Hm : maxl (map s_depth rs) <= 1023).
      { rewrite s_depth_cell in Hd. destruct rs; [cbn; lia|lia]. }
      rewrite (Hok Hm). cbn [bind].
      rewrite (mk_cell_kof (-1) bits rs Hlb Hlr) by (apply maxl_le_Forall; exact Hm).
      assert (Hf : 1024 <=? s_depth (Cell (-1) bits rs) = false) by (apply N.leb_gt; lia).
      rewrite Hf. reflexivity.
    - destruct (N.le_gt_cases 1024 (maxl (map s_depth rs))) as [Hbig|Hsmall].
      + rewrite (Herr Hbig). reflexivity.
      + assert (Hm : maxl (map s_depth rs) <= 1023) by lia.
        rewrite (Hok Hm). cbn [bind].
        rewrite (mk_cell_kof (-1) bits rs Hlb Hlr) by (apply maxl_le_Forall; exact Hm).
        apply N.leb_le in Hd. rewrite Hd. reflexivity.
  Qed.

  Theorem ord_hash_depth : forall c, wf_ord c = true -> s_depth c <= 1023 ->
    exists k, build H c = Ok k /\
      k_ty k = (-1)%Z /\ k_mask k = 0 /\
      k_hashes k = [s_hash H c] /\ k_depths k = [s_depth c] /\
      k_hash k = s_hash H c /\
      (forall l, get_hash k l = Ok (s_hash H c)) /\
      (forall l, get_depth k l = Ok (s_depth c)).
  Proof using H H_len.
    intros c Hwf Hd. exists (kof c).
    split; [apply (build_ord c Hwf); exact Hd|].
    split; [apply kof_ty|]. split; [apply kof_mask|]. split; [apply kof_hashes|].
    split; [apply kof_depths|]. split; [apply kof_hash|].
    split; intro l; [apply kof_get_hash|apply kof_get_depth].
  Qed.

  Theorem ord_depth_limit : forall c, wf_ord c = true -> 1024 <= s_depth c ->
    build H c = Err ECell.
  Proof using H H_len.
    intros c Hwf Hd. apply (build_ord c Hwf). exact Hd.
  Qed.

  Lemma mapM_repr_depths rs :
    Forall (fun r => s_depth r <= 1023) rs ->
    mapM (fun r => match k_depths r with
                   | [] => Err EIndex
                   | ds => to_bytes2 (last ds 0)
                   end) (map kof rs) = Ok (map (fun r => be_bytes 2 (s_depth r)) rs).
  Proof.
    induction 1 as [|r rs Hr Hrs IH]; [reflexivity|].
    cbn [map mapM]. rewrite IH. rewrite kof_depths. cbn [last]. unfold to_bytes2.
    assert (Hlt : s_depth r < 65536) by lia. apply N.ltb_lt in Hlt. rewrite Hlt. reflexivity.
  Qed.

  Lemma map_k_hash_kof rs : map k_hash (map kof rs) = map (s_hash H) rs.
  Proof.
    rewrite map_map. apply map_ext. intro r. apply kof_hash.
  Qed.

  Theorem ord_repr_agrees : forall c k, wf_ord c = true -> build H c = Ok k ->
    calculate_representation_hash H k = Ok (k_hash k).
  Proof using H H_len.
    intros c k Hwf Hb.
    destruct (build_ord c Hwf) as [Hok Herr].
    destruct (N.le_gt_cases 1024 (s_depth c)) as [Hbig|Hsmall].
    { rewrite (Herr Hbig) in Hb. discriminate. }
    rewrite Hok in Hb by lia. injection Hb as <-.
    rewrite kof_hash.
    destruct c as [ty bits rs].
    apply wf_ord_inv in Hwf. destruct Hwf as (Hty & Hlb & Hlr & Hwrs).
    assert (Hds : Forall (fun r => s_depth r <= 1023) rs).
    { apply maxl_le_Forall. rewrite s_depth_cell in Hsmall. destruct rs; [cbn; lia|lia]. }
    unfold calculate_representation_hash, get_representation, repr_payload.
    cbn [kof k_refs k_ty k_mask k_bits k_hashes rev app].
    rewrite map_length, (refs_descriptor_ord _ Hlr). cbn [bind].
    rewrite (bits_descriptor_spec _ Hlb). cbn [bind].
    rewrite (mapM_repr_depths _ Hds). cbn [bind rmap].
    rewrite map_k_hash_kof, data_bytes_pad, s_hash_cell. reflexivity.
  Qed.
End WithHash.
