(* The explicitly recomputed representation hash (Cell.calculate_representation_hash) equals the cached hash
   (Cell.hash) for every constructed cell of a spec-valid tree: ordinary cells of any level, pruned branches,
   library cells, Merkle proofs and Merkle updates.  Purely about Model/Cell.v (the specification is only used
   for the shape of the tree, wf_exotic). *)
From Coq Require Import NArith ZArith List Bool Lia.
From PTQ Require Import Base.Result Base.Bytes Base.Bits Model.Cell Spec.CellRepr Spec.CellWf Proofs.CellExotic.
Import ListNotations.
Local Open Scope N_scope.

Ltac mask_cases m Hm :=
  let Hc := fresh "Hc" in
  assert (m = 0 \/ m = 1 \/ m = 2 \/ m = 3 \/ m = 4 \/ m = 5 \/ m = 6 \/ m = 7) as Hc by lia;
  destruct Hc as [->|[->|[->|[->|[->|[->|[->| ->]]]]]]].

Lemma ra_bind_ok {A B} (r : result A) (f : A -> result B) b :
  bind r f = Ok b -> exists a, r = Ok a /\ f a = Ok b.
Proof. destruct r as [a|e]; cbn [bind]; intro E; [exists a; auto|discriminate]. Qed.

Lemma ra_mapM_ext {A B} (f g : A -> result B) l : (forall x, In x l -> f x = g x) -> mapM f l = mapM g l.
Proof.
  induction l as [|x l IH]; intro E; [reflexivity|]. cbn [mapM].
  rewrite (E x (or_introl eq_refl)). rewrite IH; [reflexivity|]. intros y Hy. apply E. right. exact Hy.
Qed.

Lemma ra_mapM_pure {A B} (g : A -> B) l : mapM (fun x => Ok (g x)) l = Ok (map g l).
Proof. induction l as [|x l IH]; [reflexivity|]. cbn [mapM map bind]. rewrite IH. reflexivity. Qed.

Lemma ra_mapM_map {A B C} (g : A -> B) (f : B -> result C) l : mapM f (map g l) = mapM (fun x => f (g x)) l.
Proof. induction l as [|x l IH]; [reflexivity|]. cbn [mapM map]. rewrite IH. reflexivity. Qed.

(* number of significant levels among 0 .. n-1 *)
Definition nsig (m : N) (n : nat) : N := N.of_nat (length (filter (lm_significant m) (seqN 0 n))).

Lemma nsig_S m n : nsig m (S n) = nsig m n + (if lm_significant m (N.of_nat n) then 1 else 0).
Proof.
  unfold nsig. rewrite ex_seqN_S, filter_app, app_length, N.add_0_l. cbn [filter].
  destruct (lm_significant m (N.of_nat n)); cbn [length]; lia.
Qed.

Section Repr.
  Variable H : list N -> list N.

  (* everything one iteration of the hash loop can do *)
  Lemma ra_step ty bits refs m off hi hs ds li st' :
    hash_step H ty bits refs m off (hi, hs, ds) li = Ok st' ->
    (lm_significant m li = false /\ st' = (hi, hs, ds)) \/
    (lm_significant m li = true /\ hi < off /\ st' = (hi + 1, hs, ds)) \/
    (lm_significant m li = true /\ off <= hi /\
     exists d1 d2 payload rds dbytes depth rhs,
       refs_descriptor (length refs) (is_exotic ty) (lm_apply m li) = Ok d1 /\
       bits_descriptor (length bits) = Ok d2 /\
       (if hi =? off then
          (if negb (li =? 0) && negb (ty =? ty_pruned)%Z then Err ECell else Ok (data_bytes bits))
        else
          (if (li =? 0) || (ty =? ty_pruned)%Z then Err ECell else nth_res hs (hi - off - 1))) = Ok payload /\
       mapM (fun r => get_depth r (if is_merkle ty then li + 1 else li)) refs = Ok rds /\
       mapM to_bytes2 rds = Ok dbytes /\
       mapM (fun r => get_hash r (if is_merkle ty then li + 1 else li)) refs = Ok rhs /\
       st' = (hi + 1, hs ++ [H ([d1; d2] ++ payload ++ concat dbytes ++ concat rhs)], ds ++ [depth])).
  Proof.
    unfold hash_step. destruct (lm_significant m li) eqn:Hs; cbn [negb].
    2:{ intro E. injection E as <-. left. auto. }
    destruct (hi <? off) eqn:Hlt.
    { intro E. injection E as <-. right. left. apply N.ltb_lt in Hlt. auto. }
    apply N.ltb_ge in Hlt. intro E. right. right. split; [reflexivity|]. split; [exact Hlt|].
    apply ra_bind_ok in E. destruct E as (d1 & Hd1 & E).
    apply ra_bind_ok in E. destruct E as (d2 & Hd2 & E).
    apply ra_bind_ok in E. destruct E as (payload & Hp & E).
    apply ra_bind_ok in E. destruct E as (rds & Hrds & E).
    apply ra_bind_ok in E. destruct E as (dbytes & Hdb & E).
    apply ra_bind_ok in E. destruct E as (depth & Hdepth & E).
    apply ra_bind_ok in E. destruct E as (rhs & Hrhs & E).
    injection E as <-.
    exists d1, d2, payload, rds, dbytes, depth, rhs. repeat split; assumption.
  Qed.

  Definition linv (m off : N) (n : nat) (st : hstate) : Prop :=
    let '(hi, hs, ds) := st in
    hi = nsig m n /\ N.of_nat (length hs) = hi - off /\ length ds = length hs.

  Lemma ra_loop_inv ty bits refs m off : forall n st,
    foldM (hash_step H ty bits refs m off) (seqN 0 n) (0, [], []) = Ok st -> linv m off n st.
  Proof.
    induction n as [|n IH]; intros st E.
    - cbn [seqN foldM] in E. injection E as <-. cbn. repeat split; reflexivity.
    - rewrite ex_seqN_S, ex_foldM_app in E. apply ra_bind_ok in E. destruct E as (st0 & E0 & E1).
      specialize (IH st0 E0). destruct st0 as [[hi hs] ds]. destruct IH as (Ihi & Ihs & Ids).
      cbn [foldM] in E1. apply ra_bind_ok in E1. destruct E1 as (st1 & E1 & E2). injection E2 as <-.
      rewrite N.add_0_l in E1. apply ra_step in E1.
      unfold linv. rewrite nsig_S.
      destruct E1 as [(Hs & ->)|[(Hs & Hlt & ->)|(Hs & Hge & d1 & d2 & pl & rds & db & dp & rhs & _ & _ & _ & _ & _ & _ & ->)]];
        rewrite Hs.
      + repeat split; [lia|exact Ihs|exact Ids].
      + repeat split; [lia|lia|exact Ids].
      + rewrite !app_length. cbn [length]. repeat split; lia.
  Qed.

  (* ---- finite facts about level masks 0..7 ---- *)
  Lemma ra_sig_level m : m <= 7 -> lm_significant m (lm_level m) = true.
  Proof. intro Hm. mask_cases m Hm; reflexivity. Qed.
  Lemma ra_apply_ge m L : m <= 7 -> lm_level m <= L -> L <= 4 -> lm_apply m L = m.
  Proof.
    intros Hm HL H4.
    assert (L = 0 \/ L = 1 \/ L = 2 \/ L = 3 \/ L = 4) as Hc by lia.
    mask_cases m Hm; destruct Hc as [->|[->|[->|[->| ->]]]]; try reflexivity; vm_compute in HL; exfalso; apply HL; reflexivity.
  Qed.
  Lemma ra_level_le3 m : m <= 7 -> lm_level m <= 3.
  Proof. intro Hm. mask_cases m Hm; vm_compute; discriminate. Qed.
  Lemma ra_nsig_level m : m <= 7 -> nsig m (N.to_nat (lm_level m)) = popcount m.
  Proof. intro Hm. mask_cases m Hm; reflexivity. Qed.

  Lemma ra_refs_descriptor_mask n e m d : refs_descriptor n e m = Ok d -> m <= 7.
  Proof.
    unfold refs_descriptor, to_byte1. destruct (N.ltb_spec (N.of_nat n + 8 * b2n e + 32 * m) 256) as [Hlt|Hge]; [|discriminate].
    intros _. lia.
  Qed.

  (* what a parent needs to know about a constructed child *)
  Definition top_ok (k : kcell) : Prop :=
    k_mask k <= 7 /\ k_depths k <> [] /\
    forall L, lm_level (k_mask k) <= L -> L <= 4 ->
      get_hash k L = Ok (k_hash k) /\ get_depth k L = Ok (last (k_depths k) 0).

  Lemma ra_last_payload {A} (hs0 : list A) (h dflt : A) (p : A) :
    nth_error hs0 (length hs0 - 1) = Some p -> hs0 <> [] ->
    match rev (hs0 ++ [h]) with _ :: prev :: _ => prev | _ => dflt end = p.
  Proof.
    destruct hs0 as [|x l] using rev_ind; [congruence|]. intros Hn _.
    rewrite app_length in Hn. cbn [length] in Hn.
    replace (length l + 1 - 1)%nat with (length l) in Hn by lia.
    rewrite nth_error_app2, Nat.sub_diag in Hn by lia. cbn in Hn. injection Hn as <-.
    rewrite !rev_app_distr. reflexivity.
  Qed.

  Theorem ra_mk_cell ty bits refs k :
    mk_cell H ty bits refs = Ok k ->
    Forall top_ok refs ->
    (forall r, In r refs ->
       lm_level (k_mask r) <= (if is_merkle ty then lm_level (k_mask k) + 1 else lm_level (k_mask k))) ->
    calculate_representation_hash H k = Ok (k_hash k) /\ top_ok k.
  Proof.
    intros Hmk Hkids Hlev.
    unfold mk_cell in Hmk. apply ra_bind_ok in Hmk. destruct Hmk as (m & Hres & Hmk). cbv zeta in Hmk.
    apply ra_bind_ok in Hmk. destruct Hmk as (st & Hloop & Hmk). destruct st as [[hiF hsF] dsF].
    apply ra_bind_ok in Hmk. destruct Hmk as (d1' & Hd1' & Hmk).
    apply ra_bind_ok in Hmk. destruct Hmk as (d2' & Hd2' & Hmk).
    pose proof (ra_refs_descriptor_mask _ _ _ _ Hd1') as Hm7.
    assert (HhsF : hsF <> [] /\ k = KCell ty bits refs m hsF dsF).
    { destruct hsF; [discriminate|]. injection Hmk as <-. split; [discriminate|reflexivity]. }
    destruct HhsF as [HhsF Hk].
    clear Hmk. subst k. cbn [k_mask] in Hlev.
    set (off := lm_hash_index m + 1 - (if (ty =? ty_pruned)%Z then 1 else lm_hash_index m + 1)) in *.
    (* split off the last iteration *)
    replace (N.to_nat (lm_level m) + 1)%nat with (S (N.to_nat (lm_level m))) in Hloop by lia.
    rewrite ex_seqN_S, ex_foldM_app in Hloop. apply ra_bind_ok in Hloop. destruct Hloop as (st0 & Hpre & Hlast).
    pose proof (ra_loop_inv ty bits refs m off _ _ Hpre) as Hinv. destruct st0 as [[hi hs0] ds0].
    destruct Hinv as (Ihi & Ihs & Ids). rewrite (ra_nsig_level m Hm7) in Ihi.
    cbn [foldM] in Hlast. apply ra_bind_ok in Hlast. destruct Hlast as (st1 & Hstep & E). injection E as ->.
    rewrite N.add_0_l, N2Nat.id in Hstep. apply ra_step in Hstep.
    rewrite (ra_sig_level m Hm7) in Hstep.
    destruct Hstep as [(Hs & _)|[(_ & Hlt & E)|(_ & Hge & d1 & d2 & pl & rds & db & dp & rhs & Hd1 & Hd2 & Hpl & Hrds & Hdb & Hrhs & E)]];
      [discriminate| |].
    { injection E as _ EhF EdF. subst hsF dsF. exfalso. destruct hs0; [congruence|]. cbn [length] in Ihs. lia. }
    injection E as _ EhF EdF. subst hsF dsF.
    rewrite (ra_apply_ge m (lm_level m) Hm7 (N.le_refl _) ltac:(pose proof (ra_level_le3 m Hm7); lia)) in Hd1.
    set (lvl := if is_merkle ty then lm_level m + 1 else lm_level m) in *.
    assert (Hlvl4 : lvl <= 4) by (pose proof (ra_level_le3 m Hm7); unfold lvl; destruct (is_merkle ty); lia).
    (* children: depths and hashes at lvl are the top ones *)
    assert (Hrds' : rds = map (fun r => last (k_depths r) 0) refs).
    { rewrite (ra_mapM_ext _ (fun r => Ok (last (k_depths r) 0))) in Hrds.
      - rewrite ra_mapM_pure in Hrds. injection Hrds as <-. reflexivity.
      - intros r Hr. rewrite Forall_forall in Hkids. destruct (Hkids r Hr) as (_ & _ & Ht).
        apply Ht; [apply Hlev; exact Hr|exact Hlvl4]. }
    assert (Hrhs' : rhs = map k_hash refs).
    { rewrite (ra_mapM_ext _ (fun r => Ok (k_hash r))) in Hrhs.
      - rewrite ra_mapM_pure in Hrhs. injection Hrhs as <-. reflexivity.
      - intros r Hr. rewrite Forall_forall in Hkids. destruct (Hkids r Hr) as (_ & _ & Ht).
        apply Ht; [apply Hlev; exact Hr|exact Hlvl4]. }
    subst rds rhs.
    (* the payload of the last hash is what get_representation takes *)
    assert (Hpay : forall h, repr_payload (KCell ty bits refs m (hs0 ++ [h]) (ds0 ++ [dp])) = pl).
    { intro h. unfold repr_payload. cbn [k_hashes k_bits].
      destruct hs0 as [|x0 l0] eqn:Ehs0.
      - cbn [length] in Ihs. assert (Hho : hi = off) by lia. rewrite Hho, N.eqb_refl in Hpl.
        cbn [app rev]. destruct (negb (lm_level m =? 0) && negb (ty =? ty_pruned)%Z); [discriminate|]. congruence.
      - rewrite <- Ehs0 in *. assert (Hne : hs0 <> []) by (rewrite Ehs0; discriminate).
        assert (hi =? off = false) as Hneq.
        { apply N.eqb_neq. intro Hho. rewrite Ehs0 in Ihs. cbn [length] in Ihs. lia. }
        rewrite Hneq in Hpl. destruct ((lm_level m =? 0) || (ty =? ty_pruned)%Z); [discriminate|].
        unfold nth_res in Hpl. replace (N.to_nat (hi - off - 1)) with (length hs0 - 1)%nat in Hpl by lia.
        destruct (nth_error hs0 (length hs0 - 1)) as [p|] eqn:En; [|discriminate]. injection Hpl as <-.
        apply ra_last_payload; assumption. }
    split.
    - unfold calculate_representation_hash, get_representation. cbn [k_refs k_ty k_mask k_bits].
      rewrite Hd1. cbn [bind]. rewrite Hd2. cbn [bind].
      rewrite (ra_mapM_ext _ (fun r => to_bytes2 (last (k_depths r) 0))).
      2:{ intros r Hr. rewrite Forall_forall in Hkids. destruct (Hkids r Hr) as (_ & Hne & _).
          destruct (k_depths r); [congruence|reflexivity]. }
      rewrite <- (ra_mapM_map (fun r => last (k_depths r) 0) to_bytes2), Hdb. cbn [bind rmap].
      rewrite Hpay. unfold k_hash. cbn [k_hashes]. rewrite last_last. reflexivity.
    - split; [exact Hm7|]. split; [cbn [k_depths]; intro E; apply app_eq_nil in E; destruct E; discriminate|].
      intros L HL HL4. cbn [k_mask] in HL.
      unfold get_hash, get_depth, k_hash. cbn [k_mask k_ty k_hashes k_depths k_bits].
      rewrite (ra_apply_ge m L Hm7 HL HL4). rewrite !last_last.
      unfold lm_hash_index in *. 
      destruct (ty =? ty_pruned)%Z eqn:Ety.
      + rewrite N.eqb_refl. cbn [negb]. unfold nth_res.
        assert (hs0 = []) by (destruct hs0; [reflexivity|cbn [length] in Ihs; unfold off in Ihs; lia]).
        assert (ds0 = []) by (destruct ds0; [reflexivity|subst hs0; discriminate]).
        subst hs0 ds0. split; reflexivity.
      + unfold nth_res. unfold off in Ihs.
        replace (N.to_nat (popcount m)) with (length hs0) by lia.
        split.
        * rewrite nth_error_app2, Nat.sub_diag by lia. reflexivity.
        * rewrite <- Ids. rewrite nth_error_app2, Nat.sub_diag by lia. reflexivity.
  Qed.
End Repr.

(* ---- the whole tree ---- *)
Lemma ra_size_lor_l a b : N.size a <= N.size (N.lor a b).
Proof.
  destruct (N.eq_dec a 0) as [->|Ha]; [cbn; lia|].
  assert (Hl : N.lor a b <> 0) by (intro E; apply N.lor_eq_0_iff in E; tauto).
  rewrite !N.size_log2 by assumption. rewrite N.log2_lor. lia.
Qed.
Lemma ra_size_lor_r a b : N.size b <= N.size (N.lor a b).
Proof. rewrite N.lor_comm. apply ra_size_lor_l. Qed.

Lemma ra_fold_lor_size : forall (refs : list kcell) acc,
  N.size acc <= N.size (fold_left (fun m r => N.lor m (k_mask r)) refs acc) /\
  forall r, In r refs -> N.size (k_mask r) <= N.size (fold_left (fun m r => N.lor m (k_mask r)) refs acc).
Proof.
  induction refs as [|x refs IH]; intro acc; cbn [fold_left].
  - split; [lia|intros r []].
  - destruct (IH (N.lor acc (k_mask x))) as [Ha Hr]. split.
    + pose proof (ra_size_lor_l acc (k_mask x)). lia.
    + intros r [Hx|Hin]; [subst x; pose proof (ra_size_lor_r acc (k_mask r)); lia|apply Hr; exact Hin].
Qed.

Lemma ra_mk_cell_mask H ty bits refs k : mk_cell H ty bits refs = Ok k -> resolve_mask ty bits refs = Ok (k_mask k).
Proof.
  unfold mk_cell. intro E. apply ra_bind_ok in E. destruct E as (m & Hres & E). cbv zeta in E.
  apply ra_bind_ok in E. destruct E as ([[hi hs] ds] & _ & E).
  apply ra_bind_ok in E. destruct E as (d1 & _ & E).
  apply ra_bind_ok in E. destruct E as (d2 & _ & E).
  destruct hs; [discriminate|]. injection E as <-. exact Hres.
Qed.

Section Tree.
  Variable H : list N -> list N.

  Definition ra_P (c : cell) : Prop :=
    forall k, wf_exotic c = true -> build H c = Ok k ->
      top_ok k /\ calculate_representation_hash H k = Ok (k_hash k).

  Lemma ra_mapM'_build rs : Forall ra_P rs -> forallb wf_exotic rs = true ->
    forall krefs, mapM' (build H) rs = Ok krefs -> Forall top_ok krefs /\ length krefs = length rs.
  Proof.
    induction 1 as [|r rs Hr Hrs IH]; intros Hwf krefs E.
    - cbn [mapM'] in E. injection E as <-. split; [constructor|reflexivity].
    - cbn [forallb] in Hwf. apply andb_prop in Hwf. destruct Hwf as [Hwr Hwrs].
      cbn [mapM'] in E. apply ra_bind_ok in E. destruct E as (k & Hk & E).
      apply ra_bind_ok in E. destruct E as (ks & Hks & E). injection E as <-.
      destruct (IH Hwrs ks Hks) as [Hf Hl]. split; [|cbn [length]; rewrite Hl; reflexivity].
      constructor; [apply (Hr k Hwr Hk)|exact Hf].
  Qed.

  Lemma ra_build_all : forall c, ra_P c.
  Proof.
    induction c as [ty bits rs IH] using ex_cell_ind.
    intros k Hwf Hb.
    destruct (ex_wf_inv _ _ _ Hwf) as (Hlb & Hlr & Hwrs & Hm & Hty).
    rewrite ex_build_eq in Hb. apply ra_bind_ok in Hb. destruct Hb as (krefs & Hks & Hmk).
    destruct (ra_mapM'_build rs IH Hwrs krefs Hks) as [Hkids Hlen].
    pose proof (ra_mk_cell_mask _ _ _ _ _ Hmk) as Hres.
    assert (Hgoal : calculate_representation_hash H k = Ok (k_hash k) /\ top_ok k).
    { apply (ra_mk_cell H ty bits krefs k Hmk Hkids).
      destruct Hty as [E|[(E & Ers & _)|[(E & Ers)|[(E & Ers)|(E & Ers)]]]]; subst ty.
      - (* ordinary *)
        unfold resolve_mask in Hres. change (ty_ordinary =? ty_ordinary)%Z with true in Hres. cbv iota in Hres.
        injection Hres as Hres. change (is_merkle ty_ordinary) with false. cbv iota.
        intros r Hr. rewrite <- Hres. unfold lm_level, bit_length. apply (ra_fold_lor_size krefs 0). exact Hr.
      - subst rs. destruct krefs; [|discriminate]. intros r [].
      - subst rs. destruct krefs; [|discriminate]. intros r [].
      - (* Merkle proof *)
        destruct krefs as [|r0 [|r1 krefs]]; try (cbn [length] in Hlen; lia).
        change (resolve_mask ty_mproof bits [r0]) with (@Ok N (N.shiftr (k_mask r0) 1)) in Hres.
        injection Hres as Hres. change (is_merkle ty_mproof) with true. cbv iota.
        intros r [<-|[]]. rewrite <- Hres.
        inversion Hkids as [|? ? (Hm0 & _) _]; subst.
        set (m0 := k_mask r0) in *. clearbody m0. mask_cases m0 Hm0; vm_compute; discriminate.
      - (* Merkle update *)
        destruct krefs as [|r0 [|r1 [|r2 krefs]]]; try (cbn [length] in Hlen; lia).
        change (resolve_mask ty_mupdate bits [r0; r1])
          with (@Ok N (N.shiftr (N.lor (k_mask r0) (k_mask r1)) 1)) in Hres.
        injection Hres as Hres. change (is_merkle ty_mupdate) with true. cbv iota.
        inversion Hkids as [|? ? (Hm0 & _) Hk1]; subst. inversion Hk1 as [|? ? (Hm1 & _) _]; subst.
        intros r [<-|[<-|[]]]; rewrite <- Hres;
          set (m0 := k_mask r0) in *; set (m1 := k_mask r1) in *; clearbody m0 m1;
          mask_cases m0 Hm0; mask_cases m1 Hm1; vm_compute; discriminate. }
    destruct Hgoal as [Hr Ht]. split; assumption.
  Qed.

  (* the explicitly recomputed representation hash of every constructed cell of a spec-valid tree - whatever its type
     and level - is its cached hash *)
  Theorem repr_agrees_all : forall c k, wf_exotic c = true -> build H c = Ok k ->
    calculate_representation_hash H k = Ok (k_hash k).
  Proof. intros c k Hwf Hb. apply (ra_build_all c k Hwf Hb). Qed.
  (* a constructed cell asked for its hash / depth at or above its own level answers with its representation hash and
     its top depth (Cell.get_hash / get_depth with lvl >= level; what a parent relies on when it hashes its children) *)
  Theorem top_level_all : forall c k L, wf_exotic c = true -> build H c = Ok k ->
    lm_level (k_mask k) <= L -> L <= 4 ->
    k_mask k <= 7 /\ get_hash k L = Ok (k_hash k) /\ get_depth k L = Ok (last (k_depths k) 0).
  Proof.
    intros c k L Hwf Hb HL H4. destruct (ra_build_all c k Hwf Hb) as [(Hm & _ & Ht) _].
    split; [exact Hm|]. apply Ht; assumption.
  Qed.
End Tree.
